------------------------------- MODULE Pics -------------------------------
(***************************************************************************)
(* Pure (variable-free) specification of the picture subsystem             *)
(* (property C10: every picture shows exactly the image bytes it was given, *)
(* at the requested size).                                                  *)
(*                                                                         *)
(* Abstract state s (record):                                               *)
(*   origin  "new" | "reopen" | "foreign" | "render" | "rstring"            *)
(*   body    Seq(el) - the picture-relevant skeleton of the main part       *)
(*             [k |-> "pic", embed, cx, cy, tx, ty, new, szk]  a picture     *)
(*             [k |-> "ph",  slot, lay]      a paragraph with {{#image sN}}  *)
(*             [k |-> "tbl", cols, cells]    a table; cells = row-major Seq  *)
(*                                           of Seq(pic | ph | txt)          *)
(*             [k |-> "txt"]                 anything else (ignored)         *)
(*           embed = relationship id; cx, cy = extent in EMU; tx, ty =       *)
(*           tolerance the sizing rule leaves (0 for observed pictures);     *)
(*           new = created by the step being judged; szk = its size class    *)
(*   media   set of [name, tok]   media parts: part name -> image token      *)
(*   rels    Seq([id, kind, tgt]) relationships of the main part, tgt =      *)
(*           resolved part name                                              *)
(*   ctr     image counter of the reference allocator (-1: unknown, the      *)
(*           judge then allocates synthetic fresh names)                     *)
(*   ninfo   number of ImageInfo handles returned so far (capped)            *)
(*   loose   tokens whose media part nothing obliges the library to keep:    *)
(*           pictures the caller removed, unreferenced media of a foreign    *)
(*           package                                                         *)
(*   files   set of [path, tok]: the caller's image files (the environment): *)
(*           what each named path holds now. A picture added from a path     *)
(*           shows what the file held WHEN THE CALL WAS MADE; writing or      *)
(*           removing a file never changes a document                         *)
(* Image tokens are names of entries of the table Images below; the token    *)
(* identifies the exact bytes. An operation is a record [op |-> name, ...].  *)
(***************************************************************************)
EXTENDS Integers, Sequences, FiniteSets, TLC

\* ---- image tokens (format, pixel size, encoded length); bytes are a function of the entry ----
\* len = exact length of the image file in bytes; 0: whatever the encoder gives for so few pixels (< 1 KiB)
ImgL(t, f, pw, ph, len) == [t |-> t, f |-> f, pw |-> pw, ph |-> ph, len |-> len]
Img(t, f, pw, ph) == ImgL(t, f, pw, ph, 0)
\* the ladder of encoded lengths: one byte more than 2^16 ... 2^25 (scans, photographs), the three formats in turn
LargeImages == {ImgL("L16", "gif", 6, 4, 2^16 + 1),  ImgL("L20", "jpeg", 8, 6, 2^20 + 1),
                ImgL("L22", "png", 5, 9, 2^22 + 1),  ImgL("L23", "gif", 7, 7, 2^23 + 1),
                ImgL("L24", "png", 12, 8, 2^24 + 1), ImgL("L25", "jpeg", 10, 10, 2^25 + 1)}
Images == LargeImages \cup
          {Img("P1", "png", 3, 2),  Img("P2", "png", 2, 2),  Img("P3", "png", 7, 3), Img("P4", "png", 100, 50),
           Img("J1", "jpeg", 4, 3), Img("J2", "jpeg", 1, 5), Img("J3", "jpeg", 3, 3),
           Img("G1", "gif", 5, 5),  Img("G2", "gif", 2, 7),  Img("G3", "gif", 9, 3),
           \* twins: same format, same pixel size and same encoded LENGTH as P1 / J2 / G1, different bytes
           \* (whatever cheap fingerprint an implementation may keep of an image, only the bytes identify it)
           Img("P1b", "png", 3, 2), Img("J2b", "jpeg", 1, 5), Img("G1b", "gif", 5, 5)}
ImgOf(t) == CHOOSE i \in Images : i.t = t
TokNames == {i.t : i \in Images}
LenAtMost(n) == {i.t : i \in {x \in Images : x.len <= n}}

\* ---- size configurations: millimetres in 1/100 mm so that TLC stays in the integers ----
\* cfg: "nil" no configuration at all, "nosize" configuration without size, "size" a size record
Sz(n, cfg, w, h, keep) == [n |-> n, cfg |-> cfg, w |-> w, h |-> h, keep |-> keep]
Sizes == {Sz("nil", "nil", 0, 0, FALSE),       Sz("nosize", "nosize", 0, 0, FALSE),
          Sz("wh", "size", 1000, 500, FALSE),    Sz("whkeep", "size", 700, 2100, TRUE),
          Sz("whfrac", "size", 3330, 1250, FALSE),
          Sz("wkeep", "size", 1000, 0, TRUE),    Sz("wkeepfrac", "size", 3330, 0, TRUE),
          Sz("hkeep", "size", 0, 1000, TRUE),    Sz("hkeepfrac", "size", 0, 1999, TRUE),
          Sz("wonly", "size", 1000, 0, FALSE),   Sz("honly", "size", 0, 1000, FALSE),
          Sz("zero", "size", 0, 0, FALSE),       Sz("zerokeep", "size", 0, 0, TRUE),
          Sz("huge", "size", 1000000, 100, FALSE), Sz("tiny", "size", 25, 0, TRUE)}
SzOf(n) == CHOOSE z \in Sizes : z.n = n
SizeNames == {z.n : z \in Sizes}
\* the convenience cell calls take one width and always keep the aspect ratio
ConvSizeNames == {z.n : z \in {y \in Sizes : y.cfg = "size" /\ y.h = 0 /\ y.keep}}

\* ---- the sizing rules of the property, in integer EMU arithmetic ----------
\* 1 mm = 36000 EMU, so 1/100 mm = 360 EMU; 1 pixel at 96 dpi = 9525 EMU
Emu(c) == c * 360
PxEmu(p) == p * 9525
\* a decimal number of millimetres that is not a multiple of 1/4 mm has no exact binary
\* representation: the conversion may be off by one EMU
FracTol(c) == IF c % 25 = 0 THEN 0 ELSE 1
\* the derived dimension involves a division: one EMU of rounding freedom, plus what an
\* inexact given dimension contributes
DerivTol(c, num, den) == 1 + FracTol(c) * ((num \div den) + 1)
Extent(sz, pw, ph) ==
  IF sz.cfg = "size" /\ sz.w > 0 /\ sz.h > 0
    THEN [cx |-> Emu(sz.w), cy |-> Emu(sz.h), tx |-> FracTol(sz.w), ty |-> FracTol(sz.h)]
  ELSE IF sz.cfg = "size" /\ sz.w > 0 /\ sz.keep
    THEN [cx |-> Emu(sz.w), cy |-> (Emu(sz.w) * ph) \div pw, tx |-> FracTol(sz.w), ty |-> DerivTol(sz.w, ph, pw)]
  ELSE IF sz.cfg = "size" /\ sz.h > 0 /\ sz.keep
    THEN [cx |-> (Emu(sz.h) * pw) \div ph, cy |-> Emu(sz.h), tx |-> DerivTol(sz.h, pw, ph), ty |-> FracTol(sz.h)]
  ELSE [cx |-> PxEmu(pw), cy |-> PxEmu(ph), tx |-> 0, ty |-> 0]

\* ---- elements -----------------------------------------------------------
Pic(embed, e, szk) == [k |-> "pic", embed |-> embed, cx |-> e.cx, cy |-> e.cy, tx |-> e.tx, ty |-> e.ty,
                       new |-> TRUE, szk |-> szk]
Ph(slot, lay) == [k |-> "ph", slot |-> slot, lay |-> lay]
Txt == [k |-> "txt"]
TblCols == 2
TblRows == 2
EmptyTbl == [k |-> "tbl", cols |-> TblCols, cells |-> [i \in 1..(TblCols * TblRows) |-> <<>>]]
\* (the tolerance stays with a picture until it has been observed: the judge replaces observed pictures by exact ones)
Old(p) == IF p.k = "pic" THEN [p EXCEPT !.new = FALSE, !.szk = ""] ELSE p
OldSeq(q) == [i \in 1..Len(q) |-> Old(q[i])]
OldEl(e) == IF e.k = "tbl" THEN [e EXCEPT !.cells = [c \in 1..Len(e.cells) |-> OldSeq(e.cells[c])]] ELSE Old(e)
OldBody(b) == [i \in 1..Len(b) |-> OldEl(b[i])]

StylesRel == [id |-> "rId1", kind |-> "styles", tgt |-> "word/styles.xml"]
InitSt == [origin |-> "new", body |-> <<>>, media |-> {}, rels |-> <<StylesRel>>, ctr |-> 0, ninfo |-> 0, loose |-> {},
           files |-> {}]

\* ---- the caller's image files ------------------------------------------------
\* a path slot stands for one file path (the executor gives each slot a fixed name and spells the path in
\* several equivalent ways); "" = a file of its own that nothing else names, or no file at all
PathSlots == {"pa", "pb"}
HasFile(s, p) == \E x \in s.files : x.path = p
FileTok(s, p) == (CHOOSE x \in s.files : x.path = p).tok
WriteFile(s, p, t) == [s EXCEPT !.files = {x \in @ : x.path # p} \cup {[path |-> p, tok |-> t]}]
RemoveFile(s, p) == [s EXCEPT !.files = {x \in @ : x.path # p}]
\* the image an addition is given: the one the call carries, or what the file it names holds now
Given(s, op) == IF op.op = "AddResource" THEN op.img
                ELSE IF op.path # "" /\ HasFile(s, op.path) THEN ImgOf(FileTok(s, op.path)) ELSE op.img
FilesFunctional(s) == \A x, y \in s.files : x.path = y.path => x.tok = y.tok

\* ---- allocation (the implementation's free choices; only freshness matters) ----
RelIds(s) == {s.rels[i].id : i \in 1..Len(s.rels)}
MediaNames(s) == {m.name : m \in s.media}
FreshRel(s) ==
  IF s.ctr < 0 THEN "~r" \o ToString(Len(s.rels))
  ELSE LET lo == Len(s.rels) + 1
           n  == CHOOSE x \in lo..(lo + Len(s.rels)) :
                   /\ ("rId" \o ToString(x)) \notin RelIds(s)
                   /\ \A y \in lo..(x - 1) : ("rId" \o ToString(y)) \in RelIds(s)
       IN "rId" \o ToString(n)
FreshName(s, f) ==
  IF s.ctr < 0 THEN "~m" \o ToString(Cardinality(s.media) + Len(s.rels))
  ELSE "word/media/image" \o ToString(s.ctr) \o "." \o f
\* store the image as a media part with an image relationship; the id used is FreshRel(s)
Store(s, img) ==
  [s EXCEPT !.media = @ \cup {[name |-> FreshName(s, img.f), tok |-> img.t]},
            !.rels = Append(@, [id |-> FreshRel(s), kind |-> "image", tgt |-> FreshName(s, img.f)]),
            !.ctr = IF @ < 0 THEN @ ELSE @ + 1,
            !.ninfo = IF @ < 2 THEN @ + 1 ELSE 2]

\* ---- resolution: picture -> relationship -> part -> bytes --------------------
Resolve(s, embed) ==
  LET R == {i \in 1..Len(s.rels) : s.rels[i].id = embed}
  IN IF R = {} THEN "!no-relationship"
     ELSE IF Cardinality(R) > 1 THEN "!ambiguous-relationship"
     ELSE LET r == s.rels[CHOOSE i \in R : TRUE]
              M == {m \in s.media : m.name = r.tgt}
          IN IF r.kind # "image" THEN "!not-an-image-relationship"
             ELSE IF M = {} THEN "!no-media-part"
             ELSE IF Cardinality(M) > 1 THEN "!ambiguous-media-part"
             ELSE (CHOOSE m \in M : TRUE).tok
Failed(tok) == tok \in {"!no-relationship", "!ambiguous-relationship", "!not-an-image-relationship",
                        "!no-media-part", "!ambiguous-media-part", "?"}

\* ---- the view the property speaks about: pictures (and open placeholders) in document order ----
\* entry = [w |-> "body"|"cell", t |-> table ordinal, c |-> cell index, k |-> "pic"|"ph", tok, cx, cy, tx, ty, new, szk]
ItemView(s, x, w, t, c) ==
  IF x.k = "pic" THEN <<[w |-> w, t |-> t, c |-> c, k |-> "pic", tok |-> Resolve(s, x.embed),
                         cx |-> x.cx, cy |-> x.cy, tx |-> x.tx, ty |-> x.ty, new |-> x.new, szk |-> x.szk]>>
  ELSE IF x.k = "ph" THEN <<[w |-> w, t |-> t, c |-> c, k |-> "ph", tok |-> "placeholder",
                             cx |-> x.slot, cy |-> 0, tx |-> 0, ty |-> 0, new |-> FALSE, szk |-> x.lay]>>
  ELSE <<>>
RECURSIVE SeqView(_, _, _, _, _, _)
SeqView(s, q, i, w, t, c) ==
  IF i > Len(q) THEN <<>> ELSE ItemView(s, q[i], w, t, c) \o SeqView(s, q, i + 1, w, t, c)
RECURSIVE CellsView(_, _, _, _)
CellsView(s, cells, c, t) ==
  IF c > Len(cells) THEN <<>> ELSE SeqView(s, cells[c], 1, "cell", t, c) \o CellsView(s, cells, c + 1, t)
NTablesUpTo(b, i) == Cardinality({j \in 1..i : b[j].k = "tbl"})
RECURSIVE BodyView(_, _)
BodyView(s, i) ==
  IF i > Len(s.body) THEN <<>>
  ELSE (IF s.body[i].k = "tbl" THEN CellsView(s, s.body[i].cells, 1, NTablesUpTo(s.body, i))
        ELSE ItemView(s, s.body[i], "body", 0, 0)) \o BodyView(s, i + 1)
View(s) == BodyView(s, 1)
NTables(s) == NTablesUpTo(s.body, Len(s.body))
TablePos(s, t) == CHOOSE i \in 1..Len(s.body) : s.body[i].k = "tbl" /\ NTablesUpTo(s.body, i) = t
CellIdx(op) == op.r * TblCols + op.c + 1

\* ---- placeholders of a document, as paths <<i>> (body) or <<i, c, j>> (cell c of table at i) ----
PhPaths(s) ==
     {<<i>> : i \in {j \in 1..Len(s.body) : s.body[j].k = "ph"}}
  \cup UNION {UNION {{<<i, c, j>> : j \in {x \in 1..Len(s.body[i].cells[c]) : s.body[i].cells[c][x].k = "ph"}}
                     : c \in 1..Len(s.body[i].cells)}
              : i \in {j \in 1..Len(s.body) : s.body[j].k = "tbl"}}
PathLess(p, q) ==
  \/ p[1] < q[1]
  \/ p[1] = q[1] /\ Len(p) = 3 /\ Len(q) = 3 /\ (p[2] < q[2] \/ (p[2] = q[2] /\ p[3] < q[3]))
ElAt(s, p) == IF Len(p) = 1 THEN s.body[p[1]] ELSE s.body[p[1]].cells[p[2]][p[3]]
SetAt(s, p, e) == IF Len(p) = 1 THEN [s EXCEPT !.body[p[1]] = e]
                  ELSE [s EXCEPT !.body[p[1]].cells[p[2]][p[3]] = e]
\* data = Seq([slot, img, sz, via]); the entry for a slot, or a record with slot 0
DataFor(data, slot) ==
  IF \E i \in 1..Len(data) : data[i].slot = slot
  THEN data[CHOOSE i \in 1..Len(data) : data[i].slot = slot]
  ELSE [slot |-> 0]
\* replace the placeholders (document order) by pictures of the data given for their slot;
\* a placeholder without data becomes a text paragraph
RECURSIVE RenderPaths(_, _, _)
RenderPaths(s, P, data) ==
  IF P = {} THEN s
  ELSE LET p == CHOOSE x \in P : \A y \in P \ {x} : PathLess(x, y)
           d == DataFor(data, ElAt(s, p).slot)
           u == IF d.slot = 0 THEN SetAt(s, p, Txt)
                ELSE SetAt(Store(s, d.img), p, Pic(FreshRel(s), Extent(d.sz, d.img.pw, d.img.ph), d.sz.n))
       IN RenderPaths(u, P \ {p}, data)
RenderDoc(s, data) == [RenderPaths(s, PhPaths(s), data) EXCEPT !.origin = "render"]
\* a text template: one line per entry of slots
RECURSIVE RenderLines(_, _, _, _)
RenderLines(s, slots, i, data) ==
  IF i > Len(slots) THEN s
  ELSE LET d == DataFor(data, slots[i])
           u == IF d.slot = 0 THEN s
                ELSE [Store(s, d.img) EXCEPT !.body = Append(@, Pic(FreshRel(s), Extent(d.sz, d.img.pw, d.img.ph), d.sz.n))]
       IN RenderLines(u, slots, i + 1, data)

\* ---- operations ----------------------------------------------------------
AddOps == {"AddImage", "AddResource", "AddCellImage"}
EnvOps == {"WriteFile", "RemoveFile"}      \* the caller's files change, no document does
InfoOps == {"ResizeImage", "SetImagePosition", "SetImageWrapText", "SetImageAltText", "SetImageTitle", "SetImageAlignment"}
OtherKinds == {"AddHeader", "AddFooter", "AddHeaderWithPageNumber", "AddListItem", "AddFootnote", "AddEndnote", "AddParagraph"}
RelKindOf(what) ==
  CASE what \in {"AddHeader", "AddHeaderWithPageNumber"} -> <<"header">>
    [] what = "AddFooter" -> <<"footer">>
    [] what = "AddListItem" -> <<"numbering">>
    [] what = "AddFootnote" -> <<"footnotes">>
    [] what = "AddEndnote" -> <<"endnotes">>
    [] OTHER -> <<>>

\* positions (in body) of the pictures that are paragraphs of the body itself
BodyPicPos(s) == {i \in 1..Len(s.body) : s.body[i].k = "pic"}
NthBodyPic(s, n) == CHOOSE i \in BodyPicPos(s) : Cardinality({j \in BodyPicPos(s) : j <= i}) = n

\* when the call is expected to succeed
Guard(s, op) ==
  CASE op.op = "RemovePic" -> op.i >= 1 /\ op.i <= Cardinality(BodyPicPos(s))
    [] op.op = "AddImage" -> op.path = "" \/ HasFile(s, op.path)
    [] op.op = "AddCellImage" -> /\ op.tbl >= 1 /\ op.tbl <= NTables(s)
                                 /\ op.r \in 0..(TblRows - 1) /\ op.c \in 0..(TblCols - 1)
                                 /\ (op.fmt = "" \/ op.fmt = op.img.f)
                                 /\ (op.path = "" \/ HasFile(s, op.path))
    [] op.op = "AddCellPlaceholder" -> /\ op.tbl >= 1 /\ op.tbl <= NTables(s)
                                       /\ op.r \in 0..(TblRows - 1) /\ op.c \in 0..(TblCols - 1)
    [] op.op \in InfoOps -> op.h # "nil"
    [] OTHER -> TRUE
Ret(s, op) == IF Guard(s, op) THEN "ok" ELSE "err"

\* number of pictures the call is asked to create
RequestedPics(s, op) ==
  IF ~Guard(s, op) THEN 0
  ELSE CASE op.op \in {"AddImage", "AddCellImage"} -> 1
         [] op.op = "RemovePic" -> -1
         [] op.op = "Render" -> IF op.keep THEN 0
                                ELSE Cardinality({p \in PhPaths(s) : DataFor(op.data, ElAt(s, p).slot).slot # 0})
         [] op.op = "RenderString" ->
              Cardinality({i \in 1..Len(op.slots) : DataFor(op.data, op.slots[i]).slot # 0})
         [] OTHER -> 0

AddRel(s, kinds) ==
  IF kinds = <<>> THEN s
  ELSE [s EXCEPT !.rels = Append(@, [id |-> FreshRel(s), kind |-> kinds[1], tgt |-> "word/" \o kinds[1] \o ToString(Len(s.rels))])]

Apply0(s, op) ==
  CASE op.op = "AddImage" ->
         LET g == Given(s, op)
         IN [Store(s, g) EXCEPT !.body = Append(@, Pic(FreshRel(s), Extent(op.sz, g.pw, g.ph), op.sz.n))]
    [] op.op = "AddResource" -> Store(s, op.img)
    [] op.op = "AddTable" -> [s EXCEPT !.body = Append(@, EmptyTbl)]
    [] op.op = "AddCellImage" ->
         LET g == Given(s, op)
         IN [Store(s, g) EXCEPT !.body[TablePos(s, op.tbl)].cells[CellIdx(op)] =
                                   Append(@, Pic(FreshRel(s), Extent(op.sz, g.pw, g.ph), op.sz.n))]
    [] op.op = "WriteFile" -> WriteFile(s, op.path, op.img.t)
    [] op.op = "RemoveFile" -> RemoveFile(s, op.path)
    [] op.op = "AddPlaceholder" -> [s EXCEPT !.body = Append(@, Ph(op.slot, op.lay))]
    [] op.op = "AddCellPlaceholder" ->
         [s EXCEPT !.body[TablePos(s, op.tbl)].cells[CellIdx(op)] = Append(@, Ph(op.slot, op.lay))]
    [] op.op = "Render" -> IF op.keep THEN s ELSE RenderDoc(s, op.data)
    [] op.op = "RenderString" -> [RenderLines(InitSt, op.slots, 1, op.data) EXCEPT !.origin = "rstring", !.files = s.files]
    [] op.op = "RemovePic" ->      \* (the reference machine keeps the media part and the relationship)
         [s EXCEPT !.body[NthBodyPic(s, op.i)] = Txt, !.loose = @ \cup {Resolve(s, s.body[NthBodyPic(s, op.i)].embed)}]
    [] op.op = "Other" -> AddRel(s, RelKindOf(op.what))
    [] op.op = "Save" -> s
    [] op.op = "Reopen" -> [s EXCEPT !.origin = "reopen"]
    [] op.op = "OpenForeign" ->
         LET f == [origin |-> "foreign", body |-> op.shape.body,
                   media |-> {[name |-> op.shape.media[i].name, tok |-> op.shape.media[i].img.t] : i \in 1..Len(op.shape.media)},
                   rels |-> [i \in 1..Len(op.shape.rels) |-> [id |-> op.shape.rels[i].id, kind |-> op.shape.rels[i].kind, tgt |-> op.shape.rels[i].tgt]],
                   ctr |-> op.shape.ctr, ninfo |-> s.ninfo, loose |-> {}, files |-> s.files]
         IN [f EXCEPT !.loose = {m.tok : m \in f.media} \ {View(f)[i].tok : i \in 1..Len(View(f))}]
    [] OTHER -> s      \* InfoOps: the handle's configuration changes, the document does not
Apply(s, op) == IF Guard(s, op) THEN Apply0([s EXCEPT !.body = OldBody(@)], op) ELSE [s EXCEPT !.body = OldBody(@)]

\* ---- foreign packages (the specification is the single source: the op carries the content) ----
\* shape = [name, media <<[name, img]>>, rels <<[id, kind, tgt, abs]>>, body <<el>>, ctr]
\*   ctr = the smallest counter value from which the reference allocator's names are unused
FPic(embed, img) == [Pic(embed, Extent(SzOf("nil"), img.pw, img.ph), "") EXCEPT !.new = FALSE]
FRel(id, kind, tgt) == [id |-> id, kind |-> kind, tgt |-> tgt, abs |-> FALSE]
FMed(name, t) == [name |-> name, img |-> ImgOf(t)]
FStyles == FRel("rId1", "styles", "word/styles.xml")
ForeignShape(name) ==
  CASE name = "noext" ->        \* extension-less media name in the library's own numbering
         [name |-> name, media |-> <<FMed("word/media/image5", "P3")>>,
          rels |-> <<FStyles, FRel("rId7", "image", "word/media/image5")>>,
          body |-> <<FPic("rId7", ImgOf("P3"))>>, ctr |-> 0]
    [] name = "upper" ->        \* upper-case base name and extension
         [name |-> name, media |-> <<FMed("word/media/Image2.PNG", "P3"), FMed("word/media/image0.png", "G1")>>,
          rels |-> <<FStyles, FRel("rId2", "image", "word/media/Image2.PNG"), FRel("rId3", "image", "word/media/image0.png")>>,
          body |-> <<FPic("rId2", ImgOf("P3")), FPic("rId3", ImgOf("G1"))>>, ctr |-> 1]
    [] name = "jpg" ->          \* .jpg (the library writes .jpeg), the next relationship id by count is taken
         [name |-> name, media |-> <<FMed("word/media/image1.jpg", "J2")>>,
          rels |-> <<FRel("rId3", "image", "word/media/image1.jpg"), FStyles>>,
          body |-> <<FPic("rId3", ImgOf("J2"))>>, ctr |-> 2]
    [] name = "gap" ->          \* gaps in both numberings, ids not in document order, an unreferenced media part
         [name |-> name, media |-> <<FMed("word/media/image0.png", "P3"), FMed("word/media/image7.jpeg", "J2"), FMed("word/media/image3.gif", "G3")>>,
          rels |-> <<FStyles, FRel("rId9", "image", "word/media/image7.jpeg"), FRel("rId4", "image", "word/media/image0.png")>>,
          body |-> <<FPic("rId4", ImgOf("P3")), FPic("rId9", ImgOf("J2")), FPic("rId4", ImgOf("P3"))>>, ctr |-> 8]
    [] name = "lead0" ->        \* leading zeros, and a non-numeric name
         [name |-> name, media |-> <<FMed("word/media/image01.png", "P3"), FMed("word/media/picture.gif", "G3")>>,
          rels |-> <<FStyles, FRel("rId2", "image", "word/media/image01.png"), FRel("imgB", "image", "word/media/picture.gif")>>,
          body |-> <<FPic("imgB", ImgOf("G3")), FPic("rId2", ImgOf("P3"))>>, ctr |-> 0]
    [] name = "otherdir" ->     \* media outside word/media, same base names as the library's
         [name |-> name, media |-> <<FMed("word/images/image0.png", "P3"), FMed("media/image1.png", "P4")>>,
          rels |-> <<FStyles, FRel("rId2", "image", "word/images/image0.png"), FRel("rId3", "image", "media/image1.png")>>,
          body |-> <<FPic("rId2", ImgOf("P3")), FPic("rId3", ImgOf("P4"))>>, ctr |-> 0]
    [] name = "abs" ->          \* absolute relationship target
         [name |-> name, media |-> <<FMed("word/media/image2.png", "P3")>>,
          rels |-> <<FStyles, [FRel("rId5", "image", "word/media/image2.png") EXCEPT !.abs = TRUE]>>,
          body |-> <<FPic("rId5", ImgOf("P3"))>>, ctr |-> 3]
    [] name = "cjk" ->          \* non-ASCII media name, two parts with identical bytes
         [name |-> name, media |-> <<FMed("word/media/cjk1.png", "P3"), FMed("word/media/image1.png", "P3")>>,
          rels |-> <<FStyles, FRel("rId2", "image", "word/media/cjk1.png"), FRel("rId3", "image", "word/media/image1.png")>>,
          body |-> <<FPic("rId2", ImgOf("P3")), FPic("rId3", ImgOf("P3"))>>, ctr |-> 2]
    [] name = "large" ->        \* a scan of more than 16 MiB next to a small picture
         [name |-> name, media |-> <<FMed("word/media/image1.png", "L24"), FMed("word/media/image2.jpeg", "J2")>>,
          rels |-> <<FStyles, FRel("rId2", "image", "word/media/image1.png"), FRel("rId3", "image", "word/media/image2.jpeg")>>,
          body |-> <<FPic("rId2", ImgOf("L24")), FPic("rId3", ImgOf("J2"))>>, ctr |-> 3]
    [] OTHER ->                 \* "nopics": a package without pictures and without a relationship part entry for images
         [name |-> "nopics", media |-> <<>>, rels |-> <<FStyles>>, body |-> <<>>, ctr |-> 0]
ShapeNames == {"noext", "upper", "jpg", "gap", "lead0", "otherdir", "abs", "cjk", "nopics"}
LargeShapeNames == {"large"}

\* ---- the property on an observed state (witness sets; empty = holds) ----------
Near(a, b, tol) == a - b <= tol /\ b - a <= tol
\* E = view expected by the specification, O = view of what the library wrote
DiffEntry(e, o) ==
  LET which == IF e.new THEN "new" ELSE "earlier"
  IN (IF e.k # o.k THEN {<<IF e.k = "pic" THEN "picture-missing" ELSE "picture-unexpected", which, e.szk>>}
      ELSE IF e.k = "ph" THEN (IF e.cx # o.cx THEN {<<"placeholder-changed", which, e.szk>>} ELSE {})
      ELSE (IF e.tok # o.tok
              THEN {<<IF Failed(o.tok) THEN o.tok ELSE "wrong-bytes", which, e.w>>} ELSE {})
           \cup (IF ~Near(e.cx, o.cx, e.tx) \/ ~Near(e.cy, o.cy, e.ty)
              THEN {<<"extent", which, e.szk>>} ELSE {}))
     \cup (IF e.w # o.w \/ e.t # o.t \/ e.c # o.c THEN {<<"placement", which, e.w>>} ELSE {})
\* number of entries of kind k in container <<w, t, c>>
NIn(V, k, w, t, c) == Len(SelectSeq(V, LAMBDA x : x.k = k /\ x.w = w /\ x.t = t /\ x.c = c))
Containers(V) == {<<V[i].w, V[i].t, V[i].c>> : i \in 1..Len(V)}
Viol_Count(E, O) ==
  UNION {LET ep == NIn(E, "pic", q[1], q[2], q[3])   op == NIn(O, "pic", q[1], q[2], q[3])
             eh == NIn(E, "ph", q[1], q[2], q[3])    oh == NIn(O, "ph", q[1], q[2], q[3])
         IN (IF op < ep THEN {<<"fewer-pictures", q[1], "">>} ELSE IF op > ep THEN {<<"more-pictures", q[1], "">>} ELSE {})
            \cup (IF oh > eh THEN {<<"placeholder-left", q[1], "">>} ELSE IF oh < eh THEN {<<"placeholder-lost", q[1], "">>} ELSE {})
         : q \in Containers(E) \cup Containers(O)}
Viol_View(E, O) ==
  IF Viol_Count(E, O) # {} THEN Viol_Count(E, O)
  ELSE IF Len(E) # Len(O) THEN {<<"order", "count", "">>}
  ELSE UNION {DiffEntry(E[i], O[i]) : i \in 1..Len(E)}
\* every image handed over is stored, unmodified, in some media part
Viol_Media(exp, obs) ==
  {<<"media-lost", "token", "">> : t \in ({m.tok : m \in exp.media} \ exp.loose) \ {m.tok : m \in obs.media}}
\* (a picture that is missing altogether is reported once, as a missing picture)
Viol_C10(exp, obs) ==
  Viol_View(View(exp), View(obs))
  \cup (IF Viol_Count(View(exp), View(obs)) = {} THEN Viol_Media(exp, obs) ELSE {})

\* ---- design-level statements about the reference machine ----------------------
RelIdsUnique(s) == \A i, j \in 1..Len(s.rels) : i # j => s.rels[i].id # s.rels[j].id
MediaFunctional(s) == \A m, n \in s.media : m.name = n.name => m.tok = n.tok
AllResolve(s) == \A i \in 1..Len(View(s)) : ~Failed(View(s)[i].tok)
\* a is b with exactly the entries at the index set D deleted
RECURSIVE IsSubseqOf(_, _)
IsSubseqOf(a, b) ==
  IF a = <<>> THEN TRUE
  ELSE IF b = <<>> THEN FALSE
  ELSE IF Head(a) = Head(b) THEN IsSubseqOf(Tail(a), Tail(b)) \/ IsSubseqOf(a, Tail(b))
  ELSE IsSubseqOf(a, Tail(b))
Core(v) == [i \in 1..Len(v) |-> [k |-> v[i].k, tok |-> v[i].tok, cx |-> v[i].cx, cy |-> v[i].cy]]
PicsOnly(v) == SelectSeq(v, LAMBDA x : x.k = "pic")
=============================================================================
