SPECIFICATION SpecMC
CONSTANTS
  MaxSteps = 3
  Depth = 0
  OpNames = {"AddHeading", "SetStyle", "AddStyle", "ModifyStyle", "RemoveStyle", "GenerateTOC", "AutoGenerateTOC", "UpdateTOC", "ApplyTableStyle", "CreateCustomTableStyle", "AddListItem", "AddNote", "Save", "Reopen", "OpenForeign", "Markdown", "Switch", "Look"}
  Lv = {2, 9}
  Maxes = {3}
  StyIds = {"C1", "Zz9"}
  AddIds = {"C1"}
  ModIds = {"Heading2", "C1"}
  RmIds = {"Heading2", "C1"}
  Tpls = {"TableGrid"}
  TblIds = {"ab", "TS1"}
  ListTypes = {"bullet", "number"}
  Shapes = {"lists", "toc"}
  Kinds = {"all"}
  ViasC = {"CreateQuickStyle"}
  HowsC = {"mutate"}
  OnIds = {"Normal", "Heading2"}
  NoteKinds = {"fn", "en"}
  Looks = {"styles"}
  FreshC = {TRUE}
INVARIANTS Inv_Defined Inv_Wf Inv_Pending
PROPERTIES Act_Save Act_Keep Act_Remove Act_Isolated
CHECK_DEADLOCK FALSE
