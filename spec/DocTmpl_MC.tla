---------------------------- MODULE DocTmpl_MC ----------------------------
(***************************************************************************)
(* Exhaustive exploration (SpecMC) and behaviour generation (SpecGen) for  *)
(* DocTmpl (property C18).                                                  *)
(*                                                                         *)
(* A behaviour is  Build(base description, via) ; Render(data)+ .           *)
(* Base descriptions are generated in families, selected and bounded by     *)
(* PLANS (PlanQuick, PlanThorough, PlanSim for generation; PlanMCQuick,     *)
(* PlanMCThorough for exhaustive checking) - all bounds are stated here:    *)
(*   seg     a text with placeholders (T0 = a{{xy}}<CJK>{{z}}c, T1..T3) cut *)
(*           into runs at every set of lo..hi cut positions, run formatting *)
(*           distinct / same / alternating / none, placed in body / table   *)
(*           cell / nested table cell / a non-loop row of a loop table /    *)
(*           header / footer / body+header+footer; data: both variables     *)
(*           (value classes), only one, none                                *)
(*   extras  T0 with non-text runs (page break alone or inside a text run,  *)
(*           drawing, field) at start / middle / end and every paragraph    *)
(*           property, three segmentations                                  *)
(*   loop    a table whose middle row is a loop template (markers whole or  *)
(*           split over runs, in one or two cells) with 0..items items,     *)
(*           at top level and nested in a cell                              *)
(*   image   picture placeholders alone / with text / two in a paragraph /  *)
(*           in a cell / several in the body / among bookmarks              *)
(*   media   a base document that already CARRIES one or two pictures whose *)
(*           parts are named as this library names them (image0..), as other *)
(*           producers do (image1.., with a gap, out of order, high numbers, *)
(*           a name without a number), with picture placeholders before /    *)
(*           after / beside them or with none at all                         *)
(* Data sets of the seg family are either "xy has a value of class c, z has  *)
(* W" (+ only one / none present) or PAIRS <<cx, cz>>: each variable absent  *)
(* ("-") or present with a value of its own class - among them the classes   *)
(* in which EVERY value present is empty, and values that are not strings    *)
(* (nil, int, bool, float).                                                  *)
(* SpecMC checks the reference semantics itself on exactly these cases:     *)
(* it renders every case with an ideal implementation (IdealDoc) and checks *)
(* the paragraph-level laws of Subst, that the judge accepts the ideal      *)
(* rendering (no false alarm by design) and rejects the identity rendering  *)
(* exactly when there was something to do (the judge is not vacuous).       *)
(***************************************************************************)
EXTENDS DocTmpl, Json, SequencesExt

CONSTANTS Plans,       \* set of generation plans (records, see "plans" below)
          Depth        \* behaviour length for generation (1 Build + Depth-1 Render)

VARIABLES st, hist
vars == <<st, hist>>

\* ---- description builders --------------------------------------------------------------
R(cs, f, x) == [cs |-> cs, f |-> f, x |-> x]
P(runs, ppr) == [k |-> "p", ppr |-> ppr, runs |-> runs]
Plain(cs) == P(<<R(cs, 0, "")>>, <<>>)
Tb(rows, full) == [k |-> "tbl", full |-> full, rows |-> rows]
\* media: the pictures the base document already carries, [num, name, tok] each (picture i is shown by the
\* runs with x = "drawing" (i = 1) / "drawing2" (i = 2)); <<>> = named the way the library names them
Desc(body, hdr, ftr, sect, extra) == [body |-> body, hdr |-> hdr, ftr |-> ftr, sect |-> sect, extra |-> extra, media |-> <<>>]

\* "CJK" is a multi-byte character (byte offsets and character offsets differ after it)
T0 == <<"a","{","{","x","y","}","}","CJK","{","{","z","}","}","c">>
\* further texts: placeholders adjacent and at both ends; the same variable twice; stray and unclosed braces
T1 == <<"{","{","x","y","}","}","{","{","z","}","}">>
T2 == <<"{","{","z","}","}","-","{","{","z","}","}">>
T3 == <<"{","{","{","z","}","}","}","{","{","x","y">>
TextOf_(id) == CASE id = "T0" -> T0 [] id = "T1" -> T1 [] id = "T2" -> T2 [] id = "T3" -> T3
Nxy == <<"x","y">>
Nz == <<"z">>
AllPpr == <<"pStyle","numPr","pBdr","tabs","snapToGrid","spacing","ind","jc","keepNext","keepLines",
            "pageBreakBefore","widowControl","outlineLvl">>

CutSets(n, lo, hi) == {S \in SUBSET (1..(n - 1)) : Cardinality(S) >= lo /\ Cardinality(S) <= hi}
Fm(fm, i) == CASE fm = "distinct" -> i
               [] fm = "same" -> 1
               [] fm = "alt" -> 1 + ((i - 1) % 2)
               [] OTHER -> 0
RunsOf(T, cuts, fm) ==
  LET b == <<0>> \o SetToSortSeq(cuts, LAMBDA x, y : x < y) \o <<Len(T)>> IN
  [i \in 1..(Len(b) - 1) |-> R(SubSeq(T, b[i] + 1, b[i + 1]), Fm(fm, i), "")]

Fld == <<R(<<>>, 0, "fldB"), R(<<>>, 0, "fldI"), R(<<>>, 0, "fldE")>>
XRs == {"none", "br-start", "br-mid", "br-end", "brtext", "drawing-start", "drawing-end", "fld-end"}
XROk(runs, xr) == xr # "br-mid" \/ Len(runs[1].cs) = 1
WithExtra(runs, xr) ==
  CASE xr = "br-start" -> <<R(<<>>, 0, "br")>> \o runs
    [] xr = "br-mid" -> <<runs[1], R(<<>>, 0, "br")>> \o Tail(runs)
    [] xr = "br-end" -> runs \o <<R(<<>>, 0, "br")>>
    [] xr = "brtext" -> [runs EXCEPT ![Len(runs)].x = "br"]
    [] xr = "drawing-start" -> <<R(<<>>, 0, "drawing")>> \o runs
    [] xr = "drawing-end" -> runs \o <<R(<<>>, 0, "drawing")>>
    [] xr = "fld-end" -> runs \o Fld
    [] OTHER -> runs

\* the list every data set of the seg/extras families carries (for placement "loopother")
TkEach(n) == <<"{","{","#","e","a","c","h"," ">> \o n \o <<"}","}">>
TkVar(n) == <<"{","{">> \o n \o <<"}","}">>
TkImg(n) == <<"{","{","#","i","m","a","g","e"," ">> \o n \o <<"}","}">>
Nit == <<"i","t">>
OneLoopPara == Plain(TkEach(Nit) \o TkVar(<<"n">>) \o EndEach)
SmallFullTable == Tb(<< << <<Plain(<<"u">>)>>, <<Plain(<<"{","{","z","}","}">>)>> >> >>, TRUE)

Bm == [k |-> "bm"]      \* a bookmarkStart/bookmarkEnd pair between the blocks of the body
Shift(runs, n) == [i \in 1..Len(runs) |-> [runs[i] EXCEPT !.f = IF @ = 0 THEN 0 ELSE @ + n]]
Frame(pl, fp) ==
  CASE pl = "body" -> Desc(<<Plain(<<"s">>), Bm, fp, SmallFullTable>>, <<>>, <<>>, "full", FALSE)
    [] pl = "bodyhf" -> Desc(<<Plain(<<"s">>), fp>>, Shift(fp.runs, 20), Shift(fp.runs, 10), "plain", TRUE)
    [] pl = "cell" -> Desc(<<Tb(<< << <<Plain(<<"h">>)>>, <<fp>> >>, << <<Plain(<<"k">>)>>, <<Plain(<<"m">>)>> >> >>, TRUE)>>,
                           <<>>, <<>>, "plain", FALSE)
    [] pl = "nested" -> Desc(<<Tb(<< << <<Plain(<<"h">>), Tb(<< << <<fp>> >> >>, FALSE)>> >> >>, FALSE)>>, <<>>, <<>>, "plain", FALSE)
    [] pl = "loopother" -> Desc(<<Tb(<< << <<fp>> >>, << <<OneLoopPara>> >> >>, FALSE)>>, <<>>, <<>>, "none", FALSE)
    [] pl = "header" -> Desc(<<Plain(<<"s">>)>>, fp.runs, <<>>, "plain", TRUE)
    [] pl = "footer" -> Desc(<<Plain(<<"s">>)>>, <<>>, fp.runs, "plain", TRUE)

\* ---- data ------------------------------------------------------------------------------------
Val(c) == CASE c = "plain" -> <<"V","1">>
            [] c = "empty" -> <<>>
            [] c = "xmlmeta" -> <<"p","<","&",">","\"","'","q">>
            [] c = "ctrl" -> <<"p","CTL","q">>
            [] c = "braces" -> <<"{","{","z","}","}">>
            [] c = "dollar" -> <<"$","1","$","{","0","}">>
            \* values that are not strings: v is the text they stand for
            [] c = "nil" -> <<>>
            [] c = "int" -> <<"4","2">>
            [] c = "neg" -> <<"-","7">>
            [] c = "bool" -> <<"t","r","u","e">>
            [] c = "float" -> <<"2",".","5">>
TyCls == {"nil", "int", "neg", "bool", "float"}
Ty(c) == IF c = "neg" THEN "int" ELSE IF c \in TyCls THEN c ELSE "str"
PairT(n, v, ty) == [n |-> n, v |-> v, ty |-> ty]
Pair(n, v) == PairT(n, v, "str")
ItList == <<[n |-> Nit, items |-> << <<Pair(<<"n">>, <<"Q">>)>> >>]>>
Data(cls, vs, ls, is) == [cls |-> cls, vars |-> vs, lists |-> ls, imgs |-> is]
SegData(classes, pres) ==
  {Data(c, <<Pair(Nxy, Val(c)), Pair(Nz, <<"W">>)>>, ItList, <<>>) : c \in classes}
  \cup (IF pres THEN {Data("partial", <<Pair(Nxy, <<"V","1">>)>>, ItList, <<>>),
                      Data("partial", <<Pair(Nz, <<"W">>)>>, ItList, <<>>),
                      Data("absent", <<>>, ItList, <<>>)}
        ELSE {})
\* a pair <<cx, cz>>: xy / z absent ("-") or present with a value of class cx / cz
PairVar(n, c) == IF c = "-" THEN <<>> ELSE <<PairT(n, Val(c), Ty(c))>>
PairData(S) == {Data(q[1] \o "+" \o q[2], PairVar(Nxy, q[1]) \o PairVar(Nz, q[2]), ItList, <<>>) : q \in S}
\* every value that is present is empty / some are / none is a string
EmptyPairs == {<<"empty","empty">>, <<"empty","-">>, <<"-","empty">>, <<"nil","nil">>, <<"nil","-">>, <<"-","nil">>}
MixedPairs == {<<"empty","plain">>, <<"plain","empty">>, <<"nil","plain">>, <<"xmlmeta","empty">>}
TypedPairs == {<<"int","bool">>, <<"float","neg">>, <<"bool","-">>, <<"-","int">>}
ExtrasData(pairs) == (IF pairs = {} THEN {Data("plain", <<Pair(Nxy, <<"V","1">>), Pair(Nz, <<"W">>)>>, ItList, <<>>), Data("absent", <<>>, ItList, <<>>)} ELSE {})
                     \cup PairData(pairs)
Digit(k) == <<"0","1","2","3","4","5","6","7","8","9">>[k + 1]
LoopData(maxItems) == {Data("loop", <<Pair(Nz, <<"W">>)>>,
                  <<[n |-> Nit, items |-> [k \in 1..n |-> <<Pair(<<"n">>, <<"N", Digit(k)>>), Pair(<<"a">>, <<"A", Digit(k)>>)>>]]>>,
                  <<>>) : n \in 0..maxItems}
  \* items whose values are empty / not strings
  \* (class "loop" like the others: what a witness names is the kind of data, not the values)
  \cup {Data("loop", <<Pair(Nz, <<>>)>>,
           <<[n |-> Nit, items |-> << <<PairT(<<"n">>, Val(c[1]), Ty(c[1])), PairT(<<"a">>, Val(c[2]), Ty(c[2]))>>,
                                      <<Pair(<<"n">>, <<"N","2">>), Pair(<<"a">>, <<"A","2">>)>> >>]>>,
           <<>>) : c \in IF maxItems >= 2 THEN {<<"empty","empty">>, <<"empty","plain">>, <<"nil","int">>, <<"bool","empty">>} ELSE {}}
ImageData == {Data("image", <<Pair(Nz, <<"W">>)>>, <<>>, <<[n |-> <<"p">>, img |-> "img1"], [n |-> <<"q">>, img |-> "img2"]>>)}

\* ---- families ----------------------------------------------------------------------------------
HFOk(pl, runs) == pl \notin {"header", "footer", "bodyhf"} \/ \A i \in 1..Len(runs) : runs[i].x # "drawing"

SegBases(p) ==
  UNION {{Frame(pl, P(RunsOf(TextOf_(t), cuts, fm), <<>>)) : cuts \in CutSets(Len(TextOf_(t)), p.lo, p.hi), fm \in p.fm, pl \in p.pl} : t \in p.txt}

ExtraCuts == {{}, {4}, {1, 7, 10}}
ExtrasBases(p) ==
  {Frame(c[3], P(WithExtra(RunsOf(T0, c[1], "distinct"), c[2]), c[4])) :
     c \in {q \in ExtraCuts \X XRs \X (p.pl \ {"loopother"}) \X {<<>>, AllPpr} :
              /\ XROk(RunsOf(T0, q[1], "distinct"), q[2])
              /\ HFOk(q[3], WithExtra(RunsOf(T0, q[1], "distinct"), q[2]))
              /\ (q[3] \in {"header", "footer", "bodyhf"} => q[4] = <<>>)
              /\ (q[2] = "none" => q[4] # <<>>)}}

\* loop table: header row (with a global variable), template row, footer row
LoopCell1(v) == CASE v = "whole" -> P(<<R(TkEach(Nit), 1, ""), R(TkVar(<<"n">>), 2, "")>>, <<"jc">>)
                  [] v = "split" -> P(<<R(<<"{","{","#","e","a">>, 1, ""), R(<<"c","h"," ","i","t","}","}","{","{","n">>, 2, ""), R(<<"}","}">>, 3, "")>>, <<>>)
                  [] v = "plainrun" -> Plain(TkEach(Nit) \o TkVar(<<"n">>))
                  [] v = "onecell" -> P(<<R(TkEach(Nit) \o TkVar(<<"n">>) \o <<"-">> \o TkVar(<<"a">>) \o EndEach, 1, "")>>, <<>>)
LoopCell2(v) == CASE v = "whole" -> P(<<R(TkVar(<<"a">>) \o <<"!">>, 3, ""), R(EndEach, 1, "")>>, <<"keepNext">>)
                  [] v = "split" -> P(<<R(<<"{","{","a","}","}","!","{","{","/","e">>, 4, ""), R(<<"a","c","h","}","}">>, 5, "")>>, <<>>)
                  [] v = "plainrun" -> Plain(TkVar(<<"a">>) \o <<"!">> \o EndEach)
                  [] v = "onecell" -> Plain(<<"k">>)
LoopTable(v) == Tb(<< << <<Plain(<<"H">>)>>, <<Plain(TkVar(Nz))>> >>,
                     << <<LoopCell1(v)>>, <<LoopCell2(v)>> >>,
                     << <<Plain(<<"e">>)>>, <<Plain(<<"f">>)>> >> >>, TRUE)
LoopBases ==
  {Desc(<<Plain(<<"s">>), LoopTable(v)>>, <<>>, <<>>, "plain", FALSE) : v \in {"whole", "split", "plainrun", "onecell"}}
  \cup {Desc(<<Tb(<< << <<Plain(<<"o">>), LoopTable(v)>> >> >>, FALSE)>>, <<>>, <<>>, "plain", FALSE) : v \in {"whole", "plainrun"}}

ImgP == TkImg(<<"p">>)
ImgQ == TkImg(<<"q">>)
ImageBodies ==
  { <<Plain(<<"s">>), Plain(ImgP), Plain(<<"e">>)>>,                                           \* alone
    <<P(<<R(<<"T"," ">> \o ImgP \o <<" ","U">>, 1, "")>>, <<"jc", "keepNext">>)>>,               \* with text, one run
    <<P(<<R(<<"T"," ">>, 1, ""), R(ImgP, 2, ""), R(<<" ","U">>, 3, "")>>, <<>>)>>,               \* with text, three runs
    <<P(<<R(<<"T">> \o ImgP \o <<"M">> \o ImgQ \o <<"U">>, 1, "")>>, <<>>)>>,                    \* two in a paragraph
    <<P(<<R(<<"T">> \o ImgP \o <<"M">> \o ImgP \o <<"U">>, 1, "")>>, <<>>), Plain(<<"e">>)>>,       \* the SAME picture twice in a paragraph
    <<Plain(<<"s">>), Tb(<< << <<Plain(ImgP \o <<"M">> \o ImgP)>>, <<Plain(<<"m">>)>> >> >>, FALSE)>>, \* ... and in a cell
    <<Plain(<<"s">>), Tb(<< << <<Plain(ImgP)>>, <<Plain(<<"m">>)>> >> >>, FALSE)>>,               \* in a cell
    <<Plain(ImgP), Plain(ImgQ), Plain(<<"e">> \o TkVar(Nz))>>,                                   \* two paragraphs
    <<Plain(<<"T"," ">> \o ImgP \o <<" ","U">>), Plain(ImgQ), Plain(<<"e">>)>>,                   \* text + second paragraph
    <<Plain(<<"T"," ">> \o ImgP \o <<" ","U">>), Tb(<< << <<Plain(ImgQ)>> >> >>, FALSE)>>,         \* text + table after
    <<Plain(<<"T"," ">> \o ImgP \o <<" ","U">>), Plain(<<"m">>), Plain(<<"n">>), Plain(ImgQ)>>,   \* text + later paragraph
    <<Bm, Plain(<<"T"," ">> \o ImgP \o <<" ","U">>), Bm, Plain(ImgQ), Plain(<<"e">>)>> }          \* with bookmarks in between
ImageBases == {Desc(b, <<>>, <<>>, "plain", FALSE) : b \in ImageBodies}

\* ---- a base that already carries pictures -----------------------------------------------------------
\* num = the number in the name of the media part (-1: a name that carries no number)
Med(num, tok) == [num |-> num, tok |-> tok,
                  name |-> IF num < 0 THEN "logo_" \o tok \o ".png" ELSE "image" \o ToString(num) \o ".png"]
MediaNums(nm) == CASE nm = "lib0" -> <<0, 1>>      \* as this library numbers them
                   [] nm = "from1" -> <<1, 2>>     \* as most producers do
                   [] nm = "gap" -> <<1, 3>>
                   [] nm = "rev" -> <<2, 1>>       \* order of the relationships is not the order of the numbers
                   [] nm = "high" -> <<7, 9>>
                   [] nm = "alien" -> <<-1, 1>>
MediaNamings == {"lib0", "from1", "gap", "rev", "high", "alien"}
MediaOf(nm, n) == [i \in 1..n |-> Med(MediaNums(nm)[i], <<"img9", "img8">>[i])]
LibNamed(m) == \A i \in 1..Len(m) : m[i].num = i - 1
PicPara(n) == IF n = 1 THEN P(<<R(<<>>, 0, "drawing")>>, <<>>)
              ELSE P(<<R(<<"l">>, 1, "drawing"), R(<<"x">>, 2, ""), R(<<>>, 0, "drawing2")>>, <<"jc">>)
MediaBodies(n) ==
  { <<Plain(<<"s">>), PicPara(n), Plain(ImgP), Plain(<<"e">>)>>,                                        \* placeholder after the pictures
    <<Plain(ImgP), PicPara(n), Plain(<<"e">> \o TkVar(Nz))>>,                                           \* ... before them
    <<Plain(<<"T"," ">> \o ImgP \o <<" ","U">>), PicPara(n), Plain(ImgQ)>>,                             \* two placeholders around them, one with text
    <<PicPara(n), Tb(<< << <<Plain(ImgP)>>, <<Plain(<<"m">>)>> >> >>, FALSE), Plain(ImgP \o <<"M">> \o ImgQ)>>,   \* in a cell + the same picture again
    <<PicPara(n), Plain(<<"e">> \o TkVar(Nz))>> }                                                       \* no picture placeholder at all
MediaBases(p) == UNION {{[Desc(b, <<>>, <<>>, "plain", FALSE) EXCEPT !.media = MediaOf(nm, n)] : b \in MediaBodies(n), nm \in p.nm} : n \in 1..p.items}

\* ---- plans ------------------------------------------------------------------------------------------
\* a plan = [fam, lo, hi (number of cuts), fm (formatting modes), pl (placements), vias, cls (value classes),
\*           pres (also the partial / absent data sets), items (loop: 0..items; media: 1..items pictures),
\*           pairs (seg: data sets given as pairs <<class of xy, class of z>>), nm (media: namings of the parts)]
AllPl == {"body", "cell", "nested", "loopother", "header", "footer", "bodyhf"}
Texts == {"T0", "T1", "T2", "T3"}
AllCls == {"plain", "empty", "xmlmeta", "ctrl", "braces", "dollar"}
Plan(fam, lo, hi, fm, pl, vias, cls, pres, items) ==
  [fam |-> fam, txt |-> {"T0"}, lo |-> lo, hi |-> hi, fm |-> fm, pl |-> pl, vias |-> vias, cls |-> cls, pres |-> pres, items |-> items,
   pairs |-> {}, nm |-> {}]
Seg(lo, hi, fm, pl, vias, cls, pres) == Plan("seg", lo, hi, fm, pl, vias, cls, pres, 0)
SegT(txt, lo, hi, fm, pl, vias, cls, pres) == [Seg(lo, hi, fm, pl, vias, cls, pres) EXCEPT !.txt = txt]
\* data sets given as pairs only
SegP(txt, lo, hi, fm, pl, vias, pairs) == [Seg(lo, hi, fm, pl, vias, {}, FALSE) EXCEPT !.txt = txt, !.pairs = pairs]
\* non-text runs / paragraph properties in paragraphs whose values are given as pairs
ExtrasP(pl, vias, pairs) == [Plan("extras", 0, 0, {"distinct"}, pl, vias, {}, FALSE, 0) EXCEPT !.pairs = pairs]
Media(vias, nm, n) == [Plan("media", 0, 0, {"distinct"}, {"body"}, vias, {"plain"}, TRUE, n) EXCEPT !.nm = nm]
Others(vias, items, pl) == {Plan("extras", 0, 0, {"distinct"}, pl, vias, {"plain"}, TRUE, 0),
                        Plan("loop", 0, 0, {"distinct"}, {"body"}, vias, {"plain"}, TRUE, items),
                        Plan("image", 0, 0, {"distinct"}, {"body"}, vias, {"plain"}, TRUE, 0)}

PlanQuick ==
  { Seg(0, 2, {"distinct"}, AllPl, {"doc"}, {"plain"}, TRUE),                 \* every segmentation with <= 2 cuts, everywhere, all/partial/no data
    Seg(3, 3, {"distinct"}, {"body"}, {"doc"}, {"plain"}, FALSE),             \* every segmentation with 3 cuts
    Seg(0, 1, {"distinct"}, AllPl, {"doc"}, AllCls \ {"plain"}, FALSE),       \* value classes x placement
    Seg(1, 2, {"same", "alt", "none"}, {"body"}, {"doc"}, {"plain"}, FALSE),  \* runs that share / lack formatting
    Seg(0, 0, {"none"}, {"body", "header", "footer"}, {"doc"}, AllCls, TRUE), \* header/footer made by AddHeader/AddFooter
    SegT(Texts \ {"T0"}, 0, 2, {"distinct"}, {"body"}, {"doc"}, {"plain"}, TRUE),             \* the other texts
    SegT(Texts \ {"T0"}, 0, 2, {"distinct"}, {"header"}, {"doc"}, {"plain"}, FALSE),
    SegT(Texts \ {"T0"}, 0, 1, {"distinct"}, AllPl, {"doc"}, {"plain", "braces"}, FALSE),
    Seg(0, 1, {"distinct"}, AllPl, {"open", "file"}, {"plain"}, FALSE),       \* the other ways to make a template
    SegP({"T0"}, 0, 0, {"distinct"}, AllPl, {"doc"}, EmptyPairs),             \* every value present is empty: everywhere
    SegP({"T0"}, 1, 1, {"distinct"}, {"body", "cell", "loopother", "header"}, {"doc"}, EmptyPairs),
    SegP({"T0"}, 2, 2, {"distinct"}, {"body"}, {"doc"}, {<<"empty","-">>}),
    SegP({"T0"}, 0, 1, {"distinct"}, {"body", "header"}, {"doc"}, MixedPairs),
    SegP({"T0"}, 0, 0, {"distinct"}, AllPl, {"doc", "file"}, TypedPairs),     \* values that are not strings
    SegP({"T1", "T2"}, 0, 1, {"distinct"}, {"body", "footer"}, {"doc"}, {<<"empty","empty">>, <<"nil","-">>, <<"-","empty">>, <<"int","bool">>}),
    ExtrasP({"body", "cell"}, {"doc"}, {<<"empty","empty">>}),                \* ... beside non-text runs
    Media({"doc", "open", "file"}, MediaNamings, 2) }
  \cup Others({"doc", "file"}, 3, AllPl)
PlanThorough ==
  { Seg(0, 3, {"distinct"}, AllPl, {"doc"}, {"plain"}, FALSE),                                 \* all 378 segmentations, everywhere
    Seg(0, 3, {"distinct"}, {"body", "cell", "header"}, {"doc"}, {}, TRUE),                    \* ... with partial / no data
    Seg(0, 2, {"distinct"}, AllPl, {"doc"}, AllCls \ {"plain"}, FALSE),                        \* value classes x placement
    Seg(1, 2, {"same", "alt", "none"}, {"body", "cell", "nested", "loopother"}, {"doc"}, {"plain"}, FALSE),
    Seg(3, 3, {"same", "alt", "none"}, {"body"}, {"doc"}, {"plain"}, FALSE),
    Seg(0, 0, {"none"}, {"body", "header", "footer"}, {"doc", "file"}, AllCls, TRUE),
    SegT(Texts \ {"T0"}, 0, 3, {"distinct"}, {"body"}, {"doc"}, {"plain"}, TRUE),
    SegT(Texts \ {"T0"}, 0, 2, {"distinct"}, {"cell", "header", "bodyhf"}, {"doc"}, {"plain"}, FALSE),
    SegT(Texts \ {"T0"}, 0, 1, {"distinct"}, AllPl, {"doc"}, AllCls \ {"plain"}, FALSE),
    Seg(0, 1, {"distinct"}, AllPl, {"open", "file"}, {"plain", "xmlmeta"}, TRUE),
    Seg(2, 2, {"distinct"}, {"body", "header"}, {"open", "file"}, {"plain"}, FALSE),
    SegP({"T0"}, 0, 2, {"distinct"}, AllPl, {"doc"}, EmptyPairs \cup MixedPairs),
    SegP({"T0"}, 3, 3, {"distinct"}, {"body"}, {"doc"}, {<<"empty","-">>, <<"-","empty">>, <<"nil","nil">>}),
    SegP({"T0"}, 0, 1, {"distinct", "same", "none"}, AllPl, {"doc", "open", "file"}, TypedPairs \cup {<<"empty","empty">>, <<"nil","-">>}),
    SegP(Texts \ {"T0"}, 0, 1, {"distinct"}, AllPl, {"doc"}, EmptyPairs \cup {<<"int","bool">>, <<"empty","plain">>}),
    SegP(Texts \ {"T0"}, 2, 2, {"distinct"}, {"body", "header"}, {"doc"}, EmptyPairs),
    ExtrasP(AllPl, {"doc", "file"}, {<<"empty","empty">>, <<"nil","-">>, <<"int","bool">>}),
    Media({"doc", "open", "file"}, MediaNamings, 2) }
  \cup Others({"doc", "open", "file"}, 3, AllPl)
PlanSim ==
  { SegT(Texts, 1, 1, {"distinct"}, AllPl, {"doc", "open"}, AllCls, TRUE),
    SegP(Texts, 0, 1, {"distinct"}, AllPl, {"doc", "open"}, EmptyPairs \cup MixedPairs \cup TypedPairs),
    Media({"doc", "open"}, MediaNamings, 2) } \cup Others({"doc"}, 3, {"body", "cell", "header"})
PlanMCQuick ==
  { Seg(0, 1, {"distinct"}, {"body", "nested", "loopother", "header"}, {"doc"}, {"plain", "braces"}, TRUE),
    SegT({"T1", "T3"}, 0, 1, {"distinct"}, {"body"}, {"doc"}, {"plain"}, TRUE),
    SegP({"T0", "T2"}, 0, 1, {"distinct"}, {"body", "header"}, {"doc"}, {<<"empty","empty">>, <<"nil","-">>, <<"-","empty">>, <<"int","bool">>}),
    ExtrasP({"body"}, {"doc"}, {<<"empty","empty">>}),
    Media({"doc"}, {"lib0", "from1", "alien"}, 2) } \cup Others({"doc"}, 2, {"body"})
PlanMCThorough ==
  { Seg(0, 2, {"distinct"}, AllPl, {"doc"}, AllCls, TRUE),
    SegT(Texts \ {"T0"}, 0, 1, {"distinct"}, AllPl, {"doc"}, {"plain", "braces", "empty"}, TRUE),
    SegP(Texts, 0, 1, {"distinct"}, AllPl, {"doc"}, EmptyPairs \cup MixedPairs \cup TypedPairs),
    ExtrasP(AllPl, {"doc"}, {<<"empty","empty">>, <<"nil","-">>, <<"int","bool">>}),
    Media({"doc"}, MediaNamings, 2) } \cup Others({"doc"}, 3, AllPl)

BasesOf(p) == CASE p.fam = "seg" -> SegBases(p) [] p.fam = "extras" -> ExtrasBases(p) [] p.fam = "loop" -> LoopBases [] p.fam = "image" -> ImageBases
                [] p.fam = "media" -> MediaBases(p)
DataOf(p) == CASE p.fam = "seg" -> SegData(p.cls, p.pres) \cup PairData(p.pairs) [] p.fam = "extras" -> ExtrasData(p.pairs) [] p.fam = "loop" -> LoopData(p.items)
               [] p.fam = "image" -> ImageData [] p.fam = "media" -> ImageData

\* OpenFromMemory / Open do not read nested tables (a matter of C03): such bases are only built directly
HasNested(d) == \E b \in RangeOf(d.body) : b.k = "tbl" /\ \E row \in RangeOf(b.rows) : \E c \in RangeOf(row) : \E x \in RangeOf(c) : x.k = "tbl"
BuildsOf(p) == {x \in {[op |-> "Build", fam |-> p.fam, plan |-> p, base |-> b, via |-> v] : b \in BasesOf(p), v \in p.vias} :
                  \* parts named otherwise than the library names them only exist in packages that are opened
                  /\ (x.via = "doc" \/ ~HasNested(x.base))
                  /\ (x.via = "doc" => LibNamed(x.base.media))}
BuildOps == UNION {BuildsOf(p) : p \in Plans}
RenderOps(b) == {[op |-> "Render", data |-> d] : d \in DataOf(b.plan)}

\* ---- abstraction of a description (what the independent reader sees of it) -------------------
XAtom(x, f, r) == CASE x = "br" -> <<[k |-> "br", t |-> "br:page", f |-> f, r |-> r]>>
                    [] x = "drawing" -> <<[k |-> "drawing", t |-> "img9", f |-> f, r |-> r]>>
                    [] x = "drawing2" -> <<[k |-> "drawing", t |-> "img8", f |-> f, r |-> r]>>
                    [] x = "fldB" -> <<[k |-> "fldChar", t |-> "fldChar:begin", f |-> f, r |-> r]>>
                    [] x = "fldI" -> <<[k |-> "instrText", t |-> "instrText:PAGE", f |-> f, r |-> r]>>
                    [] x = "fldE" -> <<[k |-> "fldChar", t |-> "fldChar:end", f |-> f, r |-> r]>>
                    [] OTHER -> <<>>
RunAtoms(runs) ==
  LET RECURSIVE go(_)
      go(i) == IF i > Len(runs) THEN <<>>
               ELSE [j \in 1..Len(runs[i].cs) |-> [k |-> "c", t |-> runs[i].cs[j], f |-> runs[i].f, r |-> i]]
                    \o XAtom(runs[i].x, runs[i].f, i) \o go(i + 1)
  IN go(1)
AbsPara(p) == [k |-> "p", ppr |-> [i \in 1..Len(p.ppr) |-> [n |-> p.ppr[i], v |-> "set"]], atoms |-> RunAtoms(p.runs)]
RECURSIVE AbsBlocks(_)
AbsBlocks(bs) ==
  [i \in 1..Len(bs) |->
     IF bs[i].k = "p" THEN AbsPara(bs[i])
     ELSE IF bs[i].k = "bm" THEN [k |-> "other", n |-> "bookmark", v |-> "set"]
     ELSE [k |-> "tbl", tpr |-> IF bs[i].full THEN <<[n |-> "tblStyle", v |-> "set"]>> ELSE <<>>,
           rows |-> [r \in 1..Len(bs[i].rows) |->
                       [trpr |-> IF bs[i].full THEN <<[n |-> "cantSplit", v |-> "set"]>> ELSE <<>>,
                        cells |-> [c \in 1..Len(bs[i].rows[r]) |->
                                     [tcpr |-> <<[n |-> "tcW", v |-> "set"]>>, blocks |-> AbsBlocks(bs[i].rows[r][c])]]]]]]
AbsHF(runs, kind) == IF runs = <<>> THEN <<>>
                     ELSE <<[name |-> kind, kind |-> kind, ok |-> TRUE, skel |-> "s",
                             blocks |-> <<[k |-> "p", ppr |-> <<>>, atoms |-> RunAtoms(runs)]>>]>>
AbsDoc(d) == [body |-> AbsBlocks(d.body), sect |-> <<[n |-> "sect", v |-> d.sect]>>,
              hf |-> AbsHF(d.ftr, "footer") \o AbsHF(d.hdr, "header"),
              parts |-> (IF d.extra THEN <<[n |-> "extra", c |-> "custom", v |-> "h"]>> ELSE <<>>)
                        \o [i \in 1..Len(d.media) |-> [n |-> "word/media/" \o d.media[i].name, c |-> "media", v |-> d.media[i].tok]]]

\* ---- an ideal implementation: materialises the reference semantics ---------------------------------
Pick(fs) == IF fs = {} THEN 0 ELSE MinOfSet(fs)
MatPara(e) == [k |-> "p", ppr |-> e.ppr,
               atoms |-> [i \in 1..Len(e.atoms) |-> [k |-> e.atoms[i].k, t |-> e.atoms[i].t, f |-> Pick(e.atoms[i].fs), r |-> i]]]
RECURSIVE IdealBlocks(_, _, _, _), IdealTable(_, _, _)
IdealBlocks(B, d, strip, form) ==
  CatMap(B, LAMBDA b : IF b.k = "p" THEN LET E == ExpectParas(b, d, strip, form) IN [i \in 1..Len(E) |-> MatPara(E[i])]
                       ELSE IF b.k = "tbl" THEN <<IdealTable(b, d, form)>>
                       ELSE <<b>>)
IdealTable(t, d, form) ==
  LET Rw == ExpectRows(t, d) IN
  [k |-> "tbl", tpr |-> t.tpr,
   rows |-> [i \in 1..Len(Rw) |->
              [trpr |-> Rw[i].src.trpr,
               cells |-> [j \in 1..Len(Rw[i].src.cells) |->
                            [tcpr |-> Rw[i].src.cells[j].tcpr,
                             blocks |-> IdealBlocks(Rw[i].src.cells[j].blocks, Rw[i].d, Rw[i].strip, form)]]]]]
RECURSIVE AllParas(_)
AllParas(bs) == CatMap(bs, LAMBDA b : IF b.k = "p" THEN <<b>>
                                      ELSE IF b.k = "tbl" THEN CatMap(b.rows, LAMBDA row : CatMap(row.cells, LAMBDA c : AllParas(c.blocks)))
                                      ELSE <<>>)
RECURSIVE AllTables(_)
AllTables(bs) == CatMap(bs, LAMBDA b : IF b.k = "tbl" THEN <<b>> \o CatMap(b.rows, LAMBDA row : CatMap(row.cells, LAMBDA c : AllTables(c.blocks)))
                                       ELSE <<>>)
\* the pictures rendering inserts (in the generated families picture placeholders only occur outside loop rows)
Inserted(base, d) == CatMap(AllParas(base.body), LAMBDA p : SelectSeq(SubstAtoms(p.atoms, d.vars, d.imgs, FALSE), LAMBDA a : a.img))
\* ... are stored in parts of their own, under names no part of the base has; every part of the base stays
IdealDoc(base, d, form) ==
  [body |-> IdealBlocks(base.body, d, FALSE, form), sect |-> base.sect,
   hf |-> [i \in 1..Len(base.hf) |-> [base.hf[i] EXCEPT !.blocks = IdealBlocks(@, HfData(d), FALSE, "inline")]],
   parts |-> base.parts \o [i \in 1..Len(Inserted(base, d)) |->
                              [n |-> "word/media/new" \o ToString(i) \o ".bin", c |-> "media", v |-> Inserted(base, d)[i].t]]]
\* a rendering that stores an inserted picture under the name of part x of the base (and so replaces its bytes)
Overwrite(out, x) == [out EXCEPT !.parts = [i \in 1..Len(@) |-> IF @[i] = x THEN [x EXCEPT !.v = "imgX"] ELSE @[i]]]
Forms == {"inline", "split"}

\* ---- the machines ------------------------------------------------------------------------------------
NoData == Data("none", <<>>, <<>>, <<>>)
NoPlan == [Plan("", 0, 0, {}, {}, {}, {}, FALSE, 0) EXCEPT !.txt = {}]
Init == st = [phase |-> "new", plan |-> NoPlan, base |-> NoDoc, d |-> NoData, out |-> NoDoc] /\ hist = <<>>

MCBuild == /\ st.phase = "new"
           /\ \E b \in BuildOps : st' = [phase |-> "built", plan |-> b.plan, base |-> AbsDoc(b.base), d |-> NoData, out |-> NoDoc]
           /\ hist' = hist
\* (re-rendering is explored from the states reached with the "absent" and "image" data sets only - enough
\*  for Act_Pure to see a second render of the same base, without squaring the number of transitions)
MCRender == /\ st.phase = "built" \/ (st.phase = "rendered" /\ st.d.cls \in {"absent", "image"})
            /\ \E r \in RenderOps(st), form \in Forms :
                 st' = [st EXCEPT !.phase = "rendered", !.d = r.data, !.out = IdealDoc(st.base, r.data, form)]
            /\ hist' = hist
NextMC == MCBuild \/ MCRender
SpecMC == Init /\ [][NextMC]_vars

NextGen == /\ Len(hist) < Depth
           /\ \/ /\ hist = <<>>
                 /\ \E b \in BuildOps : hist' = <<b>>
              \/ /\ hist # <<>>
                 /\ \E r \in RenderOps(hist[1]) : hist' = Append(hist, r)
           /\ st' = st
SpecGen == Init /\ [][NextGen]_vars
Emit == Len(hist) < Depth \/ PrintT(<<"WZCASE", ToJson(hist)>>)

\* ---- properties of the reference semantics (C18 at design level) ---------------------------------------
DocParas(doc) == AllParas(doc.body) \o CatMap(doc.hf, LAMBDA h : AllParas(h.blocks))
Rendered == st.phase = "rendered"

Mono(as) == [i \in 1..Len(Chars(as)) |-> [k |-> "c", t |-> Chars(as)[i].t, f |-> 0, r |-> 1]]
AsAtoms(E) == [i \in 1..Len(E) |-> [k |-> E[i].k, t |-> E[i].t, f |-> 0, r |-> 0]]
\* positions inside placeholders that have data / inside any placeholder
Covered(as, vs) == {k \in 1..Len(as) : \E i \in 1..Len(as) : VarAt(as, i).e > 0 /\ Lookup(vs, VarAt(as, i).name) > 0 /\ k \in i..VarAt(as, i).e}
CoveredAny(as) == {k \in 1..Len(as) : \E i \in 1..Len(as) : VarAt(as, i).e > 0 /\ k \in i..VarAt(as, i).e}
Keep(as, S) == LET T == S
                   RECURSIVE go(_)
                   go(i) == IF i > Len(as) THEN <<>> ELSE (IF i \in T THEN <<>> ELSE <<EA(as[i])>>) \o go(i + 1)
               IN go(1)
ValFree(vs) == \A i \in 1..Len(vs) : ~Occurs(<<"{","{">>, vs[i].v)

\* laws of SubstAtoms on every paragraph of the base, for the data in force (variables only)
ParaLaws(p, vs) ==
  LET as == p.atoms
      out == SubstAtoms(as, vs, <<>>, FALSE)
      cov == Covered(as, vs)
      any == CoveredAny(as)
      covf == {as[k].f : k \in any}
      outA == AsAtoms(out) IN
  \* the resulting text does not depend on how the paragraph is cut into runs
  /\ TextOf(out) = TextOf(SubstAtoms(Mono(as), vs, <<>>, FALSE))
  \* without data nothing changes (but for the formatting of a placeholder spread over several runs)
  /\ (vs = <<>> => /\ KT(out) = KT(as)
                   /\ \A i \in 1..Len(as) : as[i].f \in out[i].fs /\ (~out[i].ph => out[i] = EA(as[i])))
  \* every non-text run child survives, in order
  /\ KT(NonText(out)) = KT(NonText(as))
  \* everything outside placeholders is kept with its formatting, in order; placeholders without data keep their text
  /\ SelectSeq(out, LAMBDA a : ~a.val /\ ~a.ph) = Keep(as, any)
  /\ KT(SelectSeq(out, LAMBDA a : ~a.val)) = KT(Keep(as, cov))
  \* a value is formatted like one of the runs a placeholder covered
  /\ \A i \in 1..Len(out) : out[i].val => out[i].fs # {} /\ out[i].fs \subseteq covf
  \* no placeholder with data is left (values that do not themselves contain braces)
  /\ (ValFree(vs) => \A i \in 1..Len(out) : LET v == VarAt(outA, i) IN v.e > 0 => Lookup(vs, v.name) = 0)

Inv_ParaLaws == Rendered => \A p \in RangeOf(DocParas(st.base)) : ParaLaws(p, st.d.vars)

\* a loop row becomes one row per item; the other rows stay where they are
Inv_Loop == Rendered => \A t \in RangeOf(AllTables(st.base.body)) :
              LoopRow(t) > 0 =>
                LET lx == Lookup(st.d.lists, RowEachName(t.rows[LoopRow(t)]))
                    n == IF lx = 0 THEN 0 ELSE Len(st.d.lists[lx].items)
                    Rw == ExpectRows(t, st.d) IN
                /\ Len(Rw) = Len(t.rows) - 1 + n
                /\ \A i \in 1..(LoopRow(t) - 1) : Rw[i].src = t.rows[i]
                /\ \A i \in 1..(Len(t.rows) - LoopRow(t)) : Rw[LoopRow(t) - 1 + n + i].src = t.rows[LoopRow(t) + i]
                /\ \A i \in 1..n : Rw[LoopRow(t) - 1 + i].src = t.rows[LoopRow(t)] /\ Rw[LoopRow(t) - 1 + i].d.vars = st.d.lists[lx].items[i]

\* the judge accepts the ideal rendering (either way of setting pictures): no false alarm by design
Inv_JudgeSound == Rendered => JudgeDoc(st.base, st.out, st.d) = {}

\* ... and it is not vacuous: the identity "rendering" is rejected exactly when there was something to do
SomethingToDo(doc, d) ==
  \/ \E p \in RangeOf(DocParas(doc)) : \E q \in Phs(p.atoms, d.vars) : q.has
  \/ \E p \in RangeOf(AllParas(doc.body)) : HasImg(p.atoms, d.imgs)
  \/ \E t \in RangeOf(AllTables(doc.body)) : LoopRow(t) > 0
Inv_JudgeSharp == Rendered => (JudgeDoc(st.base, st.base, st.d) # {} <=> SomethingToDo(st.base, st.d))

\* ... nor blind to the other parts: a rendering that replaces the bytes of any media part of the base is rejected
Inv_PartsSharp == Rendered => \A x \in RangeOf(st.base.parts) :
                    x.c = "media" => <<"part-changed", "media">> \in JudgeDoc(st.base, Overwrite(st.out, x), st.d)
\* the ideal rendering keeps every part of the base and never stores a picture under a name the base uses
Inv_PartsKept == Rendered => /\ RangeOf(st.base.parts) \subseteq RangeOf(st.out.parts)
                             /\ Cardinality(NamesOf(RangeOf(st.out.parts))) = Len(st.out.parts)

\* rendering is a function of (base, data): the base is untouched and the history is irrelevant
Act_Pure == [][st'.phase = "rendered" =>
                 /\ st'.base = st.base
                 /\ \E form \in Forms : st'.out = IdealDoc(st.base, st'.d, form)]_vars
=============================================================================
