SPECIFICATION SpecMC
CONSTANTS
  KeyHasStart = TRUE
  ClampLevel = TRUE
  ND = 1
  OpNames = {"AddFootnoteToRun", "AddHeading", "AddStyledParagraph", "AutoGenerateTOC", "BuildTOCSDT", "GenerateTOC", "RemoveHeading", "Reopen", "SetTOCStyle", "UpdateTOC"}
  Types = {"bullet", "decimal"}
  Syms = {"dot"}
  NumSyms = {"empty"}
  LvlCodes = {1}
  Starts = {1}
  MLTypes = {"bullet", "decimal"}
  MLLvls = {0, 1}
  MLStarts = {1}
  MLLen = 1
  NTexts = {"note a"}
  Runs = {"heading"}
  Refs = {"bogus"}
  CfgFmts = {"lowerRoman"}
  CfgStarts = {0}
  Apis = {"para", "parabm"}
  HLvls = {1, 4}
  HTexts = {"", "Alpha"}
  Styles = {"Heading2"}
  MLs = {1, 3}
  TSLvls = {0, 1}
  Files = {FALSE}
  MaxK = 2
  Depth = 0
  MaxItems = 2
  MaxNotes = 1
  MaxHeads = 2
  MaxTocs = 1
  MaxAlloc = 1
INVARIANTS Inv_C15 Inv_Ids Inv_Idem
PROPERTIES Act_TOC Act_Notes Act_Frame
VIEW MCView
CHECK_DEADLOCK FALSE
