---------------------------- MODULE PageSet_MC ----------------------------
(***************************************************************************)
(* Exhaustive exploration (SpecMC) and behaviour generation (SpecGen) for   *)
(* PageSet.                                                                 *)
(*                                                                         *)
(* SpecMC : the reference machine over the pools of the chosen Scale; the  *)
(*          design-level statements of C12 are invariants / action         *)
(*          properties checked on EVERY (state, operation) pair.           *)
(* SpecGen: Mode "pairs": the first step installs one state of the pool    *)
(*          with a single SetPageSettings call, the following Depth-1      *)
(*          steps range over the whole operation pool -> one test of the   *)
(*          implementation per transition (and per pair of transitions)    *)
(*          of the reference machine.  Mode "seq": sequences from a new    *)
(*          document (BFS: all of them, -simulate: seeded random ones).    *)
(***************************************************************************)
EXTENDS PageSet, Json

CONSTANTS Scale,      \* 1 = smallest pools .. 3 = largest
          Mode,       \* "pairs" | "seq"
          Depth,      \* behaviour length for generation
          InstallAll  \* Mode "pairs": TRUE = install every state of StatePool; FALSE = every size, orientation and
                      \* grid with the rest (margins, distances, gutter) all default or all non-default

VARIABLES st, hist, shadow,
          last        \* SpecMC only: the call just made, whether it was accepted, a toggle (no step stutters)
vars == <<st, hist, shadow, last>>
MCView == <<st, hist, shadow>>   \* `last' is bookkeeping for the action properties, not part of the state

\* ---- pools (lengths in um) ----------------------------------------------
Sz(n, w, h) == [n |-> n, w |-> w, h |-> h]
StdPool == IF Scale = 1 THEN {"A4", "Letter"} ELSE IF Scale = 2 THEN {"A4", "Letter", "A3"} ELSE StdNames
CustomPool ==
  {Sz("Custom", 100000, 200000),      \* C1   tall
   Sz("Custom", 209600, 297300),      \* near A4 (0.4 / 0.3 mm): reported as A4
   Sz("Custom", 297000, 210000),      \* A4 given the other way round: NOT a predefined size in this orientation
   Sz("Custom", 12700, 12700)}        \* lower bound of the documented range
  \cup (IF Scale >= 2 THEN
   {Sz("Custom", 558800, 558800),     \* upper bound
    Sz("Custom", 208800, 297000)}     \* 1.2 mm from A4: stays custom
   ELSE {})
  \cup (IF Scale >= 3 THEN
   {Sz("Custom", 150000, 150000),     \* square
    Sz("Custom", 200000, 100000),     \* wide
    Sz("Custom", 216300, 279000),     \* near Letter
    Sz("Custom", 279400, 215900),     \* Letter the other way round
    Sz("Custom", 12700, 100000),      \* one dimension on the bound
    Sz("Custom", 100000, 558800),
    Sz("Custom", 148400, 209500)}     \* near A5
   ELSE {})
SizePool == {Sz(n, 0, 0) : n \in StdPool} \cup CustomPool
BadCustomPool ==
  {Sz("Custom", 0, 200000), Sz("Custom", 100000, -5000), Sz("Custom", 12600, 100000), Sz("Custom", 100000, 558900),
   Sz("Custom", 100000, 12699)}       \* 1 um below the bound: stored as the bound itself (class "bound-rounding")
  \cup (IF Scale >= 3 THEN {Sz("Custom", -1, -1), Sz("Custom", 100000, 0), Sz("Custom", 12680, 100000),
                            Sz("Custom", 558801, 100000), Sz("Custom", 558820, 100000),
                            Sz("Custom", 1000000, 1000000)} ELSE {})

Mar(t, r, b, l) == [mt |-> t, mr |-> r, mb |-> b, ml |-> l]
\* 17500 and 35000 um are not whole numbers of twips AND sit where a truncating conversion loses a twip on every rewrite
MarPool == {Mar(25400, 25400, 25400, 25400), Mar(10000, 17500, 30000, 35000)}
           \cup (IF Scale >= 3 THEN {Mar(0, 0, 0, 0)} ELSE {})
BadMarPool == {Mar(-1000, 20000, 30000, 40000), Mar(10000, 20000, 30000, -1)}
              \cup (IF Scale >= 3 THEN {Mar(10000, -20000, 30000, 40000), Mar(10000, 20000, -30000, 40000)} ELSE {})
Hf(a, b) == [hd |-> a, fd |-> b]
HfPool == {Hf(12700, 12700), Hf(17500, 15000)}
BadHfPool == {Hf(-1000, 15000), Hf(5000, -1)}
GutPool == {0, 5000}
BadGutPool == {-1000}
Gr(t, p, c) == [gt |-> t, gp |-> p, gc |-> c]
GridPool == {Gr("snapToChars", 400, 50), Gr("lines", 312, 0)}
            \cup (IF Scale >= 2 THEN {Gr("snapToLines", 360, 0)} ELSE {})
            \cup (IF Scale >= 3 THEN {Gr("default", 0, 0)} ELSE {})
NoGrid == Gr("none", 0, 0)
GridStatePool == GridPool \cup {NoGrid}
OpenGridPool == {Gr("lines", 312, -100)}
BadOrientPool == {"", "Landscape"}

\* every state that one SetPageSettings call can install in a new document
StatePool ==
  {[n |-> SizeOf(z.n, z.w, z.h).n, w |-> SizeOf(z.n, z.w, z.h).w, h |-> SizeOf(z.n, z.w, z.h).h, or |-> o,
    mt |-> m.mt, mr |-> m.mr, mb |-> m.mb, ml |-> m.ml, hd |-> d.hd, fd |-> d.fd, gut |-> g,
    gt |-> r.gt, gp |-> r.gp, gc |-> r.gc] :
      z \in SizePool, o \in Orients, m \in MarPool, d \in HfPool, g \in GutPool, r \in GridStatePool}

\* SetPageSettings with everything given
Full(z, o, m, d, g, r) ==
  [op |-> "SetPageSettings", isnil |-> FALSE, n |-> z.n, w |-> z.w, h |-> z.h, or |-> o,
   mt |-> m.mt, mr |-> m.mr, mb |-> m.mb, ml |-> m.ml, hd |-> d.hd, fd |-> d.fd, gut |-> g,
   gt |-> IF r.gt = "none" THEN "" ELSE r.gt, gp |-> r.gp, gc |-> r.gc]
M0 == Mar(25400, 25400, 25400, 25400)
M1 == Mar(10000, 17500, 30000, 35000)
D0 == Hf(12700, 12700)
D1 == Hf(17500, 15000)
G1 == Gr("snapToChars", 400, 50)
A4z == Sz("A4", 0, 0)

\* the calls that install the states of StatePool (first step of Mode "pairs")
InstallOps ==
  IF InstallAll
  THEN {Full(z, o, m, d, g, r) : z \in SizePool, o \in Orients, m \in MarPool, d \in HfPool,
                                 g \in GutPool, r \in GridStatePool}
  ELSE {Full(z, o, M0, D0, 0, r) : z \in SizePool, o \in Orients, r \in GridStatePool}
       \cup {Full(z, o, M1, D1, 5000, r) : z \in SizePool, o \in Orients, r \in GridStatePool}

\* SetPageSettings as an action: every size and orientation with two settings of the rest, the grid
\* named and not named, stray custom dimensions next to a predefined name, and the invalid / open classes
SettingsOps ==
     {Full(z, o, M1, D1, 5000, G1) : z \in SizePool, o \in Orients}
  \cup {Full(z, o, M0, D0, 0, NoGrid) : z \in SizePool, o \in Orients}
  \cup {Full(Sz("A4", 100000, 200000), "landscape", M1, D0, 0, NoGrid)}
  \cup {[op |-> "SetPageSettings", isnil |-> TRUE]}
  \cup {Full(z, "portrait", M1, D1, 5000, G1) : z \in BadCustomPool}
  \cup {Full(A4z, o, M1, D1, 5000, G1) : o \in BadOrientPool}
  \cup {Full(Sz("B5", 0, 0), "portrait", M1, D1, 5000, G1)}
  \cup {Full(A4z, "portrait", m, D1, 5000, G1) : m \in BadMarPool}
  \cup {Full(A4z, "portrait", M1, d, 5000, G1) : d \in BadHfPool}
  \cup {Full(A4z, "portrait", M1, D1, g, G1) : g \in BadGutPool}
  \cup {Full(A4z, "portrait", M1, D1, 5000, r) : r \in OpenGridPool}

ActionOps ==
     SettingsOps
  \cup {[op |-> "SetPageSize", n |-> n] : n \in StdPool \cup {"Custom", "B5"}}
  \cup {[op |-> "SetCustomPageSize", w |-> z.w, h |-> z.h] : z \in CustomPool \cup BadCustomPool}
  \cup {[op |-> "SetPageOrientation", or |-> o] : o \in Orients \cup BadOrientPool}
  \cup {[op |-> "SetPageMargins", mt |-> m.mt, mr |-> m.mr, mb |-> m.mb, ml |-> m.ml] : m \in MarPool \cup BadMarPool}
  \cup {[op |-> "SetHeaderFooterDistance", hd |-> d.hd, fd |-> d.fd] : d \in HfPool \cup BadHfPool}
  \cup {[op |-> "SetGutterWidth", gut |-> g] : g \in GutPool \cup BadGutPool}
  \cup {[op |-> "SetDocGrid", gt |-> r.gt, gp |-> r.gp, gc |-> r.gc] : r \in GridPool \cup OpenGridPool \cup {Gr("", 312, 0)}}
  \cup {[op |-> "ClearDocGrid"], [op |-> "GetPageSettings"], [op |-> "Reopen"], [op |-> "SetDefaultPageSettings"]}
  \cup (IF Scale >= 2 THEN {[op |-> n] : n \in Bystanders} ELSE {})

Init == /\ st = InitSt /\ hist = <<>> /\ shadow = InitSt
        /\ last = [op |-> [op |-> "none"], acc |-> TRUE, t |-> 0]

\* ---- exhaustive exploration of the reference machine ----------------------
\* (a request of an open class is explored both ways: accepted and rejected)
NextMC == \E op \in ActionOps, acc \in BOOLEAN :
            /\ Allowed(st, op, acc)
            /\ st' = Outcome(st, op, acc)
            /\ shadow' = IF acc THEN MostRecent(shadow, op) ELSE shadow
            /\ last' = [op |-> op, acc |-> acc, t |-> 1 - last.t]
            /\ hist' = hist
SpecMC == Init /\ [][NextMC]_vars

\* ---- generation -------------------------------------------------------------
OpsAt(k) == IF Mode = "pairs" /\ k = 1 THEN InstallOps ELSE ActionOps
NextGen == /\ Len(hist) < Depth
           /\ \E op \in OpsAt(Len(hist) + 1) :
                /\ st' = Step(st, op)
                /\ hist' = Append(hist, op)
                /\ UNCHANGED <<shadow, last>>
SpecGen == Init /\ [][NextGen]_vars
Emit == Len(hist) < Depth \/ PrintT(<<"WZCASE", ToJson(hist)>>)

\* ---- C12 at design level ----------------------------------------------------
\* every attribute has the value given by the most recent accepted call that named it, defaults otherwise
Inv_MostRecent == \A f \in Fields : st[f] = shadow[f]
\* every state reached through valid requests is one that a single SetPageSettings installs in a new
\* document, so Mode "pairs" tests the implementation on every one of them
Clean(s) == /\ s.mt >= 0 /\ s.mr >= 0 /\ s.mb >= 0 /\ s.ml >= 0 /\ s.hd >= 0 /\ s.fd >= 0 /\ s.gut >= 0 /\ s.gc >= 0
            /\ (s.n = "Custom" => ~OutOfRange(s.w, s.h))
Inv_Installable == Clean(st) => st \in StatePool
\* SpecMC explores onward only from states reached through valid requests (a CONSTRAINT): the outcome of an
\* accepted open-class request (a negative value) is generated and checked, but not used as a starting point
MCClean == Clean(st)
\* a predefined name always comes with dimensions within the recognition tolerance of that size
Inv_SizeNames == /\ st.n \in StdNames \cup {"Custom"}
                 /\ (st.n \in StdNames => AbsV(st.w - StdW(st.n)) < RecTol /\ AbsV(st.h - StdH(st.n)) < RecTol)
                 /\ (st.n = "Custom" => Recognise(st.w, st.h) = "Custom")
\* orientation is one of the two; custom dimensions stay inside the documented range
Inv_Range == /\ st.or \in Orients
             /\ (st.n = "Custom" => ~(TooSmall(st.w) \/ TooSmall(st.h) \/ TooLarge(st.w) \/ TooLarge(st.h)))
\* classification of the argument pools (it does not depend on the state, so it is checked once, as an
\* assumption, on the state of a new document and on the all-default state): documented-invalid requests
\* are rejected and change nothing, valid ones are accepted and read back as given, open ones go both ways
RequestsOK(s) ==
  \A op \in ActionOps :
     /\ ArgClass(op) \in {"valid", "grid-unnamed"} =>
          /\ Allowed(s, op, TRUE) /\ ~Allowed(s, op, FALSE)
          /\ \A f \in Named(op) : Apply(s, op)[f] = Given(op, f)
     /\ (ArgClass(op) \in InvalidClasses /\ ~Lenient(s, op)) =>
          /\ Allowed(s, op, FALSE) /\ ~Allowed(s, op, TRUE) /\ Outcome(s, op, FALSE) = s
     /\ Lenient(s, op) => Allowed(s, op, TRUE) /\ Allowed(s, op, FALSE)
\* every argument class the property speaks of occurs in the pool (non-vacuity of the classification)
ClassesCovered ==
  \A c \in InvalidClasses \cup OpenClasses \cup {"valid", "grid-unnamed"} : \E op \in ActionOps : ArgClass(op) = c
\* every operation occurs with valid arguments, every setter that documents invalid arguments also with those
\* (so none of the action properties below is vacuous for any operation)
OpsCovered ==
  /\ \A n \in Setters \cup Defaulter \cup ReadOnly : \E op \in ActionOps : op.op = n /\ ArgClass(op) = "valid"
  /\ \A n \in Setters \ {"ClearDocGrid", "SetPageSize"} : \E op \in ActionOps : op.op = n /\ Rejected(InitSt, op)
  /\ \E a, b \in StatePool : a.or # b.or /\ a.n = "Custom" /\ b.n = "Custom" /\ a.w # a.h
ASSUME RequestsOK(InitSt) /\ RequestsOK(DefaultSt) /\ ClassesCovered /\ OpsCovered

\* a rejected call changes nothing
Act_Rejected == [][~last'.acc => st' = st]_vars
\* an accepted call gives every attribute it names the value it was given ...
Act_ReadBack == [][last'.acc => LET nm == Named(last'.op) IN \A f \in nm : st'[f] = Given(last'.op, f)]_vars
\* ... and changes only what it names
Act_OnlyNamed == [][LET un == Fields \ Named(last'.op) IN \A f \in un : st'[f] = st[f]]_vars
\* margins / distances / gutter / grid calls never alter size or orientation (logical or physical)
NonSizeOps == {"SetPageMargins", "SetHeaderFooterDistance", "SetGutterWidth", "SetDocGrid", "ClearDocGrid"}
               \cup ReadOnly \cup Bystanders
Act_SizeKept ==
  [][last'.op.op \in NonSizeOps =>
        /\ <<st'.n, st'.w, st'.h, st'.or>> = <<st.n, st.w, st.h, st.or>>
        /\ Phys(st') = Phys(st)]_vars
\* changing orientation changes nothing else and swaps the physical dimensions exactly once
Act_Orientation ==
  [][last'.op.op = "SetPageOrientation" =>
        /\ \A f \in Fields \ {"or"} : st'[f] = st[f]
        /\ (st'.or # st.or => Phys(st') = Swap(Phys(st)))
        /\ (st'.or = st.or => Phys(st') = Phys(st))]_vars
\* choosing a size keeps the orientation: the physical page is the new size in the current orientation
Act_SizeKeepsOrientation ==
  [][last'.op.op \in {"SetPageSize", "SetCustomPageSize"} =>
        /\ st'.or = st.or
        /\ \A f \in Fields \ SizeFields : st'[f] = st[f]
        /\ Phys(st') = (IF st.or = "landscape" THEN <<st'.h, st'.w>> ELSE <<st'.w, st'.h>>)]_vars
=============================================================================
