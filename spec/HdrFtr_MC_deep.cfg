SPECIFICATION SpecMC
CONSTANTS
  MaxSteps = 4
  Depth = 0
  OpNames = {"AddHeader", "AddFooterWithPageNumber", "AddFormattedHeader", "SetDifferentFirstPage", "AddImage", "Reopen", "Render"}
  HfC = {"h", "f"}
  KindsC = {"default", "first"}
  TextC = {"var"}
  ShowC = {TRUE}
  FmtC = {"bold"}
  AlignC = {"center"}
  CfgNilC = {TRUE}
  PageC = {"SetPageMargins"}
  ViaC = {"mem", "word"}
  RViaC = {"doc"}
  DataC = {"def"}
  LastC = {}
  Design = "replace"
INVARIANTS Inv_C11 Inv_Wf
PROPERTIES Act_Current Act_Frame Act_Flags Act_Survive Act_Names
CHECK_DEADLOCK FALSE
