------------------------------- MODULE Iso_MC -------------------------------
(***************************************************************************)
(* Model checking and behaviour generation for Iso (property C07).         *)
(*                                                                         *)
(*  SpecMC        INTENDED design: every document owns its registry, no     *)
(*                shared variable.  Inv_Iso / Act_Iso / Inv_NoForeign hold. *)
(*  SpecBuiltSeq  AS BUILT, call granularity: one registry `glob` shared    *)
(*                by all documents.  Expected: Act_Iso and Inv_Iso are      *)
(*                VIOLATED (sequential leak); Inv_UniqueIds holds.          *)
(*  SpecBuiltSub  AS BUILT, registry updates split into read-counter /      *)
(*                write-counter / write-map / regenerate-part sub-steps.    *)
(*                Expected: Inv_UniqueIds is VIOLATED (duplicate id under   *)
(*                interleaving).                                            *)
(*  SpecGen       every call-level interleaving of per-document programs.   *)
(*  SpecGenSub    sub-step schedules of the as-built model in which the     *)
(*                model predicts a violation (replayed under the gate hook).*)
(***************************************************************************)
EXTENDS Iso, Json

CONSTANTS NDocs,     \* number of documents (named "d1", "d2", ...)
          OpSet,     \* operation names explored
          MaxLen,    \* bound on the length of a per-document program
          Depth      \* total number of calls of a generated schedule

DocSeq == [i \in 1..NDocs |-> "d" \o ToString(i)]
Docs == {DocSeq[i] : i \in DOMAIN DocSeq}
Ops  == OpsOver(OpSet)
NoOp == [op |-> "", a |-> ""]
Idle == [at |-> "idle", o |-> NoOp, id |-> 0, aid |-> 0]

VARIABLES doc,     \* d -> [L, R]      (R is used only in the intended variant)
          glob,    \* the process-wide registry (used only in the as-built variants)
          ref,     \* d -> F(history of d): the reference state, folded incrementally
          act,     \* the document that took the last step
          pc,      \* d -> progress inside a registry call (as-built sub-step variant)
          sched,   \* history of the schedule (generation only)
          shared   \* TRUE in the as-built variants: views read `glob`
vars == <<doc, glob, ref, act, pc, sched, shared>>

RegOfD(d)  == IF shared THEN glob ELSE doc[d].R
ViewOf(d)  == View(doc[d].L, RegOfD(d), d)
RefView(d) == View(ref[d].L, ref[d].R, d)
IdleD(d)   == pc[d].at = "idle"

InitCommon == /\ doc = [d \in Docs |-> InitDoc] /\ glob = InitReg /\ ref = [d \in Docs |-> InitDoc]
              /\ act = "none" /\ pc = [d \in Docs |-> Idle] /\ sched = <<>>
InitI == InitCommon /\ shared = FALSE
InitB == InitCommon /\ shared = TRUE

\* ---- intended: the call touches the caller's own document only ------------
I_Step(d, o) ==
  /\ doc' = [doc EXCEPT ![d] = ApplyDoc(doc[d], d, o)]
  /\ ref' = [ref EXCEPT ![d] = ApplyDoc(ref[d], d, o)]
  /\ act' = d
  /\ UNCHANGED <<glob, pc, shared>>

\* ---- as built, whole call atomic ------------------------------------------
B_Step(d, o) ==
  /\ IdleD(d)
  /\ glob' = RegApply(glob, d, o)
  /\ doc' = [doc EXCEPT ![d].L = LocApply(doc[d].L, glob, glob', d, o)]
  /\ ref' = [ref EXCEPT ![d] = ApplyDoc(ref[d], d, o)]
  /\ act' = d
  /\ UNCHANGED <<pc, shared>>

\* ---- as built, registry calls in sub-steps --------------------------------
IsFn(o) == o.op = "AddFootnote"
B_Begin(d, o) ==
  /\ IdleD(d) /\ o.op \in SubOps
  /\ act' = d
  /\ UNCHANGED <<glob, ref, shared>>
  /\ IF o.op = "AddListItem"
     THEN /\ doc' = [doc EXCEPT ![d].L.numHas = TRUE]
          /\ pc' = [pc EXCEPT ![d] =
                IF HasKey(glob.abs, KeyOf(o.a))
                THEN [at |-> "numinc", o |-> o, id |-> glob.numNext, aid |-> AbsIdOfKey(glob.abs, KeyOf(o.a))]
                ELSE [at |-> "absinc", o |-> o, id |-> 0, aid |-> glob.absNext]]
     ELSE /\ doc' = IF IsFn(o) THEN [doc EXCEPT ![d].L.fnHas = TRUE] ELSE [doc EXCEPT ![d].L.enHas = TRUE]
          /\ pc' = [pc EXCEPT ![d] = [at |-> "inc", o |-> o, aid |-> 0,
                                      id |-> IF IsFn(o) THEN glob.fnNext ELSE glob.enNext]]

B_Cont(d) ==
  LET p == pc[d]  o == p.o  L == doc[d].L IN
  /\ ~IdleD(d)
  /\ act' = d
  /\ shared' = shared
  /\ CASE p.at = "inc" ->      \* write the counter, append the reference paragraph
            /\ glob' = IF IsFn(o) THEN [glob EXCEPT !.fnNext = @ + 1] ELSE [glob EXCEPT !.enNext = @ + 1]
            /\ doc' = IF IsFn(o) THEN [doc EXCEPT ![d].L.nbody = @ + 1, ![d].L.fnRef = Append(@, p.id)]
                                 ELSE [doc EXCEPT ![d].L.nbody = @ + 1, ![d].L.enRef = Append(@, p.id)]
            /\ pc' = [pc EXCEPT ![d].at = "store"]
            /\ ref' = ref
       [] p.at = "store" ->    \* write the map
            /\ glob' = IF IsFn(o) THEN [glob EXCEPT !.fn = StoreId(@, [id |-> p.id, own |-> d])]
                                  ELSE [glob EXCEPT !.en = StoreId(@, [id |-> p.id, own |-> d])]
            /\ pc' = [pc EXCEPT ![d].at = "regen"]
            /\ UNCHANGED <<doc, ref>>
       [] p.at = "regen" ->    \* iterate the map into the document's part; the call returns
            /\ doc' = IF IsFn(o) THEN [doc EXCEPT ![d].L.fnPart = glob.fn, ![d].L.n = @ + 1]
                                 ELSE [doc EXCEPT ![d].L.enPart = glob.en, ![d].L.n = @ + 1]
            /\ pc' = [pc EXCEPT ![d] = Idle]
            /\ ref' = [ref EXCEPT ![d] = ApplyDoc(ref[d], d, o)]
            /\ glob' = glob
       [] p.at = "absinc" ->   \* write the abstract counter and map, read the instance counter
            /\ glob' = [glob EXCEPT !.absNext = @ + 1,
                                    !.abs = StoreKey(@, [key |-> KeyOf(o.a), id |-> p.aid, start |-> StartOf(o.a), own |-> d])]
            /\ pc' = [pc EXCEPT ![d].at = "numinc", ![d].id = glob.numNext]
            /\ UNCHANGED <<doc, ref>>
       [] p.at = "numinc" ->
            /\ glob' = [glob EXCEPT !.numNext = @ + 1]
            /\ pc' = [pc EXCEPT ![d].at = "numstore"]
            /\ UNCHANGED <<doc, ref>>
       [] p.at = "numstore" ->
            /\ glob' = [glob EXCEPT !.nums = StoreId(@, [id |-> p.id, abs |-> p.aid, own |-> d])]
            /\ pc' = [pc EXCEPT ![d].at = "numregen"]
            /\ UNCHANGED <<doc, ref>>
       [] p.at = "numregen" ->
            /\ doc' = [doc EXCEPT ![d].L.numPart = [abs |-> glob.abs, nums |-> glob.nums],
                                  ![d].L.numRef = Append(@, p.id), ![d].L.nbody = @ + 1, ![d].L.n = @ + 1]
            /\ pc' = [pc EXCEPT ![d] = Idle]
            /\ ref' = [ref EXCEPT ![d] = ApplyDoc(ref[d], d, o)]
            /\ glob' = glob

\* ---- exhaustive checking ---------------------------------------------------
Room(d) == doc[d].L.n < MaxLen
NextMC       == \E d \in Docs, o \in Ops : Room(d) /\ I_Step(d, o) /\ sched' = sched
NextBuiltSeq == \E d \in Docs, o \in Ops : Room(d) /\ B_Step(d, o) /\ sched' = sched
NextBuiltSub == \E d \in Docs :
                  \/ \E o \in Ops : Room(d) /\ o.op \in SubOps /\ B_Begin(d, o) /\ sched' = sched
                  \/ \E o \in Ops : Room(d) /\ o.op \notin SubOps /\ B_Step(d, o) /\ sched' = sched
                  \/ B_Cont(d) /\ sched' = sched
SpecMC       == InitI /\ [][NextMC]_vars
SpecBuiltSeq == InitB /\ [][NextBuiltSeq]_vars
SpecBuiltSub == InitB /\ [][NextBuiltSub]_vars

\* C07 at design level
\* what is observable of a document is a function of the calls made on it
Inv_Iso == \A d \in Docs : IdleD(d) => ViewOf(d) = RefView(d)
\* a step of one document leaves every other document's observable state unchanged
Act_Iso == [][\A d \in Docs : (act' # d /\ IdleD(d)) => ViewOf(d)' = ViewOf(d)]_vars
Inv_NoForeign == \A d \in Docs : IdleD(d) => NoForeign(ViewOf(d))
\* one registry never hands the same id to two documents (holds as built at call granularity only)
RefIds(d) == [fn |-> {doc[d].L.fnRef[i] : i \in DOMAIN doc[d].L.fnRef},
              en |-> {doc[d].L.enRef[i] : i \in DOMAIN doc[d].L.enRef},
              num |-> {doc[d].L.numRef[i] : i \in DOMAIN doc[d].L.numRef}]
Inv_UniqueIds == shared => \A d, e \in Docs : d # e =>
                   /\ RefIds(d).fn \cap RefIds(e).fn = {}
                   /\ RefIds(d).en \cap RefIds(e).en = {}
                   /\ RefIds(d).num \cap RefIds(e).num = {}

\* ---- generation -------------------------------------------------------------
Started(d) == doc[d].L.n > 0 \/ ~IdleD(d)
\* documents are interchangeable: they take their first step in the order of DocSeq
CanStart(d) == \A i \in DOMAIN DocSeq : (DocSeq[i] = d /\ i > 1) => Started(DocSeq[i - 1])
Calls == LET S[i \in 0..Len(DocSeq)] == IF i = 0 THEN 0 ELSE S[i - 1] + doc[DocSeq[i]].L.n
                                           + (IF IdleD(DocSeq[i]) THEN 0 ELSE 1)
         IN S[Len(DocSeq)]
Ent(d, o, s) == [d |-> d, op |-> o.op, a |-> o.a, sub |-> s]

NextGen == /\ Len(sched) < Depth
           /\ \E d \in Docs, o \in Ops :
                /\ Room(d) /\ CanStart(d)
                /\ I_Step(d, o)
                /\ sched' = Append(sched, Ent(d, o, "call"))
SpecGen == InitI /\ [][NextGen]_vars
\* a schedule in which only one document acts says nothing about isolation
AllStarted == \A d \in Docs : Started(d)
Emit == Len(sched) < Depth \/ ~AllStarted \/ PrintT(<<"WZCASE", ToJson(sched)>>)

NextGenSub ==
  \E d \in Docs :
     \/ \E o \in Ops : /\ Calls < Depth /\ Room(d) /\ CanStart(d) /\ o.op \in SubOps
                       /\ B_Begin(d, o) /\ sched' = Append(sched, Ent(d, o, "begin"))
     \/ \E o \in Ops : /\ Calls < Depth /\ Room(d) /\ CanStart(d) /\ o.op \notin SubOps
                       /\ B_Step(d, o) /\ sched' = Append(sched, Ent(d, o, "call"))
     \/ B_Cont(d) /\ sched' = Append(sched, Ent(d, pc[d].o, "cont"))
SpecGenSub == InitB /\ [][NextGenSub]_vars
Complete == Calls = Depth /\ \A d \in Docs : IdleD(d)
\* sequential leaks are covered by SpecGen; here only the schedules are emitted in which the
\* as-built model predicts a defect that needs an interleaving inside a call: a duplicate id
Bad == ~Inv_UniqueIds
EmitSub == ~(Complete /\ Bad /\ AllStarted) \/ PrintT(<<"WZCASE", ToJson(sched)>>)
\* emitted regardless of the model's prediction (used for simulation of long schedules)
EmitSubAll == ~(Complete /\ AllStarted) \/ PrintT(<<"WZCASE", ToJson(sched)>>)
=============================================================================
