SPECIFICATION TSpec
CONSTANTS
  KeyHasStart = TRUE
  ClampLevel = TRUE
CHECK_DEADLOCK FALSE
