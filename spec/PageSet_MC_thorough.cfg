SPECIFICATION SpecMC
CONSTANTS
  Scale = 3
  Mode = "seq"
  Depth = 0
  InstallAll = TRUE
INVARIANTS Inv_MostRecent Inv_Installable Inv_SizeNames Inv_Range
PROPERTIES Act_Rejected Act_ReadBack Act_OnlyNamed Act_SizeKept Act_Orientation Act_SizeKeepsOrientation
VIEW MCView
CONSTRAINT MCClean
CHECK_DEADLOCK FALSE
