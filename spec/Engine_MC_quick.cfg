SPECIFICATION SpecMC
CONSTANTS
  Variant = "ref"
  Loadables <- PoolQuick
  OpKinds = {"Load", "Render", "Get", "Validate", "Remove", "Clear", "SetBasePath"}
  MaxLoads = 4
  Depth = 0
INVARIANTS Inv_ShowsPure Inv_RenderPure Inv_CacheAgree
PROPERTIES Act_Local Act_ReadersPure Act_ValuesImmutable
CHECK_DEADLOCK FALSE
