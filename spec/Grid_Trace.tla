----------------------------- MODULE Grid_Trace -----------------------------
(***************************************************************************)
(* Judge of observed steps of the real library against Grid (C09).         *)
(* Each line of the trace is                                                *)
(*   [ev |-> "reset", case |-> n]                                          *)
(*   [ev |-> "step", case |-> n, op |-> <op record>, ret |-> STRING,       *)
(*    b |-> table before, a |-> table after,         (projections)         *)
(*    rd |-> [it, fe, fc, gr, gt, fr, pr : [ret, cells]], (ReadAll only)   *)
(*    cp |-> [o0, o1, c0, c1 : STRING],              (CopyTable only)      *)
(*    sv |-> [ret, tbl]]      (optional: the serialised w:tbl, last step)   *)
(* Every step carries the projection of the table before the call, so the   *)
(* judge is resynchronised on the observed state by construction and never  *)
(* blocks; identical steps may have been removed by the driver (the         *)
(* judgement is a function of the line).                                    *)
(***************************************************************************)
EXTENDS Grid, Json, IOUtils

Trace == ndJsonDeserialize(IOEnv.WZ_OBS)

VARIABLES l, wit
tvars == <<l, wit>>

AddWit(w, sigs, c) == w \cup {[sig |-> s, case |-> c] : s \in {x \in sigs : ~\E r \in w : r.sig = x}}

Judge(e) ==
  \* a construction is named by its entry point and classified by its arguments (there is no table before it)
  \* a formatting call is named by the call itself
  LET name == IF e.op.op = "Create" THEN "Create:" \o e.op.via
              ELSE IF e.op.op \in {"CellFmt", "TblFmt"} /\ "f" \in DOMAIN e.op THEN e.op.f ELSE e.op.op
      sh == IF e.op.op = "Create" THEN CreateClass(e.op) ELSE ShapeClass(e.b)
  IN  {<<"C09", name, sh, f>> : f \in Viol_Step(e.b, e.op, e.ret, e.a)}
      \cup (IF name = "ReadAll" /\ e.ret # "panic" THEN
               {<<"C09", "Iterator", sh, f>> : f \in Viol_Read(e.b, e.rd.it)}
               \cup {<<"C09", "ForEach", sh, f>> : f \in Viol_Read(e.b, e.rd.fe)}
               \cup {<<"C09", "FindCells", sh, f>> : f \in Viol_Read(e.b, e.rd.fc)}
               \cup {<<"C09", "GetCellText", sh, f>> : f \in Viol_Read(e.b, e.rd.gt)}
               \cup {<<"C09", "ForEachInRow", sh, f>> :
                       f \in (IF IsPlain(e.b) THEN Viol_Read(e.b, e.rd.fr)
                              ELSE Viol_Read(e.b, e.rd.fr) \cap {"panic"})}
               \* the remaining read accessors (cell, row and table getters, column traversal, text search), with indexes
               \* from -1 to n: whatever they return, they return
               \cup {<<"C09", "Getters", sh, f>> : f \in Viol_Read(e.b, e.rd.pr) \cap {"panic"}}
               \cup {<<"C09", "GetCellRange", sh, f>> :
                       f \in (IF IsPlain(e.b) THEN Viol_Read(e.b, e.rd.gr)
                              ELSE Viol_Read(e.b, e.rd.gr) \cap {"panic"})}
            ELSE {})
      \* the serialised table (projected by the independent reader) is the table in memory
      \cup (IF "sv" \in DOMAIN e /\ name # "Start" /\ e.ret # "panic"
            THEN (IF e.sv.ret # "ok" THEN {<<"C09", "Save", sh, "save-error">>}
                  ELSE IF e.sv.tbl # e.a THEN {<<"C09", "Save", sh, "save-mismatch">>} ELSE {})
            ELSE {})
      \cup (IF name = "CopyTable" /\ e.ret = "ok" /\ (e.cp.o0 # e.cp.o1 \/ e.cp.c0 # e.cp.c1)
            THEN {<<"C09", "CopyTable", sh, "shared-state">>} ELSE {})

TInit == l = 1 /\ wit = {}

TReset == /\ l <= Len(Trace) /\ Trace[l].ev = "reset"
          /\ wit' = wit /\ l' = l + 1

TStep == /\ l <= Len(Trace) /\ Trace[l].ev = "step"
         /\ LET e == Trace[l] IN wit' = AddWit(wit, Judge(e), e.case)
         /\ l' = l + 1

TDone == /\ l = Len(Trace) + 1
         /\ PrintT(<<"WZDONE", l - 1, ToJson(wit)>>)
         /\ l' = l + 1 /\ UNCHANGED wit

TNext == TReset \/ TStep \/ TDone
TSpec == TInit /\ [][TNext]_tvars
=============================================================================
