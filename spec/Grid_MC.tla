------------------------------ MODULE Grid_MC ------------------------------
(***************************************************************************)
(* Exhaustive exploration of the reference grid machine (SpecMC) and       *)
(* behaviour generation (SpecGen) for property C09.                        *)
(*                                                                         *)
(* Generation modes (chosen by the cfg):                                   *)
(*   histories : no VIEW, INVARIANT Emit      - every op sequence of       *)
(*               length Depth after a Start, exactly once (BFS), or seeded *)
(*               random long ones (-simulate)                               *)
(*   graph     : VIEW GView, INVARIANT EmitAll - every distinct transition *)
(*               (table shape, operation) of the reference state graph     *)
(*               within Depth operations of a Start, once, with a shortest *)
(*               history leading to it                                      *)
(***************************************************************************)
EXTENDS Grid, Json

CONSTANTS Starts,     \* start table ids
          Creates,    \* constructions offered as first operation: "none" | "core" | "all"
          OpNames,    \* operation names explored
          Depth,      \* operations after Start
          Slack,      \* positions range over -1 .. n + Slack
          PairMode,   \* "all": every (a,b) of positions; "core": representative ranges
          CellMode,   \* "all": every (r,c) in -1..n ; "core": in-range cells + one beyond each edge
          MaxR, MaxC, MaxP, MaxTok,  \* bounds for SpecMC only
          MaxLevel                   \* SpecMC explores transitions out of states at most MaxLevel-1 steps from Init

VARIABLES st,    \* [tbl, nxt]   reference table, next fresh content token
          pre,   \* table before the last operation
          hist,  \* operations so far (generation only)
          bad    \* model checking only: witness classes of the last transition of the reference machine
vars == <<st, pre, hist, bad>>

Tok(n, k) == [i \in 1..k |-> n + i - 1]
PosD(n) == -1..(n + Slack)
IdxD(n) == -1..n
PairsD(n) ==
  IF PairMode = "all" THEN PosD(n) \X PosD(n)
  ELSE {<<0, 0>>, <<0, 1>>, <<0, n - 1>>, <<1, n - 1>>, <<-1, 0>>, <<0, n>>, <<1, 0>>}
CellsD(t) ==
  IF CellMode = "all" THEN IdxD(NR(t)) \X IdxD(MaxCells(t))
  ELSE {<<p[1] - 1, p[2] - 1>> : p \in Pos(t)}
       \cup {<<-1, 0>>, <<0, -1>>, <<NR(t), 0>>, <<0, NC0(t)>>, <<NR(t) - 1, MaxCells(t) - 1>>}
\* cells that take part in a merge (they carry the markers a cell-level call must not disturb)
MarkedCells(t) == {<<p[1] - 1, p[2] - 1>> : p \in {p \in Pos(t) : t.rows[p[1]][p[2]].vm # "none" \/ t.rows[p[1]][p[2]].span # 1}}
FewCells(t) == {<<0, 0>>, <<NR(t) - 1, MaxCells(t) - 1>>, <<0, NC0(t)>>, <<NR(t) - 1, 0>>} \cup MarkedCells(t)
Width(t) == IF t.gc > MaxCells(t) THEN t.gc ELSE MaxCells(t)

On(n) == n \in OpNames

OpsOf(s) ==
  LET t == s.tbl
      n == s.nxt
      nr == NR(t)
      w == Width(t)
      c0 == NC0(t)
  IN
     (IF On("InsertRow") THEN
         {[op |-> "InsertRow", pos |-> p, data |-> Tok(n, c0)] : p \in PosD(nr)}
         \cup {[op |-> "InsertRow", pos |-> 0, data |-> Tok(n, k)] : k \in {1, c0 + 1}} ELSE {})
  \cup (IF On("AppendRow") THEN {[op |-> "AppendRow", data |-> Tok(n, k)] : k \in {c0, c0 + 1}} ELSE {})
  \cup (IF On("DeleteRow") THEN {[op |-> "DeleteRow", i |-> i] : i \in PosD(nr)} ELSE {})
  \cup (IF On("DeleteRows") THEN {[op |-> "DeleteRows", a |-> p[1], b |-> p[2]] : p \in PairsD(nr)} ELSE {})
  \cup (IF On("InsertColumn") THEN
         {[op |-> "InsertColumn", pos |-> p, data |-> Tok(n, nr)] : p \in PosD(w)}
         \cup {[op |-> "InsertColumn", pos |-> 0, data |-> Tok(n, k)] : k \in {1, nr + 1}} ELSE {})
  \cup (IF On("AppendColumn") THEN {[op |-> "AppendColumn", data |-> Tok(n, k)] : k \in {nr, nr + 1}} ELSE {})
  \cup (IF On("DeleteColumn") THEN {[op |-> "DeleteColumn", i |-> i] : i \in PosD(w)} ELSE {})
  \cup (IF On("DeleteColumns") THEN {[op |-> "DeleteColumns", a |-> p[1], b |-> p[2]] : p \in PairsD(w)} ELSE {})
  \cup (IF On("SetCellText") THEN {[op |-> "SetCellText", r |-> p[1], c |-> p[2], tok |-> n] : p \in CellsD(t)} ELSE {})
  \cup UNION {IF On(o) THEN {[op |-> o, r |-> p[1], c |-> p[2], tok |-> n] : p \in (IF CellMode = "all" THEN CellsD(t) ELSE FewCells(t))} ELSE {}
              : o \in CellOps \ {"SetCellText", "CellFmt", "AddNestedTable"}}
  \cup (IF On("AddNestedTable") THEN
         {[op |-> "AddNestedTable", cfg |-> "ok", r |-> p[1], c |-> p[2], tok |-> n] : p \in (IF CellMode = "all" THEN CellsD(t) ELSE FewCells(t))}
         \cup {[op |-> "AddNestedTable", cfg |-> k, r |-> 0, c |-> 0, tok |-> n] : k \in NestCfgs} ELSE {})
  \cup (IF On("CellFmt") THEN
         {[op |-> "CellFmt", f |-> f, r |-> p[1], c |-> p[2], tok |-> n] :
            f \in FmtKinds, p \in (IF CellMode = "all" THEN CellsD(t) ELSE FewCells(t))} ELSE {})
  \cup (IF On("MergeCellsHorizontal") THEN
         {[op |-> "MergeCellsHorizontal", r |-> r, a |-> p[1], b |-> p[2]] : r \in IdxD(nr), p \in PairsD(w)} ELSE {})
  \cup (IF On("MergeCellsVertical") THEN
         {[op |-> "MergeCellsVertical", a |-> p[1], b |-> p[2], c |-> c] : p \in PairsD(nr), c \in IdxD(w)} ELSE {})
  \cup (IF On("MergeCellsRange") THEN
         {[op |-> "MergeCellsRange", sr |-> p[1], er |-> p[2], sc |-> q[1], ec |-> q[2]] : p \in PairsD(nr), q \in PairsD(w)} ELSE {})
  \cup (IF On("UnmergeCells") THEN {[op |-> "UnmergeCells", r |-> p[1], c |-> p[2]] : p \in CellsD(t)} ELSE {})
  \cup {[op |-> o] : o \in OpNames \cap {"ClearTable", "CopyTable", "ReadAll", "RowFmt"}}
  \cup (IF On("TblFmt") THEN {[op |-> "TblFmt", f |-> f] : f \in TblFmtKinds} ELSE {})

\* ---- constructions: every entry point, dimensions from -1, fewer / as many / more column widths than
\* columns, initial contents absent / exact / smaller / larger than the table
CGrid(cls, r, c) ==
  LET rr == IF r < 0 THEN 0 ELSE r
      cc == IF c < 0 THEN 0 ELSE c
  IN CASE cls = "none"  -> <<>>
       [] cls = "full"  -> [i \in 1..rr |-> [j \in 1..cc |-> (i - 1) * cc + j]]
       [] cls = "short" -> [i \in 1..(IF rr > 1 THEN rr - 1 ELSE rr) |->
                              [j \in 1..(IF i = 1 /\ cc > 1 THEN cc - 1 ELSE cc) |-> (i - 1) * cc + j]]
       [] cls = "over"  -> [i \in 1..(rr + 1) |-> [j \in 1..(cc + 1) |-> (i - 1) * (cc + 1) + j]]
WidthsD(c) == {n \in {0, c - 1, c, c + 1, c + 2} : n >= 0}
CreateOps ==
  IF Creates = "none" THEN {}
  ELSE IF Creates = "all" THEN
    {o \in {[op |-> "Create", via |-> v, rows |-> r, cols |-> c, nw |-> n, grid |-> CGrid(g, r, c)] :
               v \in CreateVias, r \in -1..3, c \in -1..3, n \in 0..5, g \in {"none", "full", "short", "over"}} :
       o.nw \in WidthsD(o.cols)}
  ELSE \* "core": one table shape, every entry point and width class, contents exact / larger
    {[op |-> "Create", via |-> v, rows |-> 3, cols |-> 2, nw |-> n, grid |-> CGrid(g, 3, 2)] :
        v \in CreateVias, n \in WidthsD(2), g \in {"full", "over"}}
    \cup {[op |-> "Create", via |-> v, rows |-> d[1], cols |-> d[2], nw |-> 0, grid |-> <<>>] :
            v \in CreateVias, d \in {<<0, 2>>, <<2, 0>>}}
StartOps == {[op |-> "Start", k |-> k] : k \in Starts} \cup CreateOps

NextTok(s, op) ==
  IF op.op = "Start" THEN StartToks(op.k) + 1
  ELSE LET N == NewToks(op) IN IF N = {} THEN s.nxt ELSE MaxOf(N \cup {s.nxt - 1}) + 1
Step(s, op) == [tbl |-> Apply(s.tbl, op), nxt |-> NextTok(s, op)]

Init == st = [tbl |-> EmptyTbl, nxt |-> 1] /\ pre = EmptyTbl /\ hist = <<>> /\ bad = {}

\* ---- exhaustive model checking of the reference machine ---------------------
Bounded(s) ==
  /\ NR(s.tbl) <= MaxR /\ s.tbl.gc <= MaxC /\ s.nxt <= MaxTok
  /\ \A p \in Pos(s.tbl) : s.tbl.rows[p[1]][p[2]].np <= MaxP /\ s.tbl.rows[p[1]][p[2]].nn <= 1
\* witness classes of one transition of the reference machine: the relation the property
\* states (new ill-formedness, Preserved) plus "an invalid call changes nothing"
RefViol(t, op) ==
  Viol_Step(t, op, Ret(t, op), Apply(t, op))
  \cup (IF ~Valid(t, op) /\ Apply(t, op) # t THEN {"changed-on-error"} ELSE {})
NextMC ==
  /\ \E op \in (IF NR(st.tbl) = 0 THEN StartOps ELSE OpsOf(st)) :
        /\ Bounded(Step(st, op))
        /\ st' = Step(st, op)
        /\ bad' = RefViol(st.tbl, op)
  /\ pre' = pre
  /\ hist' = hist
SpecMC == Init /\ [][NextMC]_vars
LevelBound == TLCGet("level") <= MaxLevel

\* the reference design keeps every table a well-formed grid ...
Inv_WF == WellFormed(st.tbl) \/ NR(st.tbl) = 0
\* ... content tokens stay unique ...
Inv_Uniq == \A k \in TokSet(st.tbl) : Cardinality(Occ(st.tbl, k)) = 1
\* ... and every transition of it satisfies the relation the property states (in particular
\* Preserved: untargeted contents exactly once, same relative order, same paragraphs);
\* `bad` is computed for every transition and is part of the VIEW, so no transition escapes
Inv_Relation == bad = {}
\* a full traversal of the reference table sees each content token exactly once
Inv_Read == LET cs == CellsOf(st.tbl) IN Len(cs) = Cardinality(Pos(st.tbl))

\* ---- generation --------------------------------------------------------------
NextGen ==
  /\ Len(hist) <= Depth
  /\ \E op \in (IF hist = <<>> THEN StartOps ELSE IF NR(st.tbl) = 0 THEN {} ELSE OpsOf(st)) :
        /\ st' = Step(st, op)
        /\ hist' = Append(hist, op)
  /\ pre' = st.tbl /\ bad' = bad
SpecGen == Init /\ [][NextGen]_vars

\* a refused construction leaves no table: the behaviour ends there and is emitted as it is
Ended == hist # <<>> /\ NR(st.tbl) = 0
Emit == (Len(hist) <= Depth /\ ~Ended) \/ PrintT(<<"WZCASE", ToJson(hist)>>)
EmitAll == (Len(hist) <= 1 /\ ~Ended) \/ PrintT(<<"WZCASE", ToJson(hist)>>)

\* graph mode: identify states by (shape before the last op, last op), content tokens abstracted
ShapeOf(t) == [gc |-> t.gc,
               rows |-> [i \in 1..NR(t) |-> [j \in 1..Len(t.rows[i]) |->
                          [t.rows[i][j] EXCEPT !.tok = IF t.rows[i][j].tok = 0 THEN 0 ELSE 1]]]]
OpShape(op) ==
  IF op.op \in {"InsertRow", "AppendRow", "InsertColumn", "AppendColumn"} THEN [op EXCEPT !.data = Len(op.data)]
  ELSE IF op.op \in CellOps THEN [op EXCEPT !.tok = 0]
  ELSE IF op.op = "Create" THEN [op EXCEPT !.grid = [i \in 1..Len(op.grid) |-> Len(op.grid[i])]]
  ELSE op
\* (the start table id is kept: a reopened table has the shape of the one built through the API)
StartId(op) == IF op.op = "Start" THEN op.k ELSE op.via
GView == <<IF hist = <<>> THEN "none" ELSE StartId(hist[1]), ShapeOf(pre),
           IF hist = <<>> THEN [op |-> "none"] ELSE OpShape(hist[Len(hist)])>>
MCView == <<ShapeOf(st.tbl), bad>>
=============================================================================
