------------------------------ MODULE PageSet ------------------------------
(***************************************************************************)
(* Pure (variable-free) specification of the page settings of a document   *)
(* (property C12).                                                         *)
(*                                                                         *)
(* Units: every length of the abstract state and of the accessor view is   *)
(* in micrometres (1 mm = 1000); the saved sectPr carries twips            *)
(* (1 twip = 1/1440 inch = 25400/1440 um).                                 *)
(*                                                                         *)
(* Abstract state (a flat record)                                          *)
(*   n        name of the size: a predefined name or "Custom"              *)
(*   w, h     LOGICAL page dimensions (as given by the call that named the *)
(*            size; the nominal ones for a predefined size).  The physical *)
(*            page (w:pgSz) is (w,h) in portrait and (h,w) in landscape.   *)
(*   or       "portrait" | "landscape"                                     *)
(*   mt mr mb ml   margins;  hd fd  header/footer distance;  gut  gutter   *)
(*   gt gp gc      document grid type / line pitch / char space;           *)
(*                 gt = "none": no grid element (reads back as the default)*)
(* An operation is a record [op |-> name, ...args].                        *)
(***************************************************************************)
EXTENDS Integers, Sequences, FiniteSets, TLC

StdNames == {"A4", "Letter", "Legal", "A3", "A5"}
StdW(n) == CASE n = "A4" -> 210000 [] n = "Letter" -> 215900 [] n = "Legal" -> 215900
             [] n = "A3" -> 297000 [] n = "A5" -> 148000 [] OTHER -> 0
StdH(n) == CASE n = "A4" -> 297000 [] n = "Letter" -> 279400 [] n = "Legal" -> 355600
             [] n = "A3" -> 420000 [] n = "A5" -> 210000 [] OTHER -> 0
Orients == {"portrait", "landscape"}

MinDim == 12700      \* documented range of a custom dimension: 12.7 mm .. 558.8 mm
MaxDim == 558800
RecTol == 1000       \* a custom size closer than 1 mm (both ways) to a predefined one is that one
TwipNum == 25400     \* 1 twip = TwipNum / TwipDen um
TwipDen == 1440
GetTol == 18         \* 1 twip (17.64 um) + rounding of the logged value to 1 um

AbsV(x) == IF x < 0 THEN 0 - x ELSE x

InitSt == [n |-> "A4", w |-> 210000, h |-> 297000, or |-> "portrait",
           mt |-> 25400, mr |-> 25400, mb |-> 25400, ml |-> 25400,
           hd |-> 12700, fd |-> 12700, gut |-> 0,
           gt |-> "none", gp |-> 0, gc |-> 0]
Fields == DOMAIN InitSt
SizeFields == {"n", "w", "h"}
MarFields  == {"mt", "mr", "mb", "ml"}
HfFields   == {"hd", "fd"}
GridFields == {"gt", "gp", "gc"}

\* what a reader is told about the grid (no grid element = the documented default)
ReadGrid(t, p, c) == IF t = "none" THEN <<"lines", 312, 0>> ELSE <<t, p, c>>

\* ---- sizes --------------------------------------------------------------
Recognise(w, h) ==
  LET M == {n \in StdNames : AbsV(w - StdW(n)) < RecTol /\ AbsV(h - StdH(n)) < RecTol}
  IN IF M = {} THEN "Custom" ELSE CHOOSE n \in M : TRUE

\* the size named by (name, custom width, custom height)
SizeOf(n, w, h) ==
  IF n \in StdNames THEN [n |-> n, w |-> StdW(n), h |-> StdH(n)]
  ELSE IF n = "Custom" THEN [n |-> Recognise(w, h), w |-> w, h |-> h]
  ELSE [n |-> "A4", w |-> StdW("A4"), h |-> StdH("A4")]   \* documented fallback for a name that is not predefined

Phys(s) == IF s.or = "landscape" THEN <<s.h, s.w>> ELSE <<s.w, s.h>>
Swap(p) == <<p[2], p[1]>>

OutOfRange(w, h) == w < MinDim \/ w > MaxDim \/ h < MinDim \/ h > MaxDim
\* outside the documented range by more than the unit rounding (a dimension less than a twip outside the range
\* is stored as the bound itself: whether such a request is "invalid" is left open)
TooSmall(x) == x < MinDim - GetTol
TooLarge(x) == x > MaxDim + GetTol

\* ---- operations ---------------------------------------------------------
Setters == {"SetPageSettings", "SetPageSize", "SetCustomPageSize", "SetPageOrientation", "SetPageMargins",
            "SetHeaderFooterDistance", "SetGutterWidth", "SetDocGrid", "ClearDocGrid"}
\* SetDefaultPageSettings = SetPageSettings(DefaultPageSettings()): the documented defaults, grid included
Defaulter == {"SetDefaultPageSettings"}
ReadOnly == {"GetPageSettings", "Reopen"}
\* calls on the same section element that name no page setting at all
Bystanders == {"AddHeader", "AddFooter", "SetDifferentFirstPage", "AddParagraph"}
OpNamesAll == Setters \cup Defaulter \cup ReadOnly \cup Bystanders
DefaultSt == [InitSt EXCEPT !.gt = "lines", !.gp = 312, !.gc = 0]

\* class of the arguments (part of a witness signature; also used to select pools)
ArgClass(o) ==
  CASE o.op = "SetPageSettings" ->
         IF o.isnil THEN "nil"
         ELSE IF o.or \notin Orients THEN "bad-orient"
         ELSE IF o.n = "Custom" /\ (o.w <= 0 \/ o.h <= 0) THEN "nonpositive"
         ELSE IF o.n = "Custom" /\ (TooSmall(o.w) \/ TooSmall(o.h)) THEN "below-min"
         ELSE IF o.n = "Custom" /\ (TooLarge(o.w) \/ TooLarge(o.h)) THEN "above-max"
         ELSE IF o.n = "Custom" /\ OutOfRange(o.w, o.h) THEN "bound-rounding"
         ELSE IF o.n \notin StdNames \cup {"Custom"} THEN "unknown-size"
         ELSE IF o.mt < 0 \/ o.mr < 0 \/ o.mb < 0 \/ o.ml < 0 THEN "neg-margin"
         ELSE IF o.hd < 0 \/ o.fd < 0 THEN "neg-distance"
         ELSE IF o.gut < 0 THEN "neg-gutter"
         ELSE IF o.gt # "" /\ o.gc < 0 THEN "neg-charspace"
         ELSE IF o.gt = "" THEN "grid-unnamed"
         ELSE "valid"
    [] o.op = "SetPageSize" ->
         IF o.n \in StdNames THEN "valid" ELSE IF o.n = "Custom" THEN "custom-name" ELSE "unknown-size"
    [] o.op = "SetCustomPageSize" ->
         IF o.w <= 0 \/ o.h <= 0 THEN "nonpositive"
         ELSE IF TooSmall(o.w) \/ TooSmall(o.h) THEN "below-min"
         ELSE IF TooLarge(o.w) \/ TooLarge(o.h) THEN "above-max"
         ELSE IF OutOfRange(o.w, o.h) THEN "bound-rounding"
         ELSE "valid"
    [] o.op = "SetPageOrientation" -> IF o.or \in Orients THEN "valid" ELSE "bad-orient"
    [] o.op = "SetPageMargins" -> IF o.mt < 0 \/ o.mr < 0 \/ o.mb < 0 \/ o.ml < 0 THEN "neg-margin" ELSE "valid"
    [] o.op = "SetHeaderFooterDistance" -> IF o.hd < 0 \/ o.fd < 0 THEN "neg-distance" ELSE "valid"
    [] o.op = "SetGutterWidth" -> IF o.gut < 0 THEN "neg-gutter" ELSE "valid"
    [] o.op = "SetDocGrid" -> IF o.gt = "" THEN "empty-grid-type" ELSE IF o.gc < 0 THEN "neg-charspace" ELSE "valid"
    [] OTHER -> "valid"

\* requests the documentation declares invalid: they must be rejected, nothing may change
InvalidClasses == {"nil", "bad-orient", "nonpositive", "below-min", "above-max", "neg-margin", "neg-distance",
                   "neg-gutter", "empty-grid-type"}
\* requests whose acceptance the documentation leaves open: EITHER rejected with nothing changed
\* OR accepted with exactly the effect of Apply (never something in between)
OpenClasses == {"unknown-size", "custom-name", "neg-charspace", "bound-rounding"}

Rejected(s, o) ==
  /\ ArgClass(o) \in InvalidClasses
  \* only the dedicated setters document a sign check on margins / distances / gutter
  /\ ~(o.op = "SetPageSettings" /\ ArgClass(o) \in {"neg-margin", "neg-distance", "neg-gutter"})
Lenient(s, o) ==
  \/ ArgClass(o) \in OpenClasses
  \/ (o.op = "SetPageSettings" /\ ArgClass(o) \in {"neg-margin", "neg-distance", "neg-gutter"})

\* fields of the state a call names
Named(o) ==
  CASE o.op = "SetPageSettings" ->
         IF o.isnil THEN {} ELSE (Fields \ GridFields) \cup (IF o.gt = "" THEN {} ELSE GridFields)
    [] o.op = "SetPageSize" -> IF o.n = "Custom" THEN {} ELSE SizeFields
    [] o.op = "SetCustomPageSize" -> SizeFields
    [] o.op = "SetPageOrientation" -> {"or"}
    [] o.op = "SetPageMargins" -> MarFields
    [] o.op = "SetHeaderFooterDistance" -> HfFields
    [] o.op = "SetGutterWidth" -> {"gut"}
    [] o.op = "SetDocGrid" -> GridFields
    [] o.op = "ClearDocGrid" -> GridFields
    [] o.op = "SetDefaultPageSettings" -> Fields
    [] OTHER -> {}

\* state after the call succeeded (one explicit definition per operation)
Apply(s, o) ==
  CASE o.op = "SetPageSettings" ->
         LET z == SizeOf(o.n, o.w, o.h)
             a == [s EXCEPT !.n = z.n, !.w = z.w, !.h = z.h, !.or = o.or,
                            !.mt = o.mt, !.mr = o.mr, !.mb = o.mb, !.ml = o.ml,
                            !.hd = o.hd, !.fd = o.fd, !.gut = o.gut]
         IN IF o.gt = "" THEN a ELSE [a EXCEPT !.gt = o.gt, !.gp = o.gp, !.gc = o.gc]
    [] o.op = "SetPageSize" ->
         IF o.n = "Custom" THEN s   \* no dimensions are named: nothing to change
         ELSE LET z == SizeOf(o.n, 0, 0) IN [s EXCEPT !.n = z.n, !.w = z.w, !.h = z.h]
    [] o.op = "SetCustomPageSize" ->
         LET z == SizeOf("Custom", o.w, o.h) IN [s EXCEPT !.n = z.n, !.w = z.w, !.h = z.h]
    [] o.op = "SetPageOrientation" -> [s EXCEPT !.or = o.or]
    [] o.op = "SetPageMargins" -> [s EXCEPT !.mt = o.mt, !.mr = o.mr, !.mb = o.mb, !.ml = o.ml]
    [] o.op = "SetHeaderFooterDistance" -> [s EXCEPT !.hd = o.hd, !.fd = o.fd]
    [] o.op = "SetGutterWidth" -> [s EXCEPT !.gut = o.gut]
    [] o.op = "SetDocGrid" -> [s EXCEPT !.gt = o.gt, !.gp = o.gp, !.gc = o.gc]
    [] o.op = "ClearDocGrid" -> [s EXCEPT !.gt = "none", !.gp = 0, !.gc = 0]
    [] o.op = "SetDefaultPageSettings" -> DefaultSt
    [] OTHER -> s

\* the reference machine: a rejected call changes nothing.  acc = the call was accepted
Allowed(s, o, acc) == IF acc THEN ~Rejected(s, o) ELSE (Rejected(s, o) \/ Lenient(s, o))
Outcome(s, o, acc) == IF acc THEN Apply(s, o) ELSE s
Step(s, o) == Outcome(s, o, ~Rejected(s, o))       \* deterministic variant (open requests accepted)
Ret(s, o) == IF Rejected(s, o) THEN "err" ELSE IF Lenient(s, o) THEN "any" ELSE "ok"

\* ---- the statement "most recent call that named it, defaults otherwise" ----
\* value a successful call gives to a field it names (independent of Apply)
Given(o, f) ==
  CASE o.op = "SetDefaultPageSettings" -> IF f \in GridFields THEN DefaultSt[f] ELSE InitSt[f]
    [] f \in SizeFields ->
         LET z == IF o.op = "SetCustomPageSize" THEN SizeOf("Custom", o.w, o.h)
                  ELSE IF o.op = "SetPageSize" THEN SizeOf(o.n, 0, 0) ELSE SizeOf(o.n, o.w, o.h)
         IN z[f]
    [] f \in GridFields /\ o.op = "ClearDocGrid" -> IF f = "gt" THEN "none" ELSE 0
    [] OTHER -> o[f]
MostRecent(sh, o) == LET nm == Named(o) IN [f \in Fields |-> IF f \in nm THEN Given(o, f) ELSE sh[f]]

\* ---- classes of states (part of a witness signature) ----------------------
SizeClass(s) ==
  IF s.n \in StdNames THEN (IF s.w = StdW(s.n) /\ s.h = StdH(s.n) THEN "std" ELSE "near")
  ELSE IF Recognise(s.h, s.w) # "Custom" THEN "transposed"   \* a predefined size given the other way round
  ELSE "custom"
OrientClass(s) == IF s.or \in Orients THEN s.or ELSE "other"
\* for a wrong return value the position of a custom size relative to the documented range matters
AtMin(s) == s.n = "Custom" /\ (AbsV(s.w - MinDim) <= GetTol \/ AbsV(s.h - MinDim) <= GetTol)
AtMax(s) == s.n = "Custom" /\ (AbsV(s.w - MaxDim) <= GetTol \/ AbsV(s.h - MaxDim) <= GetTol)
SizeClassFor(f, s) == IF f = "ret" /\ AtMin(s) THEN "custom@min" ELSE IF f = "ret" /\ AtMax(s) THEN "custom@max"
                      ELSE SizeClass(s)
OpSig(o) == IF ArgClass(o) = "valid" THEN o.op ELSE o.op \o ":" \o ArgClass(o)

\* ---- views of the implementation and their comparison with a state --------
Close(a, b) == AbsV(a - b) <= GetTol                          \* two lengths in um
TClose(tw, um) == AbsV(tw * TwipNum - um * TwipDen) <= TwipNum \* twips against um, 1 twip
ToUm(tw) == (tw * TwipNum) \div TwipDen

\* accessor view g = [n, cw, ch, or, mt, mr, mb, ml, hd, fd, gut, gt, gp, gc]
GetSizeOK(s, g) ==
  \/ /\ g.n = s.n
     /\ (s.n = "Custom" => Close(g.cw, s.w) /\ Close(g.ch, s.h))
  \/ /\ s.n # "Custom" /\ g.n = "Custom"      \* a near-standard size may also be reported as it was given
     /\ Close(g.cw, s.w) /\ Close(g.ch, s.h)
GetDiff(pfx, s, g) ==
     (IF GetSizeOK(s, g) THEN {} ELSE {pfx \o "size"})
  \cup (IF g.or = s.or THEN {} ELSE {pfx \o "orient"})
  \cup (IF Close(g.mt, s.mt) /\ Close(g.mr, s.mr) /\ Close(g.mb, s.mb) /\ Close(g.ml, s.ml) THEN {} ELSE {pfx \o "margins"})
  \cup (IF Close(g.hd, s.hd) /\ Close(g.fd, s.fd) THEN {} ELSE {pfx \o "distance"})
  \cup (IF Close(g.gut, s.gut) THEN {} ELSE {pfx \o "gutter"})
  \cup (IF <<g.gt, g.gp, g.gc>> = ReadGrid(s.gt, s.gp, s.gc) THEN {} ELSE {pfx \o "grid"})

\* saved view x = [hasSz, w, h, orient, hasMar, top, right, bottom, left, header, footer, gutter,
\*                 hasGrid, gtype, gp, gc]  (twips; absent elements read as the defaults)
XW(x) == IF x.hasSz THEN x.w ELSE 11906
XH(x) == IF x.hasSz THEN x.h ELSE 16838
XOr(x) == IF ~x.hasSz \/ x.orient = "" THEN "portrait" ELSE x.orient
XM(x, v, d) == IF x.hasMar THEN v ELSE d
XmlSizeOK(s, x) ==
  LET p == Phys(s)
      q == IF s.or = "landscape" THEN <<StdH(s.n), StdW(s.n)>> ELSE <<StdW(s.n), StdH(s.n)>>
  IN \/ TClose(XW(x), p[1]) /\ TClose(XH(x), p[2])
     \/ s.n \in StdNames /\ TClose(XW(x), q[1]) /\ TClose(XH(x), q[2])   \* near-standard rewritten as the standard
XmlDiff(s, x) ==
     (IF XmlSizeOK(s, x) THEN {} ELSE {"xml.size"})
  \cup (IF XOr(x) = s.or THEN {} ELSE {"xml.orient"})
  \cup (IF /\ TClose(XM(x, x.top, 1440), s.mt) /\ TClose(XM(x, x.right, 1440), s.mr)
           /\ TClose(XM(x, x.bottom, 1440), s.mb) /\ TClose(XM(x, x.left, 1440), s.ml) THEN {} ELSE {"xml.margins"})
  \cup (IF TClose(XM(x, x.header, 720), s.hd) /\ TClose(XM(x, x.footer, 720), s.fd) THEN {} ELSE {"xml.distance"})
  \cup (IF TClose(XM(x, x.gutter, 0), s.gut) THEN {} ELSE {"xml.gutter"})
  \cup (IF ReadGrid(IF x.hasGrid THEN x.gtype ELSE "none", x.gp, x.gc) = ReadGrid(s.gt, s.gp, s.gc)
        THEN {} ELSE {"xml.grid"})
  \cup (IF x.bad THEN {"xml.number"} ELSE {})

\* abstraction of the saved view (used to resynchronise after a deviation)
FromXml(x) ==
  LET o  == XOr(x)
      lw == ToUm(IF o = "landscape" THEN XH(x) ELSE XW(x))
      lh == ToUm(IF o = "landscape" THEN XW(x) ELSE XH(x))
      n  == Recognise(lw, lh)
      nominal == n # "Custom" /\ Close(lw, StdW(n)) /\ Close(lh, StdH(n))
  IN [n |-> n, w |-> IF nominal THEN StdW(n) ELSE lw, h |-> IF nominal THEN StdH(n) ELSE lh, or |-> o,
      mt |-> ToUm(XM(x, x.top, 1440)), mr |-> ToUm(XM(x, x.right, 1440)),
      mb |-> ToUm(XM(x, x.bottom, 1440)), ml |-> ToUm(XM(x, x.left, 1440)),
      hd |-> ToUm(XM(x, x.header, 720)), fd |-> ToUm(XM(x, x.footer, 720)), gut |-> ToUm(XM(x, x.gutter, 0)),
      gt |-> IF x.hasGrid THEN x.gtype ELSE "none",
      gp |-> IF x.hasGrid THEN x.gp ELSE 0, gc |-> IF x.hasGrid THEN x.gc ELSE 0]
=============================================================================
