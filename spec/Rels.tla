-------------------------------- MODULE Rels --------------------------------
(***************************************************************************)
(* Pure (variable-free) specification of the relationship machine of a     *)
(* package (property C02): every relationship part holds relationships     *)
(* with unique ids, internal targets exist, relationships are attached to  *)
(* the part that uses them, and every r:id / r:embed / r:link used in the  *)
(* main part, a header or a footer resolves IN THAT PART'S relationship    *)
(* part to a relationship of the matching type.  A relationship-creating   *)
(* call appends exactly one relationship with an unused id to the          *)
(* relationship part of the part that uses it and leaves every existing    *)
(* relationship (id, type, target, mode) alone; saving, reopening and      *)
(* document-template rendering keep all of them.                           *)
(*                                                                         *)
(* Abstract state  st = [main, rels, refs, parts, ph]                      *)
(*   main   name of the main part                                          *)
(*   rels   Seq([src, sc, id, ty, tgt, mode])  every relationship of every *)
(*          relationship part: src = source part ("" = package), sc = its  *)
(*          class (root|main|header|footer|other|missing|bad), ty = last   *)
(*          segment of the type URI, tgt = target resolved relative to src *)
(*          (raw for external ones), mode = "" | "External"                *)
(*   refs   Seq([part, pc, kind, slot, id])  every attribute of the        *)
(*          relationships namespace in the main part and in header/footer  *)
(*          parts: kind hdr|ftr (slot = w:type) | embed | link | hlink |   *)
(*          other                                                          *)
(*   parts  set of part names present in the package                       *)
(*   ph     picture placeholders of a document template waiting in the     *)
(*          body (each becomes one picture = one relationship at Render)   *)
(* An operation is a record [op |-> name, ...args]; the implementation's   *)
(* free choices (relationship ids, part names) are a record                *)
(* ch = [ids, parts] of sequences, constrained only by ChoiceOK.           *)
(***************************************************************************)
EXTENDS Integers, Sequences, FiniteSets, TLC

\* ---- helpers ------------------------------------------------------------
ToSet(s) == {s[i] : i \in 1..Len(s)}
MinI(S) == CHOOSE x \in S : \A y \in S : x <= y

\* ---- vocabulary of relationship types -----------------------------------
RootTypes == {"officeDocument", "core-properties", "extended-properties", "custom-properties", "thumbnail"}
DocTypes  == {"styles", "numbering", "footnotes", "endnotes", "settings", "header", "footer", "theme",
              "fontTable", "webSettings", "comments", "glossaryDocument"}
UseTypes  == {"image", "hyperlink"}
TyCls(t)  == IF t \in RootTypes \cup DocTypes \cup UseTypes THEN t ELSE "other"

\* the type a reference of a kind must resolve to ("" = any)
RefType(kind) == CASE kind = "hdr"   -> "header"
                   [] kind = "ftr"   -> "footer"
                   [] kind = "embed" -> "image"
                   [] kind = "link"  -> "image"
                   [] kind = "hlink" -> "hyperlink"
                   [] OTHER          -> ""

\* ---- operations ----------------------------------------------------------
HeaderOps == {"AddHeader", "AddHeaderWithPageNumber", "AddFormattedHeader"}
FooterOps == {"AddFooter", "AddFooterWithPageNumber", "AddFormattedFooter"}
HfOps     == HeaderOps \cup FooterOps
CondOps   == {"AddListItem", "AddFootnote", "AddEndnote", "SetFootnoteConfig"}   \* create their relationship once
\* RemoveFootnote / RemoveEndnote take notes away (one, or all of them): the notes part, its relationship and every
\* other relationship stay
RemoveOps == {"RemoveFootnote", "RemoveEndnote"}
PlainOps  == {"SetProps", "AddStyle", "AddParagraph", "AddTable", "Placeholder", "Save", "ToBytes", "Reopen"} \cup RemoveOps
StartOps  == {"New", "OpenForeign"}
AllOps    == {"AddImage", "Render"} \cup HfOps \cup CondOps \cup PlainOps \cup StartOps

CondType(o) == CASE o = "AddListItem" -> "numbering"
                 [] o = "AddFootnote" -> "footnotes"
                 [] o = "AddEndnote"  -> "endnotes"
                 [] OTHER             -> "settings"
HfType(o)   == IF o \in HeaderOps THEN "header" ELSE "footer"
HfKind(o)   == IF o \in HeaderOps THEN "hdr" ELSE "ftr"

\* ---- the package ----------------------------------------------------------
MkRel(src, sc, id, ty, tgt, mode) == [src |-> src, sc |-> sc, id |-> id, ty |-> ty, tgt |-> tgt, mode |-> mode]
MkRef(part, pc, kind, slot, id)   == [part |-> part, pc |-> pc, kind |-> kind, slot |-> slot, id |-> id]

MainName == "word/document.xml"
EmptySt == [main |-> MainName, rels |-> <<>>, refs |-> <<>>, parts |-> {}, ph |-> 0]
InitSt  == [main |-> MainName,
            rels |-> <<MkRel("", "root", "rId1", "officeDocument", MainName, ""),
                       MkRel(MainName, "main", "rId1", "styles", "word/styles.xml", "")>>,
            refs |-> <<>>,
            parts |-> {MainName, "word/styles.xml"},
            ph |-> 0]

RelsOf(st, src) == SelectSeq(st.rels, LAMBDA r : r.src = src)
IdsOf(st, src)  == {r.id : r \in ToSet(RelsOf(st, src))}
HasTy(st, ty)   == \E r \in ToSet(st.rels) : r.src = st.main /\ r.ty = ty
Sources(st)     == {r.src : r \in ToSet(st.rels)}

\* ---- the property on a state: witnesses <<what, class of the part, ...>> ---
Misattached(st, r) ==
  \/ r.sc \in {"missing", "bad"}
  \/ r.ty \in DocTypes /\ r.src # st.main
  \/ r.ty \in RootTypes /\ r.src # ""
  \/ r.ty \in UseTypes /\ r.src = ""

Viol_C02(st) ==
  LET R == st.rels
      N == Len(R)
  IN  \* ids unique within each relationship part
      {<<"dup-id", R[i].sc, TyCls(R[i].ty)>> :
          i \in {a \in 1..N : \E b \in 1..N : a # b /\ R[a].src = R[b].src /\ R[a].id = R[b].id}}
      \* internal targets exist
      \cup {<<"target-missing", r.sc, TyCls(r.ty)>> : r \in {x \in ToSet(R) : x.mode # "External" /\ x.tgt \notin st.parts}}
      \* attached to the part that uses them
      \cup {<<"misattached", r.sc, TyCls(r.ty)>> : r \in {x \in ToSet(R) : Misattached(st, x)}}
      \* every reference resolves in its own part's relationships, to the matching type
      \cup {<<"ref-empty", f.pc, f.kind>> : f \in {x \in ToSet(st.refs) : x.id = ""}}
      \cup {<<"ref-unresolved", f.pc, f.kind>> :
               f \in {x \in ToSet(st.refs) : x.id # "" /\ ~\E r \in ToSet(R) : r.src = x.part /\ r.id = x.id}}
      \cup UNION {{<<"ref-type", f.pc, f.kind, TyCls(r.ty)>> :
                      r \in {x \in ToSet(R) : x.src = f.part /\ x.id = f.id /\ RefType(f.kind) # "" /\ x.ty # RefType(f.kind)}} :
                  f \in ToSet(st.refs)}

\* ---- what a call does to the relationships --------------------------------
\* the references of the header/footer kind a constructor call (re)defines
SlotRefIdx(st, op) == {i \in 1..Len(st.refs) : st.refs[i].part = st.main /\ st.refs[i].kind = HfKind(op.op) /\ st.refs[i].slot = op.kind}
SlotRelIds(st, op) == {st.refs[i].id : i \in SlotRefIdx(st, op)}

\* relationships a call may take away: those of the header/footer kind it redefines
AllowedGone(st, op) ==
  IF op.op \in HfOps
  THEN {r \in ToSet(st.rels) : r.src = st.main /\ r.id \in SlotRelIds(st, op) /\ r.ty = HfType(op.op)}
  ELSE {}

\* number of relationships the call must create (in the main part's relationships)
NewCount(st, op) ==
  IF op.op = "AddImage" \/ op.op \in HfOps THEN 1
  ELSE IF op.op \in CondOps THEN (IF HasTy(st, CondType(op.op)) THEN 0 ELSE 1)
  ELSE IF op.op = "Render" THEN st.ph
  ELSE IF op.op = "OpenForeign" THEN (IF HasTy(op.pkg, "styles") THEN 0 ELSE 1)
  ELSE 0
\* the legacy rendering entry point renders the template text a second time: it may create more pictures
CountExact(op) == ~(op.op = "Render" /\ op.via = "legacy")

\* may the call create relationship n?
NewOK(st, op, n) ==
  \/ (/\ n.src = st.main
      /\ n.sc = "main"
      /\ (\/ (op.op \in {"AddImage", "Render"} /\ n.ty = "image")
          \/ (op.op \in HfOps /\ n.ty = HfType(op.op))
          \/ (op.op \in CondOps /\ n.ty = CondType(op.op))
          \/ (op.op = "OpenForeign" /\ n.ty = "styles" /\ ~HasTy(op.pkg, "styles"))))
  \/ (n.src = "" /\ op.op = "SetProps" /\ n.ty \in {"core-properties", "extended-properties"})

\* ---- the reference machine ---------------------------------------------------
AddMainRel(st, id, ty, tgt) ==
  [st EXCEPT !.rels = Append(st.rels, MkRel(st.main, "main", id, ty, tgt, "")), !.parts = st.parts \cup {tgt}]

ApplyHf(st, op, ch) ==
  LET I    == SlotRefIdx(st, op)
      nref == MkRef(st.main, "main", HfKind(op.op), op.kind, ch.ids[1])
      gone == AllowedGone(st, op)
  IN [st EXCEPT
        !.refs  = IF I = {} THEN Append(st.refs, nref)
                  ELSE [j \in 1..Len(st.refs) |-> IF j = MinI(I) THEN nref ELSE st.refs[j]],
        !.rels  = Append(SelectSeq(st.rels, LAMBDA r : r \notin gone), MkRel(st.main, "main", ch.ids[1], HfType(op.op), ch.parts[1], "")),
        !.parts = st.parts \cup {ch.parts[1]}]

Apply(st, op, ch) ==
  IF op.op = "New" THEN InitSt
  ELSE IF op.op = "OpenForeign" THEN
       (IF HasTy(op.pkg, "styles") THEN op.pkg ELSE AddMainRel(op.pkg, ch.ids[1], "styles", "word/styles.xml"))
  ELSE IF op.op = "AddImage" THEN
       LET s1 == AddMainRel(st, ch.ids[1], "image", ch.parts[1])
       IN IF op.where = "resource" THEN s1
          ELSE [s1 EXCEPT !.refs = Append(st.refs, MkRef(st.main, "main", "embed", "", ch.ids[1]))]
  ELSE IF op.op \in HfOps THEN ApplyHf(st, op, ch)
  ELSE IF op.op \in CondOps THEN
       (IF HasTy(st, CondType(op.op)) THEN st
        ELSE AddMainRel(st, ch.ids[1], CondType(op.op), "word/" \o CondType(op.op) \o ".xml"))
  ELSE IF op.op = "SetProps" THEN [st EXCEPT !.parts = st.parts \cup {"docProps/core.xml", "docProps/app.xml"}]
  ELSE IF op.op = "Placeholder" THEN [st EXCEPT !.ph = st.ph + 1]
  ELSE IF op.op = "Render" THEN
       [st EXCEPT !.rels  = st.rels \o [j \in 1..st.ph |-> MkRel(st.main, "main", ch.ids[j], "image", ch.parts[j], "")],
                  !.refs  = st.refs \o [j \in 1..st.ph |-> MkRef(st.main, "main", "embed", "", ch.ids[j])],
                  !.parts = st.parts \cup {ch.parts[j] : j \in 1..st.ph},
                  !.ph    = 0]
  \* styles, plain content, Save / ToBytes / Reopen: no relationship changes
  ELSE st

\* how many ids / part names the call chooses
NeedIds(st, op)   == NewCount(st, op)
NeedParts(st, op) == IF op.op = "AddImage" \/ op.op \in HfOps THEN 1 ELSE IF op.op = "Render" THEN st.ph ELSE 0

\* freshness of the implementation's choices: new ids unused in the main part's relationships (the package's
\* for OpenForeign), distinct; new media parts are new
ChoiceOK(st, op, ch) ==
  LET base == IF op.op = "OpenForeign" THEN op.pkg ELSE st
  IN /\ Len(ch.ids) = NeedIds(st, op)
     /\ Len(ch.parts) = NeedParts(st, op)
     /\ \A i \in 1..Len(ch.ids) : ch.ids[i] \notin IdsOf(base, base.main)
     /\ \A i, j \in 1..Len(ch.ids) : i # j => ch.ids[i] # ch.ids[j]
     /\ (op.op \in {"AddImage", "Render"} =>
            /\ \A i \in 1..Len(ch.parts) : ch.parts[i] \notin st.parts
            /\ \A i, j \in 1..Len(ch.parts) : i # j => ch.parts[i] # ch.parts[j])

\* every call of the alphabet succeeds
Ret(st, op) == "ok"

\* ---- the allocation of the pinned tree (kept to show the invariants are not vacuous) -----------
\* id = "rId" + (number of relationships the library keeps for the part + 2), the styles relationship is forced
\* to rId1 when a package is opened, and the notes / settings relationships go to the package's relationships
AsBuiltId(st) == "rId" \o ToString(Cardinality({i \in 1..Len(st.rels) : st.rels[i].src = st.main /\ st.rels[i].ty # "styles"}) + 2)
AsBuiltRootId(st) == "rId" \o ToString(Len(RelsOf(st, "")) + 1)
ForceStyles(st) == [st EXCEPT !.rels = [j \in 1..Len(st.rels) |->
                        IF st.rels[j].src = st.main /\ st.rels[j].ty = "styles" THEN [st.rels[j] EXCEPT !.id = "rId1"] ELSE st.rels[j]]]
ApplyAsBuilt(st, op, ch) ==
  IF op.op = "OpenForeign" THEN ForceStyles(Apply(st, op, [ch EXCEPT !.ids = <<"rId1">>]))
  ELSE IF op.op \in {"AddFootnote", "AddEndnote", "SetFootnoteConfig"} /\ ~HasTy(st, CondType(op.op)) THEN
       [st EXCEPT !.rels = Append(st.rels, MkRel("", "root", AsBuiltRootId(st), CondType(op.op), CondType(op.op) \o ".xml", "")),
                  !.parts = st.parts \cup {"word/" \o CondType(op.op) \o ".xml"}]
  ELSE Apply(st, op, [ch EXCEPT !.ids = [j \in 1..Len(ch.ids) |-> AsBuiltId(st)]])

\* ---- foreign packages: relationship-id schemes x contents --------------------------------
\* what a foreign package may contain beside the main part (in this order in the relationship part)
ItemSeq == <<"img1", "hdr", "num", "img2", "ftr", "fn", "en", "set", "hl", "theme", "limg", "hdrE">>
ItemRel(k) ==
  CASE k = "img1"  -> [ty |-> "image",     tgt |-> "word/media/image1.png", mode |-> "", kind |-> "embed", slot |-> ""]
    [] k = "img2"  -> [ty |-> "image",     tgt |-> "word/media/pic7.png",   mode |-> "", kind |-> "embed", slot |-> ""]
    [] k = "limg"  -> [ty |-> "image",     tgt |-> "https://example.com/linked.png", mode |-> "External", kind |-> "link", slot |-> ""]
    [] k = "hdr"   -> [ty |-> "header",    tgt |-> "word/header1.xml",      mode |-> "", kind |-> "hdr", slot |-> "default"]
    [] k = "hdrE"  -> [ty |-> "header",    tgt |-> "word/header2.xml",      mode |-> "", kind |-> "hdr", slot |-> "even"]
    [] k = "ftr"   -> [ty |-> "footer",    tgt |-> "word/footer1.xml",      mode |-> "", kind |-> "ftr", slot |-> "first"]
    [] k = "num"   -> [ty |-> "numbering", tgt |-> "word/numbering.xml",    mode |-> "", kind |-> "", slot |-> ""]
    [] k = "fn"    -> [ty |-> "footnotes", tgt |-> "word/footnotes.xml",    mode |-> "", kind |-> "", slot |-> ""]
    [] k = "en"    -> [ty |-> "endnotes",  tgt |-> "word/endnotes.xml",     mode |-> "", kind |-> "", slot |-> ""]
    [] k = "set"   -> [ty |-> "settings",  tgt |-> "word/settings.xml",     mode |-> "", kind |-> "", slot |-> ""]
    [] k = "hl"    -> [ty |-> "hyperlink", tgt |-> "https://example.com/a?b=1&c=2", mode |-> "External", kind |-> "hlink", slot |-> ""]
    [] OTHER       -> [ty |-> "theme",     tgt |-> "word/theme/theme1.xml", mode |-> "", kind |-> "", slot |-> ""]

Schemes == {"dense", "sparse", "nonrid", "styleslast", "stylesmid", "nostyles", "collide", "collide1", "gap"}
SparseNums == <<3, 7, 12, 15, 21, 22, 30, 41, 50, 64, 65, 80>>
NonRidIds  == <<"R1", "imgA", "x-2", "id_3", "Rel5", "r6", "abc", "rid8", "RID9", "z10", "k.11", "m12">>
RId(n) == "rId" \o ToString(n)

\* id of the j-th of n relationships (styles excluded) under a scheme
SchemeId(s, j, n) ==
  CASE s = "dense"      -> RId(j + 1)
    [] s = "sparse"     -> RId(SparseNums[j])
    [] s = "nonrid"     -> NonRidIds[j]
    [] s = "styleslast" -> RId(j)                    \* rId1 belongs to something else, styles is rId(n+1)
    [] s = "stylesmid"  -> IF j = 1 THEN RId(1) ELSE RId(j + 1)
    [] s = "nostyles"   -> RId(j)
    [] s = "collide"    -> RId(n + 1 + j)            \* rId(count+2), rId(count+3) ... are taken
    [] s = "collide1"   -> IF j = n THEN RId(n + 2) ELSE RId(j + 1)   \* dense, but the last one sits on rId(count+2)
    [] OTHER            -> RId(2 * j + 1)            \* gap: rId3, rId5, ...: every second id is free
StylesId(s, n) ==
  CASE s = "nonrid"     -> "stylesRel"
    [] s = "styleslast" -> RId(n + 1)
    [] s = "stylesmid"  -> RId(2)
    [] s = "nostyles"   -> ""
    [] OTHER            -> RId(1)
RootDocId(s) == CASE s = "nonrid" -> "docRel" [] s = "sparse" -> "rId3" [] OTHER -> "rId1"

\* the abstract state of the foreign package with the given items; hdrown = header, footer and theme part have their
\* own relationship parts (a picture in the header whose relationship id equals an id of the main part, an external
\* hyperlink in the footer, a picture of the theme); props = package-level relationships to the property parts
ForeignPkg(s, items, hdrown, props) ==
  LET sel == SelectSeq(ItemSeq, LAMBDA k : k \in items)
      n   == Len(sel)
      mr  == [j \in 1..n |-> MkRel(MainName, "main", SchemeId(s, j, n), ItemRel(sel[j]).ty, ItemRel(sel[j]).tgt, ItemRel(sel[j]).mode)]
      sty == IF StylesId(s, n) = "" THEN <<>> ELSE <<MkRel(MainName, "main", StylesId(s, n), "styles", "word/styles.xml", "")>>
      own == hdrown /\ "hdr" \in items
      hid == IF n > 0 THEN SchemeId(s, 1, n) ELSE "rId1"
      hr  == IF own THEN <<MkRel("word/header1.xml", "header", hid, "image", "word/media/hdrlogo.png", "")>> ELSE <<>>
      \* ... the first-page footer a hyperlink of its own, and the theme part (a part the library does not interpret) a picture
      fown == hdrown /\ "ftr" \in items
      town == hdrown /\ "theme" \in items
      fr  == IF fown THEN <<MkRel("word/footer1.xml", "footer", "rId1", "hyperlink", "https://example.com/footer", "External")>> ELSE <<>>
      tr  == IF town THEN <<MkRel("word/theme/theme1.xml", "other", "rId1", "image", "word/media/themeimg.png", "")>> ELSE <<>>
      rr  == <<MkRel("", "root", RootDocId(s), "officeDocument", MainName, "")>>
             \o (IF props THEN <<MkRel("", "root", "rId2", "core-properties", "docProps/core.xml", ""),
                                 MkRel("", "root", "rId4", "extended-properties", "docProps/app.xml", "")>> ELSE <<>>)
      rf  == SelectSeq([j \in 1..n |-> MkRef(MainName, "main", ItemRel(sel[j]).kind, ItemRel(sel[j]).slot, SchemeId(s, j, n))],
                       LAMBDA f : f.kind # "")
      all == rr \o (IF s = "stylesmid" /\ n > 0 THEN <<mr[1]>> \o sty \o SubSeq(mr, 2, n) ELSE IF s = "styleslast" THEN mr \o sty ELSE sty \o mr) \o hr \o fr \o tr
  IN [main  |-> MainName,
      rels  |-> all,
      refs  |-> rf \o (IF own THEN <<MkRef("word/header1.xml", "header", "embed", "", hid)>> ELSE <<>>)
                  \o (IF fown THEN <<MkRef("word/footer1.xml", "footer", "hlink", "", "rId1")>> ELSE <<>>),
      parts |-> {MainName, "word/styles.xml"} \cup {r.tgt : r \in {x \in ToSet(all) : x.mode # "External"}},
      ph    |-> 0]
=============================================================================
