------------------------------ MODULE Engine_MC ------------------------------
(***************************************************************************)
(* Sequential exploration of the template engine.                          *)
(*  SpecMC  - the reference machine and the as-built machine run in lock    *)
(*            step on the same operations; `shows` is what every name       *)
(*            renders in the machine selected by Variant. With              *)
(*            Variant = "ref" the invariants / action properties below are  *)
(*            the design-level statement of C17 and must hold; with         *)
(*            Variant = "built" TLC must find a counterexample (self-test:  *)
(*            the properties are not vacuous and the defect is reachable).  *)
(*  SpecGen - behaviour generation for replay on the real library.          *)
(***************************************************************************)
EXTENDS Engine, Json, SequencesExt

CONSTANTS Variant,    \* "ref" | "built"
          Loadables,  \* set of [n |-> name, def |-> definition]
          OpKinds,    \* subset of {"Load","Render","Get","Validate","Remove","Clear","SetBasePath","Analyze"}
          ArgNames,   \* names offered as argument of Render / Get / Validate / Remove / Analyze
          Entries,    \* entry points offered for Render: subset of {"doc", "tpl", "rnd"}
          RDatas,     \* data offered for Render (a subset of Datas)
          MaxLoads,   \* bound on the number of load calls (MC only)
          Depth       \* behaviour length for generation

VARIABLES st,     \* reference machine (Engine!Apply)
          hs,     \* as-built machine (Engine!ApplyB)
          shows,  \* what every name renders with the probe data in the machine selected by Variant
          hist    \* generation only
vars == <<st, hs, shows, hist>>

\* ---- pools -----------------------------------------------------------------
D(k, tag, ext, blk, rich) == [k |-> k, tag |-> tag, ext |-> ext, blk |-> blk, rich |-> rich]
L(n, def) == [n |-> n, def |-> def]
B12 == {"b1", "b2"}

PoolTiny == { L("base", D("str", "R",  "",     B12,    FALSE)),
              L("A",    D("str", "CA", "base", {"b1"}, FALSE)),
              L("B",    D("str", "CB", "base", {"b1"}, FALSE)) }

PoolCore == PoolTiny \cup { L("G", D("str", "GA", "A", {"b2"}, FALSE)) }

PoolQuick == PoolTiny \cup
            { L("base", D("doc", "RD", "",     {"b1"}, TRUE)),
              L("A",    D("doc", "DA", "base", B12,    FALSE)),
              L("G",    D("str", "GA", "A",    {"b2"}, FALSE)) }

\* the TemplateRenderer front: templates loaded from .docx files (alone, next to / replaced by
\* templates loaded through the engine API, as base of a string child)
PoolFile == { L("base", D("file", "RF", "",     {"b1"}, TRUE)),
              L("A",    D("file", "FA", "base", B12,    FALSE)),
              L("base", D("doc",  "RD", "",     {"b1"}, TRUE)),
              L("A",    D("str",  "CA", "base", {"b1"}, FALSE)) }

PoolThorough == PoolQuick \cup
            { L("base", D("str", "R2", "",     B12,    TRUE)),
              L("base", D("str", "S",  "base", {"b2"}, FALSE)),   \* extends the template it replaces
              L("A",    D("str", "X",  "",     {"b1"}, TRUE)),    \* an unrelated root under a child's name
              L("B",    D("str", "CB2","base", {"b2"}, TRUE)),
              L("B",    D("doc", "DB", "A",    {"b1"}, TRUE)),
              L("G",    D("str", "GB", "A",    {"b1"}, FALSE)),
              L("G",    D("doc", "DG", "B",    B12,    FALSE)) }

PoolAll == PoolThorough \cup PoolFile

Dt(v, items, c, ik) == [v |-> v, items |-> items, c |-> c, ik |-> ik]
Data1 == Dt("val1", <<"n1", "n2">>, TRUE, "map")
Data2 == Dt("val2", <<>>, FALSE, "map")
\* the variables of the probe data with other conditions and lists (a render must not be keyed on its variables alone)
Data3 == Dt("val1", <<>>, FALSE, "map")
\* list items that are not map[string]interface{}, or maps that lack the field used (undocumented kinds: the judge demands
\* repeatability and untouched data of their renders, not a text)
DataS == Dt("val2", <<"s1", "s2">>, TRUE, "smap")
DataP == Dt("val1", <<"p1">>, FALSE, "str")
DataK == Dt("val2", <<"k1">>, TRUE, "nokey")
Datas == {Data1, Data2, Data3, DataS, DataP, DataK}
DatasStd  == {Data2}
DatasKeys == {Data2, Data3}
DatasKinds == {Data2, DataS, DataK}

ASSUME \A l \in Loadables : \A i \in 1..Len(Tbls(l.def)) : WellFormedTbl(Tbls(l.def)[i])

\* ---- operations offered -------------------------------------------------------
Ops ==
     (IF "Load" \in OpKinds THEN {[op |-> "Load", n |-> l.n, def |-> l.def] : l \in Loadables} ELSE {})
  \cup (IF "Render" \in OpKinds
        THEN {[op |-> "Render", n |-> n, e |-> e, data |-> d] : n \in ArgNames, e \in Entries, d \in RDatas} ELSE {})
  \cup {[op |-> k, n |-> n] : k \in OpKinds \cap {"Get", "Validate", "Remove", "Analyze"}, n \in ArgNames}
  \cup {[op |-> k] : k \in OpKinds \cap {"Clear", "SetBasePath"}}

ShowsOf(s, h) == IF Variant = "ref" THEN Shows(s, NamePool, ProbeData) ELSE ShowsB(h, NamePool, ProbeData)
RenderV(op) == IF Variant = "ref" THEN RenderRet(st, op) ELSE RenderB(hs, op.n, op.data, op.e)

\* every generated behaviour starts by telling the executor which names to observe and with which data
ConfigOp == [op |-> "Config", names |-> SetToSeq(NamePool), data |-> ProbeData]
Init == st = InitSt /\ hs = InitHs /\ shows = ShowsOf(InitSt, InitHs) /\ hist = <<ConfigOp>>

Step(op) == /\ st' = Apply(st, op)
            /\ hs' = ApplyB(hs, op)
            /\ shows' = ShowsOf(Apply(st, op), ApplyB(hs, op))

NextMC == \E op \in Ops :
            /\ (op.op = "Load" => st.nid <= MaxLoads)
            /\ Step(op)
            /\ hist' = hist
SpecMC == Init /\ [][NextMC]_vars

NextGen == /\ Len(hist) < Depth + 1
           /\ \E op \in Ops : /\ st' = Apply(st, op)
                               /\ hist' = Append(hist, Conc(op))
           /\ UNCHANGED <<hs, shows>>
SpecGen == Init /\ [][NextGen]_vars

\* ---- C17 at design level ---------------------------------------------------------
IdOf(s, n) == Lookup(s.cache, n).id

\* what a name shows is the pure function of the value cached under it
Inv_ShowsPure == shows = Shows(st, NamePool, ProbeData)

\* every render call returns the pure function of the cached value, for every data and entry point
Inv_RenderPure ==
  \A n \in NamePool, e \in {"doc", "tpl", "rnd"}, d \in Datas :
     LET op == [op |-> "Render", n |-> n, e |-> e, data |-> d]
     IN RenderV(op) = PureRender(Lookup(st.cache, n), d, e)

\* the renderer front adds nothing of its own: it shows what the engine's RenderTemplateToDocument shows
Inv_FrontAgnostic ==
  \A n \in NamePool, d \in Datas :
     PureRender(Lookup(st.cache, n), d, "rnd") = PureRender(Lookup(st.cache, n), d, "tpl")

\* the two machines agree on which object/value is cached under which name
Inv_CacheAgree == \A n \in NamePool : IdOf(st, n) = (IF n \in DOMAIN hs.cache THEN hs.cache[n] ELSE 0)

\* no step changes what a name shows unless it (re)defines or removes that name: loading a
\* derived template leaves its base and its siblings alone, removing / clearing does not
\* reach the children of what was removed, and renders and other readers change nothing
Act_Local ==
  [][\A n \in NamePool : (IdOf(st, n) # 0 /\ IdOf(st', n) = IdOf(st, n)) => shows'[n] = shows[n]]_vars

\* steps that leave the cache alone (renders, lookups, validation) leave everything alone
Act_ReadersPure ==
  [][st' = st => shows' = shows]_vars

\* values are immutable: a cached value only ever changes by being replaced
Act_ValuesImmutable ==
  [][\A n \in NamePool : IdOf(st, n) = IdOf(st', n) => Lookup(st.cache, n) = Lookup(st'.cache, n)]_vars

\* ---- generation: print each complete behaviour once ----------------------------------
Emit == Len(hist) < Depth + 1 \/ PrintT(<<"WZCASE", ToJson(hist)>>)
=============================================================================
