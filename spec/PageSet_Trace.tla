--------------------------- MODULE PageSet_Trace ---------------------------
(***************************************************************************)
(* Judge of observed behaviours of the real library against PageSet.       *)
(* Each line of the trace is                                               *)
(*   [ev |-> "reset", case |-> n]   or                                     *)
(*   [ev |-> "step", case |-> n, op |-> <op record>,                       *)
(*    ret |-> "ok" | "err" | "panic",                                      *)
(*    get |-> accessor view of the document (GetPageSettings),             *)
(*    xml |-> view of w:pgSz / w:pgMar / w:docGrid of the saved main part  *)
(*            (independent reader), with ret |-> "ok" | "err" | "zip" ...  *)
(*    re  |-> accessor view of the saved bytes opened again, with ret]     *)
(* The judge never blocks: deviations become witnesses                     *)
(*   <<"C12", operation[:argument class] | "read", size class, orientation,*)
(*     failing field>>                                                     *)
(* and the specification state is resynchronised on what was saved.        *)
(***************************************************************************)
EXTENDS PageSet, Json, IOUtils

Trace == ndJsonDeserialize(IOEnv.WZ_OBS)

VARIABLES l, cur, wit
tvars == <<l, cur, wit>>

\* add witness signatures (first case that shows each one is remembered)
AddWit(w, sigs, c) == w \cup {[sig |-> s, case |-> c] : s \in {x \in sigs : ~\E r \in w : r.sig = x}}

\* was the observed return value one the specification allows?
RetOK(s, o, ret) == (ret = "ok" /\ Allowed(s, o, TRUE)) \/ (ret = "err" /\ Allowed(s, o, FALSE))

\* the state the specification expects after the step, given what the call returned;
\* a return value that is not allowed is judged against "nothing changed"
Expected(s, o, ret) == IF ret = "ok" /\ Allowed(s, o, TRUE) THEN Apply(s, o) ELSE s

\* resynchronise: keep the exact expected state while the saved settings agree with it,
\* otherwise continue from what the implementation really holds
Actual(e) ==
  LET exp == Expected(cur, e.op, e.ret)
  IN IF e.xml.ret # "ok" THEN exp
     ELSE IF XmlDiff(exp, e.xml) = {} THEN exp ELSE FromXml(e.xml)

\* (1) the step: return value and saved settings against the specification
\*     <<"C12", operation[:argument class], size class and orientation of the state before, failing field>>
StepWit(e) ==
  LET exp == Expected(cur, e.op, e.ret)
      fs  == IF e.ret = "panic" THEN {"panic"}
             ELSE (IF RetOK(cur, e.op, e.ret) THEN {} ELSE {"ret"})
                  \cup (IF e.xml.ret # "ok" THEN {"save." \o e.xml.ret} ELSE XmlDiff(exp, e.xml))
  IN {<<"C12", OpSig(e.op), SizeClassFor(f, cur), OrientClass(cur), f>> : f \in fs}

\* (2) reading: what GetPageSettings reports - for the live document and for the saved bytes opened
\*     again - against the settings the document really holds (its saved section settings)
\*     <<"C12", "read", size class and orientation of the state held, failing field>>
ReadWit(e) ==
  LET act == Actual(e)
      fs  == (IF e.get.ret # "ok" THEN {"get." \o e.get.ret} ELSE GetDiff("get.", act, e.get))
             \cup (IF e.xml.ret # "ok" THEN {}
                   ELSE IF e.re.ret # "ok" THEN {"reopen." \o e.re.ret} ELSE GetDiff("reopen.", act, e.re))
  IN {<<"C12", "read", SizeClass(act), OrientClass(act), f>> : f \in fs}

Judge(e) == StepWit(e) \cup ReadWit(e)
Resync(e) == Actual(e)

TInit == l = 1 /\ cur = InitSt /\ wit = {}

TReset == /\ l <= Len(Trace) /\ Trace[l].ev = "reset"
          /\ cur' = InitSt /\ wit' = wit /\ l' = l + 1

TStep == /\ l <= Len(Trace) /\ Trace[l].ev = "step"
         /\ LET e == Trace[l] IN
              /\ wit' = AddWit(wit, Judge(e), e.case)
              /\ cur' = Resync(e)
         /\ l' = l + 1

TDone == /\ l = Len(Trace) + 1
         /\ PrintT(<<"WZDONE", l - 1, ToJson(wit)>>)
         /\ l' = l + 1 /\ UNCHANGED <<cur, wit>>

TNext == TReset \/ TStep \/ TDone
TSpec == TInit /\ [][TNext]_tvars
=============================================================================
