----------------------------- MODULE Tmpl_Trace -----------------------------
(***************************************************************************)
(* Judge of what the real template engine produced (property C16).         *)
(* One line per executed case:                                             *)
(*   [ev |-> "step", case |-> n, tpl, data, exp |-> Seq(token),            *)
(*    ret |-> "ok" | "loaderr" | "err" | "panic",                          *)
(*    ok |-> BOOLEAN   got = concretised exp in every concretisation round,*)
(*    round, text, got, want, pmsg  (diagnostics of the first bad round)]   *)
(* The judge recomputes Render(tpl, data) itself (the harness must have    *)
(* compared against exactly the specified tokens) and the class set of the *)
(* case. A deviating case is a witness                                     *)
(*   <<"C16", "render" | "panic" | "error", classes of the case ...>>      *)
(* where plain content classes (literal text, plain variable / field /     *)
(* {{this}} substitution) are named only if the case contains nothing else,*)
(* and only the witnesses whose class set is minimal (no other deviating   *)
(* case of the run has a smaller class set) are reported: a deviation is   *)
(* attributed to the smallest combination of constructs that shows it.     *)
(* It never blocks.                                                        *)
(***************************************************************************)
EXTENDS Tmpl, Json, IOUtils, SequencesExt

Trace == ndJsonDeserialize(IOEnv.WZ_OBS)

VARIABLES l, wit, seen, nbad
tvars == <<l, wit, seen, nbad>>

Kind(e) == IF e.ret = "panic" THEN "panic"
           ELSE IF e.ret # "ok" THEN "error"
           ELSE IF ~e.ok THEN "render"
           ELSE "none"

\* w = [kind, ks, case]; keep w only if no recorded witness of the same kind has a subset of its classes
Add(w, x) ==
  IF \E r \in w : r.kind = x.kind /\ r.ks \subseteq x.ks THEN w
  ELSE {r \in w : ~(r.kind = x.kind /\ x.ks \subseteq r.ks)} \cup {x}

TInit == l = 1 /\ wit = {} /\ seen = {} /\ nbad = 0

TStep == /\ l <= Len(Trace)
         /\ LET e == Trace[l]
                all == Classes(e.tpl, e.data)
                ks == IF all \subseteq ContentClasses THEN all ELSE all \ ContentClasses
                want == Render(e.tpl, e.data)
                k == Kind(e)
            IN /\ wit' = (IF want # e.exp THEN Add(wit, [kind |-> "MACH-exp", ks |-> {}, case |-> e.case])
                          ELSE IF k = "none" THEN wit
                          ELSE Add(wit, [kind |-> k, ks |-> ks, case |-> e.case]))
               /\ seen' = seen \cup all
               /\ nbad' = IF k = "none" THEN nbad ELSE nbad + 1
         /\ l' = l + 1

Sig(w) == IF w.kind = "MACH-exp" THEN <<"MACH", "exp">> ELSE <<"C16", w.kind>> \o SetToSeq(w.ks)

TDone == /\ l = Len(Trace) + 1
         /\ ("WZ_STAT" \in DOMAIN IOEnv) =>
               JsonSerialize(IOEnv.WZ_STAT, [classes |-> seen, deviating |-> nbad, cases |-> l - 1])
         /\ PrintT(<<"WZDONE", l - 1, ToJson({[sig |-> Sig(w), case |-> w.case] : w \in wit})>>)
         /\ l' = l + 1 /\ UNCHANGED <<wit, seen, nbad>>

TNext == TStep \/ TDone
TSpec == TInit /\ [][TNext]_tvars
=============================================================================
