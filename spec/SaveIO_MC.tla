----------------------------- MODULE SaveIO_MC -----------------------------
(* Exhaustive exploration of the save protocol (SpecMC: every configuration, every step) *)
(* and generation of save scenarios for the real library (SpecGen).                      *)
EXTENDS SaveIO, Json

CONSTANTS MaxEnt,      \* entries per package: 1..MaxEnt
          MinDat, MaxDat, \* compressed data of an entry: MinDat..MaxDat bytes (0: a stored empty part; header is 1 byte)
          DirSizes,    \* sizes of the central directory
          BufSizes,    \* capacities of the buffered writer
          MCVariants,  \* protocol variants explored
          MCTargets,   \* target classes explored
          \* --- generation ---
          GroupNames   \* which scenario groups (below) are enumerated

VARIABLES cfg, st, hist
vars == <<cfg, st, hist>>

\* ---- all configurations ----------------------------------------------------
SeqsOf(S, n) == [1..n -> S]
Layouts == UNION {{[hdr |-> [i \in 1..n |-> 1], dat |-> d] : d \in SeqsOf(MinDat..MaxDat, n)} : n \in 1..MaxEnt}
Passes(d) == {p \in SeqsOf(0..MaxDat, Len(d)) : \A i \in 1..Len(d) : p[i] <= d[i]}

\* which (variant, target, staged, other faults) combinations are worth exploring: the deviating variants only where they can deviate
Explored(v, t, sg, cf, sf) ==
  CASE v = "intended"    -> ~sg \/ t \in {"newdir", "existing", "device", "linktofile"}   \* (staged: where writes happen)
    [] v = "asbuilt"     -> ~sg /\ t \notin PathForms
    [] v = "cleaned"     -> ~sg /\ (t \in PathForms \/ t = "newdir") /\ ~cf /\ ~sf
    [] v = "uncollected" -> sg /\ t \in {"newdir", "linktofile"} /\ ~cf /\ ~sf
    [] OTHER -> FALSE
InitMC == /\ cfg \in {[variant |-> x[1], target |-> x[2], staged |-> x[3], hdr |-> l.hdr, dat |-> l.dat, pass |-> p, dir |-> dr, B |-> b,
                       faultAt |-> k, closeFault |-> cf, serFault |-> sf] :
                         x \in {y \in MCVariants \X MCTargets \X BOOLEAN : TRUE},
                         l \in Layouts, p \in {<<>>},
                         dr \in DirSizes, b \in BufSizes, k \in {NoFault}, cf \in BOOLEAN, sf \in BOOLEAN}
          /\ Explored(cfg.variant, cfg.target, cfg.staged, cfg.closeFault, cfg.serFault)
          /\ st = InitSt(cfg) /\ hist = <<>>
\* the configuration is completed step by step so that TLC never materialises the product:
\* pass and faultAt are chosen in a first step
Choose == /\ st.pc = "mkdir" /\ cfg.pass = <<>>
          /\ \E p \in Passes(cfg.dat), k \in -1..N(cfg) :
                cfg' = [cfg EXCEPT !.pass = p, !.faultAt = k]
          /\ st' = [st EXCEPT !.pc = "mkdir"] /\ hist' = <<"chosen">>
Advance == /\ hist = <<"chosen">> /\ st.pc # "done"
           /\ st' = Step(cfg, st) /\ UNCHANGED <<cfg, hist>>
NextMC == Choose \/ Advance
SpecMC == InitMC /\ [][NextMC]_vars /\ WF_vars(NextMC)

Chosen == hist = <<"chosen">>

\* ---- C05 at design level ------------------------------------------------------
\* success is reported only for a complete, closed file
C05Holds == st.ret = "nil" => Complete(cfg, st)
Intended == cfg.variant = "intended"
Inv_C05 == Intended => C05Holds
\* ... which the protocol as built (deferred closes, errors dropped) does NOT satisfy: this
\* "invariant" is expected to be violated; TLC's counterexample is the defect (SaveIO_MC_asbuilt_cex.cfg)
Inv_C05_AsBuilt == (cfg.variant = "asbuilt" /\ ~cfg.closeFault) => C05Holds
\* lexical cleaning of the path is harmless exactly where it leads to the same place ...
Inv_C05_Cleaned == (cfg.variant = "cleaned" /\ LexicallySafe(cfg.target)) => C05Holds
\* ... and where it does not, every success it reports is a false one (the file was written, but elsewhere)
Inv_CleanedElsewhere == (cfg.variant = "cleaned" /\ ~LexicallySafe(cfg.target) /\ st.ret = "nil") => ~Complete(cfg, st)
\* the spellings: only ".." after a symbolic link makes the cleaned string lead elsewhere
Inv_PathForms == \A t \in Targets : LexicallySafe(t) <=> t # "linkdotdot"
\* a stage whose result is not collected loses exactly the failures of the last chunk: nil for an incomplete file
\* happens only if a write failed that nobody was told about, and then the fault lies in the tail
Inv_Uncollected == (Chosen /\ cfg.variant = "uncollected" /\ st.pc = "done" /\ st.ret = "nil" /\ ~Complete(cfg, st)) =>
                      (st.failed /\ cfg.faultAt # NoFault /\ cfg.faultAt + TailBytes(cfg) >= N(cfg))
\* and it does lose them: the deviation is real (a fault in the very last byte is never reported)
Inv_UncollectedLoses == (Chosen /\ cfg.variant = "uncollected" /\ st.pc = "done" /\ ~cfg.serFault /\ ~cfg.closeFault
                           /\ cfg.target # "device" /\ cfg.faultAt = N(cfg) - 1) => (st.ret = "nil" /\ ~Complete(cfg, st))
\* a failed write / create / close is never reported as success
Inv_FaultReported == (Intended /\ st.ret = "nil") => ~st.failed
\* no error is invented
Inv_NoSpurious == st.ret = "err" => (st.failed \/ cfg.serFault)
\* the protocol's result is the closed form the trace judge uses
Inv_Oracle == (Intended /\ Chosen /\ st.pc = "done") => st.ret = ExpRet(cfg)
\* nothing is lost silently: durable + buffered = handed to the buffered writer, while no write failed
Inv_Conservation == (st.file.kind = "new" /\ ~st.werr /\ ~st.failed) => st.file.len + st.buf = st.prod
\* the target never holds more than it accepts; the buffer never exceeds its capacity
Inv_Limit == /\ (Chosen /\ st.file.kind = "new" /\ cfg.faultAt # NoFault) => st.file.len <= cfg.faultAt
             /\ st.buf <= cfg.B
\* a limit that leaves more than Tail missing is hit before the zip writer is closed
Inv_EarlySurfaces ==
  (Chosen /\ st.pc = "closezip" /\ Regular(cfg.target) /\ ~cfg.serFault
     /\ cfg.faultAt # NoFault /\ cfg.faultAt + TailBytes(cfg) < N(cfg)) => st.err \in {"entry", "data"}
\* the recursive runner used by the judge agrees with the step relation
Inv_Run == (Chosen /\ st.pc = "done") => Run(cfg) = st
\* as built: success is reported exactly when nothing failed before the closes
Inv_AsBuiltNil == (Chosen /\ st.pc = "done" /\ cfg.variant = "asbuilt") =>
                    (st.ret = "nil" <=> st.err = "none")
\* the first error is the one reported; a failed buffered writer stays failed; what is durable is never taken back
Act_ErrSticky == [][(Chosen /\ st.err # "none") => st'.err = st.err]_vars
Act_WerrSticky == [][(Chosen /\ st.werr) => st'.werr]_vars
Act_FileGrows == [][(Chosen /\ st.file.kind = "new" /\ st'.file.kind = "new") => st'.file.len >= st.file.len]_vars
\* every call returns
Live_Returns == <>(st.pc = "done")

\* ---- generation of scenarios -----------------------------------------------------
\* A scenario group fixes the content alphabet (operations on a Document / blocks of a Markdown
\* source), the entry points, the target classes, the fault plan ("none": one call without a
\* limit; "sweep": one call per fault offset - points = 0: every offset 0..N+2, points = n: about
\* n evenly spaced ones plus the first and last `edge` offsets and the buffer boundaries), and
\* the number of content operations / saves per behaviour.
\* Plan "conc" (GC): the save under test is repeated `rounds` times by its own goroutine while `others` further goroutines
\* each save a document of their own (different content and size) to a path of their own as often, all free-running;
\* every one of these calls is an observation, judged like any other.
\* Content classes: sizes from below one buffer of the zip writer to beyond a quarter / half of a MiB (thresholds at which
\* an implementation may change its strategy), origins New / opened-minimal / opened-rich / opened-odd (a package that
\* carries degenerate parts: zero-length, one byte, incompressible beyond one deflate block, unusual names).
SmallDoc == {"table", "header", "footnote", "para", "image", "list"}
LargeDoc == {"longtext", "midimage", "bigimage", "hugeimage"}
AllDoc   == {"openmin", "openrich", "openodd", "para", "heading", "longtext", "table", "image", "midimage", "header", "footer", "footnote", "list", "margins", "title", "style", "pad32k", "pad64k"}
AllMd    == {"mdpara", "mdheading", "mdlist", "mdtable", "mdlong"}
Reg      == {"newdir", "existing"}
G(g, doc, md, vias, targets, plan, points, edge, maxdoc, maxsaves) ==
  [g |-> g, doc |-> doc, md |-> md, vias |-> vias, targets |-> targets, plan |-> plan,
   points |-> points, edge |-> edge, maxdoc |-> maxdoc, maxsaves |-> maxsaves, rounds |-> 0, others |-> {0}]
GC(g, doc, targets, rounds, others, maxdoc) ==
  [g |-> g, doc |-> doc, md |-> {}, vias |-> {"Save"}, targets |-> targets, plan |-> "conc",
   points |-> 0, edge |-> 0, maxdoc |-> maxdoc, maxsaves |-> 1, rounds |-> rounds, others |-> others]
AllGroups == {
  \* quick tier
  G("q-sweep-all",   {"table"}, {}, {"Save"}, Reg, "sweep", 0, 0, 1, 1),
  G("q-sweep-large", LargeDoc, {}, {"Save"}, {"newdir"}, "sweep", 120, 64, 1, 1),
  G("q-targets",     AllDoc, {}, {"Save"}, Targets, "none", 0, 0, 1, 1),
  G("q-md-targets",  {}, AllMd, {"ConvertFile", "BatchConvert"}, Targets, "none", 0, 0, 1, 1),
  G("q-md-sweep",    {}, {"mdtable", "mdlong"}, {"ConvertFile"}, {"newdir"}, "sweep", 150, 64, 1, 1),
  G("q-resave",      {"para", "image", "title", "style"}, {}, {"Save"}, {"newdir", "existing", "device", "resave"}, "none", 0, 0, 2, 2),
  G("q-opened",      {"openmin", "openrich", "openodd", "heading", "para", "style", "list"}, {}, {"Save"}, Reg, "none", 0, 0, 2, 1),
  G("q-odd-sweep",   {"openodd"}, {}, {"Save"}, {"newdir"}, "sweep", 100, 32, 1, 1),
  G("q-spelt-sweep", {"para"}, {}, {"Save"}, {"linkdotdot", "linktofile", "relative"}, "sweep", 24, 8, 1, 1),
  GC("q-conc",       {"para", "table", "image", "openmin", "longtext"}, Reg, 32, {1, 3}, 1),
  G("q-random",      AllDoc, {}, {"Save"}, {"newdir", "existing", "device", "resave"}, "sweep", 60, 32, 8, 2),
  \* thorough tier
  G("t-sweep-all",   SmallDoc, {}, {"Save"}, Reg, "sweep", 0, 0, 1, 1),
  G("t-sweep-large", LargeDoc \ {"hugeimage"}, {}, {"Save"}, Reg, "sweep", 600, 256, 2, 1),
  G("t-sweep-huge",  {"hugeimage", "bigimage"}, {}, {"Save"}, Reg, "sweep", 300, 128, 2, 1),
  G("t-targets",     AllDoc, {}, {"Save"}, Targets, "none", 0, 0, 2, 1),
  G("t-md-targets",  {}, AllMd, {"ConvertFile", "BatchConvert"}, Targets, "none", 0, 0, 2, 1),
  G("t-md-sweep",    {}, {"mdtable", "mdlong"}, {"ConvertFile", "BatchConvert"}, {"newdir"}, "sweep", 0, 0, 1, 1),
  G("t-resave",      {"para", "image", "header", "title", "style", "margins"}, {}, {"Save"}, {"newdir", "existing", "device", "resave"}, "none", 0, 0, 3, 3),
  G("t-odd-sweep",   {"openodd"}, {}, {"Save"}, Reg, "sweep", 400, 128, 2, 1),
  G("t-spelt-sweep", {"para", "midimage"}, {}, {"Save"}, PathForms, "sweep", 60, 16, 1, 1),
  GC("t-conc",       {"para", "table", "image", "openmin", "openrich", "openodd", "longtext", "midimage"}, Reg \cup {"resave", "vialink"}, 40, {1, 2, 3, 7}, 1),
  G("t-opened-odd",  {"openodd", "heading", "para", "style", "footnote"}, {}, {"Save"}, {"newdir", "existing", "device", "resave"}, "none", 0, 0, 2, 2),
  G("t-opened",      {"openmin", "openrich", "heading", "para", "style", "list", "footnote", "header", "title"}, {}, {"Save"}, {"newdir", "existing", "device", "resave"}, "none", 0, 0, 3, 2),
  G("t-random",      AllDoc, {}, {"Save"}, {"newdir", "existing", "device", "resave"}, "sweep", 400, 128, 8, 3)}
Groups == {x \in AllGroups : x.g \in GroupNames}

\* a behaviour: the group, then content operations and saves; emitted whenever it ends with a save
IsSave(o) == o.op = "Save"
\* BatchConvert is given a directory and composes the path of the file itself (directory + name of the input), so the
\* spelling of the file's path is not the caller's: the spelt targets are for the entry points that take the path
SpellsPath(v, t) == v = "BatchConvert" => t \notin PathForms
NSaves(h) == Cardinality({i \in 1..Len(h) : IsSave(h[i])})
NDoc(h) == Len(h) - NSaves(h) - 1
GroupOf(h) == CHOOSE x \in Groups : x.g = h[1].g

InitGen == cfg = <<>> /\ st = <<>> /\ hist = <<>>
NextGen ==
  /\ UNCHANGED <<cfg, st>>
  /\ IF hist = <<>> THEN \E x \in Groups : hist' = <<[op |-> "Group", g |-> x.g]>>
     ELSE LET x == GroupOf(hist) IN
          /\ NSaves(hist) < x.maxsaves
          /\ \/ \E o \in x.doc \cup x.md :
                  /\ NDoc(hist) < x.maxdoc
                  /\ hist' = Append(hist, [op |-> o])
             \/ \E v \in x.vias, t \in x.targets, n \in x.others :
                  /\ SpellsPath(v, t)
                  /\ hist' = Append(hist, [op |-> "Save", via |-> v, target |-> t,
                                        plan |-> x.plan, points |-> x.points, edge |-> x.edge,
                                        rounds |-> x.rounds, others |-> n])
SpecGen == InitGen /\ [][NextGen]_vars

Emit == \/ Len(hist) = 0
        \/ ~IsSave(hist[Len(hist)])
        \/ PrintT(<<"WZCASE", ToJson(hist)>>)
=============================================================================
