SPECIFICATION SpecMC
CONSTANTS
  Rot = 0
  Groups = {"mc-q"}
INVARIANTS Inv_Ref Inv_NoCallAfterError Inv_Built Inv_Muts Inv_OpenOp
CHECK_DEADLOCK FALSE
