------------------------------- MODULE Body -------------------------------
(***************************************************************************)
(* Pure (variable-free) specification of the document body as an ordered   *)
(* list of elements (property C08).                                        *)
(*                                                                         *)
(* Abstract state  s = [els |-> Seq([u: uid, k: kind]), nxt |-> uid]       *)
(*   u   identity of the element (allocated in order of creation)          *)
(*   k   "p" paragraph, "tbl" table, "sect" section settings,              *)
(*       "bms"/"bme" bookmark start/end, "sdt" content control (TOC),      *)
(*       "math" formula paragraph (not a *Paragraph for index purposes)    *)
(* An operation is a record  [op |-> name, ...args].  Constructors that    *)
(* take a text carry txt \in {"tok", "empty"} (absent = "tok"): the class  *)
(* of the text never changes what is appended.  "Read" (what \in {"paras", *)
(* "tables"}) is the accessor pair GetParagraphs / GetTables: it changes    *)
(* nothing and returns exactly the live elements of that kind, in order.    *)
(* AddImage may carry same = TRUE: the bytes, the format and the config     *)
(* object are those of every other such call of the behaviour (a repeated   *)
(* append is still an append).                                              *)
(***************************************************************************)
EXTENDS Integers, Sequences, FiniteSets, TLC

Kinds == {"p", "tbl", "sect", "bms", "bme", "sdt", "math"}

InitSt == [els |-> <<>>, nxt |-> 1]

\* ---- helpers ------------------------------------------------------------
RemoveIdx(s, i) == [j \in 1..(Len(s) - 1) |-> IF j < i THEN s[j] ELSE s[j + 1]]
SelectIdx(s, T(_)) == {i \in 1..Len(s) : T(s[i])}
MinOf(S) == CHOOSE x \in S : \A y \in S : x <= y
IsSect(e) == e.k = "sect"
IsPara(e) == e.k = "p"
HasSect(s) == SelectIdx(s.els, IsSect) # {}

\* Position (1-based, in els) of the paragraph with 0-based paragraph index n, or 0
ParaPos(els, n) ==
  LET P == SelectIdx(els, IsPara)
      C == {i \in P : Cardinality({j \in P : j < i}) = n}
  IN IF C = {} THEN 0 ELSE CHOOSE i \in C : TRUE

\* ---- what each constructor appends --------------------------------------
Appends(op) ==
  CASE op.op = "AddParagraph"                    -> <<"p">>
    [] op.op = "AddFormattedParagraph"           -> <<"p">>
    [] op.op = "AddHeadingParagraph"             -> <<"p">>
    [] op.op = "AddHeadingParagraphWithBookmark" -> <<"bms", "p", "bme">>
    [] op.op = "AddHeadingWithBookmark"          -> <<"p", "bme">>   \* as built: no start marker in the body
    [] op.op = "AddPageBreak"                    -> <<"p">>
    [] op.op = "AddTable"                        -> <<"tbl">>
    [] op.op = "AddImage"                        -> <<"p">>
    [] op.op = "AddListItem"                     -> <<"p">>
    [] op.op = "AddFootnote"                     -> <<"p">>
    [] op.op = "AddEndnote"                      -> <<"p">>
    [] op.op = "AddMathFormula"                  -> <<"math">>
    [] op.op = "GenerateTOC"                     -> <<"sdt">>
    [] op.op = "AddElement"                      -> <<op.k>>
    \* one list paragraph per item, whatever the items hold (op.blank = index of an item with empty text, 0 = none)
    [] op.op = "CreateMultiLevelList"            -> [i \in 1..op.n |-> "p"]
    [] OTHER                                     -> <<>>

Constructors == {"AddParagraph", "AddFormattedParagraph", "AddHeadingParagraph",
                 "AddHeadingParagraphWithBookmark", "AddHeadingWithBookmark",
                 "AddPageBreak", "AddTable", "AddImage", "AddListItem", "AddFootnote",
                 "AddEndnote", "AddMathFormula", "GenerateTOC", "AddElement", "CreateMultiLevelList"}

\* calls that (find or) create the section settings; they never move anything
SectTouchers == {"SetPageMargins", "SetPageSize", "SetPageOrientation", "GetPageSettings",
                 "AddHeader", "AddFooter", "AddHeaderWithPageNumber", "AddFooterWithPageNumber",
                 "SetDifferentFirstPage", "SetDocGrid", "ClearDocGrid"}

Removers == {"RemoveParagraph", "RemoveParagraphAt", "RemoveElementAt"}

\* constructors whose text argument is an argument class of the model
TextCtors == {"AddParagraph", "AddFormattedParagraph", "AddHeadingParagraph", "AddListItem", "AddFootnote", "AddEndnote"}

\* Body.AddElement(el) appends the element it is given (a paragraph or a table built by the caller)
\* Read: the uids GetParagraphs / GetTables must return
Readers == {"Read"}
ReadKind(op) == IF op.what = "tables" THEN "tbl" ELSE "p"
ReadResult(s, op) == LET z == SelectSeq(s.els, LAMBDA e : e.k = ReadKind(op)) IN [i \in 1..Len(z) |-> z[i].u]

Fresh(s, kinds) == [i \in 1..Len(kinds) |-> [u |-> s.nxt + i - 1, k |-> kinds[i]]]

\* Position removed by a removal op (0 = nothing to remove)
Target(s, op) ==
  CASE op.op = "RemoveParagraph" ->
         LET C == {i \in 1..Len(s.els) : s.els[i].u = op.h /\ s.els[i].k = "p"}
         IN IF C = {} THEN 0 ELSE MinOf(C)
    [] op.op = "RemoveParagraphAt" -> IF op.i < 0 THEN 0 ELSE ParaPos(s.els, op.i)
    [] op.op = "RemoveElementAt" -> IF op.i >= 0 /\ op.i < Len(s.els) THEN op.i + 1 ELSE 0

Apply(s, op) ==
  IF op.op \in Constructors THEN
       [s EXCEPT !.els = s.els \o Fresh(s, Appends(op)), !.nxt = s.nxt + Len(Appends(op))]
  ELSE IF op.op \in SectTouchers THEN
       IF HasSect(s) THEN s
       ELSE [s EXCEPT !.els = Append(s.els, [u |-> s.nxt, k |-> "sect"]), !.nxt = s.nxt + 1]
  ELSE IF op.op \in Removers THEN
       IF Target(s, op) = 0 THEN s ELSE [s EXCEPT !.els = RemoveIdx(s.els, Target(s, op))]
  ELSE s

Ret(s, op) ==
  IF op.op \in Removers THEN (IF Target(s, op) = 0 THEN "false" ELSE "true") ELSE "ok"

\* ---- serialisation: the body children of the saved main part -------------
\* everything except section settings in list order, then the section settings
NonSect(els) == SelectSeq(els, LAMBDA e : e.k # "sect")
Sects(els)   == SelectSeq(els, LAMBDA e : e.k = "sect")
Ser(els) == IF Sects(els) = <<>> THEN NonSect(els)
            ELSE Append(NonSect(els), Sects(els)[Len(Sects(els))])
SavedKind(k) == k

\* ---- the property on a state (witness set; empty = holds) ----------------
\* saved = sequence of [k, t] read from the written main part;
\* mem   = sequence of [u, k, t] read from the in-memory body
Viol_Save(mem, saved) ==
  LET exp == Ser(mem)
      nsect == Cardinality({i \in 1..Len(saved) : saved[i].k = "sect"})
  IN  (IF nsect > 1 THEN {<<"save", "sect-count">>} ELSE {})
      \cup (IF nsect = 1 /\ saved[Len(saved)].k # "sect" THEN {<<"save", "sect-not-last">>} ELSE {})
      \cup (IF nsect = 0 /\ Sects(mem) # <<>> THEN {<<"save", "sect-lost">>} ELSE {})
      \cup (IF Len(saved) # Len(exp) THEN {<<"save", "length">>}
            ELSE IF \E i \in 1..Len(exp) :
                       saved[i].k # SavedKind(exp[i].k) \/ saved[i].t # exp[i].t
                 THEN {<<"save", "order">>} ELSE {})

\* model-level statement of C08 on the reference machine
SectAtMostOnce(s) == Cardinality(SelectIdx(s.els, IsSect)) <= 1
UidsDistinct(s) == \A i, j \in 1..Len(s.els) : i # j => s.els[i].u # s.els[j].u
SerWellFormed(s) ==
  LET z == Ser(s.els) IN
    /\ \A i \in 1..Len(z) : z[i].k = "sect" => i = Len(z)
    /\ NonSect(z) = NonSect(s.els)
=============================================================================
