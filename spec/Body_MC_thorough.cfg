SPECIFICATION SpecMC
CONSTANTS
  MaxEls = 5
  MaxUid = 7
  Depth = 0
  OpNames = {"AddParagraph", "AddHeadingParagraphWithBookmark", "AddTable", "AddMathFormula", "GenerateTOC", "SetPageMargins", "AddHeader", "RemoveParagraph", "RemoveParagraphAt", "RemoveElementAt", "Read", "AddElement"}
  TxtC = {"tok"}
  IdxC = {}
INVARIANTS Inv_Sect Inv_Uids Inv_Ser
PROPERTIES Act_AppendOnly Act_RemoveExact Act_ReadPure
CHECK_DEADLOCK FALSE
