SPECIFICATION SpecMC
CONSTANTS
  MaxEls = 5
  MaxUid = 7
  Depth = 0
  OpNames = {"AddParagraph", "AddHeadingParagraphWithBookmark", "AddTable", "AddMathFormula", "GenerateTOC", "SetPageMargins", "AddHeader", "RemoveParagraph", "RemoveParagraphAt", "RemoveElementAt"}
INVARIANTS Inv_Sect Inv_Uids Inv_Ser
PROPERTIES Act_AppendOnly Act_RemoveExact
CHECK_DEADLOCK FALSE
