SPECIFICATION SpecMC
CONSTANTS
  MaxSteps = 3
  Depth = 0
  OpNames = {"AddImage", "AddHeader", "AddFooterWithPageNumber", "AddListItem", "AddFootnote", "SetFootnoteConfig", "SetProps", "Placeholder", "Render", "Reopen", "RemoveFootnote"}
  KindsC = {"default", "first"}
  WhereC = {"body", "resource"}
  ViaC = {"data", "item", "text", "props", "mem", "doc"}
  StartNew = TRUE
  SchemesC = {"sparse", "nonrid", "styleslast", "stylesmid", "nostyles", "collide"}
  ContentsC = {"mix", "min"}
  FlagsC = {TRUE}
  AbsC = {FALSE}
  PicC = {"png"}
  KeepC = {"only"}
  LastC = {}
  Design = "unused"
INVARIANTS Inv_C02 Inv_Wf
PROPERTIES Act_Existing Act_New Act_Refs Act_Frame
CHECK_DEADLOCK FALSE
