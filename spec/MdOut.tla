------------------------------- MODULE MdOut -------------------------------
(***************************************************************************)
(* Reference semantics of Word -> Markdown export (property C20).          *)
(*                                                                         *)
(* The subsystem: an exporter is created with options (NewExporter) and    *)
(* exports a document as a string, as bytes, to a file or as a batch of    *)
(* files (the last two open a saved package).  An export is a pure         *)
(* function of (document body, options).                                   *)
(*                                                                         *)
(* Abstract Word body = sequence of blocks, one record shape               *)
(*   [k, n, a, runs, rows]                                                 *)
(*   k = "p"     paragraph                                                 *)
(*       "h"     heading, n = level 1..9                                   *)
(*       "q"     paragraph in style Quote                                  *)
(*       "code"  paragraph in style CodeBlock                              *)
(*       "li"    list item, a = "bul" | "num", n = indentation level       *)
(*       "empty" paragraph without runs text                               *)
(*   a heading, quote or code paragraph may carry numbering properties too *)
(*   (a = "bul" | "num": Word's numbered headings); the style decides what *)
(*   the paragraph is, so it is exported as the heading / quote / code it  *)
(*   is.  Any of them may be blank (no run, or runs without a word): like  *)
(*   the empty paragraph it shows nothing, and it leaves no trace in what  *)
(*   the blocks after it look like.                                        *)
(*       "tbl"   table, rows = Seq(Seq(text class)) (first row = header)   *)
(*   runs = Seq([f |-> SUBSET {"b","i","s","c"}, c |-> text class])        *)
(*                                                                         *)
(* A text class stands for a sequence of visible tokens, Toks(c): words    *)
(* ("w1".."w3", "u1", "amp": the harness owns their spelling), single      *)
(* characters "c:<char>", "sp", "nl", "tab".                               *)
(*                                                                         *)
(* Options  o = [gfm, setext, meta : BOOLEAN, bullet, emph, lang : STRING, *)
(*               wrap : Nat (0 = off, else MaxLineLength), misc : STRING]  *)
(* misc names a setting of all the other fields of ExportOptions.          *)
(*                                                                         *)
(* ToMd(body, o) is what the property demands of the Markdown, as a        *)
(* relation over its PROJECTION (what a Markdown reader sees): a sequence  *)
(*   [k, lvl, toks, rows, src]                                             *)
(*   k = "p" "h" "q" "code" "li" "tbl" | "weak" (table written in the      *)
(*   non-GFM layout: Markdown has no such table, only the words are        *)
(*   prescribed); toks = Seq([t, f]) visible tokens with flags;            *)
(*   rows = Seq(Seq(Seq(token)));  src = index of the body block.          *)
(* Block order = body order; every run's tokens exactly once; flags        *)
(* expressed.  Markdown has six heading levels (7..9 are written as 6),    *)
(* cannot show an empty paragraph, and code has no inline formatting.      *)
(* The fixpoint law: the body obtained by converting the Markdown back has *)
(* the same projection (flags not demanded), and exporting it again gives  *)
(* the same Markdown.                                                      *)
(***************************************************************************)
EXTENDS Integers, Sequences, FiniteSets, TLC

Blk(k, n, a, runs, rows) == [k |-> k, n |-> n, a |-> a, runs |-> runs, rows |-> rows]
Run(f, c) == [f |-> f, c |-> c]

ParaKinds == {"p", "h", "q", "code", "li", "empty"}
AllFlags == {"b", "i", "s", "c"}

\* ---- text classes ------------------------------------------------------------
PlainClasses == {"w1", "w2", "w3", "two"}
Toks(c) ==
  CASE c = "w1"     -> <<"w1">>
    [] c = "w2"     -> <<"w2">>
    [] c = "w3"     -> <<"w3">>
    [] c = "two"    -> <<"w1", "sp", "w2">>
    [] c = "empty"  -> <<>>
    [] c = "cjk"    -> <<"u1">>
    \* Markdown metacharacters in harmless and in meaningful positions
    [] c = "star"   -> <<"c:*", "w1", "c:*">>
    [] c = "star1"  -> <<"w1", "sp", "c:*", "sp", "w2">>
    [] c = "us"     -> <<"c:_", "w1", "c:_">>
    [] c = "us1"    -> <<"w1", "c:_", "w2">>
    [] c = "hash"   -> <<"c:#", "sp", "w1">>
    [] c = "hashend" -> <<"w1", "sp", "c:#">>
    [] c = "pipe"   -> <<"w1", "sp", "c:|", "sp", "w2">>
    [] c = "tick"   -> <<"c:`", "w1", "c:`">>
    [] c = "tick1"  -> <<"w1", "c:`", "w2">>
    [] c = "gt"     -> <<"c:>", "sp", "w1">>
    [] c = "brk"    -> <<"c:[", "w1", "c:]">>
    [] c = "link"   -> <<"c:[", "w1", "c:]", "c:(", "w2", "c:)">>
    [] c = "bs"     -> <<"w1", "c:\\", "c:*">>
    [] c = "bs1"    -> <<"w1", "c:\\", "w2">>
    [] c = "lt"     -> <<"c:<", "w1", "c:>">>
    [] c = "lt1"    -> <<"w1", "sp", "c:<", "sp", "w2">>
    [] c = "amp"    -> <<"c:&", "amp", "c:;">>
    [] c = "amp1"   -> <<"w1", "sp", "c:&", "sp", "w2">>
    [] c = "tilde"  -> <<"c:~", "c:~", "w1", "c:~", "c:~">>
    [] c = "numdot" -> <<"c:1", "c:.", "sp", "w1">>
    [] c = "dash"   -> <<"c:-", "sp", "w1">>
    [] c = "dash1"  -> <<"w1", "sp", "c:-", "sp", "w2">>
    [] c = "fence"  -> <<"c:`", "c:`", "c:`">>
    \* the other list markers in front of a word, and a number of two digits
    [] c = "plus"   -> <<"c:+", "sp", "w1">>
    [] c = "numpar" -> <<"c:3", "c:)", "sp", "w1">>
    [] c = "num2"   -> <<"c:1", "c:2", "c:.", "sp", "w1">>
    \* the whole text is what Markdown reads as a block marker (nothing follows it, or white space only)
    [] c = "m-dash" -> <<"c:-">>
    [] c = "m-plus" -> <<"c:+">>
    [] c = "m-star" -> <<"c:*">>
    [] c = "m-num"  -> <<"c:1", "c:2", "c:.">>
    [] c = "m-par"  -> <<"c:3", "c:)">>
    [] c = "m-hash" -> <<"c:#">>
    [] c = "m-gt"   -> <<"c:>">>
    [] c = "m-rule" -> <<"c:-", "c:-", "c:-">>
    [] c = "m-eq"   -> <<"c:=", "c:=", "c:=">>
    [] c = "m-dashsp" -> <<"c:-", "sp">>
    \* ... and what looks like one but is none
    [] c = "dashw"  -> <<"c:-", "w1">>
    [] c = "decimal" -> <<"c:1", "c:.", "c:5">>
    \* white space
    [] c = "lead"   -> <<"sp", "w2">>
    [] c = "trail"  -> <<"w2", "sp">>
    [] c = "dbl"    -> <<"w1", "sp", "sp", "w2">>
    [] c = "ind4"   -> <<"sp", "sp", "sp", "sp", "w1">>
    [] c = "nl"     -> <<"w1", "nl", "w2">>
    [] c = "tab"    -> <<"w1", "tab", "w2">>
    [] c = "ws"     -> <<"sp">>
    [] OTHER        -> <<"?" \o c>>

Ws == {"sp", "nl", "tab"}

\* ---- options -------------------------------------------------------------------
DefaultOpts == [gfm |-> TRUE, setext |-> FALSE, meta |-> FALSE, bullet |-> "-", emph |-> "*", lang |-> "",
                wrap |-> 0, misc |-> "default"]

\* ---- the exporter as a state machine ----------------------------------------------
\* NewExporter(opts) fixes the options (nil = the documented defaults); an Export* call may pass options again
\* (they replace the exporter's) or nil.  Exporting changes neither the document nor what a later export gives.
NewExp(o) == [opts |-> o]
Apply(c, op) == IF op.op = "new" THEN NewExp(op.opts)
                ELSE IF op.op = "export" /\ op.co = "given" THEN NewExp(op.opts)
                ELSE c

\* ---- expected projection ------------------------------------------------------------
RunToks(r, keepFlags) == [i \in 1..Len(Toks(r.c)) |-> [t |-> Toks(r.c)[i], f |-> IF keepFlags THEN r.f ELSE {}]]
RECURSIVE CatRuns(_, _)
CatRuns(rs, keep) == IF rs = <<>> THEN <<>> ELSE RunToks(Head(rs), keep) \o CatRuns(Tail(rs), keep)
ParaToks(b) == CatRuns(b.runs, b.k # "code")

HasWord(ts) == \E i \in 1..Len(ts) : ts[i] \notin Ws
Visible(b) ==
  IF b.k = "tbl" THEN TRUE
  ELSE b.k # "empty" /\ \E i \in 1..Len(b.runs) : HasWord(Toks(b.runs[i].c))

EBlk(b, i, o) ==
  CASE b.k = "tbl" -> [k |-> IF o.gfm THEN "tbl" ELSE "weak", lvl |-> 0, toks |-> <<>>,
                       rows |-> [r \in 1..Len(b.rows) |-> [c \in 1..Len(b.rows[r]) |-> Toks(b.rows[r][c])]], src |-> i]
    [] b.k = "h"   -> [k |-> "h", lvl |-> IF b.n > 6 THEN 6 ELSE b.n, toks |-> ParaToks(b), rows |-> <<>>, src |-> i]
    [] OTHER       -> [k |-> b.k, lvl |-> 0, toks |-> ParaToks(b), rows |-> <<>>, src |-> i]

RECURSIVE ToMdFrom(_, _, _)
ToMdFrom(B, i, o) ==
  IF i > Len(B) THEN <<>>
  ELSE (IF Visible(B[i]) THEN <<EBlk(B[i], i, o)>> ELSE <<>>) \o ToMdFrom(B, i + 1, o)
ToMd(B, o) == ToMdFrom(B, 1, o)

Ret(c, op) == IF op.op = "export" THEN ToMd(op.body, Apply(c, op).opts) ELSE <<>>

\* ---- construct classes (what a block contains) ----------------------------------------
FlagName(f) == (IF "b" \in f THEN "b" ELSE "") \o (IF "i" \in f THEN "i" ELSE "")
               \o (IF "s" \in f THEN "s" ELSE "") \o (IF "c" \in f THEN "c" ELSE "")
NonEmptyRuns(b) == SelectSeq(b.runs, LAMBDA r : Toks(r.c) # <<>>)
\* two formatted runs meet without white space between them
Tight(b) == LET rs == NonEmptyRuns(b)
            IN \E i \in 1..(Len(rs) - 1) :
                 LET x == Toks(rs[i].c)
                     y == Toks(rs[i + 1].c)
                 IN x[Len(x)] \notin Ws /\ y[1] \notin Ws /\ rs[i].f # {} /\ rs[i + 1].f # {}
\* a struck-through run that is also bold or italic touches a word (the ~~ then stands between a * and a letter)
SNest(b) == LET rs == NonEmptyRuns(b)
                sn(r) == "s" \in r.f /\ r.f \cap {"b", "i"} # {} /\ "c" \notin r.f
            IN \E i \in 1..(Len(rs) - 1) :
                 LET x == Toks(rs[i].c)
                     y == Toks(rs[i + 1].c)
                 IN x[Len(x)] \notin Ws /\ y[1] \notin Ws /\ (sn(rs[i]) \/ sn(rs[i + 1]))
\* a word directly before an italic run (an underscore there is not an emphasis delimiter)
Intra(b) == LET rs == NonEmptyRuns(b)
            IN \E i \in 1..(Len(rs) - 1) :
                 LET x == Toks(rs[i].c)
                     y == Toks(rs[i + 1].c)
                 IN x[Len(x)] \notin Ws /\ y[1] \notin Ws /\ ("i" \in rs[i].f) # ("i" \in rs[i + 1].f)

\* a bold / italic / struck-through run begins or ends with a punctuation character and touches a word of the
\* neighbouring run there (CommonMark: a delimiter between a letter and punctuation neither opens nor closes emphasis)
PunctTok(t) == t \in {"c:" \o x : x \in {"*", "_", "#", "|", "`", ">", "<", "[", "]", "(", ")", "\\", "&", ";", "~", ".", "-", "+", "="}}
WordTok(t) == t \notin Ws /\ ~PunctTok(t)
JoinPunct(b) == LET rs == NonEmptyRuns(b)
                    em(r) == r.f \cap {"b", "i", "s"} # {} /\ "c" \notin r.f
                IN \E i \in 1..(Len(rs) - 1) :
                     LET x == Toks(rs[i].c)
                         y == Toks(rs[i + 1].c)
                     IN \/ em(rs[i + 1]) /\ PunctTok(y[1]) /\ WordTok(x[Len(x)])
                        \/ em(rs[i]) /\ PunctTok(x[Len(x)]) /\ WordTok(y[1])

Classes(b, o) ==
  IF b.k = "tbl" THEN
    {"tbl"} \cup ({"t:" \o b.rows[r][c] : r \in 1..Len(b.rows), c \in 1..Len(b.rows[1])} \ {"t:" \o p : p \in PlainClasses})
    \cup (IF Len(b.rows) = 1 THEN {"tbl:head"} ELSE {})
    \cup (IF ~o.gfm THEN {"opt:simple"} ELSE {})
    \cup (IF o.meta THEN {"opt:meta"} ELSE {})
  ELSE
    {b.k}
    \cup (IF b.k = "h" /\ b.n > 6 THEN {"h:7+"} ELSE {})
    \cup (IF b.k = "h" /\ b.n <= 2 /\ o.setext THEN {"opt:setext"} ELSE {})
    \cup (IF b.k = "li" /\ b.a = "num" THEN {"li:num"} ELSE {})
    \cup (IF b.k = "li" /\ b.n > 0 THEN {"li:nest"} ELSE {})
    \* a heading / quote / code paragraph that carries numbering properties; a styled paragraph without a word
    \cup (IF b.k \in {"h", "q", "code"} /\ b.a # "" THEN {"numpr"} ELSE {})
    \cup (IF b.k \in {"h", "q", "code", "li"} /\ ~Visible(b) THEN {"blank-" \o b.k} ELSE {})
    \cup ({"t:" \o b.runs[i].c : i \in 1..Len(b.runs)} \ {"t:" \o p : p \in PlainClasses})
    \cup {"f:" \o FlagName(b.runs[i].f) : i \in {j \in 1..Len(b.runs) : b.runs[j].f # {} /\ Toks(b.runs[j].c) # <<>>}}
    \* derived: some text is formatted; a code-font run carries a second format; a formatted run begins or ends with white space
    \cup (IF \E i \in 1..Len(b.runs) : b.runs[i].f # {} /\ Toks(b.runs[i].c) # <<>> THEN {"fmt"} ELSE {})
    \cup (IF \E i \in 1..Len(b.runs) : "c" \in b.runs[i].f /\ b.runs[i].f # {"c"} /\ Toks(b.runs[i].c) # <<>> THEN {"fmt:c+"} ELSE {})
    \cup (IF \E i \in 1..Len(b.runs) : b.runs[i].f # {} /\ Toks(b.runs[i].c) # <<>>
                                       /\ (Toks(b.runs[i].c)[1] \in Ws \/ Toks(b.runs[i].c)[Len(Toks(b.runs[i].c))] \in Ws) THEN {"fmt:edge"} ELSE {})
    \cup (IF Len(NonEmptyRuns(b)) > 1 THEN {"runs"} ELSE {})
    \cup (IF Tight(b) THEN {"join:fmt"} ELSE {})
    \cup (IF \E i \in 1..Len(b.runs) : Cardinality(b.runs[i].f \ {"c"}) > 1 /\ Toks(b.runs[i].c) # <<>> THEN {"fmt:multi"} ELSE {})
    \cup (IF SNest(b) THEN {"join:strike+"} ELSE {})
    \cup (IF JoinPunct(b) THEN {"join:punct"} ELSE {})
    \cup (IF o.emph = "_" /\ Intra(b) THEN {"opt:us-intraword"} ELSE {})
    \cup (IF o.wrap > 0 /\ b.k = "p" THEN {"opt:wrap"} ELSE {})
    \cup (IF o.meta THEN {"opt:meta"} ELSE {})

\* what lies before block i of the body and shows nothing itself: a blank heading / quote / code / list paragraph
\* (the exporter walks the body with a memory - in a list, in a code block - that such a paragraph must not leave set)
HistCls(B, i) == {"after:blank-" \o B[j].k : j \in {x \in 1..(i - 1) : B[x].k \in {"h", "q", "code", "li"} /\ ~Visible(B[x])}}
ClassesAt(B, i, o) == Classes(B[i], o) \cup HistCls(B, i)

KC(k) == IF k \in {"tbl", "weak"} THEN "tbl" ELSE "par"
VisIdx(B) == {i \in 1..Len(B) : Visible(B[i])}
OrderCls(B) == {KC(B[p[1]].k) \o "<" \o KC(B[p[2]].k) : p \in {q \in VisIdx(B) \X VisIdx(B) : q[1] < q[2]}}
\* a list item is followed by a visible block that is not a list item
LiThen(B) == IF \E p \in VisIdx(B) \X VisIdx(B) : p[1] < p[2] /\ B[p[1]].k = "li" /\ B[p[2]].k # "li" THEN {"li<other"} ELSE {}
DocCls(B) == OrderCls(B) \cup LiThen(B)
\* for stability every block counts, also those that show nothing
EveryCls(B, o) == UNION {ClassesAt(B, i, o) : i \in 1..Len(B)} \cup DocCls(B)
AdjCls(B, lo, hi) == {"adj:" \o B[i].k \o ">" \o B[i + 1].k : i \in {j \in lo..(hi - 1) : j \in 1..(Len(B) - 1)}}
\* the blank styled paragraphs among blocks lo..hi
BlankIn(B, lo, hi) == {"blank-" \o B[i].k : i \in {j \in lo..hi : j \in 1..Len(B) /\ B[j].k \in {"h", "q", "code", "li"} /\ ~Visible(B[j])}}
AllCls(B, o) == UNION {ClassesAt(B, i, o) : i \in VisIdx(B)}

\* ---- judging an observed projection ---------------------------------------------------
\* Observed block: [k, lvl, toks |-> Seq([t, f |-> Seq(STRING)]), rows |-> Seq(Seq([toks]))]
Strs(ts) == [i \in 1..Len(ts) |-> ts[i].t]
NonWs(ts) == SelectSeq(ts, LAMBDA x : x.t \notin Ws)
WordsOf(s) == SelectSeq(s, LAMBDA x : x \notin Ws)
ObsF(x) == {x.f[i] : i \in 1..Len(x.f)} \cap AllFlags

RECURSIVE NormAcc(_, _, _)
NormAcc(s, i, acc) ==
  IF i > Len(s) THEN acc
  ELSE IF s[i] \in Ws THEN (IF acc = <<>> \/ acc[Len(acc)] = "sp" THEN NormAcc(s, i + 1, acc)
                            ELSE NormAcc(s, i + 1, Append(acc, "sp")))
  ELSE NormAcc(s, i + 1, Append(acc, s[i]))
\* white space collapsed to single spaces, none at the ends (Markdown does not keep more)
NormT(s) == LET r == NormAcc(s, 1, <<>>)
            IN IF r # <<>> /\ r[Len(r)] = "sp" THEN SubSeq(r, 1, Len(r) - 1) ELSE r

Count(s, x) == Cardinality({i \in 1..Len(s) : s[i] = x})
Elems(s) == {s[i] : i \in 1..Len(s)}
Lost(we, wo) == \E x \in Elems(we) : Count(we, x) > Count(wo, x)

WordDiff(we, wo) ==
  IF we = wo THEN {}
  ELSE (IF Lost(we, wo) THEN {"text-lost"} ELSE {})
       \cup (IF Lost(wo, we) THEN {"text-invented"} ELSE {})
       \cup (IF ~Lost(we, wo) /\ ~Lost(wo, we) THEN {"text-order"} ELSE {})

TextDiff(e, o) ==
  LET ne == NormT(e)
      no == NormT(o)
  IN IF ne = no THEN {}
     ELSE IF WordsOf(ne) = WordsOf(no) THEN {"text-space"}
     ELSE WordDiff(WordsOf(ne), WordsOf(no))

FlagDiff(e, o) ==
  LET we == NonWs(e)
      wo == NonWs(o)
  IN IF Strs(we) # Strs(wo) THEN {}
     ELSE IF \E i \in 1..Len(we) : we[i].f # ObsF(wo[i]) THEN {"flags"} ELSE {}

TblDiff(E, O) ==
  IF O.k # "tbl" THEN {"kind"}
  ELSE IF Len(O.rows) # Len(E.rows) \/ \E i \in 1..Len(E.rows) : Len(O.rows[i]) # Len(E.rows[i]) THEN {"dims"}
  ELSE IF \E i \in 1..Len(E.rows) : \E j \in 1..Len(E.rows[i]) : TextDiff(E.rows[i][j], Strs(O.rows[i][j].toks)) # {}
       THEN {"cells"} ELSE {}

\* the fields in which observed block O deviates from expected block E
Match(E, O, fl) ==
  CASE E.k = "tbl" -> TblDiff(E, O)
    [] O.k = "tbl" -> {"kind"}
    [] OTHER       -> (IF O.k # E.k THEN {"kind"} ELSE {})
                      \cup (IF E.k = "h" /\ O.k = "h" /\ O.lvl # E.lvl THEN {"level"} ELSE {})
                      \cup TextDiff(Strs(E.toks), Strs(O.toks))
                      \cup (IF fl /\ E.k # "code" THEN FlagDiff(E.toks, O.toks) ELSE {})

RECURSIVE CatSeqs(_)
CatSeqs(ss) == IF ss = <<>> THEN <<>> ELSE Head(ss) \o CatSeqs(Tail(ss))

EWords(E) ==
  IF E.k \in {"tbl", "weak"} THEN CatSeqs([i \in 1..Len(E.rows) |-> CatSeqs([j \in 1..Len(E.rows[i]) |-> WordsOf(E.rows[i][j])])])
  ELSE WordsOf(Strs(E.toks))
OWords(O) ==
  IF O.k = "tbl" THEN CatSeqs([i \in 1..Len(O.rows) |-> CatSeqs([j \in 1..Len(O.rows[i]) |-> WordsOf(Strs(O.rows[i][j].toks))])])
  ELSE WordsOf(Strs(O.toks))
AllEWords(exp) == CatSeqs([i \in 1..Len(exp) |-> EWords(exp[i])])
AllOWords(obs) == CatSeqs([i \in 1..Len(obs) |-> OWords(obs[i])])

\* an observed paragraph without visible text shows nothing (the converter writes a rule or a blank line so)
ObsVisible(O) == O.k # "p" \/ OWords(O) # <<>>
Seen(obs) == SelectSeq(obs, ObsVisible)

IsT(k) == k = "tbl"
KSeq(s) == [i \in 1..Len(s) |-> IsT(s[i].k)]
Pick(s, t) == SelectSeq(s, LAMBDA x : IsT(x.k) = t)

RECURSIVE PreN(_, _, _, _), SufN(_, _, _, _, _)
\* number of leading / trailing expected blocks found unchanged at the start / end of the observed sequence
PreN(exp, obs, i, fl) ==
  IF i > Len(exp) \/ i > Len(obs) \/ Match(exp[i], obs[i], fl) # {} THEN i - 1 ELSE PreN(exp, obs, i + 1, fl)
SufN(exp, obs, pre, n, fl) ==
  IF n >= Len(exp) - pre \/ n >= Len(obs) - pre \/ Match(exp[Len(exp) - n], obs[Len(obs) - n], fl) # {} THEN n
  ELSE SufN(exp, obs, pre, n + 1, fl)

PairWits(B, o, es, os, fl) ==
  UNION {{[fld |-> f, ks |-> ClassesAt(B, es[i].src, o)] : f \in Match(es[i], os[i], fl)} : i \in 1..Len(es)}

\* Witnesses of one projection obs0 of body B exported under o:  set of [fld, ks]
\* ph = "exp" (flags demanded) | "fix" (the body converted back: block sequence and text)
Judge(B, o, obs0, ph) ==
  LET exp == ToMd(B, o)
      obs == Seen(obs0)
      fl  == ph = "exp"
      all == AllCls(B, o) \cup DocCls(B)
  IN
  IF \E i \in 1..Len(exp) : exp[i].k = "weak" THEN
    \* the non-GFM table layout is not a Markdown table: the words, once and in order (its column bars are layout)
    LET nobar(s) == SelectSeq(s, LAMBDA x : x # "c:|")
    IN {[fld |-> f, ks |-> all] : f \in WordDiff(nobar(AllEWords(exp)), nobar(AllOWords(obs)))}
       \cup (IF ph = "fix" /\ \A i \in 1..Len(obs) : obs[i].k # "tbl" THEN {[fld |-> "kind", ks |-> {"tbl", "opt:simple"}]} ELSE {})
  ELSE IF KSeq(exp) = KSeq(obs) THEN PairWits(B, o, exp, obs, fl)
  ELSE IF Len(Pick(exp, TRUE)) = Len(Pick(obs, TRUE)) /\ Len(Pick(exp, FALSE)) = Len(Pick(obs, FALSE)) THEN
    \* tables and paragraphs are all there but interleaved differently: an order defect; the blocks are judged pairwise
    {[fld |-> "order", ks |-> OrderCls(B)]}
    \cup PairWits(B, o, Pick(exp, TRUE), Pick(obs, TRUE), fl)
    \cup PairWits(B, o, Pick(exp, FALSE), Pick(obs, FALSE), fl)
  ELSE
    \* the block structure differs: blame the region between the matching start and end
    LET pre == PreN(exp, obs, 1, fl)
        suf == SufN(exp, obs, pre, 0, fl)
        emid == SubSeq(exp, pre + 1, Len(exp) - suf)
        omid == SubSeq(obs, pre + 1, Len(obs) - suf)
        lo == IF emid = <<>> THEN (IF pre > 0 THEN exp[pre].src ELSE 1) ELSE emid[1].src
        hi == IF emid = <<>> THEN (IF suf > 0 THEN exp[Len(exp) - suf + 1].src ELSE Len(B)) ELSE emid[Len(emid)].src
        ks == UNION {ClassesAt(B, emid[i].src, o) : i \in 1..Len(emid)} \cup AdjCls(B, lo, hi) \cup BlankIn(B, lo, hi)
              \cup (IF o.meta THEN {"opt:meta"} ELSE {}) \cup DocCls(B)
    IN {[fld |-> f, ks |-> ks] : f \in {"blocks"} \cup WordDiff(AllEWords(emid), AllOWords(omid))}

\* the second export must reproduce the first one (stable = the harness's plain string comparison)
StableWits(B, o, stable) == IF stable THEN {} ELSE {[fld |-> "stable", ks |-> EveryCls(B, o)]}

\* an export call must neither fail nor panic
ViolRet(ret) == IF ret = "ok" THEN {} ELSE {[fld |-> ret, ks |-> {}]}
=============================================================================
