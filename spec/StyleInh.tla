------------------------------ MODULE StyleInh ------------------------------
(***************************************************************************)
(* Pure (variable-free) specification of the style registry and of style   *)
(* resolution with inheritance (property C14).                             *)
(*                                                                         *)
(* Abstract registry   reg : style id -> [b, x, y]                         *)
(*   b   id of the style it is based on, or NONE; the id may be undefined  *)
(*       in reg (missing parent), equal to the style itself (self loop) or *)
(*       part of a longer cycle                                            *)
(*   x,y BOOLEAN: whether the style itself sets the formatting elements    *)
(*       of attribute slot x / slot y.  The 18 concrete formatting         *)
(*       elements of the library (Attrs below) are mapped onto the two     *)
(*       slots by the harness in several ways ("variants": each element    *)
(*       alone in x with all others in y, paragraph-level against          *)
(*       character-level); an element that a style sets carries a value    *)
(*       that identifies that style, so that the observed result names     *)
(*       the style each element was taken from (its "owner").              *)
(* Abstract state   st = [reg |-> registry, cl |-> registry, has |-> BOOLEAN]*)
(*   reg  the registry the behaviour works on                              *)
(*   cl   a second registry that lives next to it: the copy taken by the   *)
(*        last Clone (has = FALSE: none taken yet).  Operations are        *)
(*        addressed to it by wrapping them: [op |-> "OnClone", o |-> op].  *)
(*        From Clone on the two have separate histories; whatever is done  *)
(*        to one (through the API or in place through pointers it handed   *)
(*        out) the other stays as it is.  The copy is NOT looked at when   *)
(*        it is taken, nor after a step: it is observed only through the   *)
(*        operations the behaviour addresses to it (Peek = look at all of  *)
(*        it), so "when is a style of the copy first read" is part of the  *)
(*        behaviour.                                                       *)
(* An operation is a record [op |-> name, ...args].                        *)
(* A based-on reference / queried id is a style id, NONE, GHOST or an      *)
(* ALIAS of a style id: a string that is not a style id but resembles one  *)
(* (the display name of that style, its id in other letter case, its id    *)
(* with a blank added, the label the library's tables of predefined styles *)
(* give that id).  An alias is as undefined as GHOST.                      *)
(* A registry may also come from a styles part (XML) through one of the    *)
(* library's loaders (LoadXML): what C14 says holds for it like for any    *)
(* registry; whether a loader accepts its input is not C14's business.     *)
(***************************************************************************)
EXTENDS Integers, Sequences, FiniteSets, TLC

NONE  == "none"      \* no basedOn / nothing sets the element
GHOST == "ghost"     \* a style id that is never defined
Slots == {"x", "y"}

\* ---- references that resemble a registered style but are not its id ----------
AllIds     == {"s1", "s2", "s3", "s4", "s5"}
AliasKinds == {"name", "case", "space", "label"}
Alias(k, i) == k \o ":" \o i
AliasesOf(kinds, ids) == {Alias(k, i) : k \in kinds, i \in ids}
KindOf(b) == IF \E k \in AliasKinds, i \in AllIds : b = Alias(k, i)
             THEN CHOOSE k \in AliasKinds : \E i \in AllIds : b = Alias(k, i) ELSE ""
\* how an undefined reference is spelled (part of signatures)
Undef(b) == IF KindOf(b) = "" THEN "" ELSE "-by-" \o KindOf(b)

\* ---- the concrete formatting elements the property lists ------------------
ParaAttrs == {"spacing", "indentation", "alignment", "borders", "shading", "keepNext",
              "keepLines", "pageBreakBefore", "outlineLevel", "snapToGrid"}
RunAttrs  == {"bold", "italic", "underline", "strike", "size", "colour", "font", "highlight"}
Attrs     == ParaAttrs \cup RunAttrs
\* elements without a value (presence is the setting): their owner is observable only as "set"
FlagAttrs == {"keepNext", "keepLines", "pageBreakBefore", "bold", "italic", "strike"}
\* elements that ApplyStyleToXML conveys in its result map (the others are not part of that view)
XmlAttrs  == {"spacing", "alignment", "indentation", "outlineLevel"} \cup RunAttrs

\* ---- registry helpers -----------------------------------------------------
Def(b, x, y) == [b |-> b, x |-> x, y |-> y]
EmptyReg == [s \in {} |-> Def(NONE, FALSE, FALSE)]
Put(reg, s, d) == [t \in (DOMAIN reg) \cup {s} |-> IF t = s THEN d ELSE reg[t]]
Del(reg, s) == [t \in (DOMAIN reg) \ {s} |-> reg[t]]
RECURSIVE PutAll(_, _, _)
PutAll(reg, defs, i) ==
  IF i > Len(defs) THEN reg
  ELSE PutAll(Put(reg, defs[i].s, Def(defs[i].b, defs[i].x, defs[i].y)), defs, i + 1)

\* definitions added to what is registered already: a style that exists is kept (MergeStylesFromXML)
RECURSIVE MergeAll(_, _, _)
MergeAll(reg, defs, i) ==
  IF i > Len(defs) THEN reg
  ELSE MergeAll(IF defs[i].s \in DOMAIN reg THEN reg ELSE Put(reg, defs[i].s, Def(defs[i].b, defs[i].x, defs[i].y)), defs, i + 1)

InitSt == [reg |-> EmptyReg, cl |-> EmptyReg, has |-> FALSE]

\* ---- the reference resolver ------------------------------------------------
\* The styles consulted for id, nearest first: id, its basedOn, ... ; the walk ends at a
\* style without basedOn, at an undefined id (missing parent) or when it would revisit a style.
RECURSIVE ChainFrom(_, _, _)
ChainFrom(reg, id, seen) ==
  IF id \notin DOMAIN reg \/ id \in seen THEN <<>>
  ELSE <<id>> \o ChainFrom(reg, reg[id].b, seen \cup {id})
Chain(reg, id) == ChainFrom(reg, id, {})

Sets(reg, s, slot) == IF slot = "x" THEN reg[s].x ELSE reg[s].y

\* the style whose setting the resolved style carries for a slot, or NONE
Owner(reg, id, slot) ==
  LET c == Chain(reg, id)
      P == {i \in 1..Len(c) : Sets(reg, c[i], slot)}
  IN IF P = {} THEN NONE ELSE c[CHOOSE i \in P : \A j \in P : i <= j]

Resolve(reg, id) ==
  IF id \notin DOMAIN reg THEN [found |-> FALSE, x |-> NONE, y |-> NONE]
  ELSE [found |-> TRUE, x |-> Owner(reg, id, "x"), y |-> Owner(reg, id, "y")]

\* ---- an independent characterisation (used to check the resolver in the model) ----
\* k-th ancestor by bounded iteration, no visited set; NONE when the walk left the registry
RECURSIVE Anc(_, _, _)
Anc(reg, id, k) ==
  IF id \notin DOMAIN reg THEN NONE
  ELSE IF k = 0 THEN id ELSE Anc(reg, reg[id].b, k - 1)
\* nearest setter among the ancestors at distance < number of styles
NearestSetter(reg, id, slot) ==
  LET n == Cardinality(DOMAIN reg)
      K == {k \in 0..(n - 1) : Anc(reg, id, k) # NONE /\ Sets(reg, Anc(reg, id, k), slot)}
  IN IF K = {} THEN NONE ELSE Anc(reg, id, CHOOSE k \in K : \A j \in K : k <= j)

\* ---- classes used in witness signatures -------------------------------------
EndClass(reg, id) ==
  IF id \notin DOMAIN reg THEN "missing-id" \o Undef(id)
  ELSE LET c == Chain(reg, id)
           nb == reg[c[Len(c)]].b
       IN IF nb = NONE THEN "root"
          ELSE IF nb \notin DOMAIN reg THEN "missing-parent" \o Undef(nb)
          ELSE IF Len(c) = 1 THEN "selfloop" ELSE "cycle"
From(reg, id, o) ==
  IF o = NONE THEN "none" ELSE IF o = id THEN "own"
  ELSE IF o = reg[id].b THEN "parent" ELSE "ancestor"

\* ---- operations ---------------------------------------------------------------
Mutators  == {"AddStyle", "RemoveStyle", "Create", "Load", "LoadXML", "Edit"}
XmlHows   == {"parse", "merge", "doc"}   \* ParseStylesFromXML / MergeStylesFromXML / LoadStylesFromDocument
Resolvers == {"Resolve", "ToXML", "MutRes"}       \* walk the basedOn chain
Readers   == Resolvers \cup {"Info", "List", "Peek", "CloneDrop"}  \* must leave the registry as it is
CloneOps  == {"CloneSwap", "CloneDrop"}           \* compound: copy, look at the copy, overwrite one side, look again
PairOps   == {"Clone", "OnClone"}                 \* the copy as a second live registry
\* what may be addressed to the copy
InnerOps  == (Mutators \ {"Load", "LoadXML"}) \cup Resolvers \cup {"Info", "List", "Peek"}
OpNamesAll == Mutators \cup Readers \cup CloneOps \cup PairOps

\* the library call an operation stands for (used in signatures)
RECURSIVE Api(_)
Api(op) ==
  CASE op.op = "Resolve" -> "GetStyleWithInheritance"
    [] op.op = "ToXML"   -> "ApplyStyleToXML"
    [] op.op = "Info"    -> "GetStyleInfo"
    [] op.op = "Create"  -> "CreateCustomStyle"
    [] op.op = "Edit"    -> "GetStyle+edit-in-place"
    [] op.op = "MutRes"  -> "GetStyleWithInheritance+mutate"
    [] op.op = "List"    -> "GetAllStyles/ByType/Heading/Info-lists"
    [] op.op = "Peek"    -> "GetStyle/StyleExists/GetAllStyles"
    [] op.op = "CloneSwap" -> "Clone"
    [] op.op = "CloneDrop" -> "Clone"
    [] op.op = "LoadXML" -> (CASE op.how = "parse" -> "ParseStylesFromXML" [] op.how = "merge" -> "MergeStylesFromXML"
                               [] OTHER -> "LoadStylesFromDocument")
    [] op.op = "OnClone" -> "Clone+" \o Api(op.o)
    [] OTHER -> op.op

\* one registry
ApplyReg(reg, op) ==
  CASE op.op = "AddStyle"    -> Put(reg, op.s, Def(op.b, op.x, op.y))
    [] op.op = "RemoveStyle" -> Del(reg, op.s)
    [] op.op = "Create"      -> Put(reg, op.s, Def(op.b, FALSE, FALSE))
    [] op.op = "Load"        -> PutAll(EmptyReg, op.defs, 1)
    \* a loader that accepts the styles part: the registry is (parse, doc) / is extended by (merge) what the part defines
    \* (doc may register predefined styles of the library on top: other ids than the behaviour's)
    [] op.op = "LoadXML"     -> IF op.how = "merge" THEN MergeAll(reg, op.defs, 1) ELSE PutAll(EmptyReg, op.defs, 1)
    \* the registered object itself (the pointer GetStyle / CreateCustomStyle hand out) is edited in place:
    \* elements are added to the style (x, y) and its basedOn is re-pointed (b) or kept (b = "keep")
    [] op.op = "Edit"        -> IF op.s \notin DOMAIN reg THEN reg
                                ELSE Put(reg, op.s,
                                        Def(IF op.b = "keep" THEN reg[op.s].b ELSE op.b,
                                            reg[op.s].x \/ op.x, reg[op.s].y \/ op.y))
    [] OTHER                 -> reg    \* readers; CloneSwap continues on an equal copy

Apply(st, op) ==
  CASE op.op = "Clone"   -> [st EXCEPT !.cl = st.reg, !.has = TRUE]      \* a new copy replaces an earlier one
    [] op.op = "OnClone" -> IF st.has THEN [st EXCEPT !.cl = ApplyReg(st.cl, op.o)] ELSE st
    [] OTHER             -> [st EXCEPT !.reg = ApplyReg(st.reg, op)]

RetReg(reg, op) ==
  CASE op.op = "Resolve" -> IF op.q \in DOMAIN reg THEN "ok" ELSE "nil"
    [] op.op = "MutRes"  -> IF op.q \in DOMAIN reg THEN "ok" ELSE "nil"
    [] op.op = "ToXML"   -> IF op.q \in DOMAIN reg THEN "ok" ELSE "err"
    [] op.op = "Info"    -> IF op.q \in DOMAIN reg THEN "ok" ELSE "err"
    [] OTHER -> "ok"

Ret(st, op) ==
  IF op.op = "OnClone" THEN (IF st.has THEN RetReg(st.cl, op.o) ELSE "noclone")
  ELSE RetReg(st.reg, op)

\* ---- the property as witness sets (empty = holds) -------------------------------
\* own = what the result of a resolver was observed to carry: a sequence of groups
\*       [sl |-> slot, o |-> observed owner, at |-> <<elements of that slot with that owner>>];
\*       observed owner is a style id, NONE, "set" (valueless element present),
\*       or "mixed"/"foreign" (a value that no single registered style gave)
ExpOwner(reg, q, slot, a) ==
  LET o == Owner(reg, q, slot)
  IN IF o # NONE /\ a \in FlagAttrs THEN "set" ELSE o

Viol_Owner(reg, q, api, own, judged) ==
  {<<"wrong-owner", api, own[g].at[k], From(reg, q, Owner(reg, q, own[g].sl)), EndClass(reg, q)>> :
     <<g, k>> \in {<<g, k>> \in (DOMAIN own) \X (1..20) :
                    /\ k <= Len(own[g].at)
                    /\ own[g].at[k] \in judged
                    /\ own[g].o # ExpOwner(reg, q, own[g].sl, own[g].at[k])}}

\* elements the projection must have reported for a found style (nothing silently skipped)
Reported(own) == UNION {{own[g].at[k] : k \in 1..Len(own[g].at)} : g \in DOMAIN own}

\* ---- design-level statements about the reference resolver ------------------------
\* (checked exhaustively over all registries by StyleInh_MC)
NoDup(c) == \A i, j \in 1..Len(c) : i # j => c[i] # c[j]
\* terminates within the registry: the chain visits each style at most once, starts at id
ChainOK(reg, id) ==
  LET c == Chain(reg, id)
  IN /\ NoDup(c) /\ Len(c) <= Cardinality(DOMAIN reg)
     /\ (id \in DOMAIN reg => Len(c) >= 1 /\ c[1] = id)
     /\ \A i \in 1..(Len(c) - 1) : reg[c[i]].b = c[i + 1]
\* nearest definition: visited-set recursion = bounded nearest-setter search
NearestOK(reg, id) == \A sl \in Slots : Owner(reg, id, sl) = NearestSetter(reg, id, sl)
\* own else parent's, on every graph (also through cycles)
StepLawOK(reg, id) ==
  id \in DOMAIN reg =>
    \A sl \in Slots :
      Owner(reg, id, sl) = IF Sets(reg, id, sl) THEN id
                           ELSE IF reg[id].b \in DOMAIN reg THEN Owner(reg, reg[id].b, sl)
                           ELSE NONE
\* an undefined reference, however it is spelled (GHOST or an alias of a registered style), ends the chain:
\* the style keeps its own settings and inherits nothing
UndefParentOK(reg, id) ==
  (id \in DOMAIN reg /\ reg[id].b \notin DOMAIN reg) =>
    \A sl \in Slots : Owner(reg, id, sl) = IF Sets(reg, id, sl) THEN id ELSE NONE
\* the owner is a registered style that sets the element itself
OwnerOK(reg, id) ==
  \A sl \in Slots : LET o == Owner(reg, id, sl)
                    IN o # NONE => o \in DOMAIN reg /\ Sets(reg, o, sl)
=============================================================================
