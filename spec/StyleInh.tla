------------------------------ MODULE StyleInh ------------------------------
(***************************************************************************)
(* Pure (variable-free) specification of the style registry and of style   *)
(* resolution with inheritance (property C14).                             *)
(*                                                                         *)
(* Abstract registry   reg : style id -> [b, x, y]                         *)
(*   b   id of the style it is based on, or NONE; the id may be undefined  *)
(*       in reg (missing parent), equal to the style itself (self loop) or *)
(*       part of a longer cycle                                            *)
(*   x,y BOOLEAN: whether the style itself sets the formatting elements    *)
(*       of attribute slot x / slot y.  The 18 concrete formatting         *)
(*       elements of the library (Attrs below) are mapped onto the two     *)
(*       slots by the harness in several ways ("variants": each element    *)
(*       alone in x with all others in y, paragraph-level against          *)
(*       character-level); an element that a style sets carries a value    *)
(*       that identifies that style, so that the observed result names     *)
(*       the style each element was taken from (its "owner").              *)
(* Abstract state   st = [reg |-> registry]                                *)
(* An operation is a record [op |-> name, ...args].                        *)
(***************************************************************************)
EXTENDS Integers, Sequences, FiniteSets, TLC

NONE  == "none"      \* no basedOn / nothing sets the element
GHOST == "ghost"     \* a style id that is never defined
Slots == {"x", "y"}

\* ---- the concrete formatting elements the property lists ------------------
ParaAttrs == {"spacing", "indentation", "alignment", "borders", "shading", "keepNext",
              "keepLines", "pageBreakBefore", "outlineLevel", "snapToGrid"}
RunAttrs  == {"bold", "italic", "underline", "strike", "size", "colour", "font", "highlight"}
Attrs     == ParaAttrs \cup RunAttrs
\* elements without a value (presence is the setting): their owner is observable only as "set"
FlagAttrs == {"keepNext", "keepLines", "pageBreakBefore", "bold", "italic", "strike"}
\* elements that ApplyStyleToXML conveys in its result map (the others are not part of that view)
XmlAttrs  == {"spacing", "alignment", "indentation", "outlineLevel"} \cup RunAttrs

\* ---- registry helpers -----------------------------------------------------
Def(b, x, y) == [b |-> b, x |-> x, y |-> y]
EmptyReg == [s \in {} |-> Def(NONE, FALSE, FALSE)]
Put(reg, s, d) == [t \in (DOMAIN reg) \cup {s} |-> IF t = s THEN d ELSE reg[t]]
Del(reg, s) == [t \in (DOMAIN reg) \ {s} |-> reg[t]]
RECURSIVE PutAll(_, _, _)
PutAll(reg, defs, i) ==
  IF i > Len(defs) THEN reg
  ELSE PutAll(Put(reg, defs[i].s, Def(defs[i].b, defs[i].x, defs[i].y)), defs, i + 1)

InitSt == [reg |-> EmptyReg]

\* ---- the reference resolver ------------------------------------------------
\* The styles consulted for id, nearest first: id, its basedOn, ... ; the walk ends at a
\* style without basedOn, at an undefined id (missing parent) or when it would revisit a style.
RECURSIVE ChainFrom(_, _, _)
ChainFrom(reg, id, seen) ==
  IF id \notin DOMAIN reg \/ id \in seen THEN <<>>
  ELSE <<id>> \o ChainFrom(reg, reg[id].b, seen \cup {id})
Chain(reg, id) == ChainFrom(reg, id, {})

Sets(reg, s, slot) == IF slot = "x" THEN reg[s].x ELSE reg[s].y

\* the style whose setting the resolved style carries for a slot, or NONE
Owner(reg, id, slot) ==
  LET c == Chain(reg, id)
      P == {i \in 1..Len(c) : Sets(reg, c[i], slot)}
  IN IF P = {} THEN NONE ELSE c[CHOOSE i \in P : \A j \in P : i <= j]

Resolve(reg, id) ==
  IF id \notin DOMAIN reg THEN [found |-> FALSE, x |-> NONE, y |-> NONE]
  ELSE [found |-> TRUE, x |-> Owner(reg, id, "x"), y |-> Owner(reg, id, "y")]

\* ---- an independent characterisation (used to check the resolver in the model) ----
\* k-th ancestor by bounded iteration, no visited set; NONE when the walk left the registry
RECURSIVE Anc(_, _, _)
Anc(reg, id, k) ==
  IF id \notin DOMAIN reg THEN NONE
  ELSE IF k = 0 THEN id ELSE Anc(reg, reg[id].b, k - 1)
\* nearest setter among the ancestors at distance < number of styles
NearestSetter(reg, id, slot) ==
  LET n == Cardinality(DOMAIN reg)
      K == {k \in 0..(n - 1) : Anc(reg, id, k) # NONE /\ Sets(reg, Anc(reg, id, k), slot)}
  IN IF K = {} THEN NONE ELSE Anc(reg, id, CHOOSE k \in K : \A j \in K : k <= j)

\* ---- classes used in witness signatures -------------------------------------
EndClass(reg, id) ==
  IF id \notin DOMAIN reg THEN "missing-id"
  ELSE LET c == Chain(reg, id)
           nb == reg[c[Len(c)]].b
       IN IF nb = NONE THEN "root"
          ELSE IF nb \notin DOMAIN reg THEN "missing-parent"
          ELSE IF Len(c) = 1 THEN "selfloop" ELSE "cycle"
From(reg, id, o) ==
  IF o = NONE THEN "none" ELSE IF o = id THEN "own"
  ELSE IF o = reg[id].b THEN "parent" ELSE "ancestor"

\* ---- operations ---------------------------------------------------------------
Mutators  == {"AddStyle", "RemoveStyle", "Create", "Load", "Edit"}
Resolvers == {"Resolve", "ToXML", "MutRes"}       \* walk the basedOn chain
Readers   == Resolvers \cup {"Info", "List", "CloneDrop"}  \* must leave the registry as it is
CloneOps  == {"CloneSwap", "CloneDrop"}
OpNamesAll == Mutators \cup Readers \cup CloneOps

\* the library call an operation stands for (used in signatures)
Api(op) ==
  CASE op.op = "Resolve" -> "GetStyleWithInheritance"
    [] op.op = "ToXML"   -> "ApplyStyleToXML"
    [] op.op = "Info"    -> "GetStyleInfo"
    [] op.op = "Create"  -> "CreateCustomStyle"
    [] op.op = "Edit"    -> "GetStyle+edit-in-place"
    [] op.op = "MutRes"  -> "GetStyleWithInheritance+mutate"
    [] op.op = "List"    -> "GetAllStyles/ByType/Heading/Info-lists"
    [] op.op = "CloneSwap" -> "Clone"
    [] op.op = "CloneDrop" -> "Clone"
    [] OTHER -> op.op

Apply(st, op) ==
  CASE op.op = "AddStyle"    -> [st EXCEPT !.reg = Put(st.reg, op.s, Def(op.b, op.x, op.y))]
    [] op.op = "RemoveStyle" -> [st EXCEPT !.reg = Del(st.reg, op.s)]
    [] op.op = "Create"      -> [st EXCEPT !.reg = Put(st.reg, op.s, Def(op.b, FALSE, FALSE))]
    [] op.op = "Load"        -> [st EXCEPT !.reg = PutAll(EmptyReg, op.defs, 1)]
    \* the registered object itself (the pointer GetStyle / CreateCustomStyle hand out) is edited in place:
    \* elements are added to the style (x, y) and its basedOn is re-pointed (b) or kept (b = "keep")
    [] op.op = "Edit"        -> IF op.s \notin DOMAIN st.reg THEN st
                                ELSE [st EXCEPT !.reg = Put(st.reg, op.s,
                                        Def(IF op.b = "keep" THEN st.reg[op.s].b ELSE op.b,
                                            st.reg[op.s].x \/ op.x, st.reg[op.s].y \/ op.y))]
    [] OTHER                 -> st    \* readers; CloneSwap continues on an equal copy

Ret(st, op) ==
  CASE op.op = "Resolve" -> IF op.q \in DOMAIN st.reg THEN "ok" ELSE "nil"
    [] op.op = "MutRes"  -> IF op.q \in DOMAIN st.reg THEN "ok" ELSE "nil"
    [] op.op = "ToXML"   -> IF op.q \in DOMAIN st.reg THEN "ok" ELSE "err"
    [] op.op = "Info"    -> IF op.q \in DOMAIN st.reg THEN "ok" ELSE "err"
    [] OTHER -> "ok"

\* ---- the property as witness sets (empty = holds) -------------------------------
\* own = what the result of a resolver was observed to carry: a sequence of groups
\*       [sl |-> slot, o |-> observed owner, at |-> <<elements of that slot with that owner>>];
\*       observed owner is a style id, NONE, "set" (valueless element present),
\*       or "mixed"/"foreign" (a value that no single registered style gave)
ExpOwner(reg, q, slot, a) ==
  LET o == Owner(reg, q, slot)
  IN IF o # NONE /\ a \in FlagAttrs THEN "set" ELSE o

Viol_Owner(reg, q, api, own, judged) ==
  {<<"wrong-owner", api, own[g].at[k], From(reg, q, Owner(reg, q, own[g].sl)), EndClass(reg, q)>> :
     <<g, k>> \in {<<g, k>> \in (DOMAIN own) \X (1..20) :
                    /\ k <= Len(own[g].at)
                    /\ own[g].at[k] \in judged
                    /\ own[g].o # ExpOwner(reg, q, own[g].sl, own[g].at[k])}}

\* elements the projection must have reported for a found style (nothing silently skipped)
Reported(own) == UNION {{own[g].at[k] : k \in 1..Len(own[g].at)} : g \in DOMAIN own}

\* ---- design-level statements about the reference resolver ------------------------
\* (checked exhaustively over all registries by StyleInh_MC)
NoDup(c) == \A i, j \in 1..Len(c) : i # j => c[i] # c[j]
\* terminates within the registry: the chain visits each style at most once, starts at id
ChainOK(reg, id) ==
  LET c == Chain(reg, id)
  IN /\ NoDup(c) /\ Len(c) <= Cardinality(DOMAIN reg)
     /\ (id \in DOMAIN reg => Len(c) >= 1 /\ c[1] = id)
     /\ \A i \in 1..(Len(c) - 1) : reg[c[i]].b = c[i + 1]
\* nearest definition: visited-set recursion = bounded nearest-setter search
NearestOK(reg, id) == \A sl \in Slots : Owner(reg, id, sl) = NearestSetter(reg, id, sl)
\* own else parent's, on every graph (also through cycles)
StepLawOK(reg, id) ==
  id \in DOMAIN reg =>
    \A sl \in Slots :
      Owner(reg, id, sl) = IF Sets(reg, id, sl) THEN id
                           ELSE IF reg[id].b \in DOMAIN reg THEN Owner(reg, reg[id].b, sl)
                           ELSE NONE
\* the owner is a registered style that sets the element itself
OwnerOK(reg, id) ==
  \A sl \in Slots : LET o == Owner(reg, id, sl)
                    IN o # NONE => o \in DOMAIN reg /\ Sets(reg, o, sl)
=============================================================================
