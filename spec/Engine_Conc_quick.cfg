SPECIFICATION Spec
CONSTANTS
  Variant = "ref"
  Setup <- SetupBaseA
  ProgChoices <- ProgsQuickAll
INVARIANTS Inv_ConcPure Inv_NoRace Inv_NotStuck Inv_CacheAgree
CHECK_DEADLOCK FALSE
