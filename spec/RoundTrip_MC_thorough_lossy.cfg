SPECIFICATION SpecMC
CONSTANTS
  Cycles = 3
  Lost = {"keepNext", "keepLines", "br", "tbl", "titlePg", "pgNumType", "bCs", "pBdr", "fldChar", "wrapTight", "cNvPicPr", "gridSpan"}
  LostKinds = {"bms", "bme", "sdt", "math"}
  Alias = {"headerReference", "footerReference"}
  MCCtors = {"c.para", "c.headingbm", "c.tbl.2x2", "c.toc", "c.img.png", "c.math.block", "c.ntbl.d2.2x2", "c.nestedcellpara"}
  MCFeats = {"p.keepNext.on", "p.bold.on", "p.bold.off", "p.format.full", "p.border.all", "p.addbreak", "p.struct.field", "t.nested.d1", "t.merge.h", "t.merge.v", "t.cellimage", "i.fl.tight", "i.alt"}
  MCSect = {"s.titlepg.on", "s.margins", "s.header.default", "s.header.first", "s.headerpn", "s.footer.default", "s.footer.even"}
  MCSectMax = 3
  MinF = 0
  MaxF = 0
  SingleCtors = {}
  PairCtors = {}
  PairFeats = {}
  FocusKinds = {}
  CtxMode = "one"
  PreSaves = {FALSE}
INVARIANTS Inv_Identity Inv_Silent Inv_Exact Inv_NothingEarly Inv_AliasKeepsShape
PROPERTIES Act_SavePure Act_OpenReads
CHECK_DEADLOCK FALSE
