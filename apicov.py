#!/usr/bin/env python3
"""apicov.py — which exported functions/methods of the library does some harness executor call?
Lists the public API of pkg/document, pkg/style, pkg/markdown (parsed from the sources of $WZ_REPO)
and marks each name that appears as a call `.<Name>(` or `pkg.<Name>(` in harness/cmd/wzh/x_*.go.
Purely informational (guides where the specification should grow next)."""
import os, re, sys, glob, json
V = os.path.dirname(os.path.abspath(__file__))
REPO = os.environ.get("WZ_REPO", "/repo")
api = {}
for pkg in ("document", "style", "markdown"):
    for f in glob.glob(os.path.join(REPO, "pkg", pkg, "*.go")):
        if f.endswith("_test.go"):
            continue
        for m in re.finditer(r"^func\s+(?:\(\s*\w+\s+\*?(\w+)\s*\)\s*)?([A-Z]\w*)\s*\(", open(f).read(), re.M):
            recv, name = m.group(1), m.group(2)
            if recv and not recv[0].isupper():
                continue
            api.setdefault(pkg, set()).add((recv or "", name))
src = "\n".join(open(f).read() for f in glob.glob(os.path.join(V, "harness/cmd/wzh/*.go")))
called = set(re.findall(r"\.([A-Z]\w*)\(", src))
out = {}
tot = cov = 0
for pkg, names in sorted(api.items()):
    unc = sorted("%s.%s" % (r, n) if r else n for r, n in names if n not in called)
    c = len(names) - len(unc)
    tot += len(names); cov += c
    out[pkg] = {"public": len(names), "called_by_some_executor": c, "not_called": unc}
out["total"] = {"public": tot, "called": cov}
if "--json" in sys.argv:
    print(json.dumps(out, indent=1))
else:
    for pkg in ("document", "style", "markdown"):
        o = out[pkg]
        print("%s: %d/%d public funcs/methods exercised by an executor" % (pkg, o["called_by_some_executor"], o["public"]))
        if "-v" in sys.argv:
            for n in o["not_called"]:
                print("   -", n)
