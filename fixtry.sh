#!/bin/bash
# fixtry.sh <patch> <check-id>... — integrator helper: apply a proposed fix to /repo's working tree (uncommitted),
# build with and without the verif tag, run the baseline suite, then the named quick checks. Leaves the patch applied.
set -u
export GOFLAGS=-mod=mod GOPROXY=off GOSUMDB=off GOTOOLCHAIN=local
p=$1; shift
cd /repo
[ -z "$(git status --porcelain)" ] || { echo "PATCH FAILED: /repo working tree not clean"; exit 2; }
if ! git apply "$p" 2>/tmp/fixtry.err; then patch -p1 -F3 --no-backup-if-mismatch < "$p" || { cat /tmp/fixtry.err; git checkout -f -- .; git clean -fdq; echo "PATCH FAILED"; exit 2; }; fi
git status --short
go build ./pkg/... && go build -tags verif ./pkg/... || { git checkout -f -- .; echo BUILD FAILED; exit 2; }
go test -vet=off -count=1 ./pkg/... ./test/... 2>&1 | grep -v 'no test files' | tail -4
cd /verif
for c in "$@"; do ./check $c 2>&1 | grep -E "^(VIOLATION|KNOWN|MACHINERY|C[0-9]+ quick)" | cut -c1-260; done
