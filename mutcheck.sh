#!/bin/bash
# mutcheck.sh [pattern] — re-validates the builders' mutants (mutants/<Cnn>-*.diff) on the CURRENT /repo HEAD:
# applies each to a scratch worktree (never /repo), checks that the library builds and the repository's suite
# passes, runs the property's quick check (thorough if quick is silent) against it and records the verdict in
# mutants/RESULTS.json: caught-quick | caught-thorough | MISSED | stale (does not apply / does not build / suite fails).
set -u
export GOFLAGS=-mod=mod GOPROXY=off GOSUMDB=off GOTOOLCHAIN=local
V=$(cd "$(dirname "$0")" && pwd)
wt=/tmp/wz-mut
git -C /repo worktree remove --force $wt 2>/dev/null
git -C /repo worktree add -q --detach $wt HEAD || exit 2
res=$V/mutants/RESULTS.json; [ -f $res ] || echo '{}' > $res
for m in $V/mutants/${1:-C}*.diff; do
  n=$(basename $m); id=${n%%-*}
  git -C $wt checkout -q -- . ; git -C $wt clean -qfd
  v=""
  if ! (cd $wt && (git apply $m 2>/dev/null || patch -p1 -F3 -s --no-backup-if-mismatch < $m >/dev/null 2>&1)); then v="stale (does not apply)"
  elif ! (cd $wt && go build ./pkg/... 2>/dev/null); then v="stale (does not build)"
  elif (cd $wt && go test -vet=off -count=1 ./pkg/... ./test/... 2>&1 | grep -q FAIL); then v="stale (repository suite fails)"
  else
    for tier in quick thorough; do
      out=$(cd $V && WZ_REPO=$wt timeout 3000 ./check $id --tier $tier 2>/dev/null); rc=$?
      if [ $rc = 1 ]; then v="caught-$tier: $(echo "$out" | grep -m1 '^VIOLATION' | sed 's/.*signature=//' | cut -c1-160)"; break; fi
      [ $rc = 0 ] || { v="machinery rc=$rc ($tier)"; break; }
    done
    [ -n "$v" ] || v="MISSED"
  fi
  echo "$n: $v"
  python3 - "$res" "$n" "$v" <<'PY'
import json,sys
d=json.load(open(sys.argv[1])); d[sys.argv[2]]=sys.argv[3]; json.dump(d,open(sys.argv[1],'w'),indent=1,sort_keys=True)
PY
done
git -C /repo worktree remove --force $wt
