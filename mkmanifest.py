#!/usr/bin/env python3
"""Regenerates MANIFEST.json from the table below (keeps it schema-valid as checks are added)."""
import json, os
V = os.path.dirname(os.path.abspath(__file__))
props = [json.loads(l) for l in open(os.path.join(V, "properties.jsonl"))]
ids = [p["id"] for p in props]

TRUST = ("TLC 1.8.0 and the TLA+ modules in spec/; the Go harness executor/projector (independent archive/zip + "
         "encoding/xml reader, no oracle logic); the Go toolchain; bounds stated in the evidence file")

import importlib.util, glob
CHECKS = {}
for path in sorted(glob.glob(os.path.join(V, "props", "C*.py"))):
    sp = importlib.util.spec_from_file_location("p_" + os.path.basename(path)[:-3], path)
    mod = importlib.util.module_from_spec(sp)
    sp.loader.exec_module(mod)
    if getattr(mod, "MANIFEST", None):
        CHECKS[os.path.basename(path)[:-3]] = mod.MANIFEST

NA = {}
HOOK_COMMITS = [l.split()[0] for l in open(os.path.join(V, "hooks.txt")) if l.strip() and not l.startswith("#")]

def main():
    checks = []
    for i in ids:
        if i not in CHECKS:
            continue
        c = CHECKS[i]
        checks.append({
            "property_id": i,
            "quick_cmd": "./check %s --tier quick" % i,
            "thorough_cmd": "./check %s --tier thorough" % i,
            "evidence_file": "/verif/evidence/%s.json" % i,
            "replay_cmd_template": "./check %s --replay {path}" % i,
            "engine": "tlc-" + c["module"],
            "level_claimed": {"category": c.get("level", "model_checking"), "text": c["text"], "design_ref": "DESIGN.md " + c["ref"]},
            "level_note": c.get("note", TRUST),
            "technique": c["technique"],
        })
    na = []
    for i in ids:
        if i in CHECKS:
            continue
        na.append({"property_id": i, "reason": NA.get(i, "check not built yet in this round (planned: DESIGN.md §5); not claimed")})
    m = {
        "version": 1,
        "setup_cmd": "./setup.sh",
        "hooks": {
            "guard": "verif",
            "enable": "go build -tags verif (the harness module in /verif/harness replaces github.com/zerx-lab/wordZero by /repo)",
            "baseline_off_cmd": "cd /repo && GOFLAGS=-mod=mod GOPROXY=off go test -vet=off -count=1 -timeout 25m ./pkg/... ./test/...",
            "source_commits": HOOK_COMMITS,
            "add_only": True,
        },
        "engines": [
            {"name": "tlc-" + m_, "path": "/verif/spec/%s.tla" % m_, "serves_properties": [i for i in ids if i in CHECKS and CHECKS[i]["module"] == m_],
             "kind_free_text": "TLA+ module (pure Apply/Ret/Viol operators) with _MC (exhaustive + generation) and _Trace (judge) wrappers, run by TLC"}
            for m_ in sorted({c["module"] for c in CHECKS.values()})
        ],
        "checks": checks,
        "not_applicable": na,
        "notes": "All checks: ./check <id> [--tier quick|thorough] [--replay file]; VERIF_SEED seeds TLC -simulate and concretisation. Exit 2 = machinery failure (never a verdict).",
    }
    with open(os.path.join(V, "MANIFEST.json"), "w") as f:
        json.dump(m, f, indent=1, ensure_ascii=False)
        f.write("\n")

if __name__ == "__main__":
    main()
