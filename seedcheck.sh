#!/bin/bash
# seedcheck.sh <Cnn> <k> [check-id ...]
# Confirms a seeded change produced by an independent sub-agent (/tmp/advout-<Cnn>/<k>) in the scratch
# worktree /tmp/adv-<Cnn> (never in /repo): (1) demo passes on the unchanged tree, (2) with the patch
# the library builds, the repository's suite passes and the demo fails, (3) runs the named checks
# (default: the property itself) against the patched worktree (WZ_REPO) and records what they said.
# Keeps the change under seeded/<Cnn>-<k>/ when (1) and (2) hold.
set -u
export GOFLAGS=-mod=mod GOPROXY=off GOSUMDB=off GOTOOLCHAIN=local
V=$(cd "$(dirname "$0")" && pwd)
id=$1; k=$2; shift 2
checks=${*:-$id}
src=/tmp/advout-$id/$k; wt=/tmp/adv-$id
# re-validation of a change that is already kept: take it from seeded/ and (re)create the scratch worktree
[ -f "$src/patch.diff" ] || src=$V/seeded/$id-$k
[ -d "$wt" ] || git -C /repo worktree add -q --detach $wt HEAD
[ -f "$src/patch.diff" ] || { echo "no $src/patch.diff"; exit 2; }
dd=$(python3 -c "import json;print(json.load(open('$src/meta.json')).get('demo_dir','test'))")
# a demonstration of a data race is run under the race detector (its demo_cmd says so)
rf=$(python3 -c "import json;print('-race' if '-race' in json.load(open('$src/meta.json')).get('demo_cmd','') else '')")
git -C $wt checkout -q -- . ; git -C $wt clean -qfd
# the scratch worktree follows /repo HEAD (fix: commits made since it was created)
git -C $wt checkout -q --detach $(git -C /repo rev-parse HEAD)
cp $src/demo_test.go $wt/$dd/zz_seeded_demo_test.go
tn=$(grep -o 'func Test[A-Za-z0-9_]*' $src/demo_test.go | head -1 | sed 's/func //')
clean=$(cd $wt && go test $rf -vet=off -count=1 -run "^$tn\$" ./$dd/ 2>&1 | tail -1)
git -C $wt apply $src/patch.diff || { echo "patch does not apply"; exit 2; }
rm $wt/$dd/zz_seeded_demo_test.go
suite=$(cd $wt && go test -vet=off -count=1 ./pkg/... ./test/... 2>&1 | grep -E '^(ok|FAIL|--- FAIL|panic)' | cut -c1-200 | tr '\n' ';')
cp $src/demo_test.go $wt/$dd/zz_seeded_demo_test.go
demo=$(cd $wt && go test $rf -vet=off -count=1 -run "^$tn\$" ./$dd/ 2>&1 | grep -E '^(--- FAIL|FAIL|ok)' | head -2 | tr '\n' ';')
rm $wt/$dd/zz_seeded_demo_test.go
echo "clean-tree demo: $clean"; echo "patched suite: $suite"; echo "patched demo: $demo"
res=""
for c in $checks; do
  for tier in ${TIERS:-quick thorough}; do
    (cd $V && WZ_REPO=$wt timeout 3000 ./check $c --tier $tier >/tmp/seedcheck.$$.out 2>/tmp/seedcheck.$$.err); rc=$?
    v=$(grep -c '^VIOLATION' /tmp/seedcheck.$$.out)
    echo "check $c $tier: rc=$rc violations=$v"; grep '^VIOLATION' /tmp/seedcheck.$$.out | head -3
    [ $rc -ge 2 ] && { tail -5 /tmp/seedcheck.$$.err; v=machinery-rc$rc; }
    rm -f /tmp/seedcheck.$$.out /tmp/seedcheck.$$.err
    res="$res$c/$tier:$v "
    [ "$v" = "0" ] || break
    continue
    [ "$v" -gt 0 ] && break
  done
done
git -C $wt checkout -q -- . ; git -C $wt clean -qfd
ok=1; case "$clean" in ok*) ;; *) ok=0;; esac; case "$suite" in *FAIL*) ok=0;; esac; case "$demo" in *FAIL*) ;; *) ok=0;; esac
if [ $ok = 1 ]; then
  d=$V/seeded/$id-$k; mkdir -p $d; [ "$src" = "$d" ] || cp $src/patch.diff $src/demo_test.go $d/
  python3 - "$src/meta.json" "$d/meta.json" "$clean" "$suite" "$demo" "$res" <<'PY'
import json,sys
m=json.load(open(sys.argv[1]))
import os
if os.path.exists(sys.argv[2]):
    old=json.load(open(sys.argv[2]))
    er=old.get("earlier_runs",[])
    if old.get("checks_run") and (not er or er[-1]!=old["checks_run"]): er.append(old["checks_run"])
    if er: m["earlier_runs"]=er
m["confirmed"]={"demo_on_unchanged_tree":sys.argv[3],"suite_with_patch":sys.argv[4],"demo_with_patch":sys.argv[5]}
m["checks_run"]=sys.argv[6].split()
m["detected"]=any(x.split(":")[1].isdigit() and x.split(":")[1]!="0" for x in m["checks_run"])
json.dump(m,open(sys.argv[2],"w"),indent=1,ensure_ascii=False)
PY
  echo "kept seeded/$id-$k (detected: $res)"
else
  echo "NOT CONFIRMED: $id-$k"
fi
