#!/bin/sh
# Offline setup: compile the harness against /repo (warms the Go build cache) and parse every spec.
set -e
cd "$(dirname "$0")"
export GOFLAGS=-mod=mod GOPROXY=off GOSUMDB=off GOTOOLCHAIN=local
mkdir -p runs evidence
cp /repo/go.sum harness/go.sum
(cd harness && go build -tags verif -o ../runs/wzh-setup ./cmd/wzh)
rm -f runs/wzh-setup
tmp=$(mktemp -d)
cp spec/*.tla "$tmp"/
for f in "$tmp"/*_MC.tla "$tmp"/*_Trace.tla "$tmp"/*_Conc.tla; do [ -f "$f" ] || continue; (cd "$tmp" && tla-sany "$(basename "$f")" >/dev/null) || { echo "SANY failed: $f"; exit 1; }; done
rm -rf "$tmp"
echo setup ok
