#!/bin/bash
# fixapply.sh <patch> <msgfile> <check>... — fixtry + commit when baseline passes and the checks raise no alarm
set -u
p=$1; m=$2; shift 2
out=$(/verif/fixtry.sh "$p" "$@" 2>&1); echo "$out" | grep -v '^KNOWN' | cut -c1-220
if echo "$out" | grep -qE '^(VIOLATION|MACHINERY|PATCH FAILED|BUILD FAILED)|FAIL'; then git -C /repo checkout -f -- .; echo "NOT COMMITTED (reverted): $p"; exit 1; fi
for c in "$@"; do echo "$out" | grep -q "^$c quick" || { echo "NOT COMMITTED (check $c did not finish): $p"; exit 1; }; done
cd /repo && git commit -qaF "$m" && h=$(git rev-parse --short HEAD) && cd /verif && ./markfixed.py "$p" $h
