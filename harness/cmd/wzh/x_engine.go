package main

// Executor for spec module Engine (property C17), sequential part.
//
// Abstract operations (spec/Engine.tla) are mapped to calls on one real
// document.TemplateEngine; after every step the engine's observable state is
// projected: which template object is cached under every pool name, what every
// name renders (both entry points, probe data) and which of the tracked
// objects (templates, base documents, data) changed during renders. No oracle
// logic: comparisons here are dumb before/after equalities of deep dumps.
//
// The engine is the one inside a document.TemplateRenderer (x_engine_front.go), so
// that the renderer's entry points (LoadTemplateFromFile, RenderTemplate,
// AnalyzeTemplate) and the engine's own act on one cache.

import (
	"encoding/json"
	"fmt"
	"os"
	"runtime/debug"
	"sort"
	"strings"
	"sync"

	"github.com/zerx-lab/wordZero/pkg/document"
)

func init() {
	register("engine", runEngine)
	register("enginechild", runEngineChild)
}

// engRes is the projection of one render call.
type engRes struct {
	St    string   `json:"st"` // "ok" | "err" | "panic" | "" (no render)
	Paras []string `json:"paras"`
	Hdr   string   `json:"hdr"`
	Tbl   []string `json:"tbl"` // "=" per table, then one string per row (x_engine_front.go)
}

func engNoRes() engRes { return engRes{St: "", Paras: []string{}, Hdr: "", Tbl: []string{}} }

type engTracked struct {
	id   int
	tmpl *document.Template
	doc  *document.Document // base document handed to LoadTemplateFromDocument (nil for string templates)
	tsum string
	tful map[string]string
	dsum string
	dful map[string]string
}

type engCtx struct {
	rnd     *document.TemplateRenderer
	eng     *document.TemplateEngine // the engine inside rnd
	tmp     string                   // directory of the template files of this behaviour ("" = none yet)
	files   int
	pre     []engPreRec // concurrent runs: renders with undocumented data done alone after the setup
	fmu     sync.Mutex
	names   []string
	probe   Op
	tracked []*engTracked
	byPtr   map[*document.Template]int
	loads   int
}

// ---- concretisation ---------------------------------------------------------

func engStrs(v interface{}) []string {
	out := []string{}
	if a, ok := v.([]interface{}); ok {
		for _, x := range a {
			out = append(out, fmt.Sprint(x))
		}
	}
	return out
}

var engPNG = tinyPNG(7)

// engData builds a fresh TemplateData from the abstract data record {v, items, c, ik}; ik is the kind of the list items.
func engData(d map[string]interface{}) *document.TemplateData {
	td := document.NewTemplateData()
	td.SetVariable("v", fmt.Sprint(d["v"]))
	items := []interface{}{}
	for _, n := range engStrs(d["items"]) {
		switch d["ik"] {
		case "smap":
			items = append(items, map[string]string{"name": n, "other": "o"})
		case "str":
			items = append(items, n)
		case "nokey":
			items = append(items, map[string]interface{}{"other": n, "sub": []interface{}{"x"}})
		default:
			items = append(items, map[string]interface{}{"name": n, "sub": []interface{}{"x"}})
		}
	}
	td.SetList("items", items)
	c, _ := d["c"].(bool)
	td.SetCondition("c", c)
	td.SetImageWithDetails("img", "", append([]byte(nil), engPNG...),
		&document.ImageConfig{Size: &document.ImageSize{Width: 10, Height: 10}, Position: document.ImagePositionInline, Alignment: document.AlignCenter},
		"alt text", "title")
	return td
}

func engOpData(op Op) map[string]interface{} {
	d, _ := op["data"].(map[string]interface{})
	if d == nil {
		d = map[string]interface{}{"v": "", "items": []interface{}{}, "c": false, "ik": "map"}
	}
	return d
}

// engBaseDoc builds the document a document definition is loaded from: one paragraph per source line, a page
// header and the tables the specification lists (x_engine_front.go).
func engBaseDoc(src []string, tbls interface{}) *document.Document {
	d := document.New()
	for _, l := range src {
		d.AddParagraph(l)
	}
	_ = d.AddHeader(document.HeaderFooterTypeDefault, "HDR {{v}}{{#if c}} ON{{/if}}")
	engAddTables(d, tbls)
	return d
}

// ---- projection ----------------------------------------------------------------

func engParas(d *document.Document) []string {
	out := []string{}
	if d == nil || d.Body == nil {
		return out
	}
	for _, p := range d.Body.GetParagraphs() {
		t := ""
		for _, r := range p.Runs {
			t += r.Text.Content
			if r.Drawing != nil {
				t += "<img>"
			}
		}
		out = append(out, t)
	}
	return out
}

// engHdr reads the header parts of an in-memory document (unexported part table, read-only reflection).
func engHdr(d *document.Document) string {
	parts := engPartsOf(d)
	names := []string{}
	for n := range parts {
		if strings.HasPrefix(n, "word/header") && strings.HasSuffix(n, ".xml") {
			names = append(names, n)
		}
	}
	sort.Strings(names)
	out := []string{}
	for _, n := range names {
		if x, err := ParseXML(parts[n]); err == nil {
			out = append(out, x.WText())
		} else {
			out = append(out, "!xml")
		}
	}
	return strings.Join(out, "|")
}

// engSaved projects the bytes of a saved document through the independent reader.
func engSaved(d *document.Document) engRes {
	r := engRes{St: "ok", Paras: []string{}, Hdr: "", Tbl: []string{}}
	st, _ := guard(func() string {
		b, err := d.ToBytes()
		if err != nil {
			return "err"
		}
		p := ReadPkg(b)
		if p.ZipErr != "" {
			return "zip"
		}
		body, err := p.MainBody()
		if err != nil {
			return "xml"
		}
		for _, k := range body.Kids {
			if k.Local == "tbl" {
				r.Tbl = append(append(r.Tbl, "="), engTblRowsXML(k)...)
			}
			if k.Local != "p" {
				continue
			}
			t := k.WText()
			if len(k.Desc("drawing")) > 0 {
				t += "<img>"
			}
			r.Paras = append(r.Paras, t)
		}
		hs := []string{}
		for _, n := range p.SortedNames() {
			if strings.HasPrefix(n, "word/header") && strings.HasSuffix(n, ".xml") {
				if x, err := ParseXML(p.Parts[n]); err == nil {
					hs = append(hs, x.WText())
				} else {
					hs = append(hs, "!xml")
				}
			}
		}
		r.Hdr = strings.Join(hs, "|")
		return "ok"
	})
	r.St = st
	return r
}

func (c *engCtx) render(name, entry string, td *document.TemplateData) (engRes, *document.Document) {
	var doc *document.Document
	res := engRes{Paras: []string{}, Tbl: []string{}}
	st, _ := guard(func() string {
		var err error
		switch entry {
		case "tpl":
			doc, err = c.eng.RenderTemplateToDocument(name, td)
		case "rnd":
			doc, err = c.rnd.RenderTemplate(name, td)
		default:
			doc, err = c.eng.RenderToDocument(name, td)
		}
		if err != nil {
			return "err"
		}
		res.Paras = engParas(doc)
		res.Hdr = engHdr(doc)
		res.Tbl = engTbls(doc)
		return "ok"
	})
	res.St = st
	if st != "ok" {
		res.Paras, res.Hdr, res.Tbl = []string{}, "", []string{}
	}
	return res, doc
}

func (c *engCtx) cacheIDs() map[string]interface{} {
	out := map[string]interface{}{}
	for _, n := range c.names {
		id := 0
		if t, err := c.eng.GetTemplate(n); err == nil && t != nil {
			if k, ok := c.byPtr[t]; ok {
				id = k
			} else {
				id = -1
			}
		}
		out[n] = id
	}
	return out
}

func (c *engCtx) probes() (map[string]interface{}, []string) {
	out := map[string]interface{}{}
	pd := engOpData(c.probe)
	dmod := []string{}
	for _, n := range c.names {
		rd, _, d1 := c.renderChecked(n, "doc", pd)
		rt, _, d2 := c.renderChecked(n, "tpl", pd)
		out[n] = map[string]interface{}{"doc": rd, "tpl": rt}
		dmod = append(append(dmod, d1...), d2...)
	}
	return out, engUniq(dmod)
}

// sync refreshes the deep dumps of all tracked objects and returns the fields that changed
// since the previous call: (template fields, base document fields).
func (c *engCtx) sync() ([]string, []string) {
	tm, bm := map[string]bool{}, map[string]bool{}
	for _, t := range c.tracked {
		if s := engSum(t.tmpl, engTemplateSkip); s != t.tsum {
			f := engFull(t.tmpl, engTemplateSkip)
			for _, k := range engDiff(t.tful, f) {
				tm[k] = true
			}
			t.tsum, t.tful = s, f
		}
		if t.doc != nil {
			if s := engSum(t.doc, nil); s != t.dsum {
				f := engFull(t.doc, nil)
				for _, k := range engDiff(t.dful, f) {
					bm[k] = true
				}
				t.dsum, t.dful = s, f
			}
		}
	}
	return engKeys(tm), engKeys(bm)
}

func engKeys(m map[string]bool) []string {
	out := []string{}
	for k := range m {
		out = append(out, k)
	}
	sort.Strings(out)
	return out
}

// renderChecked renders once with fresh data and reports which fields of the data the call changed.
func (c *engCtx) renderChecked(name, entry string, d map[string]interface{}) (engRes, *document.Document, []string) {
	td := engData(d)
	before := engFull(td, nil)
	res, doc := c.render(name, entry, td)
	after := engFull(td, nil)
	return res, doc, engDiff(before, after)
}

// engPrepped is the harness-side work of an operation that must not count as part of the call: the base
// document of a document template, written to a file for a template loaded from a file.
type engPrepped struct {
	doc  *document.Document
	path string
}

func (c *engCtx) prep(op Op) engPrepped {
	if op.Name() != "Load" {
		return engPrepped{}
	}
	def, _ := op["def"].(map[string]interface{})
	if def == nil || (def["k"] != "doc" && def["k"] != "file") {
		return engPrepped{}
	}
	doc := engBaseDoc(engStrs(op["src"]), op["tbls"])
	if def["k"] == "doc" {
		return engPrepped{doc: doc}
	}
	return engPrepped{path: c.tmplFile(doc)}
}

// engCall performs one abstract operation on the engine. For loads it returns the template
// object, for renders the projected result and the rendered document.
func (c *engCtx) engCall(op Op, pr engPrepped, td *document.TemplateData) (ret string, t *document.Template, res engRes, out *document.Document) {
	res = engNoRes()
	ret, _ = guard(func() string {
		switch op.Name() {
		case "Config":
		case "Load":
			var err error
			if pr.path != "" {
				t, err = c.rnd.LoadTemplateFromFile(op.Str("n"), pr.path)
			} else if pr.doc != nil {
				t, err = c.eng.LoadTemplateFromDocument(op.Str("n"), pr.doc)
			} else {
				t, err = c.eng.LoadTemplate(op.Str("n"), strings.Join(engStrs(op["src"]), "\n"))
			}
			return errRet(err)
		case "Render":
			res, out = c.render(op.Str("n"), op.Str("e"), td)
			return res.St
		case "Get":
			_, err := c.eng.GetTemplate(op.Str("n"))
			return errRet(err)
		case "Validate":
			tt, err := c.eng.GetTemplate(op.Str("n"))
			if err != nil {
				return "err"
			}
			return errRet(c.eng.ValidateTemplate(tt))
		case "Analyze":
			_, err := c.rnd.AnalyzeTemplate(op.Str("n"))
			return errRet(err)
		case "Remove":
			c.eng.RemoveTemplate(op.Str("n"))
		case "Clear":
			c.eng.ClearCache()
		case "SetBasePath":
			c.eng.SetBasePath("/nonexistent")
		default:
			return "unknown-op"
		}
		return "ok"
	})
	return
}

func (c *engCtx) track(t *document.Template, doc *document.Document) {
	c.loads++
	tr := &engTracked{id: c.loads, tmpl: t, doc: doc}
	c.tracked = append(c.tracked, tr)
	c.byPtr[t] = tr.id
}

func engNewCtx() *engCtx {
	rnd := document.NewTemplateRenderer()
	return &engCtx{rnd: rnd, eng: engInner(rnd), names: []string{"A", "B", "G", "base"},
		probe: Op{"data": map[string]interface{}{"v": "val1", "items": []interface{}{"n1", "n2"}, "c": true, "ik": "map"}},
		byPtr: map[*document.Template]int{}}
}

func (c *engCtx) config(op Op) {
	if ns := engStrs(op["names"]); len(ns) > 0 {
		sort.Strings(ns)
		c.names = ns
	}
	if op.Has("data") {
		c.probe = op
	}
}

// runEngineChild executes behaviours for the parent executor: every event is written at once to
// the inherited pipe (fd 3) and each behaviour ends with an "end" line, so that the parent knows
// how far the child got if a behaviour kills the process (stack overflow, runaway allocation).
func runEngineChild(c Case, _ Emitter) {
	if engPipe == nil {
		debug.SetMaxStack(64 << 20) // a runaway recursion should die quickly, not after a gigabyte
		engPipe = os.NewFile(3, "events")
		engPipeEnc = json.NewEncoder(engPipe)
		engPipeEnc.SetEscapeHTML(false)
	}
	out := func(e Ev) {
		if err := engPipeEnc.Encode(e); err != nil {
			fmt.Fprintln(os.Stderr, "enginechild: cannot write event:", err)
			os.Exit(2)
		}
	}
	runEngineInProc(c, out)
	out(Ev{"ev": "end", "case": c.ID})
}

var (
	engPipe    *os.File
	engPipeEnc *json.Encoder
)

func runEngineInProc(c Case, emit Emitter) {
	document.VerifResetGlobals()
	document.VerifHook = nil
	ctx := engNewCtx()
	defer ctx.cleanup()
	emit(Ev{"ev": "reset", "case": c.ID})
	for i, op := range c.Steps {
		ev := Ev{"ev": "step", "case": c.ID, "i": i, "op": op}
		res, again, saved := engNoRes(), engNoRes(), engNoRes()
		dmod, atmod, abmod := []string{}, []string{}, []string{}
		// (the deep dumps are current: the previous step ended with a sync and nothing ran since)
		var ret string
		switch op.Name() {
		case "Config":
			ctx.config(op)
			ret = "ok"
		case "Render":
			// the call the behaviour asks for, its result as saved, and the same call once more
			td := engData(engOpData(op))
			before := engFull(td, nil)
			var doc *document.Document
			ret, _, res, doc = ctx.engCall(op, engPrepped{}, td)
			dmod = append(dmod, engDiff(before, engFull(td, nil))...)
			if res.St == "ok" {
				saved = engSaved(doc)
			}
			var dm []string
			again, _, dm = ctx.renderChecked(op.Str("n"), op.Str("e"), engOpData(op))
			dmod = append(dmod, dm...)
		case "Analyze":
			// the analysis, the data it asks for, and the analysed template rendered twice with that very data object
			var dm []string
			ret, res, again, dm, atmod, abmod = ctx.analyze(op.Str("n"))
			dmod = append(dmod, dm...)
		default:
			pr := ctx.prep(op)
			var t *document.Template
			ret, t, _, _ = ctx.engCall(op, pr, nil)
			if op.Name() == "Load" && ret == "ok" && t != nil {
				doc := pr.doc
				if pr.path != "" {
					doc = t.BaseDoc // opened by the library
				}
				ctx.track(t, doc)
			}
		}
		tmod, bmod := ctx.sync()
		if op.Name() != "Render" && op.Name() != "Analyze" {
			// only renders and analyses are required to leave templates and base documents alone
			tmod, bmod = []string{}, []string{}
		}
		ev["ret"] = ret
		ev["res"], ev["again"], ev["saved"] = res, again, saved
		ev["tmod"], ev["bmod"], ev["dmod"] = tmod, bmod, engUniq(dmod)
		ev["atmod"], ev["abmod"] = atmod, abmod
		ev["cache"] = ctx.cacheIDs()
		pr, pdm := ctx.probes()
		ptm, pbm := ctx.sync()
		ev["probe"], ev["ptmod"], ev["pbmod"], ev["pdmod"] = pr, ptm, pbm, pdm
		emit(ev)
	}
}

func engUniq(a []string) []string {
	m := map[string]bool{}
	for _, x := range a {
		m[x] = true
	}
	return engKeys(m)
}
