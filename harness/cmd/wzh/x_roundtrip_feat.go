package main

// Feature alphabet of spec module RoundTrip: token -> the public API call(s) that apply it.
// The tokens are those of FeatTable / CtorTable in spec/RoundTrip.tla. Table-driven, no
// oracle logic: what each call is expected to leave behind is stated in the specification.

import (
	"fmt"
	"os"
	"path/filepath"
	"strings"

	"github.com/zerx-lab/wordZero/pkg/document"
)

type rtCtor func(x *rtCtx, fs []string) (*rtTarget, string)
type rtFeat func(x *rtCtx, t *rtTarget) string

// ------------------------------------------------------------------- text classes

var rtTextClasses = map[string][]string{
	"x.text.edgews":   {"  lead %s trail \t", " %s ", "\t%s  end   "},
	"x.text.tabnl":    {"a\t%s\nb\r\nc", "\n%s\n", "x\t\t%s\ty"},
	"x.text.cjk":      {"中文%sテキスト한국어", "標題%s，結尾。", "日本語%sです"},
	"x.text.astral":   {"😀%s𝄞𠀀", "🧪%s🚀", "𝒜%s𝓏"},
	"x.text.xmlmeta":  {"<a href=\"x\">&amp; %s 'q' > ]]", "&lt;%s&#65;<!-- c -->", "</w:t>%s<w:br/>"},
	"x.text.cdataend": {"]]>%s<![CDATA[x]]>", "<![CDATA[%s]]>"},
	"x.text.wsonly":   {"   ", " \t ", "\n"},
	"x.text.exotic":   {"\u00a0%s\u2028\u0085\u200d\ufeffx", "\u3000%s\u00ad\u202e", "e\u0301%s\ufffd"},
	"x.text.empty":    {""},
	"x.text.long":     {strings.Repeat("0123456789 ", 6000) + "%s"},
}

func rtText(x *rtCtx, fs []string) string {
	marker := fmt.Sprintf("E%d", x.i)
	for _, f := range fs {
		if vs, ok := rtTextClasses[f]; ok {
			v := vs[int(seed)%len(vs)]
			if strings.Contains(v, "%s") {
				return fmt.Sprintf(v, marker)
			}
			return v
		}
	}
	return "para " + marker + " text"
}

func rtTF(fs []string) *document.TextFormat {
	var tf *document.TextFormat
	get := func() *document.TextFormat {
		if tf == nil {
			tf = &document.TextFormat{}
		}
		return tf
	}
	for _, f := range fs {
		switch f {
		case "tf.empty":
			get()
		case "tf.bold":
			get().Bold = true
		case "tf.italic":
			get().Italic = true
		case "tf.size":
			get().FontSize = 14
		case "tf.color":
			get().FontColor = "FF0000"
		case "tf.colorhash":
			get().FontColor = "#00FF00"
		case "tf.family":
			get().FontFamily = "Arial"
		case "tf.fontname":
			get().FontName = "SimSun"
		case "tf.underline":
			get().Underline = true
		case "tf.strike":
			get().Strike = true
		case "tf.highlight":
			get().Highlight = "yellow"
		}
	}
	return tf
}

func rtFullTF() *document.TextFormat {
	return &document.TextFormat{Bold: true, Italic: true, FontSize: 11, FontColor: "112233", FontFamily: "Courier New",
		Underline: true, Strike: true, Highlight: "cyan"}
}

func rtLastPara(d *document.Document) *document.Paragraph {
	for i := len(d.Body.Elements) - 1; i >= 0; i-- {
		if p, ok := d.Body.Elements[i].(*document.Paragraph); ok {
			return p
		}
	}
	return nil
}

// ------------------------------------------------------------------ constructors

func rtP(p *document.Paragraph) (*rtTarget, string) {
	if p == nil {
		return nil, "nil-paragraph"
	}
	return &rtTarget{P: p}, "ok"
}

func rtHeading(level int) rtCtor {
	return func(x *rtCtx, fs []string) (*rtTarget, string) {
		return rtP(x.doc.AddHeadingParagraph(rtText(x, fs), level))
	}
}

func rtBullet(level int, b document.BulletType) rtCtor {
	return func(x *rtCtx, fs []string) (*rtTarget, string) {
		return rtP(x.doc.AddBulletList(rtText(x, fs), level, b))
	}
}

func rtNumbered(level int, t document.ListType) rtCtor {
	return func(x *rtCtx, fs []string) (*rtTarget, string) {
		return rtP(x.doc.AddNumberedList(rtText(x, fs), level, t))
	}
}

func rtTable(rows, cols int) rtCtor {
	return func(x *rtCtx, fs []string) (*rtTarget, string) {
		cfg := &document.TableConfig{Rows: rows, Cols: cols, Width: 6000}
		if rtHas(fs, "tc.data") {
			for r := 0; r < rows; r++ {
				row := []string{}
				for c := 0; c < cols; c++ {
					row = append(row, fmt.Sprintf("E%dr%dc%d", x.i, r, c))
				}
				cfg.Data = append(cfg.Data, row)
			}
		}
		if rtHas(fs, "tc.colwidths") {
			for c := 0; c < cols; c++ {
				cfg.ColWidths = append(cfg.ColWidths, 1000+500*c)
			}
		}
		if rtHas(fs, "tc.emph") {
			for r := 0; r < rows; r++ {
				row := []int{}
				for c := 0; c < cols; c++ {
					row = append(row, (r+c+2)%3)
				}
				cfg.Emphases = append(cfg.Emphases, row)
			}
		}
		t, err := x.doc.AddTable(cfg)
		if err != nil {
			return nil, "err"
		}
		// a marker in the last cell identifies the table; cell (0,0) stays free for features
		if !rtHas(fs, "tc.data") {
			if err := t.SetCellText(rows-1, cols-1, fmt.Sprintf("E%d", x.i)); err != nil {
				return nil, "err"
			}
		}
		return &rtTarget{T: t}, "ok"
	}
}

// rtImgCfg builds the ImageConfig requested by the i.* tokens (nil if none)
func rtImgCfg(x *rtCtx, fs []string) *document.ImageConfig {
	var cfg *document.ImageConfig
	get := func() *document.ImageConfig {
		if cfg == nil {
			cfg = &document.ImageConfig{}
		}
		return cfg
	}
	for _, f := range fs {
		switch f {
		case "i.cfg.empty":
			get()
		case "i.size.wh":
			get().Size = &document.ImageSize{Width: 40, Height: 25}
		case "i.size.wkeep":
			get().Size = &document.ImageSize{Width: 30, KeepAspectRatio: true}
		case "i.size.hkeep":
			get().Size = &document.ImageSize{Height: 20, KeepAspectRatio: true}
		case "i.size.wnokeep":
			get().Size = &document.ImageSize{Width: 30}
		case "i.align.left":
			get().Position = document.ImagePositionInline
			get().Alignment = document.AlignLeft
		case "i.align.center":
			get().Position = document.ImagePositionInline
			get().Alignment = document.AlignCenter
		case "i.align.right":
			get().Position = document.ImagePositionInline
			get().Alignment = document.AlignRight
		case "i.alt":
			get().AltText = "alt <text> & E" + fmt.Sprint(x.i)
		case "i.title":
			get().Title = "title 标题 E" + fmt.Sprint(x.i)
		case "i.fl.default":
			get().Position = document.ImagePositionFloatLeft
		case "i.fl.none":
			get().Position = document.ImagePositionFloatLeft
			get().WrapText = document.ImageWrapNone
		case "i.fl.square":
			get().Position = document.ImagePositionFloatLeft
			get().WrapText = document.ImageWrapSquare
		case "i.fl.tight":
			get().Position = document.ImagePositionFloatLeft
			get().WrapText = document.ImageWrapTight
		case "i.fl.topbottom":
			get().Position = document.ImagePositionFloatLeft
			get().WrapText = document.ImageWrapTopAndBottom
		case "i.fr.square":
			get().Position = document.ImagePositionFloatRight
			get().WrapText = document.ImageWrapSquare
		case "i.fr.tight":
			get().Position = document.ImagePositionFloatRight
			get().WrapText = document.ImageWrapTight
		case "i.off.x":
			get().OffsetX = 5
		case "i.off.y":
			get().OffsetY = 7.5
		case "i.off.xy":
			get().OffsetX = 2.5
			get().OffsetY = 3
		}
	}
	return cfg
}

// rtNestedTable: a table of rows x cols nested `depth` levels below a 1x1 body table. The target
// of the features is the NESTED table, so every table feature (cell content, pictures, merges,
// borders, rows / columns ...) is exercised below the body level as well.
func rtNestedTable(depth, rows, cols int) rtCtor {
	return func(x *rtCtx, fs []string) (*rtTarget, string) {
		t, err := x.doc.AddTable(&document.TableConfig{Rows: 1, Cols: 1, Width: 7000})
		if err != nil {
			return nil, "err"
		}
		for d := 1; d < depth; d++ {
			if t, err = t.AddNestedTable(0, 0, &document.TableConfig{Rows: 1, Cols: 1, Width: 7000 - 500*d}); err != nil {
				return nil, "err"
			}
		}
		cfg := &document.TableConfig{Rows: rows, Cols: cols, Width: 4000}
		if rtHas(fs, "tc.data") {
			for r := 0; r < rows; r++ {
				row := []string{}
				for c := 0; c < cols; c++ {
					row = append(row, fmt.Sprintf("E%dn%dr%dc%d", x.i, depth, r, c))
				}
				cfg.Data = append(cfg.Data, row)
			}
		}
		if rtHas(fs, "tc.colwidths") {
			for c := 0; c < cols; c++ {
				cfg.ColWidths = append(cfg.ColWidths, 900+400*c)
			}
		}
		n, err := t.AddNestedTable(0, 0, cfg)
		if err != nil {
			return nil, "err"
		}
		if !rtHas(fs, "tc.data") {
			if err := n.SetCellText(rows-1, cols-1, fmt.Sprintf("E%dn%d", x.i, depth)); err != nil {
				return nil, "err"
			}
		}
		return &rtTarget{T: n}, "ok"
	}
}

func rtImage(format document.ImageFormat) rtCtor {
	return func(x *rtCtx, fs []string) (*rtTarget, string) {
		var data []byte
		switch format {
		case document.ImageFormatPNG:
			data = tinyPNGSize(x.i, 3, 2)
		case document.ImageFormatJPEG:
			data = tinyJPEGSize(x.i, 3, 2)
		default:
			data = tinyGIFSize(x.i, 3, 2)
		}
		cfg := rtImgCfg(x, fs)
		name := fmt.Sprintf("pic E%d.%s", x.i, string(format))
		info, err := x.doc.AddImageFromData(data, name, format, 3, 2, cfg)
		if err != nil {
			return nil, "err"
		}
		return &rtTarget{Img: info, P: rtLastPara(x.doc)}, "ok"
	}
}

var rtCtors = map[string]rtCtor{
	"c.para": func(x *rtCtx, fs []string) (*rtTarget, string) { return rtP(x.doc.AddParagraph(rtText(x, fs))) },
	"c.fpara": func(x *rtCtx, fs []string) (*rtTarget, string) {
		return rtP(x.doc.AddFormattedParagraph(rtText(x, fs), rtTF(fs)))
	},
	"c.heading1": rtHeading(1), "c.heading3": rtHeading(3), "c.heading9": rtHeading(9), "c.heading0": rtHeading(0),
	"c.headingbm": func(x *rtCtx, fs []string) (*rtTarget, string) {
		return rtP(x.doc.AddHeadingParagraphWithBookmark(rtText(x, fs), 2, fmt.Sprintf("bm_E%d", x.i)))
	},
	"c.headingwb": func(x *rtCtx, fs []string) (*rtTarget, string) {
		return rtP(x.doc.AddHeadingWithBookmark(rtText(x, fs), 1, fmt.Sprintf("hb_E%d", x.i)))
	},
	"c.pagebreak": func(x *rtCtx, fs []string) (*rtTarget, string) {
		x.doc.AddPageBreak()
		return rtP(rtLastPara(x.doc))
	},
	"c.list.nil": func(x *rtCtx, fs []string) (*rtTarget, string) { return rtP(x.doc.AddListItem(rtText(x, fs), nil)) },
	"c.list.dot": rtBullet(0, document.BulletTypeDot), "c.list.circle": rtBullet(0, document.BulletTypeCircle),
	"c.list.square": rtBullet(1, document.BulletTypeSquare), "c.list.dash": rtBullet(0, document.BulletTypeDash),
	"c.list.arrow":   rtBullet(2, document.BulletTypeArrow),
	"c.list.decimal": rtNumbered(0, document.ListTypeDecimal), "c.list.number": rtNumbered(0, document.ListTypeNumber),
	"c.list.lowerLetter": rtNumbered(1, document.ListTypeLowerLetter), "c.list.upperLetter": rtNumbered(0, document.ListTypeUpperLetter),
	"c.list.lowerRoman": rtNumbered(0, document.ListTypeLowerRoman), "c.list.upperRoman": rtNumbered(8, document.ListTypeUpperRoman),
	"c.list.cfg": func(x *rtCtx, fs []string) (*rtTarget, string) {
		return rtP(x.doc.AddListItem(rtText(x, fs), &document.ListConfig{Type: document.ListTypeDecimal, StartNumber: 5, IndentLevel: 2}))
	},
	"c.footnote": func(x *rtCtx, fs []string) (*rtTarget, string) {
		if err := x.doc.AddFootnote(rtText(x, fs), fmt.Sprintf("note E%d", x.i)); err != nil {
			return nil, "err"
		}
		return rtP(rtLastPara(x.doc))
	},
	"c.endnote": func(x *rtCtx, fs []string) (*rtTarget, string) {
		if err := x.doc.AddEndnote(rtText(x, fs), fmt.Sprintf("note E%d", x.i)); err != nil {
			return nil, "err"
		}
		return rtP(rtLastPara(x.doc))
	},
	"c.cellpara": func(x *rtCtx, fs []string) (*rtTarget, string) {
		t, err := x.doc.AddTable(&document.TableConfig{Rows: 1, Cols: 1, Width: 5000})
		if err != nil {
			return nil, "err"
		}
		p, err := t.AddCellParagraph(0, 0, rtText(x, fs))
		if err != nil {
			return nil, "err"
		}
		return rtP(p)
	},
	"c.cellfpara": func(x *rtCtx, fs []string) (*rtTarget, string) {
		t, err := x.doc.AddTable(&document.TableConfig{Rows: 1, Cols: 2, Width: 5000})
		if err != nil {
			return nil, "err"
		}
		p, err := t.AddCellFormattedParagraph(0, 1, rtText(x, fs), rtTF(fs))
		if err != nil {
			return nil, "err"
		}
		return rtP(p)
	},
	"c.nestedcellpara": func(x *rtCtx, fs []string) (*rtTarget, string) {
		t, err := x.doc.AddTable(&document.TableConfig{Rows: 1, Cols: 1, Width: 5000})
		if err != nil {
			return nil, "err"
		}
		n, err := t.AddNestedTable(0, 0, &document.TableConfig{Rows: 1, Cols: 1, Width: 3000})
		if err != nil {
			return nil, "err"
		}
		p, err := n.AddCellParagraph(0, 0, rtText(x, fs))
		if err != nil {
			return nil, "err"
		}
		return rtP(p)
	},
	"c.structpara": func(x *rtCtx, fs []string) (*rtTarget, string) {
		p := &document.Paragraph{Runs: []document.Run{{Text: document.Text{Content: rtText(x, fs), Space: "preserve"}}}}
		x.doc.Body.AddElement(p)
		return rtP(p)
	},
	"c.math.inline": func(x *rtCtx, fs []string) (*rtTarget, string) {
		return &rtTarget{M: x.doc.AddMathFormula(fmt.Sprintf("<m:r><m:t>x+E%d</m:t></m:r>", x.i), false)}, "ok"
	},
	"c.math.block": func(x *rtCtx, fs []string) (*rtTarget, string) {
		return &rtTarget{M: x.doc.AddMathFormula(fmt.Sprintf("<m:f><m:num><m:r><m:t>E%d</m:t></m:r></m:num><m:den><m:r><m:t>2</m:t></m:r></m:den></m:f>", x.i), true)}, "ok"
	},
	"c.math.text": func(x *rtCtx, fs []string) (*rtTarget, string) {
		return &rtTarget{M: x.doc.AddMathFormula(fmt.Sprintf("a < E%d & c", x.i), true)}, "ok"
	},
	"c.toc": func(x *rtCtx, fs []string) (*rtTarget, string) {
		p := x.doc.AddHeadingParagraph(rtText(x, fs), 1)
		cfg := document.DefaultTOCConfig()
		cfg.Title = fmt.Sprintf("TOC E%d", x.i)
		if err := x.doc.GenerateTOC(cfg); err != nil {
			return nil, "err"
		}
		return rtP(p)
	},
	"c.toc.auto": func(x *rtCtx, fs []string) (*rtTarget, string) {
		p := x.doc.AddHeadingParagraph(rtText(x, fs), 1)
		cfg := document.DefaultTOCConfig()
		cfg.Title = fmt.Sprintf("Auto TOC E%d", x.i)
		if err := x.doc.AutoGenerateTOC(cfg); err != nil {
			return nil, "err"
		}
		return rtP(p)
	},
	"c.toc.update": func(x *rtCtx, fs []string) (*rtTarget, string) {
		p := x.doc.AddHeadingParagraph(rtText(x, fs), 1)
		cfg := document.DefaultTOCConfig()
		cfg.Title = fmt.Sprintf("TOC E%d", x.i)
		if err := x.doc.GenerateTOC(cfg); err != nil {
			return nil, "err"
		}
		x.doc.AddHeadingParagraph(fmt.Sprintf("later heading E%d", x.i), 2)
		if err := x.doc.UpdateTOC(); err != nil {
			return nil, "err"
		}
		return rtP(p)
	},
	"c.list.multi": func(x *rtCtx, fs []string) (*rtTarget, string) {
		err := x.doc.CreateMultiLevelList([]document.ListItem{
			{Text: fmt.Sprintf("one E%d", x.i), Level: 0, Type: document.ListTypeDecimal, StartNumber: 1},
			{Text: fmt.Sprintf("sub E%d", x.i), Level: 1, Type: document.ListTypeBullet, BulletSymbol: document.BulletTypeDash},
			{Text: rtText(x, fs), Level: 0, Type: document.ListTypeDecimal},
		})
		if err != nil {
			return nil, "err"
		}
		return rtP(rtLastPara(x.doc))
	},
	"c.tbl.create": func(x *rtCtx, fs []string) (*rtTarget, string) {
		t, err := x.doc.CreateTable(&document.TableConfig{Rows: 2, Cols: 2, Width: 5000})
		if err != nil {
			return nil, "err"
		}
		if err := t.SetCellText(1, 1, fmt.Sprintf("E%d", x.i)); err != nil {
			return nil, "err"
		}
		x.doc.Body.AddElement(t)
		return &rtTarget{T: t}, "ok"
	},
	"c.img.file": func(x *rtCtx, fs []string) (*rtTarget, string) {
		fn := filepath.Join(rtTemp(), fmt.Sprintf("图 E%d.png", x.i))
		if err := os.WriteFile(fn, tinyPNGSize(20+x.i, 5, 3), 0o644); err != nil {
			return nil, "tempfile"
		}
		info, err := x.doc.AddImageFromFile(fn, rtImgCfg(x, fs))
		if err != nil {
			return nil, "err"
		}
		return &rtTarget{Img: info, P: rtLastPara(x.doc)}, "ok"
	},
	"c.tbl.1x1": rtTable(1, 1), "c.tbl.1x2": rtTable(1, 2), "c.tbl.1x3": rtTable(1, 3),
	"c.tbl.2x1": rtTable(2, 1), "c.tbl.2x2": rtTable(2, 2), "c.tbl.2x3": rtTable(2, 3),
	"c.tbl.3x1": rtTable(3, 1), "c.tbl.3x2": rtTable(3, 2), "c.tbl.3x3": rtTable(3, 3),
	"c.ntbl.d1.2x2": rtNestedTable(1, 2, 2), "c.ntbl.d1.1x1": rtNestedTable(1, 1, 1), "c.ntbl.d2.2x2": rtNestedTable(2, 2, 2),
	"c.img.png": rtImage(document.ImageFormatPNG), "c.img.jpeg": rtImage(document.ImageFormatJPEG),
	"c.img.gif": rtImage(document.ImageFormatGIF),
}

// ---------------------------------------------------------------------- features

func rtE(err error) string {
	if err != nil {
		return "err"
	}
	return "ok"
}

func onP(f func(p *document.Paragraph)) rtFeat {
	return func(x *rtCtx, t *rtTarget) string {
		if t.P == nil {
			return "no-paragraph"
		}
		f(t.P)
		return "ok"
	}
}

func onT(f func(x *rtCtx, t *document.Table) error) rtFeat {
	return func(x *rtCtx, t *rtTarget) string {
		if t.T == nil {
			return "no-table"
		}
		return rtE(f(x, t.T))
	}
}

func onI(f func(x *rtCtx, i *document.ImageInfo) error) rtFeat {
	return func(x *rtCtx, t *rtTarget) string {
		if t.Img == nil {
			return "no-image"
		}
		return rtE(f(x, t.Img))
	}
}

func rtPB(p *document.Paragraph) *document.ParagraphProperties {
	if p.Properties == nil {
		p.Properties = &document.ParagraphProperties{}
	}
	return p.Properties
}

func rtBC(style document.BorderStyle, size int, color string, space int) *document.ParagraphBorderConfig {
	return &document.ParagraphBorderConfig{Style: style, Size: size, Color: color, Space: space}
}

func rtBorder(style document.BorderStyle, w int, color string) *document.BorderConfig {
	return &document.BorderConfig{Style: style, Width: w, Color: color, Space: 0}
}

var rtFalse = false

func rtTP(t *document.Table) *document.TableProperties {
	if t.Properties == nil {
		t.Properties = &document.TableProperties{}
	}
	return t.Properties
}

// properties of cell (0,0); a table whose first row has no cell left gets a scratch value
func rtCP(t *document.Table) *document.TableCellProperties {
	if len(t.Rows) == 0 || len(t.Rows[0].Cells) == 0 {
		return &document.TableCellProperties{}
	}
	c := &t.Rows[0].Cells[0]
	if c.Properties == nil {
		c.Properties = &document.TableCellProperties{}
	}
	return c.Properties
}

// nil = consumed by the constructor (text class, TextFormat field, table/image configuration)
var rtFeats = map[string]rtFeat{
	"x.text.edgews": nil, "x.text.tabnl": nil, "x.text.cjk": nil, "x.text.astral": nil, "x.text.xmlmeta": nil,
	"x.text.cdataend": nil, "x.text.wsonly": nil, "x.text.exotic": nil, "x.text.empty": nil, "x.text.long": nil,
	"tf.empty": nil, "tf.bold": nil, "tf.italic": nil, "tf.size": nil, "tf.color": nil, "tf.colorhash": nil,
	"tf.family": nil, "tf.fontname": nil, "tf.underline": nil, "tf.strike": nil, "tf.highlight": nil,
	"tc.data": nil, "tc.colwidths": nil, "tc.emph": nil,
	"i.cfg.empty": nil, "i.size.wh": nil, "i.size.wkeep": nil, "i.size.hkeep": nil, "i.size.wnokeep": nil,
	"i.align.left": nil, "i.align.center": nil, "i.align.right": nil, "i.alt": nil, "i.title": nil,
	"i.fl.default": nil, "i.fl.none": nil, "i.fl.square": nil, "i.fl.tight": nil, "i.fl.topbottom": nil,
	"i.fr.square": nil, "i.fr.tight": nil, "i.off.x": nil, "i.off.y": nil, "i.off.xy": nil,

	// ---- paragraph setters
	"p.align.left":   onP(func(p *document.Paragraph) { p.SetAlignment(document.AlignLeft) }),
	"p.align.center": onP(func(p *document.Paragraph) { p.SetAlignment(document.AlignCenter) }),
	"p.align.right":  onP(func(p *document.Paragraph) { p.SetAlignment(document.AlignRight) }),
	"p.align.both":   onP(func(p *document.Paragraph) { p.SetAlignment(document.AlignJustify) }),
	"p.spacing.line": onP(func(p *document.Paragraph) { p.SetSpacing(&document.SpacingConfig{LineSpacing: 1.5}) }),
	"p.spacing.before": onP(func(p *document.Paragraph) {
		p.SetSpacing(&document.SpacingConfig{BeforePara: 12})
	}),
	"p.spacing.after": onP(func(p *document.Paragraph) { p.SetSpacing(&document.SpacingConfig{AfterPara: 6}) }),
	"p.spacing.first": onP(func(p *document.Paragraph) {
		p.SetSpacing(&document.SpacingConfig{FirstLineIndent: 24})
	}),
	"p.spacing.all": onP(func(p *document.Paragraph) {
		p.SetSpacing(&document.SpacingConfig{LineSpacing: 2.25, BeforePara: 18, AfterPara: 9, FirstLineIndent: 21})
	}),
	"p.spacing.zero": onP(func(p *document.Paragraph) { p.SetSpacing(&document.SpacingConfig{}) }),
	"p.spacing.nil":  onP(func(p *document.Paragraph) { p.SetSpacing(nil) }),
	"p.ind.first":    onP(func(p *document.Paragraph) { p.SetIndentation(0.5, 0, 0) }),
	"p.ind.hanging":  onP(func(p *document.Paragraph) { p.SetIndentation(-0.5, 1, 0) }),
	"p.ind.left":     onP(func(p *document.Paragraph) { p.SetIndentation(0, 1.25, 0) }),
	"p.ind.right":    onP(func(p *document.Paragraph) { p.SetIndentation(0, 0, 2) }),
	"p.ind.all":      onP(func(p *document.Paragraph) { p.SetIndentation(0.74, 1.5, 0.3) }),
	"p.ind.negleft":  onP(func(p *document.Paragraph) { p.SetIndentation(0, -1, -0.5) }),
	"p.ind.zero":     onP(func(p *document.Paragraph) { p.SetIndentation(0, 0, 0) }),
	"p.keepNext.on":  onP(func(p *document.Paragraph) { p.SetKeepWithNext(true) }),
	"p.keepNext.off": onP(func(p *document.Paragraph) { p.SetKeepWithNext(false) }),
	"p.keepLines.on": onP(func(p *document.Paragraph) { p.SetKeepLines(true) }),
	"p.keepLines.off": onP(func(p *document.Paragraph) {
		p.SetKeepLines(false)
	}),
	"p.pbb.on":      onP(func(p *document.Paragraph) { p.SetPageBreakBefore(true) }),
	"p.pbb.off":     onP(func(p *document.Paragraph) { p.SetPageBreakBefore(false) }),
	"p.widow.on":    onP(func(p *document.Paragraph) { p.SetWidowControl(true) }),
	"p.widow.off":   onP(func(p *document.Paragraph) { p.SetWidowControl(false) }),
	"p.outline.0":   onP(func(p *document.Paragraph) { p.SetOutlineLevel(0) }),
	"p.outline.3":   onP(func(p *document.Paragraph) { p.SetOutlineLevel(3) }),
	"p.outline.8":   onP(func(p *document.Paragraph) { p.SetOutlineLevel(8) }),
	"p.outline.neg": onP(func(p *document.Paragraph) { p.SetOutlineLevel(-1) }),
	"p.outline.big": onP(func(p *document.Paragraph) { p.SetOutlineLevel(12) }),
	"p.snap.off":    onP(func(p *document.Paragraph) { p.SetSnapToGrid(false) }),
	"p.snap.on":     onP(func(p *document.Paragraph) { p.SetSnapToGrid(true) }),
	"p.style.h2":    onP(func(p *document.Paragraph) { p.SetStyle("Heading2") }),
	"p.style.normal": onP(func(p *document.Paragraph) {
		p.SetStyle("Normal")
	}),
	"p.style.custom": onP(func(p *document.Paragraph) { p.SetStyle("My Style-1") }),
	"p.format.full": onP(func(p *document.Paragraph) {
		p.SetParagraphFormat(&document.ParagraphFormatConfig{Alignment: document.AlignJustify, Style: "Heading3",
			LineSpacing: 1.15, BeforePara: 24, AfterPara: 12, FirstLineIndent: 10, FirstLineCm: 0.6, LeftCm: 0.2, RightCm: 0.1,
			KeepWithNext: true, KeepLines: true, PageBreakBefore: true, WidowControl: true, SnapToGrid: &rtFalse, OutlineLevel: 2})
	}),
	"p.format.min": onP(func(p *document.Paragraph) {
		p.SetParagraphFormat(&document.ParagraphFormatConfig{Alignment: document.AlignRight})
	}),
	"p.format.nil": onP(func(p *document.Paragraph) { p.SetParagraphFormat(nil) }),
	"p.border.bottom": onP(func(p *document.Paragraph) {
		p.SetBorder(nil, nil, rtBC(document.BorderStyleSingle, 12, "000000", 1), nil)
	}),
	"p.border.all": onP(func(p *document.Paragraph) {
		b := rtBC(document.BorderStyleDouble, 8, "0000FF", 2)
		p.SetBorder(b, b, b, b)
	}),
	"p.border.topleft": onP(func(p *document.Paragraph) {
		p.SetBorder(rtBC(document.BorderStyleDashed, 4, "FF00FF", 0), rtBC(document.BorderStyleThick, 24, "auto", 4), nil, nil)
	}),
	"p.border.clear": onP(func(p *document.Paragraph) { p.SetBorder(nil, nil, nil, nil) }),
	"p.hrule":        onP(func(p *document.Paragraph) { p.SetHorizontalRule(document.BorderStyleDouble, 18, "808080") }),
	"p.bold.on":      onP(func(p *document.Paragraph) { p.SetBold(true) }),
	"p.bold.off":     onP(func(p *document.Paragraph) { p.SetBold(false) }),
	"p.italic.on":    onP(func(p *document.Paragraph) { p.SetItalic(true) }),
	"p.italic.off":   onP(func(p *document.Paragraph) { p.SetItalic(false) }),
	"p.underline.on": onP(func(p *document.Paragraph) { p.SetUnderline(true) }),
	"p.underline.off": onP(func(p *document.Paragraph) {
		p.SetUnderline(false)
	}),
	"p.strike.on":        onP(func(p *document.Paragraph) { p.SetStrike(true) }),
	"p.strike.off":       onP(func(p *document.Paragraph) { p.SetStrike(false) }),
	"p.highlight.yellow": onP(func(p *document.Paragraph) { p.SetHighlight("yellow") }),
	"p.highlight.clear":  onP(func(p *document.Paragraph) { p.SetHighlight("") }),
	"p.font.arial":       onP(func(p *document.Paragraph) { p.SetFontFamily("Arial") }),
	"p.font.cjk":         onP(func(p *document.Paragraph) { p.SetFontFamily("微软雅黑") }),
	"p.font.clear":       onP(func(p *document.Paragraph) { p.SetFontFamily("") }),
	"p.size.16":          onP(func(p *document.Paragraph) { p.SetFontSize(16) }),
	"p.size.zero":        onP(func(p *document.Paragraph) { p.SetFontSize(0) }),
	"p.color.red":        onP(func(p *document.Paragraph) { p.SetColor("FF0000") }),
	"p.color.hash":       onP(func(p *document.Paragraph) { p.SetColor("#00AA11") }),
	"p.color.clear":      onP(func(p *document.Paragraph) { p.SetColor("") }),
	"p.addtext.plain": func(x *rtCtx, t *rtTarget) string {
		t.P.AddFormattedText(fmt.Sprintf("more E%d", x.i), nil)
		return "ok"
	},
	"p.addtext.fmt": func(x *rtCtx, t *rtTarget) string {
		t.P.AddFormattedText(fmt.Sprintf("fmt E%d", x.i), rtFullTF())
		return "ok"
	},
	"p.addtext.emptyfmt": func(x *rtCtx, t *rtTarget) string {
		t.P.AddFormattedText(fmt.Sprintf("ef E%d", x.i), &document.TextFormat{})
		return "ok"
	},
	"p.addtext.ws": func(x *rtCtx, t *rtTarget) string {
		t.P.AddFormattedText(fmt.Sprintf("  ws E%d\t\n ", x.i), &document.TextFormat{Italic: true})
		return "ok"
	},
	"p.addtext.empty": onP(func(p *document.Paragraph) { p.AddFormattedText("", &document.TextFormat{Bold: true}) }),
	"p.footnote.torun": func(x *rtCtx, t *rtTarget) string {
		if t.P == nil || len(t.P.Runs) == 0 {
			return "ok"
		}
		return rtE(x.doc.AddFootnoteToRun(&t.P.Runs[0], fmt.Sprintf("run note E%d", x.i)))
	},
	"p.addbreak":   onP(func(p *document.Paragraph) { p.AddPageBreak() }),
	"p.inlinemath": onP(func(p *document.Paragraph) { p.AddInlineMath("<m:r><m:t>y</m:t></m:r>") }),

	// ---- exported struct fields without a setter (the library's data model expresses them)
	"p.struct.tabs": onP(func(p *document.Paragraph) {
		rtPB(p).Tabs = &document.Tabs{Tabs: []document.TabDef{{Val: "right", Leader: "dot", Pos: "8640"}, {Val: "left", Pos: "720"}}}
	}),
	"p.struct.linebreak": onP(func(p *document.Paragraph) { p.Runs = append(p.Runs, document.Run{Break: &document.Break{}}) }),
	"p.struct.textbreak": onP(func(p *document.Paragraph) {
		p.Runs = append(p.Runs, document.Run{Text: document.Text{Content: "tb", Space: "preserve"}, Break: &document.Break{Type: "column"}})
	}),
	"p.struct.fldchar": onP(func(p *document.Paragraph) {
		p.Runs = append(p.Runs, document.Run{FieldChar: &document.FieldChar{FieldCharType: "begin"}})
	}),
	"p.struct.instr": onP(func(p *document.Paragraph) {
		p.Runs = append(p.Runs, document.Run{InstrText: &document.InstrText{Space: "preserve", Content: " PAGE  \\* MERGEFORMAT "}})
	}),
	"p.struct.field": onP(func(p *document.Paragraph) {
		f := document.CreatePageRefField("_Toc1")
		p.Runs = append(p.Runs, document.Run{FieldChar: &f.BeginChar}, document.Run{InstrText: &f.InstrText},
			document.Run{FieldChar: &f.SeparateChar}, document.Run{Text: document.Text{Content: "7"}}, document.Run{FieldChar: &f.EndChar})
	}),
	"p.struct.linerule": onP(func(p *document.Paragraph) {
		rtPB(p).Spacing = &document.Spacing{Line: "360", LineRule: "exact"}
	}),
	"p.struct.hint": onP(func(p *document.Paragraph) {
		for i := range p.Runs {
			if p.Runs[i].Properties == nil {
				p.Runs[i].Properties = &document.RunProperties{}
			}
			p.Runs[i].Properties.FontFamily = &document.FontFamily{EastAsia: "宋体", Hint: "eastAsia"}
		}
	}),
	"p.struct.udouble": onP(func(p *document.Paragraph) {
		for i := range p.Runs {
			if p.Runs[i].Properties == nil {
				p.Runs[i].Properties = &document.RunProperties{}
			}
			p.Runs[i].Properties.Underline = &document.Underline{Val: "double"}
		}
	}),
	"p.struct.numpr": onP(func(p *document.Paragraph) {
		rtPB(p).NumberingProperties = &document.NumberingProperties{ILevel: &document.ILevel{Val: "1"}, NumID: &document.NumID{Val: "7"}}
	}),
	"p.struct.cs": onP(func(p *document.Paragraph) {
		for i := range p.Runs {
			if p.Runs[i].Properties == nil {
				p.Runs[i].Properties = &document.RunProperties{}
			}
			p.Runs[i].Properties.BoldCs = &document.BoldCs{}
			p.Runs[i].Properties.ItalicCs = &document.ItalicCs{}
			p.Runs[i].Properties.FontSizeCs = &document.FontSizeCs{Val: "30"}
		}
	}),

	// ---- table operations
	"t.celltext.plain": onT(func(x *rtCtx, t *document.Table) error { return t.SetCellText(0, 0, fmt.Sprintf("cell E%d", x.i)) }),
	"t.celltext.edgews": onT(func(x *rtCtx, t *document.Table) error {
		return t.SetCellText(0, 0, fmt.Sprintf("  c E%d \t\n", x.i))
	}),
	"t.celltext.xmlmeta": onT(func(x *rtCtx, t *document.Table) error {
		return t.SetCellText(0, 0, fmt.Sprintf("<c>&\"E%d\"</c> 表", x.i))
	}),
	"t.celltext.empty": onT(func(x *rtCtx, t *document.Table) error { return t.SetCellText(0, 0, "") }),
	"t.cellfmt.full": onT(func(x *rtCtx, t *document.Table) error {
		return t.SetCellFormat(0, 0, &document.CellFormat{TextFormat: rtFullTF(), HorizontalAlign: document.CellAlignRight,
			VerticalAlign: document.CellVAlignBottom, TextDirection: document.TextDirectionTB, BackgroundColor: "EEEEEE", BorderStyle: "single", Padding: 4})
	}),
	"t.cellfmt.vtop": onT(func(x *rtCtx, t *document.Table) error {
		return t.SetCellFormat(0, 0, &document.CellFormat{VerticalAlign: document.CellVAlignTop})
	}),
	"t.cellfmt.hcenter": onT(func(x *rtCtx, t *document.Table) error {
		return t.SetCellFormat(0, 0, &document.CellFormat{HorizontalAlign: document.CellAlignCenter})
	}),
	"t.cellfmt.empty": onT(func(x *rtCtx, t *document.Table) error { return t.SetCellFormat(0, 0, &document.CellFormat{}) }),
	"t.cellftext": onT(func(x *rtCtx, t *document.Table) error {
		return t.SetCellFormattedText(0, 0, fmt.Sprintf("ft E%d", x.i), rtFullTF())
	}),
	"t.cellftext.nil": onT(func(x *rtCtx, t *document.Table) error {
		return t.SetCellFormattedText(0, 0, fmt.Sprintf("fn E%d", x.i), nil)
	}),
	"t.celladdtext": onT(func(x *rtCtx, t *document.Table) error {
		return t.AddCellFormattedText(0, 0, fmt.Sprintf(" at E%d ", x.i), &document.TextFormat{Bold: true, FontColor: "00FF00"})
	}),
	"t.cellpara": onT(func(x *rtCtx, t *document.Table) error {
		_, err := t.AddCellParagraph(0, 0, fmt.Sprintf(" cp E%d ", x.i))
		return err
	}),
	"t.cellfpara": onT(func(x *rtCtx, t *document.Table) error {
		_, err := t.AddCellFormattedParagraph(0, 0, fmt.Sprintf("cfp E%d", x.i), rtFullTF())
		return err
	}),
	"t.celllist.bullet": onT(func(x *rtCtx, t *document.Table) error {
		return t.AddCellList(0, 0, &document.CellListConfig{Type: document.ListTypeBullet, BulletSymbol: document.BulletTypeArrow, Items: []string{"one", "two"}})
	}),
	"t.celllist.roman": onT(func(x *rtCtx, t *document.Table) error {
		return t.AddCellList(0, 0, &document.CellListConfig{Type: document.ListTypeLowerRoman, Items: []string{"i1", "i2", "i3"}})
	}),
	"t.cellimage": onT(func(x *rtCtx, t *document.Table) error {
		_, err := x.doc.AddCellImage(t, 0, 0, &document.CellImageConfig{Data: tinyPNGSize(50+x.i, 4, 4), AltText: "cell alt", Title: "cell title"})
		return err
	}),
	"t.cellimage.sized": onT(func(x *rtCtx, t *document.Table) error {
		_, err := x.doc.AddCellImageFromData(t, 0, 0, tinyJPEGSize(60+x.i, 4, 2), 12.5)
		return err
	}),
	"t.cellimage.same": onT(func(x *rtCtx, t *document.Table) error {
		data := tinyPNGSize(80+x.i, 5, 5)
		if _, err := x.doc.AddCellImage(t, 0, 0, &document.CellImageConfig{Data: data, AltText: "twin a"}); err != nil {
			return err
		}
		_, err := x.doc.AddCellImage(t, t.GetRowCount()-1, t.GetColumnCount()-1, &document.CellImageConfig{Data: append([]byte{}, data...), AltText: "twin b"})
		return err
	}),
	"t.cellimage.file": onT(func(x *rtCtx, t *document.Table) error {
		fn := filepath.Join(rtTemp(), fmt.Sprintf("cell E%d.png", x.i))
		if err := os.WriteFile(fn, tinyPNGSize(70+x.i, 6, 3), 0o644); err != nil {
			return err
		}
		_, err := x.doc.AddCellImageFromFile(t, 0, 0, fn, 9)
		return err
	}),
	"t.nested.d1": onT(func(x *rtCtx, t *document.Table) error {
		_, err := t.AddNestedTable(0, 0, &document.TableConfig{Rows: 1, Cols: 2, Width: 2000, Data: [][]string{{"n1", "n2"}}})
		return err
	}),
	"t.nested.d2": onT(func(x *rtCtx, t *document.Table) error {
		n, err := t.AddNestedTable(0, 0, &document.TableConfig{Rows: 2, Cols: 1, Width: 2000, Data: [][]string{{"n1"}, {"n2"}}})
		if err != nil {
			return err
		}
		_, err = n.AddNestedTable(1, 0, &document.TableConfig{Rows: 1, Cols: 1, Width: 1000, Data: [][]string{{"deep"}}})
		return err
	}),
	"t.nested.two": onT(func(x *rtCtx, t *document.Table) error {
		if _, err := t.AddNestedTable(0, 0, &document.TableConfig{Rows: 1, Cols: 1, Width: 1500, Data: [][]string{{"na"}}}); err != nil {
			return err
		}
		_, err := t.AddNestedTable(0, 0, &document.TableConfig{Rows: 1, Cols: 1, Width: 1500, Data: [][]string{{"nb"}}})
		return err
	}),
	"t.merge.h":     onT(func(x *rtCtx, t *document.Table) error { return t.MergeCellsHorizontal(0, 0, 1) }),
	"t.merge.h.all": onT(func(x *rtCtx, t *document.Table) error { return t.MergeCellsHorizontal(0, 0, t.GetColumnCount()-1) }),
	"t.merge.v":     onT(func(x *rtCtx, t *document.Table) error { return t.MergeCellsVertical(0, 1, 0) }),
	"t.merge.v.all": onT(func(x *rtCtx, t *document.Table) error { return t.MergeCellsVertical(0, t.GetRowCount()-1, 0) }),
	"t.merge.range": onT(func(x *rtCtx, t *document.Table) error { return t.MergeCellsRange(0, 1, 0, 1) }),
	"t.merge.hv": onT(func(x *rtCtx, t *document.Table) error {
		if err := t.MergeCellsVertical(0, 1, 0); err != nil {
			return err
		}
		return t.MergeCellsHorizontal(1, 0, 1)
	}),
	"t.unmerge": onT(func(x *rtCtx, t *document.Table) error {
		if err := t.MergeCellsHorizontal(0, 0, 1); err != nil {
			return err
		}
		return t.UnmergeCells(0, 0)
	}),
	"t.rowheight.exact": onT(func(x *rtCtx, t *document.Table) error {
		return t.SetRowHeight(0, &document.RowHeightConfig{Height: 30, Rule: document.RowHeightExact})
	}),
	"t.rowheight.atleast": onT(func(x *rtCtx, t *document.Table) error {
		return t.SetRowHeight(0, &document.RowHeightConfig{Height: 18, Rule: document.RowHeightMinimum})
	}),
	"t.rowheight.auto": onT(func(x *rtCtx, t *document.Table) error {
		return t.SetRowHeight(0, &document.RowHeightConfig{Height: 0, Rule: document.RowHeightAuto})
	}),
	"t.rowheight.range": onT(func(x *rtCtx, t *document.Table) error {
		return t.SetRowHeightRange(0, t.GetRowCount()-1, &document.RowHeightConfig{Height: 22, Rule: document.RowHeightExact})
	}),
	"t.rowheader":     onT(func(x *rtCtx, t *document.Table) error { return t.SetRowAsHeader(0, true) }),
	"t.rowheader.off": onT(func(x *rtCtx, t *document.Table) error { return t.SetRowAsHeader(0, false) }),
	"t.headerrows":    onT(func(x *rtCtx, t *document.Table) error { return t.SetHeaderRows(0, t.GetRowCount()-1) }),
	"t.cantsplit":     onT(func(x *rtCtx, t *document.Table) error { return t.SetRowKeepTogether(0, true) }),
	"t.cantsplit.off": onT(func(x *rtCtx, t *document.Table) error { return t.SetRowKeepTogether(0, false) }),
	"t.align.left":    onT(func(x *rtCtx, t *document.Table) error { return t.SetTableAlignment(document.TableAlignLeft) }),
	"t.align.right":   onT(func(x *rtCtx, t *document.Table) error { return t.SetTableAlignment(document.TableAlignRight) }),
	"t.layout.floating": onT(func(x *rtCtx, t *document.Table) error {
		return t.SetTableLayout(&document.TableLayoutConfig{Alignment: document.TableAlignCenter, TextWrap: document.TextWrapAround,
			Position: document.PositionFloating, Positioning: &document.TablePositioning{TblpX: "100", TblpY: "200", VertAnchor: "page"}})
	}),
	"t.noop.pagebreak": onT(func(x *rtCtx, t *document.Table) error {
		return t.SetTablePageBreak(&document.TablePageBreakConfig{KeepWithNext: true, KeepLines: true})
	}),
	"t.noop.rowkeepnext": onT(func(x *rtCtx, t *document.Table) error { return t.SetRowKeepWithNext(0, true) }),
	"t.noop.cellpadding": onT(func(x *rtCtx, t *document.Table) error { return t.SetCellPadding(0, 0, 5) }),
	"t.style.grid": onT(func(x *rtCtx, t *document.Table) error {
		return t.ApplyTableStyle(&document.TableStyleConfig{Template: document.TableStyleTemplateGrid, FirstRowHeader: true, BandedRows: true})
	}),
	"t.style.custom": onT(func(x *rtCtx, t *document.Table) error {
		return t.ApplyTableStyle(&document.TableStyleConfig{StyleID: "MyTbl", LastRowTotal: true, FirstColumnHeader: true, LastColumnTotal: true, BandedColumns: true})
	}),
	"t.style.customfull": onT(func(x *rtCtx, t *document.Table) error {
		b := rtBorder(document.BorderStyleThick, 12, "FF0000")
		return t.CreateCustomTableStyle("CS1", "Custom 1", &document.TableBorderConfig{Top: b, Bottom: b},
			&document.ShadingConfig{Pattern: document.ShadingPatternPct20, ForegroundColor: "111111", BackgroundColor: "EEEEEE"}, true)
	}),
	"t.borders.all": onT(func(x *rtCtx, t *document.Table) error {
		b := rtBorder(document.BorderStyleDouble, 6, "0000FF")
		return t.SetTableBorders(&document.TableBorderConfig{Top: b, Left: b, Bottom: b, Right: b, InsideH: b, InsideV: b})
	}),
	"t.borders.partial": onT(func(x *rtCtx, t *document.Table) error {
		return t.SetTableBorders(&document.TableBorderConfig{Top: rtBorder(document.BorderStyleDashed, 8, "00FF00"), InsideV: rtBorder(document.BorderStyleDotted, 2, "auto")})
	}),
	"t.borders.empty": onT(func(x *rtCtx, t *document.Table) error { return t.SetTableBorders(&document.TableBorderConfig{}) }),
	"t.borders.none":  onT(func(x *rtCtx, t *document.Table) error { return t.RemoveTableBorders() }),
	"t.shading": onT(func(x *rtCtx, t *document.Table) error {
		return t.SetTableShading(&document.ShadingConfig{Pattern: document.ShadingPatternPct10, ForegroundColor: "FF0000", BackgroundColor: "00FF00"})
	}),
	"t.cellborders.all": onT(func(x *rtCtx, t *document.Table) error {
		b := rtBorder(document.BorderStyleSingle, 10, "123456")
		return t.SetCellBorders(0, 0, &document.CellBorderConfig{Top: b, Left: b, Bottom: b, Right: b})
	}),
	"t.cellborders.diag": onT(func(x *rtCtx, t *document.Table) error {
		return t.SetCellBorders(0, 0, &document.CellBorderConfig{DiagDown: rtBorder(document.BorderStyleSingle, 4, "FF0000"), DiagUp: rtBorder(document.BorderStyleWave, 6, "00FF00")})
	}),
	"t.cellborders.none": onT(func(x *rtCtx, t *document.Table) error { return t.RemoveCellBorders(0, 0) }),
	"t.cellshading": onT(func(x *rtCtx, t *document.Table) error {
		return t.SetCellShading(0, 0, &document.ShadingConfig{Pattern: document.ShadingPatternDiagStripe, ForegroundColor: "ABCDEF", BackgroundColor: "FEDCBA"})
	}),
	"t.altrows": onT(func(x *rtCtx, t *document.Table) error { return t.SetAlternatingRowColors("F0F0F0", "FFFFFF") }),
	"t.textdir": onT(func(x *rtCtx, t *document.Table) error { return t.SetCellTextDirection(0, 0, document.TextDirectionBT) }),
	"t.appendrow": onT(func(x *rtCtx, t *document.Table) error {
		return t.AppendRow([]string{fmt.Sprintf("ar E%d", x.i)})
	}),
	"t.insertrow0": onT(func(x *rtCtx, t *document.Table) error { return t.InsertRow(0, []string{"ir"}) }),
	"t.appendcol":  onT(func(x *rtCtx, t *document.Table) error { return t.AppendColumn([]string{"ac"}, 900) }),
	"t.insertcol0": onT(func(x *rtCtx, t *document.Table) error { return t.InsertColumn(0, []string{"ic"}, 800) }),
	"t.deleterow0": onT(func(x *rtCtx, t *document.Table) error { return t.DeleteRow(0) }),
	"t.deletecol0": onT(func(x *rtCtx, t *document.Table) error { return t.DeleteColumn(0) }),
	"t.clear": onT(func(x *rtCtx, t *document.Table) error {
		t.ClearTable()
		return nil
	}),
	"t.clearcellcontent": onT(func(x *rtCtx, t *document.Table) error { return t.ClearCellContent(0, 0) }),
	"t.clearcellformat":  onT(func(x *rtCtx, t *document.Table) error { return t.ClearCellFormat(0, 0) }),
	"t.clearcellparas":   onT(func(x *rtCtx, t *document.Table) error { return t.ClearCellParagraphs(0, 0) }),
	"t.copy": onT(func(x *rtCtx, t *document.Table) error {
		c := t.CopyTable()
		x.doc.Body.AddElement(c)
		return nil
	}),
	"t.struct.tblind": onT(func(x *rtCtx, t *document.Table) error {
		rtTP(t).TableInd = &document.TableIndentation{W: "120", Type: "dxa"}
		return nil
	}),
	"t.struct.nowrap": onT(func(x *rtCtx, t *document.Table) error {
		rtCP(t).NoWrap = &document.NoWrap{}
		rtCP(t).HideMark = &document.HideMark{Val: "1"}
		return nil
	}),
	"t.struct.tcmar": onT(func(x *rtCtx, t *document.Table) error {
		rtCP(t).TcMar = &document.TableCellMarginsCell{Top: &document.TableCellSpaceCell{W: "50", Type: "dxa"},
			Left: &document.TableCellSpaceCell{W: "60", Type: "dxa"}, Bottom: &document.TableCellSpaceCell{W: "70", Type: "dxa"}, Right: &document.TableCellSpaceCell{W: "80", Type: "dxa"}}
		return nil
	}),
	"t.struct.cellmar": onT(func(x *rtCtx, t *document.Table) error {
		if rtTP(t).TableCellMar == nil {
			rtTP(t).TableCellMar = &document.TableCellMargins{}
		}
		rtTP(t).TableCellMar.Top = &document.TableCellSpace{W: "30", Type: "dxa"}
		rtTP(t).TableCellMar.Bottom = &document.TableCellSpace{W: "40", Type: "dxa"}
		return nil
	}),
	"t.struct.themecolor": onT(func(x *rtCtx, t *document.Table) error {
		if rtTP(t).TableBorders == nil {
			rtTP(t).TableBorders = &document.TableBorders{}
		}
		rtTP(t).TableBorders.Top = &document.TableBorder{Val: "single", Sz: "6", Space: "0", Color: "4472C4", ThemeColor: "accent1"}
		rtTP(t).Shd = &document.TableShading{Val: "clear", ThemeFill: "accent2"}
		return nil
	}),
	"t.struct.fixedlayout": onT(func(x *rtCtx, t *document.Table) error {
		rtTP(t).TableLayout = &document.TableLayoutType{Type: "fixed"}
		rtTP(t).TableW = &document.TableWidth{W: "5000", Type: "pct"}
		return nil
	}),

	// ---- image setters after insertion
	"i.setalign.center": onI(func(x *rtCtx, i *document.ImageInfo) error { return x.doc.SetImageAlignment(i, document.AlignCenter) }),
	"i.setalign.right":  onI(func(x *rtCtx, i *document.ImageInfo) error { return x.doc.SetImageAlignment(i, document.AlignRight) }),
	"i.noop.resize": onI(func(x *rtCtx, i *document.ImageInfo) error {
		return x.doc.ResizeImage(i, &document.ImageSize{Width: 10, Height: 10})
	}),
	"i.noop.setpos": onI(func(x *rtCtx, i *document.ImageInfo) error {
		return x.doc.SetImagePosition(i, document.ImagePositionFloatRight, 1, 2)
	}),
	"i.noop.setwrap":  onI(func(x *rtCtx, i *document.ImageInfo) error { return x.doc.SetImageWrapText(i, document.ImageWrapTight) }),
	"i.noop.setalt":   onI(func(x *rtCtx, i *document.ImageInfo) error { return x.doc.SetImageAltText(i, "later alt") }),
	"i.noop.settitle": onI(func(x *rtCtx, i *document.ImageInfo) error { return x.doc.SetImageTitle(i, "later title") }),
}

// ------------------------------------------------------------ section features

func rtSect(x *rtCtx) *document.SectionProperties {
	for _, el := range x.doc.Body.Elements {
		if s, ok := el.(*document.SectionProperties); ok {
			return s
		}
	}
	s := &document.SectionProperties{}
	x.doc.Body.AddElement(s)
	return s
}

var rtSectFeats = map[string]func(x *rtCtx) string{
	"s.size.letter": func(x *rtCtx) string { return rtE(x.doc.SetPageSize(document.PageSizeLetter)) },
	"s.size.legal":  func(x *rtCtx) string { return rtE(x.doc.SetPageSize(document.PageSizeLegal)) },
	"s.size.a3":     func(x *rtCtx) string { return rtE(x.doc.SetPageSize(document.PageSizeA3)) },
	"s.size.a5":     func(x *rtCtx) string { return rtE(x.doc.SetPageSize(document.PageSizeA5)) },
	"s.size.a4":     func(x *rtCtx) string { return rtE(x.doc.SetPageSize(document.PageSizeA4)) },
	"s.size.custom": func(x *rtCtx) string { return rtE(x.doc.SetCustomPageSize(100, 200)) },
	"s.size.custom.wide":   func(x *rtCtx) string { return rtE(x.doc.SetCustomPageSize(300, 200)) },
	"s.size.custom.square": func(x *rtCtx) string { return rtE(x.doc.SetCustomPageSize(210, 210)) },
	"s.orient.landscape": func(x *rtCtx) string {
		return rtE(x.doc.SetPageOrientation(document.OrientationLandscape))
	},
	"s.orient.portrait": func(x *rtCtx) string { return rtE(x.doc.SetPageOrientation(document.OrientationPortrait)) },
	"s.margins":         func(x *rtCtx) string { return rtE(x.doc.SetPageMargins(10, 15.5, 20, 30)) },
	"s.hfdist":          func(x *rtCtx) string { return rtE(x.doc.SetHeaderFooterDistance(8, 9.5)) },
	"s.gutter":          func(x *rtCtx) string { return rtE(x.doc.SetGutterWidth(6)) },
	"s.grid.lines":      func(x *rtCtx) string { return rtE(x.doc.SetDocGrid(document.DocGridLines, 312, 0)) },
	"s.grid.chars":      func(x *rtCtx) string { return rtE(x.doc.SetDocGrid(document.DocGridSnapToChars, 400, 210)) },
	"s.grid.default":    func(x *rtCtx) string { return rtE(x.doc.SetDocGrid(document.DocGridDefault, 0, 0)) },
	"s.grid.clear": func(x *rtCtx) string {
		if err := x.doc.SetDocGrid(document.DocGridLines, 312, 0); err != nil {
			return "err"
		}
		return rtE(x.doc.ClearDocGrid())
	},
	"s.settings.full": func(x *rtCtx) string {
		return rtE(x.doc.SetPageSettings(&document.PageSettings{Size: document.PageSizeCustom, CustomWidth: 150, CustomHeight: 250,
			Orientation: document.OrientationLandscape, MarginTop: 11, MarginRight: 12, MarginBottom: 13, MarginLeft: 14,
			HeaderDistance: 5, FooterDistance: 6, GutterWidth: 2, DocGridType: document.DocGridSnapToLines, DocGridLinePitch: 300, DocGridCharSpace: 100}))
	},
	"s.get": func(x *rtCtx) string { x.doc.GetPageSettings(); return "ok" },
	"s.header.default": func(x *rtCtx) string {
		return rtE(x.doc.AddHeader(document.HeaderFooterTypeDefault, "Hdr default <&>"))
	},
	"s.header.first":   func(x *rtCtx) string { return rtE(x.doc.AddHeader(document.HeaderFooterTypeFirst, "Hdr first")) },
	"s.header.even":    func(x *rtCtx) string { return rtE(x.doc.AddHeader(document.HeaderFooterTypeEven, "Hdr even 页眉")) },
	"s.footer.default": func(x *rtCtx) string { return rtE(x.doc.AddFooter(document.HeaderFooterTypeDefault, "Ftr default")) },
	"s.footer.first":   func(x *rtCtx) string { return rtE(x.doc.AddFooter(document.HeaderFooterTypeFirst, "Ftr first")) },
	"s.footer.even":    func(x *rtCtx) string { return rtE(x.doc.AddFooter(document.HeaderFooterTypeEven, "")) },
	"s.headerpn": func(x *rtCtx) string {
		return rtE(x.doc.AddHeaderWithPageNumber(document.HeaderFooterTypeDefault, "Page ", true))
	},
	"s.footerpn": func(x *rtCtx) string {
		return rtE(x.doc.AddFooterWithPageNumber(document.HeaderFooterTypeDefault, "Page ", true))
	},
	"s.fheader": func(x *rtCtx) string {
		return rtE(x.doc.AddFormattedHeader(document.HeaderFooterTypeDefault, &document.HeaderFooterConfig{Text: "Formatted", Format: rtFullTF(), Alignment: document.AlignCenter}))
	},
	"s.ffooter": func(x *rtCtx) string {
		return rtE(x.doc.AddFormattedFooter(document.HeaderFooterTypeEven, &document.HeaderFooterConfig{Text: "FF", Alignment: document.AlignRight}))
	},
	"s.header.twice": func(x *rtCtx) string {
		if err := x.doc.AddHeader(document.HeaderFooterTypeDefault, "first version"); err != nil {
			return "err"
		}
		return rtE(x.doc.AddHeader(document.HeaderFooterTypeDefault, "second version"))
	},
	"s.titlepg.on":  func(x *rtCtx) string { x.doc.SetDifferentFirstPage(true); return "ok" },
	"s.titlepg.off": func(x *rtCtx) string { x.doc.SetDifferentFirstPage(false); return "ok" },
	"s.struct.cols": func(x *rtCtx) string {
		rtSect(x).Columns = &document.Columns{Space: "425", Num: "2"}
		return "ok"
	},
	"s.struct.pgnum": func(x *rtCtx) string {
		rtSect(x).PageNumType = &document.PageNumType{Fmt: "lowerRoman"}
		return "ok"
	},
}
