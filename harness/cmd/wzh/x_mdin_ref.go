package main

// Reference reading of the Markdown text of a case (module MdIn, property C19).
//
// The Markdown a case is spelled as must MEAN the abstract syntax tree the specification built.
// To detect a spelling that CommonMark reads differently (which would make the check blame the
// library for the harness's own mistake) the same text is rendered to XHTML by the reference
// renderer of the parser the library embeds (goldmark, same extensions), and that output is
// projected to the same abstract body as the saved document.  The judge compares it with ToWord;
// a case on which the two disagree is counted as ambiguous and not judged.  Nothing here looks at
// what the library produced.

import (
	"bytes"
	"encoding/xml"
	"io"
	"strings"

	mathjax "github.com/litao91/goldmark-mathjax"
	"github.com/yuin/goldmark"
	"github.com/yuin/goldmark/extension"
	"github.com/yuin/goldmark/renderer/html"
)

type mdiOpts struct {
	GFM    bool `json:"gfm"`
	Tables bool `json:"tables"`
	Tasks  bool `json:"tasks"`
	Math   bool `json:"math"`
	Fn     bool `json:"fn"`
	TOC    bool `json:"toc"`
	Lvl    int  `json:"lvl"`
}

func mdiRefHTML(md []byte, o mdiOpts) (string, error) {
	exts := []goldmark.Extender{}
	if o.GFM {
		exts = append(exts, extension.GFM)
	}
	if o.Fn {
		exts = append(exts, extension.Footnote)
	}
	if o.Math {
		exts = append(exts, mathjax.NewMathJax(mathjax.WithInlineDelim("$", "$"), mathjax.WithBlockDelim("$$", "$$")))
	}
	g := goldmark.New(goldmark.WithExtensions(exts...), goldmark.WithRendererOptions(html.WithXHTML()))
	var buf bytes.Buffer
	if err := g.Convert(md, &buf); err != nil {
		return "", err
	}
	return buf.String(), nil
}

// hNode is an element or a text node of the reference output.
type hNode struct {
	tag  string
	attr map[string]string
	text string
	kids []*hNode
}

func mdiParseHTML(s string) (*hNode, error) {
	dec := xml.NewDecoder(strings.NewReader("<root>" + s + "</root>"))
	dec.Strict = false
	dec.AutoClose = xml.HTMLAutoClose
	dec.Entity = xml.HTMLEntity
	root := &hNode{tag: "#doc"}
	stack := []*hNode{root}
	for {
		tok, err := dec.Token()
		if err == io.EOF {
			break
		}
		if err != nil {
			return nil, err
		}
		top := stack[len(stack)-1]
		switch t := tok.(type) {
		case xml.StartElement:
			n := &hNode{tag: strings.ToLower(t.Name.Local), attr: map[string]string{}}
			for _, a := range t.Attr {
				n.attr[strings.ToLower(a.Name.Local)] = a.Value
			}
			top.kids = append(top.kids, n)
			stack = append(stack, n)
		case xml.EndElement:
			if len(stack) > 1 {
				stack = stack[:len(stack)-1]
			}
		case xml.CharData:
			top.kids = append(top.kids, &hNode{tag: "#text", text: string(t)})
		}
	}
	if len(root.kids) == 1 && root.kids[0].tag == "root" {
		return root.kids[0], nil
	}
	return root, nil
}

var mdiBlockTags = map[string]bool{"p": true, "ul": true, "ol": true, "blockquote": true, "pre": true, "hr": true, "table": true,
	"h1": true, "h2": true, "h3": true, "h4": true, "h5": true, "h6": true, "div": true}

type mdiRef struct {
	c   *mdiConc
	out []mdiM
}

func mdiWith(flags []string, f string) []string {
	for _, x := range flags {
		if x == f {
			return flags
		}
	}
	return append(append([]string{}, flags...), f)
}

func (r *mdiRef) inline(ns []*hNode, flags []string, segs *[]mdiSeg) {
	for _, n := range ns {
		switch n.tag {
		case "#text":
			*segs = append(*segs, mdiSeg{n.text, flags})
		case "em", "i":
			r.inline(n.kids, mdiWith(flags, "i"), segs)
		case "strong", "b":
			r.inline(n.kids, mdiWith(flags, "b"), segs)
		case "del", "s":
			r.inline(n.kids, mdiWith(flags, "s"), segs)
		case "code":
			r.inline(n.kids, mdiWith(flags, "c"), segs)
		case "br":
			*segs = append(*segs, mdiSeg{"\n", nil})
		case "input":
			t := "☐"
			if _, ok := n.attr["checked"]; ok {
				t = "☑"
			}
			*segs = append(*segs, mdiSeg{t, nil})
		case "span":
			if strings.Contains(n.attr["class"], "math") {
				var sb strings.Builder
				for _, k := range n.kids {
					sb.WriteString(k.text)
				}
				s := strings.TrimSpace(sb.String())
				for _, d := range []string{"$$", "$", `\[`, `\(`} {
					if strings.HasPrefix(s, d) {
						s = strings.TrimPrefix(s, d)
						break
					}
				}
				for _, d := range []string{"$$", "$", `\]`, `\)`} {
					if strings.HasSuffix(s, d) {
						s = strings.TrimSuffix(s, d)
						break
					}
				}
				*segs = append(*segs, mdiSeg{strings.TrimSpace(s), flags})
			} else {
				r.inline(n.kids, flags, segs)
			}
		default:
			r.inline(n.kids, flags, segs)
		}
	}
}

func (r *mdiRef) inlineToks(ns []*hNode, atStart bool) []mdiTok {
	segs := []mdiSeg{}
	r.inline(ns, []string{}, &segs)
	return r.c.tokens(segs, atStart)
}

func (r *mdiRef) para(k string, lvl int, ns []*hNode) {
	r.out = append(r.out, mdiM{"k": k, "lvl": lvl, "toks": r.inlineToks(ns, true), "rows": [][]mdiM{}})
}

func mdiCellAlign(n *hNode) string {
	if a := n.attr["align"]; a != "" {
		return a
	}
	st := strings.ReplaceAll(n.attr["style"], " ", "")
	if i := strings.Index(st, "text-align:"); i >= 0 {
		v := st[i+len("text-align:"):]
		if j := strings.IndexAny(v, ";"); j >= 0 {
			v = v[:j]
		}
		return v
	}
	return ""
}

func (r *mdiRef) blocks(ns []*hNode) {
	for _, n := range ns {
		switch n.tag {
		case "h1", "h2", "h3", "h4", "h5", "h6":
			r.para("h", int(n.tag[1]-'0'), n.kids)
		case "p":
			r.para("p", 0, n.kids)
		case "blockquote", "div", "section":
			r.blocks(n.kids)
		case "hr":
			r.para("p", 0, nil)
		case "pre":
			var sb strings.Builder
			var text func(x *hNode)
			text = func(x *hNode) {
				sb.WriteString(x.text)
				for _, k := range x.kids {
					text(k)
				}
			}
			text(n)
			lines := strings.Split(sb.String(), "\n")
			if len(lines) > 0 && lines[len(lines)-1] == "" {
				lines = lines[:len(lines)-1]
			}
			for _, l := range lines {
				r.out = append(r.out, mdiM{"k": "p", "lvl": 0, "toks": r.c.plainTokens(l), "rows": [][]mdiM{}})
			}
		case "ul", "ol":
			for _, li := range n.kids {
				if li.tag != "li" {
					continue
				}
				// the item's own text: the inline content before the first block child, or its first paragraph
				var lead []*hNode
				rest := li.kids
				for len(rest) > 0 && !mdiBlockTags[rest[0].tag] {
					lead = append(lead, rest[0])
					rest = rest[1:]
				}
				blank := true
				for _, x := range lead {
					if x.tag != "#text" || strings.TrimSpace(x.text) != "" {
						blank = false
					}
				}
				if blank && len(rest) > 0 && rest[0].tag == "p" {
					lead = rest[0].kids
					rest = rest[1:]
				}
				r.para("p", 0, lead)
				r.blocks(rest)
			}
		case "table":
			rows := [][]mdiM{}
			var walk func(x *hNode)
			walk = func(x *hNode) {
				for _, k := range x.kids {
					switch k.tag {
					case "tr":
						row := []mdiM{}
						for _, c := range k.kids {
							if c.tag != "td" && c.tag != "th" {
								continue
							}
							row = append(row, mdiM{"toks": r.inlineToks(c.kids, false), "al": mdiCellAlign(c)})
						}
						rows = append(rows, row)
					default:
						walk(k)
					}
				}
			}
			walk(n)
			r.out = append(r.out, mdiM{"k": "tbl", "lvl": 0, "toks": []mdiTok{}, "rows": rows})
		case "#text":
			if strings.TrimSpace(n.text) != "" {
				r.para("p", 0, []*hNode{n})
			}
		default:
			r.blocks(n.kids)
		}
	}
}

// mdiRefBody projects the reference rendering of md to the abstract body.
func mdiRefBody(c *mdiConc, md []byte, o mdiOpts) []mdiM {
	h, err := mdiRefHTML(md, o)
	if err != nil {
		return []mdiM{{"k": "p", "lvl": 0, "toks": []mdiTok{{"c:referr", []string{}}}, "rows": [][]mdiM{}}}
	}
	root, err := mdiParseHTML(h)
	if err != nil {
		return []mdiM{{"k": "p", "lvl": 0, "toks": []mdiTok{{"c:refparse", []string{}}}, "rows": [][]mdiM{}}}
	}
	r := &mdiRef{c: c, out: []mdiM{}}
	r.blocks(root.kids)
	return r.out
}
