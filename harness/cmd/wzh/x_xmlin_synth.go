package main

// Synthesiser of input bytes for spec module XmlIn (property C06).
//
// The input is decided by the TLA+ specification: a token string over the reader's element
// alphabet (already mutated where the mutation is token-level), rendering directives (the
// remaining mutation kinds), one package deviation / ZIP shape and the entry point. This file
// only turns that value into bytes; nothing here goes through the library under test. The
// package around the main part is assembled from the Foreign module's part writers
// (x_foreign_synth.go) so that every part the library may look at exists in a realistic form.

import (
	"archive/zip"
	"bytes"
	"compress/flate"
	"fmt"
	"hash/crc32"
	"math/rand"
	"strings"
)

type xmlinTok struct{ K, N, A string }

type xmlinMut struct {
	Kind    string
	J, M, N int
}

type xmlinPk struct {
	Part, Brk, Zip, Entry string
	Lie                   xmlinLie
}

// one lie of the archive directory (XmlIn!ZipLies): field, entry it is told about, and the declared value as the
// specification gives it: a*v + 2^e + b of the true value v (sizes, checksum) or <<actual, declared>> (method)
type xmlinLie struct {
	Fld, Val, Tgt string
	Lv            [3]int64
}

type xmlinInput struct {
	Ctx  string
	Toks []xmlinTok
	Mut  xmlinMut
	Pk   xmlinPk
	Rich bool
	Cls  string
}

func xmlinDecode(op Op) (*xmlinInput, error) {
	in := &xmlinInput{Ctx: op.Str("ctx"), Cls: op.Str("cls")}
	in.Rich, _ = op["rich"].(bool)
	for _, t := range fgnList(op["toks"]) {
		in.Toks = append(in.Toks, xmlinTok{fgnStr(t, "k"), fgnStr(t, "n"), fgnStr(t, "a")})
	}
	mm, ok := op["mut"].(map[string]interface{})
	if !ok {
		return nil, fmt.Errorf("Open without mut")
	}
	num := func(m map[string]interface{}, k string) int { f, _ := m[k].(float64); return int(f) }
	in.Mut = xmlinMut{fgnStr(mm, "kind"), num(mm, "j"), num(mm, "m"), num(mm, "n")}
	pm, ok := op["pk"].(map[string]interface{})
	if !ok {
		return nil, fmt.Errorf("Open without pk")
	}
	in.Pk = xmlinPk{Part: fgnStr(pm, "part"), Brk: fgnStr(pm, "brk"), Zip: fgnStr(pm, "zip"), Entry: fgnStr(pm, "entry")}
	in.Pk.Lie = xmlinLie{Fld: "none"}
	if lm, ok := pm["lie"].(map[string]interface{}); ok {
		in.Pk.Lie = xmlinLie{Fld: fgnStr(lm, "fld"), Val: fgnStr(lm, "val"), Tgt: fgnStr(lm, "tgt")}
		lv, _ := lm["lv"].([]interface{})
		if len(lv) != 3 {
			return nil, fmt.Errorf("Open: lie without its value")
		}
		for i := range lv {
			f, _ := lv[i].(float64)
			in.Pk.Lie.Lv[i] = int64(f)
		}
	}
	return in, nil
}

const (
	xmlinNsStrict = "http://purl.oclc.org/ooxml/wordprocessingml/main"
	xmlinNsRStrict = "http://purl.oclc.org/ooxml/officeDocument/relationships"
)

var xmlinWP = map[string]bool{"inline": true, "anchor": true, "extent": true, "docPr": true, "simplePos": true, "positionH": true,
	"positionV": true, "align": true, "posOffset": true, "wrapSquare": true, "wrapTight": true, "wrapPolygon": true, "start": true,
	"lineTo": true, "cNvGraphicFramePr": true, "effectExtent": true, "wrapThrough": true, "wrapTopAndBottom": true, "wrapNone": true}
var xmlinA = map[string]bool{"graphic": true, "graphicData": true, "blip": true, "stretch": true, "fillRect": true, "xfrm": true,
	"off": true, "ext": true, "prstGeom": true, "graphicFrameLocks": true, "picLocks": true}
var xmlinPic = map[string]bool{"pic": true, "nvPicPr": true, "cNvPr": true, "cNvPicPr": true, "blipFill": true, "spPr": true}

// typical attributes of every element of the alphabet ("w:" marks names in the main namespace)
var xmlinAttrs = map[string][][2]string{
	"pStyle": {{"w:val", "Heading1"}}, "ilvl": {{"w:val", "0"}}, "numId": {{"w:val", "9"}}, "jc": {{"w:val", "center"}},
	"spacing": {{"w:before", "120"}, {"w:after", "120"}, {"w:line", "360"}, {"w:lineRule", "auto"}},
	"ind":     {{"w:left", "720"}, {"w:firstLine", "240"}},
	"top":     {{"w:val", "single"}, {"w:sz", "4"}, {"w:space", "0"}, {"w:color", "auto"}},
	"left":    {{"w:val", "single"}, {"w:sz", "4"}, {"w:space", "0"}, {"w:color", "auto"}, {"w:w", "100"}, {"w:type", "dxa"}},
	"insideH": {{"w:val", "single"}, {"w:sz", "4"}}, "tab": {{"w:val", "left"}, {"w:pos", "720"}},
	"outlineLvl": {{"w:val", "1"}}, "sz": {{"w:val", "24"}}, "u": {{"w:val", "single"}}, "color": {{"w:val", "FF0000"}},
	"rFonts": {{"w:ascii", "Arial"}, {"w:hAnsi", "Arial"}}, "t": {{"xml:space", "preserve"}}, "instrText": {{"xml:space", "preserve"}},
	"br": {{"w:type", "page"}}, "fldChar": {{"w:fldCharType", "begin"}},
	"extent": {{"cx", "914400"}, {"cy", "457200"}}, "docPr": {{"id", "1"}, {"name", "Picture 1"}, {"descr", "d"}},
	"graphicData": {{"uri", nsPic}}, "cNvPr": {{"id", "1"}, {"name", "image1.png"}}, "blip": {{"r:embed", "rId5"}},
	"off": {{"x", "0"}, {"y", "0"}}, "ext": {{"cx", "914400"}, {"cy", "457200"}}, "prstGeom": {{"prst", "rect"}},
	"inline": {{"distT", "0"}, {"distB", "0"}, {"distL", "0"}, {"distR", "0"}},
	"anchor": {{"distT", "0"}, {"distB", "0"}, {"distL", "114300"}, {"distR", "114300"}, {"simplePos", "0"}, {"relativeHeight", "251658240"},
		{"behindDoc", "0"}, {"locked", "0"}, {"layoutInCell", "1"}, {"allowOverlap", "1"}},
	"simplePos": {{"x", "0"}, {"y", "0"}}, "positionH": {{"relativeFrom", "column"}}, "wrapSquare": {{"wrapText", "bothSides"}},
	"wrapTight": {{"wrapText", "bothSides"}}, "wrapPolygon": {{"edited", "0"}}, "start": {{"x", "0"}, {"y", "0"}}, "lineTo": {{"x", "21600"}, {"y", "0"}},
	"graphicFrameLocks": {{"noChangeAspect", "1"}}, "picLocks": {{"noChangeAspect", "1"}},
	"tblW": {{"w:w", "5000"}, {"w:type", "dxa"}}, "tblStyle": {{"w:val", "TableGrid"}}, "tblLook": {{"w:val", "04A0"}, {"w:firstRow", "1"}},
	"tblLayout": {{"w:type", "fixed"}}, "gridCol": {{"w:w", "2500"}}, "trHeight": {{"w:val", "300"}, {"w:hRule", "exact"}},
	"tcW": {{"w:w", "2500"}, {"w:type", "dxa"}}, "gridSpan": {{"w:val", "2"}}, "vMerge": {{"w:val", "restart"}}, "vAlign": {{"w:val", "center"}},
	"shd": {{"w:val", "clear"}, {"w:color", "auto"}, {"w:fill", "FFFF00"}},
	"pgSz": {{"w:w", "11906"}, {"w:h", "16838"}}, "pgMar": {{"w:top", "1440"}, {"w:right", "1800"}, {"w:bottom", "1440"}, {"w:left", "1800"}, {"w:header", "851"}, {"w:footer", "992"}, {"w:gutter", "0"}},
	"cols": {{"w:space", "720"}, {"w:num", "2"}}, "docGrid": {{"w:type", "lines"}, {"w:linePitch", "312"}}, "pgNumType": {{"w:fmt", "decimal"}},
	"headerReference": {{"w:type", "default"}, {"r:id", "rId6"}}, "footerReference": {{"w:type", "default"}, {"r:id", "rId7"}},
	"hyperlink": {{"r:id", "rId8"}, {"w:history", "1"}}, "ins": {{"w:id", "7"}, {"w:author", "Reviewer"}},
	"unknown": {{"w:val", "u"}}, "align": {}, "posOffset": {},
	"bottom":  {{"w:val", "single"}, {"w:sz", "4"}, {"w:space", "0"}, {"w:color", "auto"}, {"w:w", "100"}, {"w:type", "dxa"}},
	"right":   {{"w:val", "single"}, {"w:sz", "4"}, {"w:space", "0"}, {"w:color", "auto"}, {"w:w", "100"}, {"w:type", "dxa"}},
	"insideV": {{"w:val", "single"}, {"w:sz", "4"}}, "tl2br": {{"w:val", "single"}, {"w:sz", "4"}}, "tr2bl": {{"w:val", "single"}, {"w:sz", "4"}},
	"keepLines": {{"w:val", "1"}}, "pageBreakBefore": {{"w:val", "1"}}, "widowControl": {{"w:val", "0"}}, "snapToGrid": {{"w:val", "0"}},
	"szCs": {{"w:val", "24"}}, "highlight": {{"w:val", "yellow"}}, "strike": {{"w:val", "1"}},
	"tblInd": {{"w:w", "120"}, {"w:type", "dxa"}}, "textDirection": {{"w:val", "tbRl"}},
	"positionV": {{"relativeFrom", "paragraph"}}, "effectExtent": {{"l", "0"}, {"t", "0"}, {"r", "9525"}, {"b", "9525"}},
	"wrapThrough": {{"wrapText", "bothSides"}, {"distL", "114300"}, {"distR", "114300"}}, "wrapTopAndBottom": {{"distT", "0"}, {"distB", "0"}},
}

// values of the unusual attribute classes (every attribute of the element gets the value)
var xmlinAttrVal = map[string]string{"word": "abc", "neg": "-1", "big": "5000", "huge": "2147483648"}

type xmlinRender struct {
	w       fgnW   // spelling of names in the main namespace
	nsURI   string // URI bound to it
	noNs    bool   // no namespace declarations at all
	seed    int64
	mixedAt string // element below which the strict namespace is re-declared
}

func (r *xmlinRender) qname(n string) string {
	local := n
	if n == "unknown" {
		local = "unknownThing"
	}
	if r.noNs {
		return local
	}
	switch {
	case xmlinWP[n]:
		return "wp:" + local
	case xmlinA[n]:
		return "a:" + local
	case xmlinPic[n]:
		return "pic:" + local
	}
	return r.w.el(local)
}

func (r *xmlinRender) attrName(a string) string {
	if strings.HasPrefix(a, "w:") {
		if r.noNs {
			return a[2:]
		}
		return r.w.at(a[2:])
	}
	if r.noNs && strings.Contains(a, ":") && !strings.HasPrefix(a, "xml:") {
		return a[strings.Index(a, ":")+1:]
	}
	return a
}

func (r *xmlinRender) attrs(t xmlinTok, pos int) string {
	if t.A == "none" {
		return ""
	}
	var sb strings.Builder
	for _, kv := range xmlinAttrs[t.N] {
		v := kv[1]
		if t.A != "ok" && !strings.HasPrefix(kv[0], "xml:") {
			bad, ok := xmlinAttrVal[t.A]
			if !ok {
				panic("xmlin: unknown attribute class " + t.A)
			}
			v = bad
		}
		fmt.Fprintf(&sb, ` %s="%s"`, r.attrName(kv[0]), fgnEsc(v))
	}
	return sb.String()
}

func xmlinText(cls string, pos int) string {
	switch cls {
	case "plain":
		return fmt.Sprintf("qX%dq", pos)
	case "ent":
		return "a &amp; &lt;b&gt; &#65;&#x4e2d;&quot;"
	case "cdata":
		return "<![CDATA[x<y&z]]>"
	case "comment":
		return "<!-- a comment <w:p> -->"
	case "pi":
		return "<?proc instr?>"
	case "space":
		return "  \n\t "
	}
	panic("xmlin: unknown text class " + cls)
}

func (r *xmlinRender) tok(t xmlinTok, pos int, first bool) string {
	decl := ""
	if first && !r.noNs {
		rns := nsR
		if r.nsURI == xmlinNsStrict {
			rns = xmlinNsRStrict
		}
		w := r.w
		d := w.decl()
		if r.nsURI != nsW {
			d = strings.ReplaceAll(d, nsW, r.nsURI)
		}
		decl = fmt.Sprintf(` %s xmlns:r="%s" xmlns:wp="%s" xmlns:a="%s" xmlns:pic="%s"`, d, rns, nsWP, nsA, nsPic)
	}
	if !first && r.mixedAt != "" && t.N == r.mixedAt && t.K != "c" && !r.noNs {
		decl = " " + strings.ReplaceAll(r.w.decl(), nsW, xmlinNsStrict)
	}
	switch t.K {
	case "o":
		return "<" + r.qname(t.N) + decl + r.attrs(t, pos) + ">"
	case "c":
		return "</" + r.qname(t.N) + ">"
	case "l":
		return "<" + r.qname(t.N) + decl + r.attrs(t, pos) + "/>"
	case "x":
		return xmlinText(t.N, pos)
	}
	panic("xmlin: unknown token kind " + t.K)
}

// standard siblings placed right after <body> when the input is "rich": a heading, a list paragraph,
// a 2x2 table with a grid, a picture paragraph and (before </body>, by the token string or not at all) nothing else
func (r *xmlinRender) richPrologue() string {
	p := func(n string) xmlinTok { return xmlinTok{"o", n, "ok"} }
	c := func(n string) xmlinTok { return xmlinTok{"c", n, "ok"} }
	l := func(n string) xmlinTok { return xmlinTok{"l", n, "ok"} }
	x := xmlinTok{"x", "plain", "ok"}
	cell := []xmlinTok{p("tc"), p("tcPr"), l("tcW"), c("tcPr"), p("p"), p("r"), p("t"), x, c("t"), c("r"), c("p"), c("tc")}
	row := append(append([]xmlinTok{p("tr")}, append(cell, cell...)...), c("tr"))
	ts := []xmlinTok{p("p"), p("pPr"), l("pStyle"), c("pPr"), p("r"), p("t"), x, c("t"), c("r"), c("p"),
		p("p"), p("pPr"), p("numPr"), l("ilvl"), l("numId"), c("numPr"), c("pPr"), p("r"), p("t"), x, c("t"), c("r"), c("p"),
		p("tbl"), p("tblPr"), l("tblW"), c("tblPr"), p("tblGrid"), l("gridCol"), l("gridCol"), c("tblGrid")}
	ts = append(ts, row...)
	ts = append(ts, row...)
	ts = append(ts, c("tbl"))
	var sb strings.Builder
	for i, t := range ts {
		sb.WriteString(r.tok(t, 9000+i, false))
	}
	return sb.String()
}

// xmlinMainPart renders the main part. It returns nil for an absent part and the number of tokens rendered.
func xmlinMainPart(in *xmlinInput, seed int64) (data []byte, ntok int, present bool) {
	mu := in.Mut
	r := &xmlinRender{w: fgnW{"w"}, nsURI: nsW, seed: seed}
	switch mu.Kind {
	case "missing":
		return nil, 0, false
	case "empty":
		return []byte{}, 0, true
	case "declonly":
		return []byte(fgnDecl), 0, true
	case "spaceonly":
		return []byte(" \r\n\t\n"), 0, true
	case "text":
		return []byte("This is not XML at all, just a line of text.\n"), 0, true
	case "binary":
		rnd := rand.New(rand.NewSource(seed))
		b := make([]byte, 257)
		rnd.Read(b)
		b[0], b[5] = 0, '<'
		return b, 0, true
	case "strict":
		r.nsURI = xmlinNsStrict
	case "nons":
		r.noNs = true
	case "defaultns":
		r.w = fgnW{"default"}
	case "prefix":
		r.w = fgnW{"ns0"}
	case "mixedns":
		r.mixedAt = "body"
	}
	toks := in.Toks
	// expansion of the extreme mutations (same definition as XmlIn!ApplyMut; the judge compares ntok)
	switch mu.Kind {
	case "deep":
		j, j2 := mu.J-1, mu.M-1
		c2, c1 := xmlinMatch(toks, j2), xmlinMatch(toks, j)
		var out []xmlinTok
		out = append(out, toks[:j]...)
		for k := 0; k < mu.N; k++ {
			out = append(out, toks[j:j2+1]...)
		}
		out = append(out, toks[j2+1:c2]...)
		for k := 0; k < mu.N; k++ {
			out = append(out, toks[c2:c1+1]...)
		}
		out = append(out, toks[c1+1:]...)
		toks = out
	case "wide":
		j, m := mu.J-1, mu.M-1
		var out []xmlinTok
		out = append(out, toks[:j]...)
		for k := 0; k < mu.N; k++ {
			out = append(out, toks[j:m+1]...)
		}
		out = append(out, toks[m+1:]...)
		toks = out
	}
	var sb strings.Builder
	switch mu.Kind {
	case "nodecl":
	case "utf16decl":
		sb.WriteString(`<?xml version="1.0" encoding="UTF-16"?>` + "\n")
	case "latin1decl":
		sb.WriteString(`<?xml version="1.0" encoding="ISO-8859-1"?>` + "\n")
	case "bom":
		sb.WriteString("\xef\xbb\xbf" + fgnDecl)
	case "doctype":
		sb.WriteString(fgnDecl + `<!DOCTYPE lolz [<!ENTITY lol "lol"><!ENTITY lol2 "&lol;&lol;&lol;&lol;&lol;&lol;&lol;&lol;"><!ENTITY lol3 "&lol2;&lol2;&lol2;&lol2;&lol2;&lol2;">]>` + "\n")
	default:
		sb.WriteString(fgnDecl)
	}
	last := len(toks) - 1
	for i, t := range toks {
		s := r.tok(t, i, i == 0)
		if mu.Kind == "wrongroot" && (i == 0 || (i == last && t.K == "c")) {
			s = strings.Replace(s, r.qname(t.N), r.qname("wrongRoot"), 1)
		}
		switch {
		case mu.Kind == "bigtext" && i == mu.J-1:
			s = strings.Repeat("0123456789abcdef ", mu.N/16+1)
		case (mu.Kind == "bigattr" || mu.Kind == "manyattrs") && i == mu.J-1:
			extra := ""
			if mu.Kind == "bigattr" {
				extra = fmt.Sprintf(` %s="%s"`, r.attrName("w:rsidR"), strings.Repeat("7", mu.N))
			} else {
				var eb strings.Builder
				for k := 0; k < mu.N/8+1; k++ {
					fmt.Fprintf(&eb, ` %s="%d"`, r.attrName(fmt.Sprintf("w:x%d", k)), k)
				}
				extra = eb.String()
			}
			cut := len(s) - 1
			if strings.HasSuffix(s, "/>") {
				cut = len(s) - 2
			}
			s = s[:cut] + extra + s[cut:]
		case mu.Kind == "truncmid" && i == last:
			s = s[:(len(s)+1)/2]
		}
		if i == last && i > 0 && t.K == "c" {
			switch mu.Kind {
			case "badent":
				sb.WriteString("x &bogus; y")
			case "ctrlchar":
				sb.WriteString("x\x01y")
			case "badutf8":
				sb.WriteString("x\xff\xfey")
			case "doctype":
				sb.WriteString("&lol3;")
			}
		}
		sb.WriteString(s)
		if in.Rich && t.K == "o" && t.N == "body" && i == 1 {
			sb.WriteString(r.richPrologue())
		}
	}
	if mu.Kind == "garbage" {
		sb.WriteString("trailing garbage <<< &")
	}
	return []byte(sb.String()), len(toks), true
}

func xmlinMatch(ts []xmlinTok, j int) int {
	if ts[j].K != "o" {
		return j
	}
	depth := 0
	for i := j; i < len(ts); i++ {
		switch ts[i].K {
		case "o":
			depth++
		case "c":
			depth--
			if depth == 0 {
				return i
			}
		}
	}
	panic("xmlin: unmatched start tag in a token string the specification called balanced")
}

// ---------------------------------------------------------------------------------- package

type xmlinEntry struct {
	Name string
	Data []byte
}

func xmlinBaseModel() *fgnModel {
	dr := "word/_rels/document.xml.rels"
	m := &fgnModel{Ns: "w", PkgNs: "default", HLink: "rId8", byName: map[string]fgnPart{}}
	m.Parts = []fgnPart{
		{N: "[Content_Types].xml", K: "content-types"}, {N: "_rels/.rels", K: "rels"},
		{N: "word/document.xml", K: "main", Via: "override"}, {N: dr, K: "rels"},
		{N: "word/styles.xml", K: "styles", Via: "override"}, {N: "word/numbering.xml", K: "numbering", Via: "override"},
		{N: "word/footnotes.xml", K: "footnotes", Via: "override"}, {N: "word/endnotes.xml", K: "endnotes", Via: "override"},
		{N: "word/settings.xml", K: "settings", Via: "override"},
		{N: "word/header1.xml", K: "header1", Via: "override"}, {N: "word/footer1.xml", K: "footer1", Via: "override"},
		{N: "word/media/image1.png", K: "media", Via: "default"},
		{N: "docProps/core.xml", K: "docProps-core", Via: "override"}, {N: "docProps/app.xml", K: "docProps-app", Via: "override"},
	}
	for _, p := range m.Parts {
		m.byName[p.N] = p
	}
	m.Rels = []fgnRel{
		{Src: "_rels/.rels", ID: "rId1", Ty: "od/officeDocument", Tg: "word/document.xml"},
		{Src: "_rels/.rels", ID: "rId2", Ty: "pk/metadata/core-properties", Tg: "docProps/core.xml"},
		{Src: "_rels/.rels", ID: "rId3", Ty: "od/extended-properties", Tg: "docProps/app.xml"},
		{Src: dr, ID: "rId1", Ty: "od/styles", Tg: "styles.xml"}, {Src: dr, ID: "rId2", Ty: "od/numbering", Tg: "numbering.xml"},
		{Src: dr, ID: "rId3", Ty: "od/footnotes", Tg: "footnotes.xml"}, {Src: dr, ID: "rId4", Ty: "od/settings", Tg: "settings.xml"},
		{Src: dr, ID: "rId5", Ty: "od/image", Tg: "media/image1.png"}, {Src: dr, ID: "rId6", Ty: "od/header", Tg: "header1.xml"},
		{Src: dr, ID: "rId7", Ty: "od/footer", Tg: "footer1.xml"},
		{Src: dr, ID: "rId8", Ty: "od/hyperlink", Tg: "https://example.org/", Mode: "External"},
		{Src: dr, ID: "rId9", Ty: "od/endnotes", Tg: "endnotes.xml"},
	}
	return m
}

var xmlinPkName = map[string]string{"ct": "[Content_Types].xml", "rels": "_rels/.rels", "docrels": "word/_rels/document.xml.rels",
	"styles": "word/styles.xml", "numbering": "word/numbering.xml", "header": "word/header1.xml", "footnotes": "word/footnotes.xml",
	"settings": "word/settings.xml", "core": "docProps/core.xml", "media": "word/media/image1.png"}

func xmlinBreak(part string, brk string, good []byte, seed int64) ([]byte, bool) {
	W := `xmlns:w="` + nsW + `"`
	switch brk {
	case "empty":
		return []byte{}, true
	case "trunc":
		return good[:len(good)*3/5], true
	case "text":
		return []byte("plain text, not XML\n"), true
	case "binary":
		rnd := rand.New(rand.NewSource(seed + 77))
		b := make([]byte, 311)
		rnd.Read(b)
		b[0] = 0
		return b, true
	case "missing":
		return nil, false
	case "wrongroot":
		return []byte(fgnDecl + `<x:other xmlns:x="urn:example:other"><x:child a="1">text</x:child></x:other>`), true
	case "noattrs":
		switch part {
		case "ct":
			return []byte(fgnDecl + `<Types xmlns="` + nsCT + `"><Default/><Override/><Override PartName="/word/document.xml"/><Default Extension="xml"/></Types>`), true
		case "rels", "docrels":
			return []byte(fgnDecl + `<Relationships xmlns="` + nsRel + `"><Relationship/><Relationship Id="rId1"/><Relationship Type="` + relImage + `"/><Relationship Target="x.xml"/></Relationships>`), true
		case "styles":
			return []byte(fgnDecl + `<w:styles ` + W + `><w:docDefaults/><w:style/><w:style w:type="paragraph"/><w:style w:styleId="OnlyId"/><w:style w:type="paragraph" w:styleId="Heading1"><w:name/><w:basedOn/><w:pPr><w:outlineLvl/></w:pPr></w:style></w:styles>`), true
		case "numbering":
			return []byte(fgnDecl + `<w:numbering ` + W + `><w:abstractNum><w:lvl/></w:abstractNum><w:num/><w:num w:numId="9"/></w:numbering>`), true
		case "footnotes":
			return []byte(fgnDecl + `<w:footnotes ` + W + `><w:footnote/><w:footnote w:id="x"><w:p/></w:footnote></w:footnotes>`), true
		case "settings":
			return []byte(fgnDecl + `<w:settings ` + W + `><w:footnotePr/><w:endnotePr><w:numFmt/></w:endnotePr></w:settings>`), true
		case "header":
			return []byte(fgnDecl + `<w:hdr ` + W + `/>`), true
		case "core":
			return []byte(fgnDecl + `<cp:coreProperties xmlns:cp="http://schemas.openxmlformats.org/package/2006/metadata/core-properties"><dcterms:created xmlns:dcterms="http://purl.org/dc/terms/">not a date</dcterms:created></cp:coreProperties>`), true
		}
		return []byte(fgnDecl + `<a/>`), true
	case "selfref":
		switch part {
		case "styles":
			return []byte(fgnDecl + `<w:styles ` + W + `><w:style w:type="paragraph" w:styleId="A"><w:name w:val="A"/><w:basedOn w:val="B"/></w:style>` +
				`<w:style w:type="paragraph" w:styleId="B"><w:name w:val="B"/><w:basedOn w:val="A"/></w:style>` +
				`<w:style w:type="paragraph" w:styleId="Heading1"><w:name w:val="heading 1"/><w:basedOn w:val="Heading1"/></w:style>` +
				`<w:style w:type="paragraph" w:styleId="A"><w:name w:val="A again"/></w:style></w:styles>`), true
		case "rels":
			return []byte(fgnDecl + `<Relationships xmlns="` + nsRel + `"><Relationship Id="rId1" Type="` + relOfficeDoc + `" Target="_rels/.rels"/>` +
				`<Relationship Id="rId1" Type="` + relOfficeDoc + `" Target="../../../../etc/passwd"/></Relationships>`), true
		case "docrels":
			return []byte(fgnDecl + `<Relationships xmlns="` + nsRel + `"><Relationship Id="rId5" Type="` + relImage + `" Target="media/nothere.png"/>` +
				`<Relationship Id="rId5" Type="` + relImage + `" Target="media/image1.png"/><Relationship Id="rId6" Type="` + relHeader + `" Target="document.xml"/>` +
				`<Relationship Id="rId7" Type="` + relFooter + `" Target="/word/../word/footer1.xml"/><Relationship Id="" Type="" Target=""/>` +
				`<Relationship Id="rId99999999999999999999" Type="` + relImage + `" Target="media/image99999999999999999999.png"/></Relationships>`), true
		case "numbering":
			return []byte(fgnDecl + `<w:numbering ` + W + `><w:num w:numId="9"><w:abstractNumId w:val="404"/></w:num><w:num w:numId="9"><w:abstractNumId w:val="-1"/></w:num>` +
				`<w:abstractNum w:abstractNumId="99999999999999999999"><w:lvl w:ilvl="12"><w:start w:val="x"/></w:lvl></w:abstractNum></w:numbering>`), true
		case "ct":
			return []byte(fgnDecl + `<Types xmlns="` + nsCT + `"><Default Extension="xml" ContentType="a/b"/><Default Extension="xml" ContentType="c/d"/>` +
				`<Override PartName="/word/document.xml" ContentType="image/png"/><Override PartName="word/document.xml" ContentType=""/></Types>`), true
		case "media":
			return []byte("\x89PNG\r\n\x1a\n but then nothing like a PNG"), true
		}
		return []byte(fgnDecl + `<w:hdr ` + W + `><w:p><w:r><w:t>x</w:t></w:r></w:p><w:hdr ` + W + `/></w:hdr>`), true
	}
	panic("xmlin: unknown break " + brk)
}

// xmlinPackage assembles the entries of the package around the main part.
func xmlinPackage(in *xmlinInput, main []byte, mainPresent bool, seed int64) []xmlinEntry {
	m := xmlinBaseModel()
	var out []xmlinEntry
	for i, p := range m.Parts {
		var data []byte
		switch {
		case p.K == "content-types":
			data = fgnContentTypesXML(m)
		case strings.HasSuffix(p.N, ".rels"):
			data = fgnRelsXML(m, p.N)
		case p.K == "main":
			if !mainPresent {
				continue
			}
			data = main
		default:
			data = fgnPartBytes(m, p, i)
		}
		if in.Pk.Part != "none" && xmlinPkName[in.Pk.Part] == p.N {
			b, keep := xmlinBreak(in.Pk.Part, in.Pk.Brk, data, seed)
			if !keep {
				continue
			}
			data = b
		}
		out = append(out, xmlinEntry{p.N, data})
	}
	return out
}

var xmlinLieTarget = map[string]string{"main": "word/document.xml", "styles": "word/styles.xml", "media": "word/media/image1.png"}

// xmlinLieOf computes what the header declares from the true value: a*v + 2^e + b (modulo 2^64).
func xmlinLieOf(lv [3]int64, v uint64) uint64 {
	out := uint64(lv[0])*v + uint64(lv[2])
	if lv[1] >= 0 {
		out += uint64(1) << uint(lv[1])
	}
	return out
}

// xmlinPutLying writes one entry whose header (local and central alike) declares what the lie says; the data are honest.
func xmlinPutLying(zw *zip.Writer, name string, data []byte, lie *xmlinLie) {
	actual, declared := uint16(zip.Deflate), uint16(zip.Deflate)
	if lie.Fld == "method" {
		actual, declared = uint16(lie.Lv[0]), uint16(lie.Lv[1])
	}
	stored := data
	switch actual {
	case zip.Store:
	case zip.Deflate:
		var cb bytes.Buffer
		fw, _ := flate.NewWriter(&cb, flate.DefaultCompression)
		fw.Write(data)
		fw.Close()
		stored = cb.Bytes()
	default:
		panic(fmt.Sprintf("xmlin: cannot store an entry with method %d", actual))
	}
	fh := &zip.FileHeader{Name: name, Method: declared, CRC32: crc32.ChecksumIEEE(data),
		CompressedSize64: uint64(len(stored)), UncompressedSize64: uint64(len(data))}
	switch lie.Fld {
	case "usize":
		fh.UncompressedSize64 = xmlinLieOf(lie.Lv, fh.UncompressedSize64)
	case "csize":
		fh.CompressedSize64 = xmlinLieOf(lie.Lv, fh.CompressedSize64)
	case "crc":
		fh.CRC32 = uint32(xmlinLieOf(lie.Lv, uint64(fh.CRC32)))
	case "method":
	default:
		panic("xmlin: unknown directory field " + lie.Fld)
	}
	w, err := zw.CreateRaw(fh)
	if err == nil {
		_, err = w.Write(stored)
	}
	if err != nil {
		panic("xmlin: zip write: " + err.Error())
	}
}

// xmlinZip writes the archive in the requested shape.
func xmlinZip(entries []xmlinEntry, shape string, lie *xmlinLie, seed int64) []byte {
	method := zip.Deflate
	switch shape {
	case "nobytes":
		return []byte{}
	case "nonzip":
		return []byte("PK this only looks like the start of an archive; it is a line of text.\n")
	case "stored":
		method = zip.Store
	case "onlymain":
		var keep []xmlinEntry
		for _, e := range entries {
			if e.Name == "word/document.xml" {
				keep = append(keep, e)
			}
		}
		entries = keep
	case "emptyzip":
		entries = nil
	}
	var buf bytes.Buffer
	if shape == "prefixjunk" {
		buf.WriteString("#!/bin/sh\necho self-extracting stub\nexit 0\n")
	}
	zw := zip.NewWriter(&buf)
	if shape == "prefixjunk" {
		zw.SetOffset(int64(buf.Len()))
	}
	put := func(name string, data []byte) {
		if lie != nil && lie.Fld != "none" && (lie.Tgt == "all" || xmlinLieTarget[lie.Tgt] == name) {
			xmlinPutLying(zw, name, data, lie)
			return
		}
		w, err := zw.CreateHeader(&zip.FileHeader{Name: name, Method: method})
		if err == nil {
			_, err = w.Write(data)
		}
		if err != nil {
			panic("xmlin: zip write: " + err.Error())
		}
	}
	if shape == "dirs" {
		for _, d := range []string{"_rels/", "word/", "word/_rels/", "word/media/", "docProps/", "word/document.xml/"} {
			put(d, nil)
		}
	}
	for _, e := range entries {
		name, data := e.Name, e.Data
		switch shape {
		case "zerolen":
			data = nil
		case "backslash":
			name = strings.ReplaceAll(name, "/", "\\")
		case "upcase":
			name = strings.ToUpper(name)
		}
		put(name, data)
		if e.Name == "word/document.xml" {
			switch shape {
			case "dupmain":
				put(name, []byte(fgnDecl+`<w:document xmlns:w="`+nsW+`"><w:body><w:p><w:r><w:t>second entry</w:t></w:r></w:p></w:body></w:document>`))
			case "dupmainbad":
				put(name, []byte("<w:document"))
			}
		}
	}
	if err := zw.Close(); err != nil {
		panic("xmlin: zip close: " + err.Error())
	}
	b := buf.Bytes()
	switch shape {
	case "cutzip":
		b = b[:len(b)*3/5]
	case "cutzipdir":
		b = b[:len(b)-9]
	case "noise":
		// the small seeded supplement of unstructured damage: a few bytes of a valid archive are overwritten
		rnd := rand.New(rand.NewSource(seed*7919 + int64(len(b))))
		b = append([]byte(nil), b...)
		for k := 0; k < 6; k++ {
			b[rnd.Intn(len(b))] = byte(rnd.Intn(256))
		}
	}
	return b
}
