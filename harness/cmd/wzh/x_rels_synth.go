package main

// Synthesis of foreign packages for spec module Rels (property C02). The abstract package
// (every relationship with source part, id, type, resolved target and mode; every reference
// with the part it sits in; the part names) is a TLA+ value (Rels!ForeignPkg) carried by the
// OpenForeign operation. This file only writes it out as a minimal valid .docx by hand;
// nothing here goes through the library under test.

import (
	"archive/zip"
	"bytes"
	"fmt"
	"os"
	"path"
	"sort"
	"strings"
)

const relsNsDecl = `xmlns:w="http://schemas.openxmlformats.org/wordprocessingml/2006/main" ` +
	`xmlns:r="http://schemas.openxmlformats.org/officeDocument/2006/relationships" ` +
	`xmlns:wp="http://schemas.openxmlformats.org/drawingml/2006/wordprocessingDrawing" ` +
	`xmlns:a="http://schemas.openxmlformats.org/drawingml/2006/main" ` +
	`xmlns:pic="http://schemas.openxmlformats.org/drawingml/2006/picture"`

const relsXMLHead = `<?xml version="1.0" encoding="UTF-8" standalone="yes"?>` + "\n"

func relsStr(m map[string]interface{}, k string) string { s, _ := m[k].(string); return s }

func relsList(v interface{}) []map[string]interface{} {
	var out []map[string]interface{}
	arr, _ := v.([]interface{})
	for _, x := range arr {
		if m, ok := x.(map[string]interface{}); ok {
			out = append(out, m)
		}
	}
	return out
}

func relsEsc(s string) string {
	return strings.NewReplacer("&", "&amp;", "<", "&lt;", ">", "&gt;", `"`, "&quot;").Replace(s)
}

func relsTypeURI(ty string) string {
	switch ty {
	case "core-properties":
		return "http://schemas.openxmlformats.org/package/2006/relationships/metadata/core-properties"
	}
	return "http://schemas.openxmlformats.org/officeDocument/2006/relationships/" + ty
}

func relsContentType(ty, name string) string {
	switch ty {
	case "officeDocument":
		return "application/vnd.openxmlformats-officedocument.wordprocessingml.document.main+xml"
	case "styles", "numbering", "footnotes", "endnotes", "settings", "header", "footer":
		return "application/vnd.openxmlformats-officedocument.wordprocessingml." + ty + "+xml"
	case "theme":
		return "application/vnd.openxmlformats-officedocument.theme+xml"
	case "core-properties":
		return "application/vnd.openxmlformats-package.core-properties+xml"
	case "extended-properties":
		return "application/vnd.openxmlformats-officedocument.extended-properties+xml"
	}
	return ""
}

func relsDrawing(attr, id string, n int) string {
	return fmt.Sprintf(`<w:p><w:r><w:drawing><wp:inline distT="0" distB="0" distL="0" distR="0">`+
		`<wp:extent cx="360000" cy="360000"/><wp:docPr id="%d" name="Picture %d"/>`+
		`<a:graphic><a:graphicData uri="http://schemas.openxmlformats.org/drawingml/2006/picture">`+
		`<pic:pic><pic:nvPicPr><pic:cNvPr id="%d" name="Picture %d"/><pic:cNvPicPr/></pic:nvPicPr>`+
		`<pic:blipFill><a:blip r:%s="%s"/><a:stretch><a:fillRect/></a:stretch></pic:blipFill>`+
		`<pic:spPr><a:xfrm><a:off x="0" y="0"/><a:ext cx="360000" cy="360000"/></a:xfrm>`+
		`<a:prstGeom prst="rect"><a:avLst/></a:prstGeom></pic:spPr></pic:pic>`+
		`</a:graphicData></a:graphic></wp:inline></w:drawing></w:r></w:p>`, n, n, n, n, attr, relsEsc(id))
}

// relsBlocks writes the references of one part as content; header/footer references are returned separately.
func relsBlocks(refs []map[string]interface{}, part string) (blocks string, sect string) {
	var b, s strings.Builder
	n := 100
	for _, f := range refs {
		if relsStr(f, "part") != part {
			continue
		}
		n++
		id := relsStr(f, "id")
		switch relsStr(f, "kind") {
		case "embed":
			b.WriteString(relsDrawing("embed", id, n))
		case "link":
			b.WriteString(relsDrawing("link", id, n))
		case "hlink":
			fmt.Fprintf(&b, `<w:p><w:hyperlink r:id="%s"><w:r><w:t>link %d</w:t></w:r></w:hyperlink></w:p>`, relsEsc(id), n)
		case "hdr":
			fmt.Fprintf(&s, `<w:headerReference w:type="%s" r:id="%s"/>`, relsEsc(relsStr(f, "slot")), relsEsc(id))
		case "ftr":
			fmt.Fprintf(&s, `<w:footerReference w:type="%s" r:id="%s"/>`, relsEsc(relsStr(f, "slot")), relsEsc(id))
		}
	}
	return b.String(), s.String()
}

// relsSynth writes the package; abs = internal targets are written as absolute paths.
func relsSynth(pkg map[string]interface{}, abs bool) []byte {
	rels := relsList(pkg["rels"])
	refs := relsList(pkg["refs"])
	main := relsStr(pkg, "main")
	if main == "" {
		main = "word/document.xml"
	}
	var buf bytes.Buffer
	zw := zip.NewWriter(&buf)
	add := func(name string, data []byte) {
		w, err := zw.Create(name)
		if err == nil {
			_, err = w.Write(data)
		}
		if err != nil {
			fmt.Fprintln(os.Stderr, "rels: synth:", err)
			os.Exit(2)
		}
	}
	// what each part is: by the type of a relationship that targets it, else by its name
	tyOf := map[string]string{main: "officeDocument", "word/styles.xml": "styles"}
	for _, r := range rels {
		if relsStr(r, "mode") != "External" {
			if _, ok := tyOf[relsStr(r, "tgt")]; !ok {
				tyOf[relsStr(r, "tgt")] = relsStr(r, "ty")
			}
		}
	}
	var names []string
	if arr, ok := pkg["parts"].([]interface{}); ok {
		for _, x := range arr {
			if s, ok := x.(string); ok {
				names = append(names, s)
			}
		}
	}
	sort.Strings(names)
	// content types
	var ct strings.Builder
	ct.WriteString(relsXMLHead + `<Types xmlns="http://schemas.openxmlformats.org/package/2006/content-types">` +
		`<Default Extension="rels" ContentType="application/vnd.openxmlformats-package.relationships+xml"/>` +
		`<Default Extension="xml" ContentType="application/xml"/>` +
		`<Default Extension="png" ContentType="image/png"/><Default Extension="jpeg" ContentType="image/jpeg"/>`)
	for _, n := range names {
		if c := relsContentType(tyOf[n], n); c != "" {
			fmt.Fprintf(&ct, `<Override PartName="/%s" ContentType="%s"/>`, relsEsc(n), c)
		}
	}
	ct.WriteString(`</Types>`)
	add("[Content_Types].xml", []byte(ct.String()))
	// relationship parts
	bySrc := map[string][]map[string]interface{}{}
	var srcs []string
	for _, r := range rels {
		s := relsStr(r, "src")
		if _, ok := bySrc[s]; !ok {
			srcs = append(srcs, s)
		}
		bySrc[s] = append(bySrc[s], r)
	}
	sort.Strings(srcs)
	for _, s := range srcs {
		var rl strings.Builder
		rl.WriteString(relsXMLHead + `<Relationships xmlns="http://schemas.openxmlformats.org/package/2006/relationships">`)
		for _, r := range bySrc[s] {
			tgt := relsStr(r, "tgt")
			mode := ""
			if relsStr(r, "mode") == "External" {
				mode = ` TargetMode="External"`
			} else if abs {
				tgt = "/" + tgt
			} else if s != "" {
				dir := path.Dir(s) + "/"
				if strings.HasPrefix(tgt, dir) {
					tgt = strings.TrimPrefix(tgt, dir)
				} else if path.Dir(path.Dir(s)) == "." {
					tgt = "../" + tgt // source one folder below the package root
				} else {
					tgt = "../" + strings.TrimPrefix(tgt, path.Dir(path.Dir(s))+"/") // e.g. word/theme/x -> ../media/y
				}
			}
			fmt.Fprintf(&rl, `<Relationship Id="%s" Type="%s" Target="%s"%s/>`, relsEsc(relsStr(r, "id")), relsTypeURI(relsStr(r, "ty")), relsEsc(tgt), mode)
		}
		rl.WriteString(`</Relationships>`)
		add(RelsPartFor(s), []byte(rl.String()))
	}
	// parts
	img := 0
	for _, n := range names {
		switch tyOf[n] {
		case "officeDocument":
			blocks, sect := relsBlocks(refs, n)
			add(n, []byte(relsXMLHead+`<w:document `+relsNsDecl+`><w:body><w:p><w:r><w:t>foreign</w:t></w:r></w:p>`+blocks+
				`<w:sectPr>`+sect+`<w:pgSz w:w="11906" w:h="16838"/></w:sectPr></w:body></w:document>`))
		case "header", "footer":
			el := "hdr"
			if tyOf[n] == "footer" {
				el = "ftr"
			}
			blocks, _ := relsBlocks(refs, n)
			add(n, []byte(relsXMLHead+`<w:`+el+` `+relsNsDecl+`><w:p><w:r><w:t>foreign `+el+`</w:t></w:r></w:p>`+blocks+`</w:`+el+`>`))
		case "image":
			img++
			add(n, tinyPNG(150+img))
		case "styles":
			add(n, []byte(relsXMLHead+`<w:styles xmlns:w="`+nsW+`"><w:style w:type="paragraph" w:default="1" w:styleId="Normal"><w:name w:val="Normal"/></w:style></w:styles>`))
		case "numbering":
			add(n, []byte(relsXMLHead+`<w:numbering xmlns:w="`+nsW+`"></w:numbering>`))
		case "footnotes":
			add(n, []byte(relsXMLHead+`<w:footnotes xmlns:w="`+nsW+`"><w:footnote w:type="separator" w:id="-1"><w:p><w:r><w:separator/></w:r></w:p></w:footnote></w:footnotes>`))
		case "endnotes":
			add(n, []byte(relsXMLHead+`<w:endnotes xmlns:w="`+nsW+`"><w:endnote w:type="separator" w:id="-1"><w:p><w:r><w:separator/></w:r></w:p></w:endnote></w:endnotes>`))
		case "settings":
			add(n, []byte(relsXMLHead+`<w:settings xmlns:w="`+nsW+`"><w:defaultTabStop w:val="720"/></w:settings>`))
		case "theme":
			add(n, []byte(relsXMLHead+`<a:theme xmlns:a="`+nsA+`" name="Office"><a:themeElements/></a:theme>`))
		case "core-properties":
			add(n, []byte(relsXMLHead+`<cp:coreProperties xmlns:cp="http://schemas.openxmlformats.org/package/2006/metadata/core-properties" xmlns:dc="http://purl.org/dc/elements/1.1/"><dc:title>foreign</dc:title></cp:coreProperties>`))
		case "extended-properties":
			add(n, []byte(relsXMLHead+`<Properties xmlns="http://schemas.openxmlformats.org/officeDocument/2006/extended-properties"><Application>Other</Application></Properties>`))
		default:
			add(n, []byte(relsXMLHead+`<x:data xmlns:x="urn:verif:other"/>`))
		}
	}
	if err := zw.Close(); err != nil {
		fmt.Fprintln(os.Stderr, "rels: synth:", err)
		os.Exit(2)
	}
	return buf.Bytes()
}
