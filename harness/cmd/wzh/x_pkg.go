package main

// Executor for spec module Pkg (property C01: every saved document is a well-formed OOXML
// package). Maps the abstract operations of Pkg.tla to the public API - document, table, image,
// header/footer, notes, lists, TOC, properties, math, styles, document-template rendering,
// text-template rendering, Markdown conversion (ConvertString / ConvertFile), Reopen, Save and
// ToBytes - and projects the bytes each save entry point wrote with opc_pkg.go.
// No oracle logic: what is wrong with a package is decided by Pkg_Trace.tla.

import (
	"bytes"
	"encoding/json"
	"fmt"
	"io"
	"os"
	"path/filepath"
	"strconv"
	"time"

	"github.com/zerx-lab/wordZero/pkg/document"
	"github.com/zerx-lab/wordZero/pkg/markdown"
	"github.com/zerx-lab/wordZero/pkg/style"
)

func init() { register("pkg", runPkg) }

type pkgRun struct {
	doc       *document.Document
	dir       string
	table     *document.Table
	para      *document.Paragraph
	nfn       int // footnotes added through the API on the current document object
	nen       int
	cid       int
	lastStyle string // id of the style AddStyle added last
	inp       []byte // the package the current step handed to the library's open (nil: it opened nothing foreign)
}

func (r *pkgRun) tbl() *document.Table {
	if r.table == nil {
		t, err := r.doc.AddTable(&document.TableConfig{Rows: 2, Cols: 2, Width: 4000})
		if err != nil {
			panic("AddTable failed: " + err.Error())
		}
		r.table = t
	}
	return r.table
}

func (r *pkgRun) par() *document.Paragraph {
	if r.para == nil {
		r.para = r.doc.AddParagraph("p")
	}
	return r.para
}

// replace the current document object (handles into the old one are dropped)
func (r *pkgRun) swap(d *document.Document) {
	r.doc, r.table, r.para, r.nfn, r.nen = d, nil, nil, 0, 0
}

func pkgKindOf(s string) document.HeaderFooterType {
	switch s {
	case "first":
		return document.HeaderFooterTypeFirst
	case "even":
		return document.HeaderFooterTypeEven
	}
	return document.HeaderFooterTypeDefault
}

func pkgListType(k int) document.ListType {
	return [...]document.ListType{document.ListTypeBullet, document.ListTypeNumber, document.ListTypeDecimal,
		document.ListTypeLowerLetter, document.ListTypeUpperLetter, document.ListTypeLowerRoman}[k%6]
}

func (r *pkgRun) writeTemp(name string, data []byte) (string, bool) {
	d := filepath.Join(r.dir, "in")
	if err := os.MkdirAll(d, 0o755); err != nil {
		return "", false
	}
	p := filepath.Join(d, name)
	if filepath.Dir(p) != d { // names with separators / dot-dot are not creatable as one file
		return "", false
	}
	if err := os.WriteFile(p, data, 0o644); err != nil {
		return "", false
	}
	return p, true
}

// templateBits gives the document placeholder content in body, table, header and footer.
func (r *pkgRun) templateBits() bool {
	d := r.doc
	d.AddParagraph("Title: {{v}} / {{w}}")
	d.AddParagraph("{{#if c}}yes {{v}}{{else}}no{{/if}}")
	d.AddParagraph("{{#image pic}}")
	t, err := d.AddTable(&document.TableConfig{Rows: 2, Cols: 2, Width: 4000, Data: [][]string{{"n", "{{v}}"}, {"{{#each items}}{{name}}", "{{val}}{{/each}}"}}})
	if err != nil {
		return false
	}
	r.table = t
	if err := d.AddHeader(document.HeaderFooterTypeDefault, "H {{v}} {{#if c}}c{{/if}}"); err != nil {
		return false
	}
	if err := d.AddFooterWithPageNumber(document.HeaderFooterTypeDefault, "F {{w}}", true); err != nil {
		return false
	}
	return true
}

func (r *pkgRun) step(op Op, i int) (ret string, written []byte, entry string) {
	d := r.doc
	tc := op.Str("tc")
	s := pkgText(tc, i)
	switch op.Name() {
	// ------------------------------------------------------------------ body text
	case "AddParagraph":
		r.para = d.AddParagraph(s)
	case "AddHeading":
		switch (int(seed) + i) % 3 {
		case 0:
			d.AddHeadingParagraph(s, 1+i%9)
		case 1:
			d.AddHeadingParagraphWithBookmark(s, 1+i%3, pkgIdent(tc, i+1))
		default:
			d.AddHeadingWithBookmark(s, 1+i%3, pkgIdent(tc, i+1))
		}
	case "AddFormattedParagraph":
		r.para = d.AddFormattedParagraph(s, &document.TextFormat{Bold: true, FontSize: 11, FontColor: pkgIdent(tc, i+1),
			FontFamily: pkgIdent(tc, i+2), Highlight: pkgIdent(tc, i+3), Underline: true})
	case "AddFormattedText":
		r.par().AddFormattedText(s, &document.TextFormat{Italic: true, FontName: pkgIdent(tc, i+1)})
	case "SetParaStyle":
		r.par().SetStyle(pkgIdent(tc, i))
	case "SetParaFormat":
		p := r.par()
		p.SetFontFamily(pkgIdent(tc, i))
		p.SetColor(pkgIdent(tc, i+1))
		p.SetHighlight(pkgIdent(tc, i+2))
		p.SetAlignment(document.AlignmentType(pkgIdent(tc, i+3)))
		bc := &document.ParagraphBorderConfig{Style: document.BorderStyle(pkgIdent(tc, i)), Size: 12, Color: pkgIdent(tc, i+1), Space: 1}
		p.SetBorder(bc, nil, bc, nil)
		p.SetHorizontalRule(document.BorderStyle(pkgIdent(tc, i+2)), 6, pkgIdent(tc, i+3))
		p.SetParagraphFormat(&document.ParagraphFormatConfig{KeepWithNext: true, OutlineLevel: 2})
	case "AddPageBreak":
		if i%2 == 0 {
			d.AddPageBreak()
		} else {
			r.par().AddPageBreak()
		}
	case "AddMathFormula":
		d.AddMathFormula(s, i%2 == 0)
	case "AddMathOMML": // a well-formed OMML fragment whose text is of the class
		var esc bytes.Buffer
		esc.WriteString("<m:r><m:t>")
		// escaped by the caller as the API documents (the argument is an OMML fragment)
		for _, c := range pkgIdent(tc, i) {
			switch {
			case c == '<':
				esc.WriteString("&lt;")
			case c == '&':
				esc.WriteString("&amp;")
			case c == '>':
				esc.WriteString("&gt;")
			default:
				esc.WriteRune(c)
			}
		}
		esc.WriteString("</m:t></m:r>")
		d.AddMathFormula(esc.String(), i%2 == 1)
	case "AddInlineMath":
		r.par().AddInlineMath(s)
	// ------------------------------------------------------------------ lists, notes, TOC
	case "AddListItem":
		d.AddListItem(s, &document.ListConfig{Type: pkgListType(i), BulletSymbol: document.BulletType(pkgIdent(tc, i+1)), StartNumber: i % 3, IndentLevel: i % 4})
	case "AddBulletList":
		d.AddBulletList(s, i%3, document.BulletType(pkgIdent(tc, i+1)))
	case "AddNumberedList":
		d.AddNumberedList(s, i%3, pkgListType(1+i%5))
	case "CreateMultiLevelList":
		return errRet(d.CreateMultiLevelList([]document.ListItem{
			{Text: s, Level: 0, Type: document.ListTypeNumber},
			{Text: pkgText(tc, i+1), Level: 1, Type: document.ListTypeBullet, BulletSymbol: document.BulletType(pkgIdent(tc, i+2))},
			{Text: pkgText(tc, i+2), Level: 2, Type: document.ListTypeLowerRoman, StartNumber: 3}})), nil, ""
	case "RestartNumbering":
		d.RestartNumbering(strconv.Itoa(1 + i%2))
	case "AddFootnote":
		if err := d.AddFootnote(s, pkgText(tc, i+1)); err != nil {
			return "err", nil, ""
		}
		r.nfn++
	case "AddEndnote":
		if err := d.AddEndnote(s, pkgText(tc, i+1)); err != nil {
			return "err", nil, ""
		}
		r.nen++
	case "AddFootnoteToRun":
		p := d.AddParagraph("r")
		if err := d.AddFootnoteToRun(&p.Runs[0], s); err != nil {
			return "err", nil, ""
		}
		r.nfn++
	case "RemoveFootnote":
		if r.nfn == 0 {
			return "skip", nil, ""
		}
		// ids are handed out from 1 on a document object; removing an id that is already gone is an error
		if err := d.RemoveFootnote(strconv.Itoa(r.nfn)); err != nil {
			return "err", nil, ""
		}
		r.nfn--
	case "SetFootnoteConfig":
		return errRet(d.SetFootnoteConfig(&document.FootnoteConfig{NumberFormat: document.FootnoteFormatLowerRoman, StartNumber: 1 + i%3,
			RestartEach: document.FootnoteRestartContinuous, Position: document.FootnotePositionPageBottom})), nil, ""
	case "SetFootnoteFormat": // the configuration enums are open string types
		return errRet(d.SetFootnoteConfig(&document.FootnoteConfig{NumberFormat: document.FootnoteNumberFormat(pkgIdent(tc, i)), StartNumber: 2,
			RestartEach: document.FootnoteRestart(pkgIdent(tc, i+1)), Position: document.FootnotePosition(pkgIdent(tc, i+2))})), nil, ""
	case "TOCSDT":
		sdt := d.CreateTOCSDT(s, 3)
		sdt.AddTOCEntry(pkgText(tc, i+1), 1, 1, pkgIdent(tc, i+2))
		sdt.AddTOCEntry(pkgText(tc, i+3), 2, 3, "_Toc1")
		sdt.FinalizeTOCSDT()
		d.Body.AddElement(sdt)
	case "GenerateTOC":
		return errRet(d.GenerateTOC(&document.TOCConfig{Title: s, MaxLevel: 3, ShowPageNum: i%2 == 0, RightAlign: true, UseHyperlink: i%3 != 0, DotLeader: true})), nil, ""
	case "AutoGenerateTOC":
		if len(d.ListHeadings()) == 0 { // documented: fails on a document without headings
			d.AddHeadingParagraph("Heading for the table of contents", 1)
		}
		return errRet(d.AutoGenerateTOC(&document.TOCConfig{Title: s, MaxLevel: 2 + i%3, ShowPageNum: true, UseHyperlink: true})), nil, ""
	case "UpdateTOC":
		if err := d.UpdateTOC(); err != nil {
			return "skip", nil, "" // documented: fails when the document has no table of contents
		}
	case "SetTOCStyle":
		return errRet(d.SetTOCStyle(1+i%9, &document.TextFormat{Bold: true, FontFamily: pkgIdent(tc, i), FontColor: pkgIdent(tc, i+1)})), nil, ""
	// ------------------------------------------------------------------ tables
	case "AddTable":
		t, err := d.AddTable(&document.TableConfig{Rows: 2, Cols: 2, Width: 5000, Data: [][]string{{s, "b"}, {"c", pkgText(tc, i+1)}}})
		if err != nil {
			return "err", nil, ""
		}
		r.table = t
	case "SetCellText":
		if err := r.tbl().SetCellText(0, 0, s); err != nil {
			return "err", nil, ""
		}
		return errRet(r.tbl().SetCellFormattedText(1, 1, pkgText(tc, i+1), &document.TextFormat{Bold: true, FontFamily: pkgIdent(tc, i+2)})), nil, ""
	case "AddCellParagraph":
		if _, err := r.tbl().AddCellParagraph(0, 1, s); err != nil {
			return "err", nil, ""
		}
		if _, err := r.tbl().AddCellFormattedParagraph(1, 0, pkgText(tc, i+1), &document.TextFormat{FontColor: pkgIdent(tc, i+2)}); err != nil {
			return "err", nil, ""
		}
		return errRet(r.tbl().AddCellFormattedText(1, 0, pkgText(tc, i+2), nil)), nil, ""
	case "AddCellList":
		return errRet(r.tbl().AddCellList(0, 0, &document.CellListConfig{Type: pkgListType(i), BulletSymbol: document.BulletType(pkgIdent(tc, i)),
			Items: []string{s, pkgText(tc, i+1)}})), nil, ""
	case "AddNestedTable":
		nt, err := r.tbl().AddNestedTable(1, 1, &document.TableConfig{Rows: 1, Cols: 2, Width: 2000, Data: [][]string{{s, pkgText(tc, i+1)}}})
		if err != nil {
			return "err", nil, ""
		}
		_ = nt
	case "TableRows":
		t := r.tbl()
		if err := t.AppendRow([]string{s, pkgText(tc, i+1)}); err != nil {
			return "err", nil, ""
		}
		if err := t.InsertRow(0, []string{pkgText(tc, i+2), s}); err != nil {
			return "err", nil, ""
		}
		return errRet(t.AppendColumn([]string{s, s, s, s, s, s, s, s, s, s, s, s}[:t.GetRowCount()], 900)), nil, ""
	case "TableStyle":
		t := r.tbl()
		if err := t.ApplyTableStyle(&document.TableStyleConfig{Template: document.TableStyleTemplateGrid, StyleID: pkgIdent(tc, i), FirstRowHeader: true, BandedRows: true}); err != nil {
			return "err", nil, ""
		}
		if err := t.SetCellShading(0, 0, &document.ShadingConfig{Pattern: document.ShadingPattern(pkgIdent(tc, i+1)), ForegroundColor: pkgIdent(tc, i+2), BackgroundColor: pkgIdent(tc, i+3)}); err != nil {
			return "err", nil, ""
		}
		if err := t.SetAlternatingRowColors(pkgIdent(tc, i), pkgIdent(tc, i+1)); err != nil {
			return "err", nil, ""
		}
		return errRet(t.CreateCustomTableStyle(pkgIdent(tc, i+2), pkgIdent(tc, i+3), nil, nil, true)), nil, ""
	case "TableMerge":
		t := r.tbl()
		if t.GetRowCount() < 2 || t.GetColumnCount() < 2 {
			return "skip", nil, ""
		}
		if i%2 == 0 {
			if err := t.MergeCellsHorizontal(0, 0, 1); err != nil {
				return "skip", nil, ""
			}
		} else if err := t.MergeCellsVertical(0, 1, 0); err != nil {
			return "skip", nil, ""
		}
	case "RemoveParagraphAt":
		d.RemoveParagraphAt(0)
		r.para = nil
	// ------------------------------------------------------------------ headers / footers
	case "AddHeader":
		return errRet(d.AddHeader(pkgKindOf(op.Str("kind")), s)), nil, ""
	case "AddFooter":
		return errRet(d.AddFooter(pkgKindOf(op.Str("kind")), s)), nil, ""
	case "AddHeaderWithPageNumber":
		return errRet(d.AddHeaderWithPageNumber(pkgKindOf(op.Str("kind")), s, i%2 == 0)), nil, ""
	case "AddFooterWithPageNumber":
		return errRet(d.AddFooterWithPageNumber(pkgKindOf(op.Str("kind")), s, i%2 == 1)), nil, ""
	case "AddFormattedHeader":
		return errRet(d.AddFormattedHeader(pkgKindOf(op.Str("kind")), &document.HeaderFooterConfig{Text: s,
			Format:    &document.TextFormat{Bold: true, FontFamily: pkgIdent(tc, i+1), FontColor: pkgIdent(tc, i+2), Highlight: pkgIdent(tc, i+3)},
			Alignment: document.AlignmentType(pkgIdent(tc, i+4))})), nil, ""
	case "AddFormattedFooter":
		return errRet(d.AddFormattedFooter(pkgKindOf(op.Str("kind")), &document.HeaderFooterConfig{Text: s,
			Format: &document.TextFormat{Italic: true, FontName: pkgIdent(tc, i+1)}, Alignment: document.AlignCenter})), nil, ""
	case "SetDifferentFirstPage":
		d.SetDifferentFirstPage(i%2 == 0)
	case "PageSet":
		return hfPageSet(d, op.Str("which"), i), nil, ""
	// ------------------------------------------------------------------ properties
	case "SetTitle":
		return errRet(d.SetTitle(s)), nil, ""
	case "SetAuthor":
		return errRet(d.SetAuthor(s)), nil, ""
	case "SetSubject":
		return errRet(d.SetSubject(s)), nil, ""
	case "SetKeywords":
		return errRet(d.SetKeywords(s)), nil, ""
	case "SetDescription":
		return errRet(d.SetDescription(s)), nil, ""
	case "SetCategory":
		return errRet(d.SetCategory(s)), nil, ""
	case "SetDocumentProperties":
		return errRet(d.SetDocumentProperties(&document.DocumentProperties{Title: s, Subject: pkgText(tc, i+1), Creator: pkgText(tc, i+2),
			Keywords: pkgText(tc, i+3), Description: pkgText(tc, i+4), Language: pkgIdent(tc, i+5), Category: pkgIdent(tc, i+6),
			Version: pkgIdent(tc, i+7), Revision: pkgIdent(tc, i+8), Created: time.Unix(1700000000, 0).UTC(),
			LastModified: time.Unix(1700000100, 0).UTC(), Pages: 2, Words: 10})), nil, ""
	case "UpdateStatistics":
		return errRet(d.UpdateStatistics()), nil, ""
	case "GetDocumentProperties":
		if _, err := d.GetDocumentProperties(); err != nil {
			return "skip", nil, "" // a read: it neither builds nor edits the document
		}
	// ------------------------------------------------------------------ styles
	case "AddStyle":
		sm := d.GetStyleManager()
		id, nm := pkgIdent(tc, i), pkgIdent(tc, i+1)
		switch op.Str("via") {
		case "custom":
			st := sm.CreateCustomStyle(id, nm, style.StyleTypeParagraph, pkgIdent(tc, i+2))
			st.RunPr = &style.RunProperties{FontFamily: &style.FontFamily{ASCII: pkgIdent(tc, i+3)}, Color: &style.Color{Val: pkgIdent(tc, i+4)}}
		case "quick":
			if _, err := style.NewQuickStyleAPI(sm).CreateQuickStyle(style.QuickStyleConfig{ID: id, Name: nm, Type: style.StyleTypeParagraph,
				BasedOn: "Normal", RunConfig: &style.QuickRunConfig{FontName: pkgIdent(tc, i+2), FontColor: pkgIdent(tc, i+3), Bold: true}}); err != nil {
				return "err", nil, ""
			}
		default:
			sm.AddStyle(&style.Style{Type: "paragraph", StyleID: id, CustomStyle: true, Name: &style.StyleName{Val: nm},
				BasedOn: &style.BasedOn{Val: "Normal"}, Next: &style.Next{Val: pkgIdent(tc, i+2)}})
		}
		d.AddParagraph("styled").SetStyle(id)
		r.lastStyle = id
	case "EditStyle": // a style the manager already holds is edited in place
		sm := d.GetStyleManager()
		var st *style.Style
		cands := []string{"Heading1", "Normal", "Title", "Heading2", "Quote", "Heading3", "Subtitle"}
		if r.lastStyle != "" {
			cands = append(cands, r.lastStyle, r.lastStyle)
		}
		for k := 0; k < len(cands) && st == nil; k++ {
			st = sm.GetStyle(cands[(int(seed)+pkgConc+i+k)%len(cands)])
		}
		if st == nil {
			return "skip", nil, "" // the document has none of them
		}
		switch op.Str("ed") {
		case "name":
			st.Name = &style.StyleName{Val: pkgIdent(tc, i) + " revised " + pkgIdent(tc, i+1)}
		case "run":
			st.RunPr = &style.RunProperties{FontFamily: &style.FontFamily{ASCII: pkgIdent(tc, i), EastAsia: pkgIdent(tc, i+1), HAnsi: pkgIdent(tc, i+2)},
				Bold: &style.Bold{}, Color: &style.Color{Val: pkgIdent(tc, i+3)}, FontSize: &style.FontSize{Val: pkgIdent(tc, i+4)}}
		case "para":
			st.ParagraphPr = &style.ParagraphProperties{KeepNext: &style.KeepNext{}, Shading: &style.Shading{Fill: pkgIdent(tc, i), Val: pkgIdent(tc, i+1)},
				Spacing: &style.Spacing{Before: pkgIdent(tc, i+2), After: "120"}, Justification: &style.Justification{Val: pkgIdent(tc, i+3)},
				Indentation: &style.Indentation{Left: pkgIdent(tc, i+4)}}
		case "strip":
			st.ParagraphPr, st.RunPr, st.Next, st.TablePr = nil, nil, nil, nil
		case "rebase":
			st.BasedOn = &style.BasedOn{Val: pkgIdent(tc, i)}
			st.Next = &style.Next{Val: pkgIdent(tc, i+1)}
		default: // readd: a new definition under the same id
			sm.AddStyle(&style.Style{Type: st.Type, StyleID: st.StyleID, CustomStyle: true, Name: &style.StyleName{Val: pkgIdent(tc, i)},
				BasedOn: &style.BasedOn{Val: "Normal"}, RunPr: &style.RunProperties{Italic: &style.Italic{}, Highlight: &style.Highlight{Val: pkgIdent(tc, i+1)}}})
		}
	case "RemoveStyle":
		d.GetStyleManager().RemoveStyle([...]string{"Heading9", "Quote", "Normal"}[i%3])
	// ------------------------------------------------------------------ images
	case "AddImage":
		data, f := pkgImage(op.Str("fmt"), i)
		name := pkgName(op.Str("nm"), i)
		cfg := &document.ImageConfig{AltText: pkgIdent(op.Str("nm"), i+1), Title: name}
		switch op.Str("via") {
		case "file":
			p, ok := r.writeTemp(name, data)
			if !ok {
				return "skip", nil, "" // the class has no creatable file of that name
			}
			if _, err := d.AddImageFromFile(p, cfg); err != nil {
				return "err", nil, ""
			}
		case "noelem":
			if _, err := d.AddImageFromDataWithoutElement(data, name, f, 2, 2, cfg); err != nil {
				return "err", nil, ""
			}
		default:
			if _, err := d.AddImageFromData(data, name, f, 2, 2, cfg); err != nil {
				return "err", nil, ""
			}
		}
	case "AddImageText": // a picture whose descriptive texts are of the class
		data, f := pkgImage("png", i)
		info, err := d.AddImageFromData(data, "t.png", f, 2, 2, &document.ImageConfig{AltText: s, Title: pkgText(tc, i+1),
			Position: [...]document.ImagePosition{document.ImagePositionInline, document.ImagePositionFloatLeft}[i%2]})
		if err != nil {
			return "err", nil, ""
		}
		d.SetImageAltText(info, pkgText(tc, i+2))
		d.SetImageTitle(info, pkgText(tc, i+3))
	case "AddCellImage":
		data, f := pkgImage(op.Str("fmt"), i)
		name := pkgName(op.Str("nm"), i)
		switch op.Str("via") {
		case "file":
			p, ok := r.writeTemp(name, data)
			if !ok {
				return "skip", nil, ""
			}
			if _, err := d.AddCellImageFromFile(r.tbl(), 0, 0, p, 10); err != nil {
				return "err", nil, ""
			}
		case "cfg":
			if _, err := d.AddCellImage(r.tbl(), 0, 1, &document.CellImageConfig{Data: data, Format: f, Width: 8, AltText: name, Title: name}); err != nil {
				return "err", nil, ""
			}
		default:
			if _, err := d.AddCellImageFromData(r.tbl(), 1, 0, data, 0); err != nil {
				return "err", nil, ""
			}
		}
	// ------------------------------------------------------------------ document templates
	case "AddTemplateBits": // content with placeholders for Render to fill
		if !r.templateBits() {
			return "err", nil, ""
		}
	case "Render":
		if op.Bool("prep") && !r.templateBits() {
			return "err", nil, ""
		}
		d = r.doc
		eng := document.NewTemplateEngine()
		if _, err := eng.LoadTemplateFromDocument("t", d); err != nil {
			return "err", nil, ""
		}
		data := document.NewTemplateData()
		data.SetVariable("v", s)
		data.SetVariable("w", pkgText(tc, i+1))
		data.SetVariable("x", pkgText(tc, i+2))
		data.SetCondition("c", i%2 == 0)
		data.SetList("items", []interface{}{map[string]interface{}{"name": s, "val": pkgText(tc, i+1)}, map[string]interface{}{"name": "n2", "val": pkgText(tc, i+3)}})
		if ic := op.Str("img"); ic != "" && ic != "none" {
			b, _ := pkgImage(ic, i)
			data.SetImageWithDetails("pic", "", b, &document.ImageConfig{AltText: s}, pkgText(tc, i+1), pkgText(tc, i+2))
		}
		var nd *document.Document
		var err error
		switch op.Str("via") {
		case "legacy":
			nd, err = eng.RenderToDocument("t", data)
		case "file": // the renderer opens the template itself, from the file the document was saved to
			f := filepath.Join(r.dir, fmt.Sprintf("t%d.docx", i))
			if err := d.Save(f); err != nil {
				return "err-save", nil, ""
			}
			tr := document.NewTemplateRenderer()
			tr.SetLogging(false)
			if _, err := tr.LoadTemplateFromFile("tf", f); err != nil {
				return "err-open", nil, ""
			}
			nd, err = tr.RenderTemplate("tf", data)
		default:
			nd, err = eng.RenderTemplateToDocument("t", data)
		}
		if err != nil || nd == nil {
			return "err", nil, ""
		}
		r.swap(nd)
	case "RenderText":
		eng := document.NewTemplateEngine()
		content := pkgTemplateText(op.Str("tk"), pkgText(tc, i+4))
		if op.Str("tk") == "block" {
			if _, err := eng.LoadTemplate("base", "Head {{v}}\n{{#block \"body\"}}base body{{/block}}\nTail"); err != nil {
				return "err", nil, ""
			}
		}
		if _, err := eng.LoadTemplate("t", content); err != nil {
			return "err", nil, "" // the engine may reject template text (validation); not a successful call
		}
		data := document.NewTemplateData()
		data.SetVariable("v", s)
		data.SetVariable("w", pkgText(tc, i+1))
		data.SetCondition("c", i%2 == 0)
		data.SetList("items", []interface{}{map[string]interface{}{"name": s, "val": 7}, pkgText(tc, i+2)})
		b, _ := pkgImage("png", i)
		data.SetImageFromData("pic", b, &document.ImageConfig{AltText: s, Title: pkgText(tc, i+3)})
		nd, err := eng.RenderToDocument("t", data)
		if err != nil || nd == nil {
			return "err", nil, ""
		}
		r.swap(nd)
	// ------------------------------------------------------------------ Markdown
	case "ConvertMd":
		src := pkgMarkdown(op.Str("mk"), s, pkgText(tc, i+1))
		opts := markdown.DefaultOptions()
		if i%2 == 1 {
			opts = markdown.HighQualityOptions()
			opts.IgnoreErrors = true
			opts.StrictMode = false
		}
		conv := markdown.NewConverter(opts)
		if op.Str("via") == "file" {
			in, ok := r.writeTemp(fmt.Sprintf("m%d.md", i), []byte(src))
			if !ok {
				return "skip", nil, ""
			}
			out := filepath.Join(r.dir, fmt.Sprintf("md%d.docx", i))
			if err := conv.ConvertFile(in, out, opts); err != nil {
				return "err", nil, ""
			}
			b, err := os.ReadFile(out)
			if err != nil {
				return "err-read", nil, ""
			}
			// ConvertFile is a save entry point of its own; continue on the document it wrote, if it can be opened
			if nd, err := document.Open(out); err == nil {
				r.swap(nd)
			} else {
				r.swap(document.New())
			}
			return "ok", b, "ConvertFile"
		}
		nd, err := conv.ConvertString(src, opts)
		if err != nil || nd == nil {
			return "err", nil, ""
		}
		r.swap(nd)
	// ------------------------------------------------------------------ save / reopen
	case "Save":
		b, ret := r.saveFile(fmt.Sprintf("s%d", i))
		return ret, b, "Save"
	case "ToBytes":
		b, err := d.ToBytes()
		if err != nil {
			return "err", nil, "ToBytes"
		}
		return "ok", b, "ToBytes"
	case "Reopen": // saved, respelt by the producer in between (class sp), opened
		var nd *document.Document
		var b []byte
		f := filepath.Join(r.dir, fmt.Sprintf("r%d.docx", i))
		if op.Str("via") == "file" {
			if err := d.Save(f); err != nil {
				return "err-save", nil, ""
			}
			var err error
			if b, err = os.ReadFile(f); err != nil {
				return "err-read", nil, ""
			}
		} else {
			var err error
			if b, err = d.ToBytes(); err != nil {
				return "err-save", nil, ""
			}
		}
		rb, err := pkgRespell(b, op.Str("sp"), i)
		if err != nil {
			return "skip", nil, "" // what the library saved cannot be respelt (it is judged where it was saved)
		}
		if op.Str("sp") != "asis" {
			r.inp = rb
		}
		if op.Str("via") == "file" {
			if err := os.WriteFile(f, rb, 0o644); err != nil {
				return "skip", nil, ""
			}
			d2, err := document.Open(f)
			if err != nil {
				return "err-open", nil, ""
			}
			nd = d2
		} else {
			d2, err := document.OpenFromMemory(io.NopCloser(bytes.NewReader(rb)))
			if err != nil {
				return "err-open", nil, ""
			}
			nd = d2
		}
		r.swap(nd)
	default:
		return "unknown-op", nil, ""
	}
	return "ok", nil, ""
}

// saveFile saves through Document.Save into a directory that does not exist yet (odd ids) or exists (even).
func (r *pkgRun) saveFile(tag string) ([]byte, string) {
	f := filepath.Join(r.dir, tag+".docx")
	if len(tag)%2 == 1 {
		f = filepath.Join(r.dir, "out-"+tag, "sub", "d.docx")
	}
	if err := r.doc.Save(f); err != nil {
		r.probeDir()
		return nil, "err"
	}
	b, err := os.ReadFile(f)
	if err != nil {
		r.probeDir()
		return nil, "err-read"
	}
	os.Remove(f)
	return b, "ok"
}

// probeDir: a failing Save must be the library's doing, not the scratch directory's (full disk, removed
// directory): if a plain file cannot be written there either, the harness stops as a machinery failure.
func (r *pkgRun) probeDir() {
	p := filepath.Join(r.dir, "probe.tmp")
	if err := os.WriteFile(p, []byte("x"), 0o644); err != nil {
		fmt.Fprintln(os.Stderr, "scratch directory unusable:", err)
		os.Exit(2)
	}
	os.Remove(p)
}

func pkgTemplateText(tk, lit string) string {
	switch tk {
	case "var":
		return "Title: {{v}}\nSecond {{w}} and {{missing}}\n" + lit
	case "cond":
		return "{{#if c}}yes {{v}}{{else}}no {{w}}{{/if}}\n{{#if absent}}x{{/if}}\n" + lit
	case "loop":
		return "{{#each items}}- {{name}} = {{val}} / {{this}} {{@index}}\n{{/each}}\n" + lit
	case "block":
		return "{{extends \"base\"}}\n{{#block \"body\"}}child {{v}} " + lit + "{{/block}}"
	case "image":
		return "before\n{{#image pic}}\nafter {{v}}\n" + lit
	case "literal":
		return lit
	}
	return "Title: {{v}}\n{{#if c}}C{{/if}}\n{{#each items}}{{name}}\n{{/each}}\n{{#image pic}}\n" + lit
}

func pkgMarkdown(mk, s, s2 string) string {
	switch mk {
	case "para":
		return s + "\n\n" + s2 + "\n"
	case "heading":
		return "# " + s + "\n\n## " + s2 + "\n\ntext\n\n### " + s + "\n"
	case "list":
		return "- " + s + "\n- " + s2 + "\n  1. " + s + "\n  2. nested\n\n1. one\n2. " + s2 + "\n"
	case "task":
		return "- [ ] " + s + "\n- [x] " + s2 + "\n"
	case "table":
		return "| a | " + s + " |\n|:--|--:|\n| " + s2 + " | 2 |\n| x | " + s + " |\n"
	case "code":
		return "```go\n" + s + "\nfmt.Println(\"" + s2 + "\")\n```\n\n    indented " + s + "\n\n`" + s2 + "`\n"
	case "quote":
		return "> " + s + "\n> " + s2 + "\n\n---\n"
	case "inline":
		return "**" + s + "** *" + s2 + "* ~~" + s + "~~ [" + s2 + "](http://x/" + s + " \"" + s2 + "\") <" + s + ">\n"
	case "image":
		return "![" + s + "](" + s2 + ")\n\ntext ![alt](img/x.png \"" + s + "\") more\n"
	case "math":
		return "$$\n" + s + " \\frac{a}{b} < c & d\n$$\n\ninline $x < " + s2 + "$ end\n"
	case "footnote":
		return "text[^1] and " + s + "[^n]\n\n[^1]: " + s2 + "\n[^n]: " + s + "\n"
	case "html":
		return "<div>" + s + "</div>\n\n<!-- " + s2 + " -->\n\ntext <b>" + s + "</b> &amp; &#0; &bogus;\n"
	}
	return "# " + s + "\n\n" + s2 + "\n\n- a\n- " + s + "\n\n| h | " + s2 + " |\n|---|---|\n| 1 | 2 |\n\n```\n" + s + "\n```\n\n> q " + s2 + "\n\n$$\nx^2\n$$\n"
}

func runPkg(c Case, emit Emitter) {
	var extra struct {
		Lazy bool `json:"lazy"`
		Conc int  `json:"conc"` // shifts the choice of the concrete string / name within each class
	}
	if len(c.Extra) > 0 {
		json.Unmarshal(c.Extra, &extra)
	}
	pkgConc = extra.Conc
	runPkgPass(c, emit, false)
	if extra.Lazy {
		runPkgPass(c, emit, true)
	}
}

// runPkgPass executes the behaviour once. eager: after every step the document is written through one
// of the save entry points (alternating) and projected; lazy: only where the behaviour itself saves and
// after the last step.
func runPkgPass(c Case, emit Emitter, lazy bool) {
	document.VerifResetGlobals()
	dir, err := os.MkdirTemp("", "wzpkg")
	if err != nil {
		fmt.Fprintln(os.Stderr, "tempdir:", err)
		os.Exit(2)
	}
	defer os.RemoveAll(dir)
	r := &pkgRun{doc: document.New(), dir: dir, cid: c.ID}
	pass := "eager"
	if lazy {
		pass = "lazy"
	}
	emit(Ev{"ev": "reset", "case": c.ID, "pass": pass})
	for i, op := range c.Steps {
		var written []byte
		var entry string
		r.inp = nil
		ret, pmsg := guard(func() string {
			rt, b, e := r.step(op, i)
			written, entry = b, e
			return rt
		})
		if len(pmsg) > 200 {
			pmsg = pmsg[:200]
		}
		ev := Ev{"ev": "step", "case": c.ID, "i": i, "op": op, "ret": ret, "pmsg": pmsg, "pass": pass}
		seen := !lazy || written != nil || i == len(c.Steps)-1
		pkg := pkgEmpty("none")
		if ret == "ok" && written != nil {
			pkg = pkgProject(written)
		} else if seen {
			entry = [...]string{"ToBytes", "Save"}[(c.ID+i)%2]
			sret, _ := guard(func() string {
				var b []byte
				if entry == "Save" {
					var rs string
					b, rs = r.saveFile(fmt.Sprintf("e%d", i))
					if rs != "ok" {
						return "save-error"
					}
				} else {
					var err error
					b, err = r.doc.ToBytes()
					if err != nil {
						return "save-error"
					}
				}
				pkg = pkgProject(b)
				return "ok"
			})
			if sret == "panic" {
				pkg = pkgEmpty("save-panic")
			} else if sret != "ok" {
				pkg = pkgEmpty(sret)
			}
		}
		ev["seen"] = seen
		ev["entry"] = entry
		ev["pkg"] = pkg
		if r.inp != nil {
			ev["inp"] = pkgProject(r.inp)
		} else {
			ev["inp"] = pkgEmpty("none")
		}
		emit(ev)
	}
}
