package main

// "Another producer" for spec module Pkg (property C01): pkgRespell rewrites a package the library
// saved into the spelling class of Pkg.tla (SpellClasses) without changing what the package means -
// relationship targets written absolute / with dot segments, relationship parts and the
// content-types stream with a namespace prefix, another entry order and compression, explicit
// directory entries, additional parts the library has no model of. The result is what Reopen hands
// to Open / OpenFromMemory; it is projected like every saved package and Pkg_Trace.tla checks that
// it satisfies the property itself before anything is charged to the library.
// No oracle logic here.

import (
	"archive/zip"
	"bytes"
	"encoding/xml"
	"fmt"
	"io"
	"path"
	"sort"
	"strings"
)

type pkgEnt struct {
	name string
	data []byte
}

func pkgAttr(s string) string {
	var b bytes.Buffer
	xml.EscapeText(&b, []byte(s))
	return b.String()
}

// pkgSpellTarget writes an internal relationship target of the part src ("" = package root) in the spelling sp.
func pkgSpellTarget(src, target, sp string) string {
	switch sp {
	case "abs":
		return "/" + ResolveTarget(src, target)
	case "dot":
		if strings.HasPrefix(target, "/") || strings.HasPrefix(target, "./") || strings.HasPrefix(target, "../") {
			return target
		}
		return "./" + target
	case "updir":
		if strings.HasPrefix(target, "/") {
			return target
		}
		if src == "" || path.Dir(src) == "." {
			n := ResolveTarget(src, target)
			if k := strings.Index(n, "/"); k > 0 {
				return n[:k] + "/../" + n
			}
			return "./" + n
		}
		return "../" + path.Base(path.Dir(src)) + "/" + target
	}
	return target
}

// pkgEmitRels writes a relationship part; qual = with a namespace prefix, single quotes, Target first.
func pkgEmitRels(src string, rels []Rel, sp string) []byte {
	var b bytes.Buffer
	b.WriteString(`<?xml version="1.0" encoding="UTF-8" standalone="yes"?>` + "\n")
	if sp == "qual" {
		b.WriteString(`<pr:Relationships xmlns:pr='` + nsRel + `'>`)
	} else {
		b.WriteString(`<Relationships xmlns="` + nsRel + `">`)
	}
	for _, r := range rels {
		t := r.Target
		if r.Mode != "External" {
			t = pkgSpellTarget(src, t, sp)
		}
		if sp == "qual" {
			fmt.Fprintf(&b, "\n  <pr:Relationship Target='%s' Type='%s' Id='%s'", pkgAttr(t), pkgAttr(r.Type), pkgAttr(r.ID))
			if r.Mode != "" {
				fmt.Fprintf(&b, " TargetMode='%s'", pkgAttr(r.Mode))
			}
			b.WriteString("></pr:Relationship>")
		} else {
			fmt.Fprintf(&b, `<Relationship Id="%s" Type="%s" Target="%s"`, pkgAttr(r.ID), pkgAttr(r.Type), pkgAttr(t))
			if r.Mode != "" {
				fmt.Fprintf(&b, ` TargetMode="%s"`, pkgAttr(r.Mode))
			}
			b.WriteString("/>")
		}
	}
	if sp == "qual" {
		b.WriteString("\n</pr:Relationships>")
	} else {
		b.WriteString("</Relationships>")
	}
	return b.Bytes()
}

// pkgEmitCT writes the content-types stream from what the independent reader understood of it.
func pkgEmitCT(p *Pkg, qual bool) []byte {
	var exts, names []string
	for e := range p.Defaults {
		exts = append(exts, e)
	}
	for n := range p.Overr {
		names = append(names, n)
	}
	sort.Strings(exts)
	sort.Strings(names)
	var b bytes.Buffer
	b.WriteString(`<?xml version="1.0" encoding="UTF-8" standalone="yes"?>` + "\n")
	if qual {
		b.WriteString(`<t:Types xmlns:t='` + nsCT + `'>`)
		for _, e := range exts {
			fmt.Fprintf(&b, "\n  <t:Default ContentType='%s' Extension='%s'/>", pkgAttr(p.Defaults[e]), pkgAttr(e))
		}
		for _, n := range names {
			fmt.Fprintf(&b, "\n  <t:Override ContentType='%s' PartName='%s'></t:Override>", pkgAttr(p.Overr[n]), pkgAttr(n))
		}
		b.WriteString("\n</t:Types>")
		return b.Bytes()
	}
	b.WriteString(`<Types xmlns="` + nsCT + `">`)
	for _, e := range exts {
		fmt.Fprintf(&b, `<Default Extension="%s" ContentType="%s"/>`, pkgAttr(e), pkgAttr(p.Defaults[e]))
	}
	for _, n := range names {
		fmt.Fprintf(&b, `<Override PartName="%s" ContentType="%s"/>`, pkgAttr(n), pkgAttr(p.Overr[n]))
	}
	b.WriteString("</Types>")
	return b.Bytes()
}

// pkgEmitCTOvr writes a content-types stream that gives every part its type by Override; only the relationship parts keep
// their extension default.
func pkgEmitCTOvr(p *Pkg, drop map[string]bool) []byte {
	var b bytes.Buffer
	b.WriteString(pkgXMLHead + `<Types xmlns="` + nsCT + `">`)
	fmt.Fprintf(&b, `<Default Extension="rels" ContentType="%s"/>`, "application/vnd.openxmlformats-package.relationships+xml")
	for _, n := range p.SortedNames() {
		if n == "[Content_Types].xml" || strings.HasSuffix(n, ".rels") || strings.HasSuffix(n, "/") || drop[n] {
			continue
		}
		if ct := p.ContentType(n); ct != "" {
			fmt.Fprintf(&b, `<Override PartName="/%s" ContentType="%s"/>`, pkgAttr(n), pkgAttr(ct))
		}
	}
	b.WriteString("</Types>")
	return b.Bytes()
}

func pkgQName(n xml.Name) string {
	if n.Space == "" {
		return n.Local
	}
	return n.Space + ":" + n.Local
}

// pkgReserialise writes the same XML document with another serialiser: single-quoted attribute values (with > and " left
// raw), character data in CDATA sections where it can be, > left raw in text, the two forms of an empty element swapped,
// white space inside end tags, comments before and after the root's end tag.
func pkgReserialise(b []byte, salt int) ([]byte, error) {
	dec := xml.NewDecoder(bytes.NewReader(b))
	dec.Strict = true
	var out bytes.Buffer
	var pending *xml.StartElement // start tag not yet closed with > or />
	depth, n := 0, 0
	flush := func() {
		if pending != nil {
			out.WriteString(">")
			pending = nil
		}
	}
	for {
		tok, err := dec.RawToken()
		if err == io.EOF {
			break
		}
		if err != nil {
			return nil, err
		}
		switch t := tok.(type) {
		case xml.ProcInst:
			flush()
			if t.Target == "xml" {
				out.WriteString("<?xml version='1.0' encoding='UTF-8' standalone='yes'?>")
			} else {
				fmt.Fprintf(&out, "<?%s %s?>", t.Target, t.Inst)
			}
		case xml.StartElement:
			flush()
			out.WriteString("<" + pkgQName(t.Name))
			for _, a := range t.Attr {
				out.WriteString("\n " + pkgQName(a.Name) + " = '")
				for i, r := range a.Value {
					switch {
					case r == '>' && i >= 2 && a.Value[i-2:i] == "]]":
						// legal raw in an attribute value, but encoding/xml (the library's reader and this harness's
						// well-formedness check) rejects the sequence ]]> everywhere outside CDATA
						out.WriteString("&gt;")
					case r == '&':
						out.WriteString("&amp;")
					case r == '<':
						out.WriteString("&lt;")
					case r == '\'':
						out.WriteString("&apos;")
					case r == '\t' || r == '\n' || r == '\r':
						fmt.Fprintf(&out, "&#%d;", r)
					default:
						out.WriteRune(r)
					}
				}
				out.WriteString("'")
			}
			c := t.Copy()
			pending = &c
			depth++
		case xml.EndElement:
			depth--
			n++
			if pending != nil {
				// an empty element: the other form than most producers of this tag choose, by turns
				pending = nil
				if (n+salt)%2 == 0 {
					out.WriteString("/>")
					break
				}
				out.WriteString(">")
			}
			if depth == 0 {
				out.WriteString("<!-- end of " + pkgQName(t.Name) + " -->")
			}
			out.WriteString("</" + pkgQName(t.Name) + " >")
		case xml.CharData:
			flush()
			txt := string(t)
			if depth > 0 && strings.TrimSpace(txt) != "" && !strings.Contains(txt, "]]>") && !strings.Contains(txt, "\r") && (len(txt)+salt)%2 == 0 {
				out.WriteString("<![CDATA[" + txt + "]]>")
				break
			}
			for i, r := range txt {
				switch {
				case r == '&':
					out.WriteString("&amp;")
				case r == '<':
					out.WriteString("&lt;")
				case r == '>' && i >= 2 && txt[i-2:i] == "]]":
					out.WriteString("&gt;")
				case r == '\r':
					out.WriteString("&#13;")
				default:
					out.WriteRune(r)
				}
			}
		case xml.Comment:
			flush()
			out.WriteString("<!--" + string(t) + "-->")
		case xml.Directive:
			flush()
			out.WriteString("<!" + string(t) + ">")
		}
	}
	out.WriteString("\n<!-- written by another producer -->\n")
	return out.Bytes(), nil
}

func pkgFreeRelID(rels []Rel, k int) string {
	for n := 900 + k; ; n++ {
		id := fmt.Sprintf("rId%d", n)
		used := false
		for _, r := range rels {
			if r.ID == id {
				used = true
			}
		}
		if !used {
			return id
		}
	}
}

const (
	pkgRelThumb   = "http://schemas.openxmlformats.org/package/2006/relationships/metadata/thumbnail"
	pkgRelCustom  = "http://schemas.openxmlformats.org/officeDocument/2006/relationships/custom-properties"
	pkgRelCXml    = "http://schemas.openxmlformats.org/officeDocument/2006/relationships/customXml"
	pkgRelCXmlPr  = "http://schemas.openxmlformats.org/officeDocument/2006/relationships/customXmlProps"
	pkgRelTheme   = "http://schemas.openxmlformats.org/officeDocument/2006/relationships/theme"
	pkgRelFonts   = "http://schemas.openxmlformats.org/officeDocument/2006/relationships/fontTable"
	pkgXMLHead    = `<?xml version="1.0" encoding="UTF-8" standalone="yes"?>` + "\n"
	pkgCTCustom   = "application/vnd.openxmlformats-officedocument.custom-properties+xml"
	pkgCTCXmlPr   = "application/vnd.openxmlformats-officedocument.customXmlProperties+xml"
	pkgCTTheme    = "application/vnd.openxmlformats-officedocument.theme+xml"
	pkgCTFonts    = "application/vnd.openxmlformats-officedocument.wordprocessingml.fontTable+xml"
	pkgThumbName  = "docProps/thumbnail.jpeg"
	pkgCustomName = "docProps/custom.xml"
)

// pkgRespell returns the package b as a producer of spelling class sp would have written it.
func pkgRespell(b []byte, sp string, salt int) ([]byte, error) {
	if sp == "asis" || sp == "" {
		return b, nil
	}
	zr, err := zip.NewReader(bytes.NewReader(b), int64(len(b)))
	if err != nil {
		return nil, err
	}
	var ents []pkgEnt
	have := map[string]int{}
	for _, f := range zr.File {
		rc, err := f.Open()
		if err != nil {
			return nil, err
		}
		data, err := io.ReadAll(rc)
		rc.Close()
		if err != nil {
			return nil, err
		}
		if _, dup := have[f.Name]; dup {
			return nil, fmt.Errorf("duplicate entry %s", f.Name)
		}
		have[f.Name] = len(ents)
		ents = append(ents, pkgEnt{f.Name, data})
	}
	p := ReadPkg(b)
	if p.ZipErr != "" || p.CTErr != "" {
		return nil, fmt.Errorf("package not readable")
	}
	set := func(name string, data []byte) {
		if k, ok := have[name]; ok {
			ents[k].data = data
			return
		}
		have[name] = len(ents)
		ents = append(ents, pkgEnt{name, data})
	}
	method := zip.Deflate
	switch sp {
	case "abs", "dot", "updir", "qual":
		for k := range ents {
			n := ents[k].name
			if !strings.HasSuffix(n, ".rels") || p.RelsErr[n] != "" {
				continue
			}
			ents[k].data = pkgEmitRels(SourceOfRels(n), p.Rels[n], sp)
		}
		if sp == "qual" {
			set("[Content_Types].xml", pkgEmitCT(p, true))
		}
	case "ovr":
		set("[Content_Types].xml", pkgEmitCTOvr(p, nil))
	case "min":
		// the least a producer must write: the optional parts nothing in the body refers to are absent (style definitions,
		// document properties) and each part is typed by an Override
		drop := map[string]bool{}
		main := p.MainDocName()
		docRels := RelsPartFor(main)
		if p.RelsErr["_rels/.rels"] != "" || p.RelsErr[docRels] != "" {
			return nil, fmt.Errorf("relationship part not readable")
		}
		for _, n := range p.SortedNames() {
			ct := p.ContentType(n)
			if strings.HasSuffix(ct, ".core-properties+xml") || strings.HasSuffix(ct, ".extended-properties+xml") || strings.HasSuffix(ct, ".wordprocessingml.styles+xml") {
				drop[n] = true
			}
		}
		keep := func(src string, rels []Rel) []Rel {
			var out []Rel
			for _, r := range rels {
				if r.Mode != "External" && (drop[ResolveTarget(src, r.Target)] || r.Type == relStyles ||
					strings.HasSuffix(r.Type, "/core-properties") || strings.HasSuffix(r.Type, "/extended-properties")) {
					drop[ResolveTarget(src, r.Target)] = true
					continue
				}
				out = append(out, r)
			}
			return out
		}
		pr, dr := keep("", p.Rels["_rels/.rels"]), keep(main, p.Rels[docRels])
		set("_rels/.rels", pkgEmitRels("", pr, ""))
		if _, ok := have[docRels]; ok {
			set(docRels, pkgEmitRels(main, dr, ""))
		}
		set("[Content_Types].xml", pkgEmitCTOvr(p, drop))
		var left []pkgEnt
		for _, e := range ents {
			if !drop[e.name] {
				left = append(left, e)
			}
		}
		ents = left
	case "xmlser":
		for k := range ents {
			n := ents[k].name
			if n == "[Content_Types].xml" || strings.HasSuffix(n, ".rels") || !p.IsXMLPart(n) {
				continue
			}
			if rb, err := pkgReserialise(ents[k].data, salt+k); err == nil {
				ents[k].data = rb
			}
		}
	case "order":
		sort.SliceStable(ents, func(i, j int) bool {
			ci, cj := ents[i].name == "[Content_Types].xml", ents[j].name == "[Content_Types].xml"
			if ci != cj {
				return cj
			}
			return ents[i].name > ents[j].name
		})
		method = zip.Store
	case "dirs":
		seen := map[string]bool{}
		var dirs []pkgEnt
		for _, e := range ents {
			for d := path.Dir(e.name); d != "." && d != "/" && !seen[d]; d = path.Dir(d) {
				seen[d] = true
				dirs = append(dirs, pkgEnt{d + "/", nil})
			}
		}
		sort.Slice(dirs, func(i, j int) bool { return dirs[i].name < dirs[j].name })
		ents = append(dirs, ents...)
	case "extra":
		if _, ok := have[pkgThumbName]; ok {
			break // the package already carries them
		}
		main := p.MainDocName()
		docRels := RelsPartFor(main)
		if p.RelsErr["_rels/.rels"] != "" || p.RelsErr[docRels] != "" {
			return nil, fmt.Errorf("relationship part not readable")
		}
		if _, ok := p.Defaults["jpeg"]; !ok {
			p.Defaults["jpeg"] = "image/jpeg"
		}
		if _, ok := p.Defaults["xml"]; !ok {
			p.Defaults["xml"] = "application/xml"
		}
		if _, ok := p.Defaults["rels"]; !ok {
			p.Defaults["rels"] = "application/vnd.openxmlformats-package.relationships+xml"
		}
		dir := path.Dir(main)
		p.Overr["/"+pkgCustomName] = pkgCTCustom
		p.Overr["/customXml/itemProps1.xml"] = pkgCTCXmlPr
		p.Overr["/"+dir+"/theme/theme1.xml"] = pkgCTTheme
		p.Overr["/"+dir+"/fontTable.xml"] = pkgCTFonts
		set(pkgThumbName, tinyJPEGSize(salt, 4, 3))
		set(pkgCustomName, []byte(pkgXMLHead+`<Properties xmlns="http://schemas.openxmlformats.org/officeDocument/2006/custom-properties" `+
			`xmlns:vt="http://schemas.openxmlformats.org/officeDocument/2006/docPropsVTypes"><property fmtid="{D5CDD505-2E9C-101B-9397-08002B2CF9AE}" `+
			`pid="2" name="Project"><vt:lpwstr>wz &amp; co</vt:lpwstr></property></Properties>`))
		set("customXml/item1.xml", []byte(pkgXMLHead+`<b:Sources xmlns:b="http://schemas.openxmlformats.org/officeDocument/2006/bibliography" SelectedStyle="\APA.XSL"/>`))
		set("customXml/itemProps1.xml", []byte(pkgXMLHead+`<ds:datastoreItem xmlns:ds="http://schemas.openxmlformats.org/officeDocument/2006/customXml" `+
			`ds:itemID="{0F9A3C1B-1111-4222-8333-444455556666}"><ds:schemaRefs/></ds:datastoreItem>`))
		set("customXml/_rels/item1.xml.rels", pkgEmitRels("customXml/item1.xml", []Rel{{ID: "rId1", Type: pkgRelCXmlPr, Target: "itemProps1.xml"}}, ""))
		set(dir+"/theme/theme1.xml", []byte(pkgXMLHead+`<a:theme xmlns:a="`+nsA+`" name="Office"><a:themeElements/></a:theme>`))
		set(dir+"/fontTable.xml", []byte(pkgXMLHead+`<w:fonts xmlns:w="`+nsW+`"><w:font w:name="Calibri"><w:charset w:val="00"/></w:font></w:fonts>`))
		pr := p.Rels["_rels/.rels"]
		pr = append(pr, Rel{ID: pkgFreeRelID(pr, 0), Type: pkgRelThumb, Target: pkgThumbName})
		pr = append(pr, Rel{ID: pkgFreeRelID(pr, 1), Type: pkgRelCustom, Target: pkgCustomName})
		dr := p.Rels[docRels]
		dr = append(dr, Rel{ID: pkgFreeRelID(dr, 0), Type: pkgRelTheme, Target: "theme/theme1.xml"})
		dr = append(dr, Rel{ID: pkgFreeRelID(dr, 1), Type: pkgRelFonts, Target: "fontTable.xml"})
		dr = append(dr, Rel{ID: pkgFreeRelID(dr, 2), Type: pkgRelCXml, Target: "../customXml/item1.xml"})
		set("_rels/.rels", pkgEmitRels("", pr, ""))
		set(docRels, pkgEmitRels(main, dr, ""))
		set("[Content_Types].xml", pkgEmitCT(p, false))
	default:
		return nil, fmt.Errorf("unknown spelling %q", sp)
	}
	var out bytes.Buffer
	zw := zip.NewWriter(&out)
	for _, e := range ents {
		m := method
		if strings.HasSuffix(e.name, "/") {
			m = zip.Store
		}
		w, err := zw.CreateHeader(&zip.FileHeader{Name: e.name, Method: m})
		if err != nil {
			return nil, err
		}
		if _, err := w.Write(e.data); err != nil {
			return nil, err
		}
	}
	if err := zw.Close(); err != nil {
		return nil, err
	}
	return out.Bytes(), nil
}
