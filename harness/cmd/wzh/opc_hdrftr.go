package main

// Projection of a saved package to the abstract package state of spec module HdrFtr
// (property C11). Built only on the independent reader (ReadPkg / ParseXML / Node);
// knows nothing of the library's structs. No judgement happens here.
//
//	pkg   = {ok, refs:[ref], rels:[rel], parts:[part], titlePg, evenOdd}
//	ref   = {hf:"h"|"f", kind, rid}                 references of the final section settings
//	rel   = {id, ty:"header"|"footer"|"other", tgt}  relationships of the main part (tgt resolved)
//	part  = {name, ok, root, ct, c:{np, align, items:[item]}}
//	item  = {k, tc, n, f:{b,i,u,st,color,sz,font,hl}}

import (
	"archive/zip"
	"bytes"
	"fmt"
	"sort"
	"strconv"
	"strings"
)

type hfM = map[string]interface{}

// hfTok is the abstract name of a text the harness generated: class and serial.
type hfTok struct {
	tc string
	n  int
}

func hfNoFmt() hfM {
	return hfM{"b": false, "i": false, "u": false, "st": false, "color": "", "sz": 0, "font": "", "hl": ""}
}

func hfEmptyPkg(ok string) hfM {
	return hfM{"ok": ok, "refs": []hfM{}, "rels": []hfM{}, "parts": []hfM{}, "titlePg": false, "evenOdd": false}
}

// hfOn interprets an on/off element (present without val, or val not false/0/off).
func hfOn(n *Node) bool {
	if n == nil {
		return false
	}
	switch strings.ToLower(n.A("val")) {
	case "false", "0", "off", "none":
		return false
	}
	return true
}

func hfRunFmt(r *Node) hfM {
	f := hfNoFmt()
	pr := r.Child("rPr")
	if pr == nil {
		return f
	}
	f["b"] = hfOn(pr.Child("b"))
	f["i"] = hfOn(pr.Child("i"))
	f["u"] = hfOn(pr.Child("u"))
	f["st"] = hfOn(pr.Child("strike"))
	if c := pr.Child("color"); c != nil {
		f["color"] = c.A("val")
	}
	if s := pr.Child("sz"); s != nil {
		v, err := strconv.Atoi(s.A("val"))
		if err != nil {
			v = -1
		}
		f["sz"] = v
	}
	if rf := pr.Child("rFonts"); rf != nil {
		font, mixed := "", false
		for _, a := range []string{"ascii", "hAnsi", "eastAsia", "cs"} {
			if !rf.HasA(a) {
				continue
			}
			if font == "" {
				font = rf.A(a)
			} else if rf.A(a) != font {
				mixed = true
			}
		}
		if mixed {
			font = "?mixed"
		}
		f["font"] = font
	}
	if h := pr.Child("highlight"); h != nil {
		f["hl"] = h.A("val")
	}
	return f
}

func hfKeyword(instr string) string {
	fs := strings.Fields(instr)
	if len(fs) == 0 {
		return ""
	}
	return strings.ToUpper(fs[0])
}

// hfContent projects the root of a header/footer part.
func hfContent(root *Node, texts map[string]hfTok) hfM {
	items := []hfM{}
	mark := func(k, tc string) { items = append(items, hfM{"k": k, "tc": tc, "n": 0, "f": hfNoFmt()}) }
	paras := root.Desc("p")
	align := ""
	if len(paras) > 0 {
		align = paras[0].Path("pPr", "jc").A("val")
	}
	var walkRun func(r *Node)
	walkRun = func(r *Node) {
		for _, k := range r.Kids {
			switch k.Local {
			case "t":
				if k.Text == "" {
					continue
				}
				if tok, ok := texts[k.Text]; ok {
					items = append(items, hfM{"k": "t", "tc": tok.tc, "n": tok.n, "f": hfRunFmt(r)})
				} else {
					mark("lit", "")
				}
			case "fldChar":
				switch k.A("fldCharType") {
				case "begin":
					mark("fb", "")
				case "separate":
					mark("fs", "")
				case "end":
					mark("fe", "")
				default:
					mark("f?", k.A("fldCharType"))
				}
			case "instrText":
				mark("instr", hfKeyword(k.Text))
			}
		}
	}
	var walk func(x *Node)
	walk = func(x *Node) {
		for _, k := range x.Kids {
			switch k.Local {
			case "r":
				walkRun(k)
			case "fldSimple":
				mark("fsimple", hfKeyword(k.A("instr")))
				walk(k)
			default:
				walk(k)
			}
		}
	}
	walk(root)
	return hfM{"np": len(paras), "align": align, "items": items}
}

func hfCT(ct string) string {
	switch {
	case ct == "":
		return "none"
	case strings.HasSuffix(ct, "wordprocessingml.header+xml"):
		return "header"
	case strings.HasSuffix(ct, "wordprocessingml.footer+xml"):
		return "footer"
	}
	return "other"
}

// hfProject reads a written package.
func hfProject(b []byte, texts map[string]hfTok) hfM {
	p := ReadPkg(b)
	if p.ZipErr != "" {
		return hfEmptyPkg("zip")
	}
	body, err := p.MainBody()
	if err != nil {
		return hfEmptyPkg("xml")
	}
	out := hfEmptyPkg("ok")
	main := p.MainDocName()

	// the section settings of the document: the last sectPr child of the body
	var sect *Node
	for _, k := range body.Kids {
		if k.Local == "sectPr" {
			sect = k
		}
	}
	refs := []hfM{}
	if sect != nil {
		for _, k := range sect.Kids {
			switch k.Local {
			case "headerReference":
				refs = append(refs, hfM{"hf": "h", "kind": k.A("type"), "rid": k.A("id")})
			case "footerReference":
				refs = append(refs, hfM{"hf": "f", "kind": k.A("type"), "rid": k.A("id")})
			case "titlePg":
				out["titlePg"] = hfOn(k)
			}
		}
	}
	out["refs"] = refs

	relsName := RelsPartFor(main)
	if msg, bad := p.RelsErr[relsName]; bad && msg != "" {
		return hfEmptyPkg("rels")
	}
	rels := []hfM{}
	hfTargets := map[string]bool{}
	for _, r := range p.Rels[relsName] {
		ty := "other"
		switch r.Type {
		case relHeader:
			ty = "header"
		case relFooter:
			ty = "footer"
		}
		tgt := r.Target
		if r.Mode != "External" {
			tgt = ResolveTarget(main, r.Target)
		} else {
			tgt = "external:" + tgt
		}
		if ty != "other" {
			hfTargets[tgt] = true
		}
		rels = append(rels, hfM{"id": r.ID, "ty": ty, "tgt": tgt})
	}
	out["rels"] = rels

	names := map[string]bool{}
	for n := range p.Parts {
		if strings.HasSuffix(n, ".xml") && (strings.HasPrefix(n, "word/header") || strings.HasPrefix(n, "word/footer")) {
			names[n] = true
		}
		if hfTargets[n] {
			names[n] = true
		}
	}
	var sorted []string
	for n := range names {
		sorted = append(sorted, n)
	}
	sort.Strings(sorted)
	parts := []hfM{}
	for _, n := range sorted {
		part := hfM{"name": n, "ok": false, "root": "", "ct": hfCT(p.ContentType(n)),
			"c": hfM{"np": 0, "align": "", "items": []hfM{}}}
		if root, err := ParseXML(p.Parts[n]); err == nil {
			part["ok"] = true
			part["root"] = root.Local
			part["c"] = hfContent(root, texts)
		}
		parts = append(parts, part)
	}
	out["parts"] = parts

	// even/odd switch of the settings part (the library has no call that sets it)
	for _, r := range p.Rels[relsName] {
		if strings.HasSuffix(r.Type, "/settings") && r.Mode != "External" {
			if data, ok := p.Parts[ResolveTarget(main, r.Target)]; ok {
				if root, err := ParseXML(data); err == nil {
					out["evenOdd"] = hfOn(root.Child("evenAndOddHeaders"))
				}
			}
		}
	}
	return out
}

// hfWordNames rewrites a package into an equivalent one whose header/footer parts are numbered the
// way Word numbers them (header1.xml, header2.xml, ... / footer1.xml, ...), here in the order of kind
// first, even, default. Part names, relationship targets and content-type overrides are renamed
// consistently; nothing else changes.
func hfWordNames(b []byte) ([]byte, error) { return hfWordNamesSpelt(b, "") }

// hfWordNamesSpelt: as hfWordNames; the targets of the header/footer relationships are written relative ("header1.xml",
// spelling ""), as absolute part names ("/word/header1.xml", spelling "abs") or with a leading dot segment
// ("./header1.xml", spelling "dot") - three legal spellings of the same part.
func hfWordNamesSpelt(b []byte, spelling string) ([]byte, error) {
	p := ReadPkg(b)
	if p.ZipErr != "" {
		return nil, fmt.Errorf("zip: %s", p.ZipErr)
	}
	body, err := p.MainBody()
	if err != nil {
		return nil, err
	}
	main := p.MainDocName()
	relsName := RelsPartFor(main)
	target := map[string]string{} // relationship id -> raw target
	// an earlier step may have left the targets in another legal spelling ("./header1.xml", "/word/header1.xml"):
	// the part is the same, so the renaming works on the plain relative spelling
	plain := func(t string) string {
		if strings.HasPrefix(t, "./") {
			return t[2:]
		}
		if strings.HasPrefix(t, "/word/") {
			return t[len("/word/"):]
		}
		return t
	}
	for _, r := range p.Rels[relsName] {
		if (r.Type == relHeader || r.Type == relFooter) && r.Mode != "External" {
			target[r.ID] = plain(r.Target)
		}
	}
	var sect *Node
	for _, k := range body.Kids {
		if k.Local == "sectPr" {
			sect = k
		}
	}
	rank := map[string]int{"first": 0, "even": 1, "default": 2}
	type ref struct {
		el, kind, tgt string
	}
	var refs []ref
	if sect != nil {
		for _, k := range sect.Kids {
			if k.Local == "headerReference" || k.Local == "footerReference" {
				if t, ok := target[k.A("id")]; ok && !strings.Contains(t, "/") {
					refs = append(refs, ref{k.Local, k.A("type"), t})
				}
			}
		}
	}
	sort.SliceStable(refs, func(i, j int) bool { return rank[refs[i].kind] < rank[refs[j].kind] })
	ren := map[string]string{} // old file name -> new file name (both relative to word/)
	n := map[string]int{}
	for _, r := range refs {
		if _, done := ren[r.tgt]; done {
			continue
		}
		prefix := "header"
		if r.el == "footerReference" {
			prefix = "footer"
		}
		n[prefix]++
		ren[r.tgt] = fmt.Sprintf("%s%d.xml", prefix, n[prefix])
	}
	// two-phase textual renaming of Target="x" / PartName="/word/x" so that swaps work
	var olds []string
	for o := range ren {
		olds = append(olds, o)
	}
	sort.Strings(olds)
	taken := map[string]bool{}
	for _, o := range olds {
		taken[ren[o]] = true
	}
	swap := func(data []byte, pre string) []byte {
		s := string(data)
		for i, o := range olds {
			s = strings.ReplaceAll(s, pre+o+`"`, fmt.Sprintf("%s@@%d@@\"", pre, i))
		}
		for i, o := range olds {
			s = strings.ReplaceAll(s, fmt.Sprintf("%s@@%d@@\"", pre, i), pre+ren[o]+`"`)
		}
		return []byte(s)
	}
	var buf bytes.Buffer
	zw := zip.NewWriter(&buf)
	for _, name := range p.SortedNames() {
		data := p.Parts[name]
		out := name
		if strings.HasPrefix(name, "word/") {
			base := strings.TrimPrefix(name, "word/")
			if nn, ok := ren[base]; ok {
				out = "word/" + nn
			} else if taken[base] {
				continue // an unreferenced part whose name a referenced part now takes
			}
		}
		switch name {
		case relsName:
			t0 := string(data)
			for _, r := range p.Rels[relsName] {
				if (r.Type == relHeader || r.Type == relFooter) && r.Mode != "External" && plain(r.Target) != r.Target {
					t0 = strings.ReplaceAll(t0, `Target="`+r.Target+`"`, `Target="`+plain(r.Target)+`"`)
				}
			}
			data = swap([]byte(t0), `Target="`)
			if spelling != "" {
				t := string(data)
				for _, nn := range ren {
					pre := "./"
					if spelling == "abs" {
						pre = "/word/"
					}
					t = strings.ReplaceAll(t, `Target="`+nn+`"`, `Target="`+pre+nn+`"`)
				}
				data = []byte(t)
			}
		case "[Content_Types].xml":
			data = swap(data, `PartName="/word/`)
		}
		w, err := zw.Create(out)
		if err != nil {
			return nil, err
		}
		if _, err := w.Write(data); err != nil {
			return nil, err
		}
	}
	if err := zw.Close(); err != nil {
		return nil, err
	}
	return buf.Bytes(), nil
}
