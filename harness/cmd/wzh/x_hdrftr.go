package main

// Executor for spec module HdrFtr (property C11): maps the abstract operations to the
// public header/footer API (and the calls they are interleaved with), writes the package
// and projects it with opc_hdrftr.go. No oracle logic.

import (
	"bytes"
	"encoding/json"
	"fmt"
	"io"
	"os"
	"path/filepath"
	"strings"

	"github.com/zerx-lab/wordZero/pkg/document"
)

func init() { register("hdrftr", runHdrFtr) }

const hfVarValue = "R&D <1>" // value of the template variable v

// hfTextFor concretises a text class for the call with serial n and registers the
// strings under which the independent reader may meet it again.
func hfTextFor(tc string, n int, texts map[string]hfTok) string {
	v := int(seed+int64(n)) % 2
	var s string
	switch tc {
	case "empty":
		return ""
	case "plain":
		s = [...]string{"T%d", "Header text no %d."}[v]
	case "meta":
		s = [...]string{`<a&b>"%d"'`, `]]>&amp;%d<w:t>`}[v]
	case "cjk":
		s = [...]string{"页眉%d标题", "第%d章 概述"}[v]
	case "edge":
		s = [...]string{"  e%d  ", "\te%d "}[v]
	case "var":
		s = [...]string{"V%d {{v}}", "{{v}}-%d"}[v]
	default:
		s = "?%d"
	}
	s = fmt.Sprintf(s, n)
	texts[s] = hfTok{tc, n}
	if tc == "var" {
		texts[strings.ReplaceAll(s, "{{v}}", hfVarValue)] = hfTok{"varsub", n}
	}
	return s
}

func hfFormat(m map[string]interface{}) *document.TextFormat {
	if m == nil {
		return nil
	}
	o := Op(m)
	if o.Bool("nil") {
		return nil
	}
	color := o.Str("color")
	if o.Bool("hash") {
		color = "#" + color
	}
	return &document.TextFormat{Bold: o.Bool("b"), Italic: o.Bool("i"), Underline: o.Bool("u"), Strike: o.Bool("st"),
		FontSize: o.Int("size"), FontColor: color, FontFamily: o.Str("ff"), FontName: o.Str("fn"), Highlight: o.Str("hl")}
}

func hfPageSet(d *document.Document, which string, i int) string {
	switch which {
	case "SetPageSettings":
		s := document.DefaultPageSettings()
		s.Size = document.PageSizeLetter
		s.Orientation = document.OrientationLandscape
		return errRet(d.SetPageSettings(s))
	case "SetPageSize":
		return errRet(d.SetPageSize([...]document.PageSize{document.PageSizeA3, document.PageSizeLetter}[i%2]))
	case "SetCustomPageSize":
		return errRet(d.SetCustomPageSize(150, 200))
	case "SetPageOrientation":
		return errRet(d.SetPageOrientation(document.OrientationLandscape))
	case "SetPageMargins":
		return errRet(d.SetPageMargins(20, 15, 20, 15))
	case "SetHeaderFooterDistance":
		return errRet(d.SetHeaderFooterDistance(10, 12))
	case "SetGutterWidth":
		return errRet(d.SetGutterWidth(5))
	case "SetDocGrid":
		return errRet(d.SetDocGrid(document.DocGridLines, 312, 0))
	case "ClearDocGrid":
		return errRet(d.ClearDocGrid())
	case "GetPageSettings":
		d.GetPageSettings()
		return "ok"
	}
	return "unknown-op"
}

func runHdrFtr(c Case, emit Emitter) {
	document.VerifResetGlobals()
	var extra struct {
		Lazy bool `json:"lazy"`
	}
	if len(c.Extra) > 0 {
		json.Unmarshal(c.Extra, &extra)
	}
	doc := document.New()
	texts := map[string]hfTok{}
	dir, err := os.MkdirTemp("", "wzhf")
	if err != nil {
		fmt.Fprintln(os.Stderr, "tempdir:", err)
		os.Exit(2)
	}
	defer os.RemoveAll(dir)
	emit(Ev{"ev": "reset", "case": c.ID})
	for i, op := range c.Steps {
		n := i + 1
		var written []byte // what a Save / ToBytes step itself produced
		ret, pmsg := guard(func() string {
			name := op.Name()
			kind := document.HeaderFooterType(op.Str("kind"))
			switch name {
			case "AddHeader":
				return errRet(doc.AddHeader(kind, hfTextFor(op.Str("tc"), n, texts)))
			case "AddFooter":
				return errRet(doc.AddFooter(kind, hfTextFor(op.Str("tc"), n, texts)))
			case "AddHeaderWithPageNumber":
				return errRet(doc.AddHeaderWithPageNumber(kind, hfTextFor(op.Str("tc"), n, texts), op.Bool("show")))
			case "AddFooterWithPageNumber":
				return errRet(doc.AddFooterWithPageNumber(kind, hfTextFor(op.Str("tc"), n, texts), op.Bool("show")))
			case "AddFormattedHeader", "AddFormattedFooter":
				var cfg *document.HeaderFooterConfig
				if !op.Bool("cfgnil") {
					fm, _ := op["fmt"].(map[string]interface{})
					cfg = &document.HeaderFooterConfig{Text: hfTextFor(op.Str("tc"), n, texts), Format: hfFormat(fm),
						Alignment: document.AlignmentType(op.Str("align"))}
				}
				if name == "AddFormattedHeader" {
					return errRet(doc.AddFormattedHeader(kind, cfg))
				}
				return errRet(doc.AddFormattedFooter(kind, cfg))
			case "SetDifferentFirstPage":
				doc.SetDifferentFirstPage(op.Bool("b"))
			case "PageSet":
				return hfPageSet(doc, op.Str("which"), i)
			case "AddImage":
				if _, err := doc.AddImageFromData(tinyPNG(i), fmt.Sprintf("pic%d.png", i), document.ImageFormatPNG, 2, 2, nil); err != nil {
					return "err"
				}
			case "AddListItem":
				doc.AddListItem(fmt.Sprintf("item %d", n), nil)
			case "AddFootnote":
				return errRet(doc.AddFootnote(fmt.Sprintf("body %d", n), fmt.Sprintf("note %d", n)))
			case "AddParagraph":
				doc.AddParagraph(fmt.Sprintf("body %d", n))
			case "AddTable":
				if _, err := doc.AddTable(&document.TableConfig{Rows: 1, Cols: 2, Width: 4000}); err != nil {
					return "err"
				}
			case "Save":
				f := filepath.Join(dir, fmt.Sprintf("s%d.docx", i))
				if err := doc.Save(f); err != nil {
					return "err"
				}
				b, err := os.ReadFile(f)
				if err != nil {
					return "err-read"
				}
				written = b
			case "ToBytes":
				b, err := doc.ToBytes()
				if err != nil {
					return "err"
				}
				written = b
			case "Reopen":
				var nd *document.Document
				if op.Str("via") == "file" {
					f := filepath.Join(dir, fmt.Sprintf("r%d.docx", i))
					if err := doc.Save(f); err != nil {
						return "err-save"
					}
					d2, err := document.Open(f)
					if err != nil {
						return "err-open"
					}
					nd = d2
				} else {
					b, err := doc.ToBytes()
					if err != nil {
						return "err-save"
					}
					if v := op.Str("via"); strings.HasPrefix(v, "word") {
						if b, err = hfWordNamesSpelt(b, strings.TrimPrefix(v, "word")); err != nil {
							return "err-rename"
						}
					}
					d2, err := document.OpenFromMemory(io.NopCloser(bytes.NewReader(b)))
					if err != nil {
						return "err-open"
					}
					nd = d2
				}
				doc = nd
			case "Render":
				eng := document.NewTemplateEngine()
				if _, err := eng.LoadTemplateFromDocument("t", doc); err != nil {
					return "err-load"
				}
				data := document.NewTemplateData()
				if op.Str("data") == "def" {
					data.SetVariable("v", hfVarValue)
				}
				var nd *document.Document
				var err error
				if op.Str("via") == "legacy" {
					nd, err = eng.RenderToDocument("t", data)
				} else {
					nd, err = eng.RenderTemplateToDocument("t", data)
				}
				if err != nil || nd == nil {
					return "err-render"
				}
				doc = nd
			default:
				return "unknown-op"
			}
			return "ok"
		})
		ev := Ev{"ev": "step", "case": c.ID, "i": i, "op": op, "ret": ret, "pmsg": pmsg, "lazy": extra.Lazy}
		seen := !extra.Lazy || written != nil || i == len(c.Steps)-1
		pkg := hfEmptyPkg("none")
		if seen {
			_, _ = guard(func() string {
				b := written
				if b == nil {
					var err error
					b, err = doc.ToBytes()
					if err != nil {
						pkg = hfEmptyPkg("save-error")
						return ""
					}
				}
				pkg = hfProject(b, texts)
				return ""
			})
			if pkg["ok"] == "none" {
				pkg = hfEmptyPkg("save-panic")
			}
		}
		ev["seen"] = seen
		ev["pkg"] = pkg
		emit(ev)
	}
}
