package main

// Concurrent executors for spec module Engine (property C17).
//
//	enginegate       forces a TLC-generated schedule on two or three goroutines sharing one
//	                 engine: document.VerifHook parks a thread at every "engine.*" point and
//	                 the scheduler releases one thread at a time. If the library carries no
//	                 hook points the same schedule degrades to a call-level interleaving.
//	enginefree       runs the same programs free-running, several rounds, in a child process
//	                 (meant for the -race build); the parent reads the child's observations
//	                 and stderr (race reports, fatal errors).
//	enginefreechild  the child.
//
// Observation: one "conc" line per run with every call (thread, index, operation, result,
// begin/end stamps of a global clock), what every name renders afterwards, race sites.

import (
	"bufio"
	"bytes"
	"encoding/json"
	"fmt"
	"os"
	"os/exec"
	"regexp"
	"runtime"
	"sort"
	"strconv"
	"strings"
	"sync"
	"sync/atomic"
	"time"

	"github.com/zerx-lab/wordZero/pkg/document"
)

func init() {
	register("enginegate", runEngineGate)
	register("enginefree", runEngineFree)
	register("enginefreechild", runEngineFreeChild)
}

type engConcCase struct {
	Setup []Op     `json:"setup"`
	Progs [][]Op   `json:"progs"`
	Sched []Op     `json:"sched"`
	Names []string `json:"names"`
	PData Op       `json:"pdata"`
}

type engCallRec struct {
	T   int    `json:"t"`
	I   int    `json:"i"`
	Op  Op     `json:"op"`
	Ret string `json:"ret"`
	Res engRes `json:"res"`
	B   int64  `json:"b"`
	E   int64  `json:"e"`
}

func engGoID() int64 {
	var buf [64]byte
	n := runtime.Stack(buf[:], false)
	f := strings.Fields(string(buf[:n]))
	if len(f) < 2 {
		return -1
	}
	id, _ := strconv.ParseInt(f[1], 10, 64)
	return id
}

// ---- gate scheduler ---------------------------------------------------------------

type engThread struct {
	idx    int
	resume chan struct{}
	parked chan string // "op" (at an operation boundary), "gate:<point>", "done"
	where  string      // scheduler's view: "op" | "gate" | "running" | "done"
}

type engGate struct {
	open    int32
	fired   int32
	mu      sync.Mutex
	threads map[int64]*engThread
}

var engCurGate atomic.Value // *engGate

func engHook(point string) {
	if !strings.HasPrefix(point, "engine.") {
		return
	}
	g, _ := engCurGate.Load().(*engGate)
	if g == nil || atomic.LoadInt32(&g.open) == 1 {
		return
	}
	g.mu.Lock()
	th := g.threads[engGoID()]
	g.mu.Unlock()
	if th == nil {
		return
	}
	atomic.AddInt32(&g.fired, 1)
	th.parked <- "gate:" + point
	<-th.resume
}

const engStepWait = 400 * time.Millisecond

// await waits for the thread's next report; false = it is blocked (on a lock of the library).
func (th *engThread) await(d time.Duration) bool {
	select {
	case m := <-th.parked:
		switch {
		case m == "op":
			th.where = "op"
		case m == "done":
			th.where = "done"
		default:
			th.where = "gate"
		}
		return true
	case <-time.After(d):
		th.where = "running"
		return false
	}
}

func (th *engThread) release(d time.Duration) bool {
	th.resume <- struct{}{}
	return th.await(d)
}

func engRunProgram(ctx *engCtx, th *engThread, g *engGate, prog []Op, clk *int64, out *[]engCallRec, mu *sync.Mutex, barrier func()) {
	// harness-side preparation of every operation comes first: nothing but the calls runs once the threads are released
	preps := make([]engPrepped, len(prog))
	for i, op := range prog {
		preps[i] = ctx.prep(op)
	}
	if barrier != nil {
		barrier()
	}
	for i, op := range prog {
		var td *document.TemplateData
		if op.Name() == "Render" {
			td = engData(engOpData(op))
		}
		if g != nil && atomic.LoadInt32(&g.open) == 0 {
			th.parked <- "op"
			<-th.resume
		}
		b := atomic.AddInt64(clk, 1)
		ret, _, res, _ := ctx.engCall(op, preps[i], td)
		e := atomic.AddInt64(clk, 1)
		mu.Lock()
		*out = append(*out, engCallRec{T: th.idx, I: i + 1, Op: op, Ret: ret, Res: res, B: b, E: e})
		mu.Unlock()
	}
}

func engConcParse(c Case) (engConcCase, error) {
	var cc engConcCase
	if len(c.Extra) == 0 {
		return cc, fmt.Errorf("case %d has no concurrent part", c.ID)
	}
	err := json.Unmarshal(c.Extra, &cc)
	return cc, err
}

func engConcSetup(cc engConcCase) *engCtx {
	ctx := engNewCtx()
	if len(cc.Names) > 0 {
		ctx.names = append([]string(nil), cc.Names...)
		sort.Strings(ctx.names)
	}
	if cc.PData != nil {
		ctx.probe = Op{"data": map[string]interface{}(cc.PData)}
	}
	for _, op := range cc.Setup {
		ctx.engCall(op, ctx.prep(op), nil)
	}
	// reference observations: every render of the programs whose list items are of a kind the documentation does not
	// cover, done alone before the threads start (the judge demands of such renders that they repeat, not a text)
	ctx.pre = []engPreRec{}
	seen := map[string]bool{}
	for _, prog := range cc.Progs {
		for _, op := range prog {
			d := engOpData(op)
			if op.Name() != "Render" || d["ik"] == "map" || d["ik"] == nil {
				continue
			}
			k, _ := json.Marshal([]interface{}{op.Str("n"), op.Str("e"), d})
			if seen[string(k)] {
				continue
			}
			seen[string(k)] = true
			res, _ := ctx.render(op.Str("n"), op.Str("e"), engData(d))
			ctx.pre = append(ctx.pre, engPreRec{N: op.Str("n"), E: op.Str("e"), Data: d, Res: res})
		}
	}
	return ctx
}

type engPreRec struct {
	N    string                 `json:"n"`
	E    string                 `json:"e"`
	Data map[string]interface{} `json:"data"`
	Res  engRes                 `json:"res"`
}

func engConcEvent(c Case, cc engConcCase, mode string, ctx *engCtx, calls []engCallRec) Ev {
	sort.Slice(calls, func(i, j int) bool { return calls[i].B < calls[j].B })
	if calls == nil {
		calls = []engCallRec{}
	}
	final, _ := ctx.probes()
	ctx.cleanup()
	names := ctx.names
	return Ev{"ev": "conc", "case": c.ID, "mode": mode, "setup": cc.Setup, "calls": calls, "final": final,
		"names": names, "pdata": engOpData(ctx.probe), "races": []string{}, "fatal": "", "gates": 0, "stuck": false, "followed": true, "hraces": 0, "pre": ctx.pre}
}

func runEngineGate(c Case, emit Emitter) {
	cc, err := engConcParse(c)
	if err != nil {
		fmt.Fprintln(os.Stderr, "enginegate:", err)
		os.Exit(2)
	}
	document.VerifResetGlobals()
	ctx := engConcSetup(cc)
	g := &engGate{threads: map[int64]*engThread{}}
	engCurGate.Store(g)
	document.VerifHook = engHook
	var clk int64
	var calls []engCallRec
	var mu sync.Mutex
	ths := make([]*engThread, len(cc.Progs))
	for t := range cc.Progs {
		th := &engThread{idx: t + 1, resume: make(chan struct{}), parked: make(chan string, 1), where: "running"}
		ths[t] = th
		reg := make(chan struct{})
		go func(th *engThread, prog []Op) {
			g.mu.Lock()
			g.threads[engGoID()] = th
			g.mu.Unlock()
			close(reg)
			engRunProgram(ctx, th, g, prog, &clk, &calls, &mu, nil)
			th.parked <- "done"
		}(th, cc.Progs[t])
		<-reg
		th.await(5 * time.Second) // parks at its first operation boundary (or is done: empty program)
	}
	followed := true
	poll := func(th *engThread) {
		if th.where == "running" {
			th.await(time.Millisecond)
		}
	}
	for _, s := range cc.Sched {
		t := s.Int("t")
		if t < 1 || t > len(ths) {
			continue
		}
		th := ths[t-1]
		poll(th)
		if th.where == "done" {
			continue
		}
		if th.where == "running" {
			followed = false
			continue
		}
		switch s.Str("k") {
		case "begin":
			// the model starts the next operation: finish the current one first if the code has
			// more hook points than the model has steps
			for th.where == "gate" {
				if !th.release(engStepWait) {
					break
				}
			}
			if th.where == "op" {
				if !th.release(engStepWait) {
					followed = false
				}
			}
		default:
			if th.where == "gate" {
				if !th.release(engStepWait) {
					followed = false
				}
			}
			// at an operation boundary: the code has fewer hook points than the model; nothing to do
		}
	}
	// let everybody run to the end
	atomic.StoreInt32(&g.open, 1)
	stuck := false
	deadline := time.Now().Add(30 * time.Second)
	for _, th := range ths {
		for th.where != "done" {
			if th.where == "op" || th.where == "gate" {
				th.resume <- struct{}{}
				th.where = "running"
			}
			if !th.await(200*time.Millisecond) && time.Now().After(deadline) {
				stuck = true
				break
			}
		}
	}
	document.VerifHook = nil
	engCurGate.Store((*engGate)(nil))
	mu.Lock()
	cp := append([]engCallRec(nil), calls...)
	mu.Unlock()
	var ev Ev
	if stuck {
		// the engine may be wedged: do not touch it again
		ctx.cleanup()
		ev = Ev{"ev": "conc", "case": c.ID, "mode": "gate", "setup": cc.Setup, "calls": cp, "final": map[string]interface{}{},
			"names": []string{}, "pdata": engOpData(ctx.probe), "races": []string{}, "fatal": "", "stuck": true, "hraces": 0, "pre": ctx.pre}
	} else {
		ev = engConcEvent(c, cc, "gate", ctx, cp)
	}
	ev["gates"] = int(atomic.LoadInt32(&g.fired))
	ev["followed"] = followed
	emit(ev)
}

// ---- free-running ---------------------------------------------------------------------

func engRounds() int {
	n, _ := strconv.Atoi(os.Getenv("WZ_ENG_ROUNDS"))
	if n <= 0 {
		n = 4
	}
	return n
}

// runEngineFreeChild executes every round of one case with all threads released together.
func runEngineFreeChild(c Case, emit Emitter) {
	cc, err := engConcParse(c)
	if err != nil {
		fmt.Fprintln(os.Stderr, "enginefreechild:", err)
		os.Exit(2)
	}
	document.VerifHook = nil
	for r := 0; r < engRounds(); r++ {
		document.VerifResetGlobals()
		ctx := engConcSetup(cc)
		var clk int64
		var calls []engCallRec
		var mu sync.Mutex
		var wg, ready sync.WaitGroup
		start := make(chan struct{})
		ready.Add(len(cc.Progs))
		for t := range cc.Progs {
			wg.Add(1)
			go func(t int) {
				defer wg.Done()
				th := &engThread{idx: t + 1}
				engRunProgram(ctx, th, nil, cc.Progs[t], &clk, &calls, &mu, func() { ready.Done(); <-start })
			}(t)
		}
		ready.Wait()
		close(start)
		fin := make(chan struct{})
		go func() { wg.Wait(); close(fin) }()
		select {
		case <-fin:
			emit(engConcEvent(c, cc, "free", ctx, calls))
		case <-time.After(30 * time.Second):
			mu.Lock()
			cp := append([]engCallRec(nil), calls...)
			mu.Unlock()
			emit(Ev{"ev": "conc", "case": c.ID, "mode": "free", "setup": cc.Setup, "calls": cp, "final": map[string]interface{}{},
				"names": []string{}, "pdata": engOpData(ctx.probe), "races": []string{}, "fatal": "", "gates": 0, "stuck": true, "followed": true, "hraces": 0, "pre": ctx.pre})
			return
		}
	}
}

var engRaceFrame = regexp.MustCompile(`^\s+(\S*wordZero/pkg/\S+)\(\)\s*$`)

// engRaceSites extracts one site per DATA RACE report: the top library frame of each of the
// two accesses, line numbers dropped, the pair sorted.
func engRaceSites(stderr string) (sites []string, foreign int) {
	seen := map[string]bool{}
	for _, blk := range strings.Split(stderr, "WARNING: DATA RACE")[1:] {
		if i := strings.Index(blk, "=================="); i >= 0 {
			blk = blk[:i]
		}
		var tops []string
		inAccess, got := false, false
		for _, ln := range strings.Split(blk, "\n") {
			l := strings.TrimSpace(ln)
			switch {
			case strings.HasPrefix(l, "Read at "), strings.HasPrefix(l, "Write at "), strings.HasPrefix(l, "Previous read at "),
				strings.HasPrefix(l, "Previous write at "), strings.HasPrefix(l, "Atomic "), strings.HasPrefix(l, "Previous atomic "):
				inAccess, got = true, false
			case strings.HasPrefix(l, "Goroutine "):
				inAccess = false
			case inAccess && !got:
				if m := engRaceFrame.FindStringSubmatch(ln); m != nil {
					f := m[1]
					if k := strings.Index(f, "wordZero/pkg/"); k >= 0 {
						f = f[k+len("wordZero/pkg/"):]
					}
					tops = append(tops, f)
					got = true
				}
			}
		}
		if len(tops) == 0 {
			foreign++
			continue
		}
		sort.Strings(tops)
		s := strings.Join(tops, " <-> ")
		if !seen[s] {
			seen[s] = true
			sites = append(sites, s)
		}
	}
	sort.Strings(sites)
	return
}

var engFatalRe = regexp.MustCompile(`fatal error: (concurrent map [a-z ]+|all goroutines are asleep[^\n]*|[^\n]+)`)

// runEngineFree re-executes this binary for one case and merges what the child wrote with what it printed.
func runEngineFree(c Case, emit Emitter) {
	dir, err := os.MkdirTemp("", "wzh-engfree")
	if err != nil {
		fmt.Fprintln(os.Stderr, "enginefree:", err)
		os.Exit(2)
	}
	defer os.RemoveAll(dir)
	cf, of := dir+"/case.ndjson", dir+"/obs.ndjson"
	b, _ := json.Marshal(c)
	if err := os.WriteFile(cf, append(b, '\n'), 0o644); err != nil {
		fmt.Fprintln(os.Stderr, "enginefree:", err)
		os.Exit(2)
	}
	cmd := exec.Command(os.Args[0], "enginefreechild", cf, of)
	cmd.Env = append(os.Environ(), "GORACE=halt_on_error=0 exitcode=0 atexit_sleep_ms=0")
	var stderr bytes.Buffer
	cmd.Stderr = &stderr
	done := make(chan error, 1)
	if err := cmd.Start(); err != nil {
		fmt.Fprintln(os.Stderr, "enginefree: cannot start child:", err)
		os.Exit(2)
	}
	go func() { done <- cmd.Wait() }()
	fatal := ""
	select {
	case err := <-done:
		if err != nil {
			fatal = "crash"
		}
	case <-time.After(120 * time.Second):
		cmd.Process.Kill()
		<-done
		fatal = "timeout"
	}
	se := stderr.String()
	if m := engFatalRe.FindStringSubmatch(se); m != nil {
		fatal = m[1]
	} else if fatal == "crash" && strings.Contains(se, "panic:") {
		fatal = "panic"
	}
	sites, foreign := engRaceSites(se)
	if sites == nil {
		sites = []string{}
	}
	var evs []Ev
	if f, err := os.Open(of); err == nil {
		sc := bufio.NewScanner(f)
		sc.Buffer(make([]byte, 1<<20), 1<<28)
		for sc.Scan() {
			var ev Ev
			if json.Unmarshal(sc.Bytes(), &ev) == nil && ev["ev"] == "conc" {
				evs = append(evs, ev)
			}
		}
		f.Close()
	}
	if len(evs) == 0 || fatal != "" {
		// the child died (or never got to write): one line that carries the diagnosis
		cc, _ := engConcParse(c)
		evs = append(evs, Ev{"ev": "conc", "case": c.ID, "mode": "free", "setup": cc.Setup, "calls": []engCallRec{}, "final": map[string]interface{}{},
			"names": []string{}, "pdata": map[string]interface{}{"v": "", "items": []interface{}{}, "c": false, "ik": "map"},
			"races": []string{}, "fatal": "", "gates": 0, "stuck": false, "followed": true, "pre": []engPreRec{}})
	}
	last := evs[len(evs)-1]
	last["races"] = sites
	last["fatal"] = fatal
	last["hraces"] = foreign
	for _, ev := range evs {
		if _, ok := ev["hraces"]; !ok {
			ev["hraces"] = 0
		}
		emit(ev)
	}
	if fatal == "crash" || fatal == "panic" || fatal == "timeout" {
		fmt.Fprintf(os.Stderr, "enginefree: child of case %d ended with %s:\n%s\n", c.ID, fatal, engTail(se, 30))
	}
}

func engTail(s string, n int) string {
	l := strings.Split(s, "\n")
	if len(l) > n {
		l = l[len(l)-n:]
	}
	return strings.Join(l, "\n")
}
