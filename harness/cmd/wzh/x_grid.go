package main

// Executor + projector for spec module Grid (property C09). No oracle logic:
// abstract ops -> real table API calls; the table is projected to
// [gc, rows of [tok, span, vm, np, nn]] before and after every call.

import (
	"bytes"
	"crypto/sha1"
	"encoding/hex"
	"encoding/json"
	"encoding/xml"
	"fmt"
	"io"
	"os"
	"reflect"
	"regexp"
	"sort"
	"strconv"
	"strings"

	"github.com/zerx-lab/wordZero/pkg/document"
)

func init() { register("grid", runGrid) }

var gridTokRe = regexp.MustCompile(`^T(\d+)`)

func gridTokText(n int) string { return "T" + strconv.Itoa(n) }

// gridTokOf: leading content token of a text (0 = none)
func gridTokOf(s string) int {
	m := gridTokRe.FindStringSubmatch(s)
	if m == nil {
		return 0
	}
	n, _ := strconv.Atoi(m[1])
	return n
}

func gridCellText(c *document.TableCell) string {
	var sb strings.Builder
	for i, p := range c.Paragraphs {
		for _, r := range p.Runs {
			sb.WriteString(r.Text.Content)
		}
		if i < len(c.Paragraphs)-1 {
			sb.WriteString("\n")
		}
	}
	return sb.String()
}

func gridProjectCell(c *document.TableCell) map[string]interface{} {
	span := 1
	vm := "none"
	if c.Properties != nil {
		if c.Properties.GridSpan != nil {
			n, err := strconv.Atoi(strings.TrimSpace(c.Properties.GridSpan.Val))
			if err != nil {
				n = 0
			}
			span = n
		}
		if c.Properties.VMerge != nil {
			if c.Properties.VMerge.Val == "restart" {
				vm = "restart"
			} else {
				vm = "cont" // absent value means "continue" in OOXML
			}
		}
	}
	return map[string]interface{}{"tok": gridTokOf(gridCellText(c)), "span": span, "vm": vm,
		"np": len(c.Paragraphs), "nn": len(c.Tables)}
}

func gridProject(t *document.Table) map[string]interface{} {
	gc := -1
	if t.Grid != nil {
		gc = len(t.Grid.Cols)
	}
	rows := make([]interface{}, 0, len(t.Rows))
	for i := range t.Rows {
		cells := make([]interface{}, 0, len(t.Rows[i].Cells))
		for j := range t.Rows[i].Cells {
			cells = append(cells, gridProjectCell(&t.Rows[i].Cells[j]))
		}
		rows = append(rows, cells)
	}
	return map[string]interface{}{"gc": gc, "rows": rows}
}

// gridProjectSaved projects the w:tbl element the library serialises for the table, read
// with the independent XML reader (direct children only; nested tables are counted, not entered).
func gridProjectSaved(t *document.Table) (map[string]interface{}, string) {
	data, err := xml.Marshal(t)
	if err != nil {
		return map[string]interface{}{"gc": 0, "rows": []interface{}{}}, "marshal-error"
	}
	root, err := ParseXML(data)
	if err != nil || root.Local != "tbl" {
		return map[string]interface{}{"gc": 0, "rows": []interface{}{}}, "xml-error"
	}
	gc := -1
	if g := root.Child("tblGrid"); g != nil {
		gc = len(g.Children("gridCol"))
	}
	rows := []interface{}{}
	for _, tr := range root.Children("tr") {
		cells := []interface{}{}
		for _, tc := range tr.Children("tc") {
			span, vm := 1, "none"
			if pr := tc.Child("tcPr"); pr != nil {
				if gs := pr.Child("gridSpan"); gs != nil {
					n, err := strconv.Atoi(strings.TrimSpace(gs.A("val")))
					if err != nil {
						n = 0
					}
					span = n
				}
				if v := pr.Child("vMerge"); v != nil {
					if v.A("val") == "restart" {
						vm = "restart"
					} else {
						vm = "cont"
					}
				}
			}
			ps := tc.Children("p")
			var sb strings.Builder
			for i, p := range ps {
				sb.WriteString(p.WText())
				if i < len(ps)-1 {
					sb.WriteString("\n")
				}
			}
			cells = append(cells, map[string]interface{}{"tok": gridTokOf(sb.String()), "span": span, "vm": vm,
				"np": len(ps), "nn": len(tc.Children("tbl"))})
		}
		rows = append(rows, cells)
	}
	return map[string]interface{}{"gc": gc, "rows": rows}, "ok"
}

// ---- starting tables ---------------------------------------------------------

func gridFresh(r, c int) (*document.Document, *document.Table) {
	doc := document.New()
	t, err := doc.AddTable(&document.TableConfig{Rows: r, Cols: c, Width: 1200 * c})
	if err != nil {
		panic("gridFresh: " + err.Error())
	}
	n := 1
	for i := 0; i < r; i++ {
		for j := 0; j < c; j++ {
			if err := t.SetCellText(i, j, gridTokText(n)); err != nil {
				panic("gridFresh: " + err.Error())
			}
			n++
		}
	}
	return doc, t
}

func gridMust(err error) {
	if err != nil {
		panic("grid start: " + err.Error())
	}
}

func gridReopen(doc *document.Document) (*document.Document, *document.Table) {
	b, err := doc.ToBytes()
	gridMust(err)
	return gridOpenBytes(b)
}

func gridOpenBytes(b []byte) (*document.Document, *document.Table) {
	d2, err := document.OpenFromMemory(io.NopCloser(bytes.NewReader(b)))
	gridMust(err)
	ts := d2.Body.GetTables()
	if len(ts) != 1 {
		panic(fmt.Sprintf("grid start: reopened document has %d tables", len(ts)))
	}
	return d2, ts[0]
}

// gridSynth opens a package whose main part holds a hand-written table with the given
// numbers of plain cells per row and `gc` grid columns (ragged rows).
func gridSynth(gc int, cellsPerRow []int) (*document.Document, *document.Table) {
	return gridSynthX(gc, cellsPerRow, false)
}

// gridSynthX: with bare, the cells carry no w:tcPr at all (legal: tcPr is optional) and the table no w:tblPr children beyond the width.
func gridSynthX(gc int, cellsPerRow []int, bare bool) (*document.Document, *document.Table) {
	base := document.New()
	base.AddParagraph("x")
	b, err := base.ToBytes()
	gridMust(err)
	var sb strings.Builder
	sb.WriteString(`<w:tbl><w:tblPr><w:tblW w:w="3600" w:type="dxa"/></w:tblPr><w:tblGrid>`)
	for i := 0; i < gc; i++ {
		sb.WriteString(`<w:gridCol w:w="1200"/>`)
	}
	sb.WriteString(`</w:tblGrid>`)
	n := 1
	for _, k := range cellsPerRow {
		sb.WriteString(`<w:tr>`)
		for j := 0; j < k; j++ {
			if bare {
				sb.WriteString(`<w:tc><w:p><w:r><w:t>` + gridTokText(n) + `</w:t></w:r></w:p></w:tc>`)
			} else {
				sb.WriteString(`<w:tc><w:tcPr><w:tcW w:w="1200" w:type="dxa"/></w:tcPr><w:p><w:r><w:t>` + gridTokText(n) + `</w:t></w:r></w:p></w:tc>`)
			}
			n++
		}
		sb.WriteString(`</w:tr>`)
	}
	sb.WriteString(`</w:tbl>`)
	nb, err := gridReplaceBody(b, sb.String())
	gridMust(err)
	return gridOpenBytes(nb)
}

// gridForeign opens a package whose main part holds the given table the way another producer (Word) spells it:
// the cells are written from the projection of t; a continuation cell carries <w:vMerge/> without w:val (the
// implicit spelling of "continue"), a cell without content one empty <w:p/>, gridSpan only where it exceeds 1.
func gridForeign(t *document.Table) (*document.Document, *document.Table) {
	base := document.New()
	base.AddParagraph("x")
	b, err := base.ToBytes()
	gridMust(err)
	var sb strings.Builder
	sb.WriteString(`<w:tbl><w:tblPr><w:tblStyle w:val="TableGrid"/><w:tblW w:w="0" w:type="auto"/></w:tblPr><w:tblGrid>`)
	gc := 0
	if t.Grid != nil {
		gc = len(t.Grid.Cols)
	}
	for i := 0; i < gc; i++ {
		sb.WriteString(`<w:gridCol w:w="1200"/>`)
	}
	sb.WriteString(`</w:tblGrid>`)
	for i := range t.Rows {
		sb.WriteString(`<w:tr>`)
		for j := range t.Rows[i].Cells {
			c := gridProjectCell(&t.Rows[i].Cells[j])
			span, _ := c["span"].(int)
			fmt.Fprintf(&sb, `<w:tc><w:tcPr><w:tcW w:w="%d" w:type="dxa"/>`, 1200*span)
			if span != 1 {
				fmt.Fprintf(&sb, `<w:gridSpan w:val="%d"/>`, span)
			}
			switch c["vm"] {
			case "restart":
				sb.WriteString(`<w:vMerge w:val="restart"/>`)
			case "cont":
				sb.WriteString(`<w:vMerge/>`)
			}
			sb.WriteString(`</w:tcPr>`)
			np, _ := c["np"].(int)
			tok, _ := c["tok"].(int)
			for p := 0; p < np; p++ {
				if p == 0 && tok != 0 {
					sb.WriteString(`<w:p><w:r><w:t>` + gridTokText(tok) + `</w:t></w:r></w:p>`)
				} else {
					sb.WriteString(`<w:p/>`)
				}
			}
			sb.WriteString(`</w:tc>`)
		}
		sb.WriteString(`</w:tr>`)
	}
	sb.WriteString(`</w:tbl>`)
	nb, err := gridReplaceBody(b, sb.String())
	gridMust(err)
	return gridOpenBytes(nb)
}

// gridCreate: the table under test comes into being through one of the constructors, with the argument classes of
// the abstract operation (dimensions, number of column widths, initial contents). A nil table projects as no table.
func gridCreate(op Op) (*document.Table, string) {
	rows, cols, nw := op.Int("rows"), op.Int("cols"), op.Int("nw")
	w := cols
	if w < 1 {
		w = 1
	}
	cfg := &document.TableConfig{Rows: rows, Cols: cols, Width: 1200 * w}
	if nw > 0 {
		cfg.ColWidths = make([]int, nw)
		for i := range cfg.ColWidths {
			cfg.ColWidths[i] = 1000 + 10*i
		}
	}
	if raw, ok := op["grid"].([]interface{}); ok && len(raw) > 0 {
		for _, rr := range raw {
			line := []string{}
			if xs, ok := rr.([]interface{}); ok {
				for _, x := range xs {
					if f, ok := x.(float64); ok {
						line = append(line, gridTokText(int(f)))
					}
				}
			}
			cfg.Data = append(cfg.Data, line)
		}
	}
	var t *document.Table
	var err error
	switch op.Str("via") {
	case "CreateTable":
		t, err = document.New().CreateTable(cfg)
	case "AddTable":
		t, err = document.New().AddTable(cfg)
	case "AddNestedTable":
		_, outer := gridFresh(1, 1)
		t, err = outer.AddNestedTable(0, 0, cfg)
	default:
		return nil, "unknown-op"
	}
	return t, errRet(err)
}

// gridDeepCopy clones a value structurally (pointers, slices with their capacity, structs),
// so that every behaviour starts from its own private instance of a start table that was
// built once through the real API / Open.
func gridDeepCopy(v reflect.Value) reflect.Value {
	switch v.Kind() {
	case reflect.Ptr:
		if v.IsNil() {
			return v
		}
		n := reflect.New(v.Type().Elem())
		n.Elem().Set(gridDeepCopy(v.Elem()))
		return n
	case reflect.Struct:
		n := reflect.New(v.Type()).Elem()
		for i := 0; i < v.NumField(); i++ {
			if !n.Field(i).CanSet() {
				if !v.Field(i).IsZero() {
					panic("gridDeepCopy: unexported field " + v.Type().Name() + "." + v.Type().Field(i).Name)
				}
				continue
			}
			n.Field(i).Set(gridDeepCopy(v.Field(i)))
		}
		return n
	case reflect.Slice:
		if v.IsNil() {
			return v
		}
		n := reflect.MakeSlice(v.Type(), v.Len(), v.Cap())
		for i := 0; i < v.Len(); i++ {
			n.Index(i).Set(gridDeepCopy(v.Index(i)))
		}
		return n
	case reflect.Interface:
		if v.IsNil() {
			return v
		}
		n := reflect.New(v.Type()).Elem()
		n.Set(gridDeepCopy(v.Elem()))
		return n
	case reflect.Map:
		if !v.IsNil() {
			panic("gridDeepCopy: map")
		}
		return v
	}
	return v
}

var gridStartCache = map[string]*document.Table{}

// gridStart builds the start table through the real API (or Open) for every behaviour anew, so that the table
// under test has exactly the memory layout the library's own constructors give it (backing arrays, capacities,
// shared or private property objects); a structural copy of a cached instance would hide aliasing between rows.
func gridStart(k string) *document.Table {
	_, t := gridBuildStart(k)
	return t
}

func gridBuildStart(k string) (*document.Document, *document.Table) {
	switch k {
	case "1x1":
		return gridFresh(1, 1)
	case "1x3":
		return gridFresh(1, 3)
	case "3x1":
		return gridFresh(3, 1)
	case "2x2":
		return gridFresh(2, 2)
	case "3x3":
		return gridFresh(3, 3)
	case "h3", "h3o":
		d, t := gridFresh(3, 3)
		gridMust(t.MergeCellsHorizontal(1, 0, 1))
		if k == "h3o" {
			return gridReopen(d)
		}
		return d, t
	case "v3", "v3o":
		d, t := gridFresh(3, 3)
		gridMust(t.MergeCellsVertical(0, 1, 0))
		if k == "v3o" {
			return gridReopen(d)
		}
		return d, t
	case "r3", "r3o":
		d, t := gridFresh(3, 3)
		gridMust(t.MergeCellsRange(0, 1, 0, 1))
		if k == "r3o" {
			return gridReopen(d)
		}
		return d, t
	case "vv4":
		d, t := gridFresh(4, 2)
		gridMust(t.MergeCellsVertical(0, 1, 0))
		gridMust(t.MergeCellsVertical(2, 3, 0))
		return d, t
	case "v4", "v4o", "v4w":
		d, t := gridFresh(4, 2)
		gridMust(t.MergeCellsVertical(0, 2, 0))
		if k == "v4o" {
			return gridReopen(d)
		}
		if k == "v4w" {
			return gridForeign(t)
		}
		return d, t
	case "r4w":
		_, t := gridFresh(4, 3)
		gridMust(t.MergeCellsRange(0, 2, 0, 1))
		return gridForeign(t)
	case "nn3":
		d, t := gridFresh(2, 2)
		in1, err := t.AddNestedTable(0, 0, &document.TableConfig{Rows: 2, Cols: 1, Width: 600})
		gridMust(err)
		gridMust(in1.SetCellText(1, 0, "mid"))
		in2, err := in1.AddNestedTable(0, 0, &document.TableConfig{Rows: 2, Cols: 1, Width: 300})
		gridMust(err)
		gridMust(in2.SetCellText(1, 0, "inner"))
		return d, t
	case "in22", "in32":
		// the table under test is itself a nested table, as AddNestedTable returns it
		d, outer := gridFresh(1, 1)
		r := 2
		if k == "in32" {
			r = 3
		}
		in, err := outer.AddNestedTable(0, 0, &document.TableConfig{Rows: r, Cols: 2, Width: 2400})
		gridMust(err)
		n := 1
		for i := 0; i < r; i++ {
			for j := 0; j < 2; j++ {
				gridMust(in.SetCellText(i, j, gridTokText(n)))
				n++
			}
		}
		return d, in
	case "n2":
		d, t := gridFresh(2, 2)
		_, err := t.AddNestedTable(0, 0, &document.TableConfig{Rows: 1, Cols: 1, Width: 600})
		gridMust(err)
		return d, t
	case "rag":
		return gridSynth(3, []int{3, 2, 3})
	case "rag2":
		return gridSynth(3, []int{2, 3, 3})
	case "bare3":
		return gridSynthX(3, []int{3, 3, 3}, true)
	}
	panic("grid start: unknown table " + k)
}

// ---- op arguments --------------------------------------------------------------

func gridData(op Op) []string {
	raw, _ := op["data"].([]interface{})
	out := make([]string, 0, len(raw))
	for _, x := range raw {
		if f, ok := x.(float64); ok {
			out = append(out, gridTokText(int(f)))
		}
	}
	return out
}

type gridRead struct {
	Ret   string                   `json:"ret"`
	Cells []map[string]interface{} `json:"cells"`
}

func gridEmptyRead() gridRead { return gridRead{Ret: "", Cells: []map[string]interface{}{}} }

func gridCellRec(r, c int, text string) map[string]interface{} {
	return map[string]interface{}{"r": r, "c": c, "tok": gridTokOf(text)}
}

func gridInfos(cs []*document.CellInfo) []map[string]interface{} {
	out := []map[string]interface{}{}
	for _, ci := range cs {
		out = append(out, gridCellRec(ci.Row, ci.Col, ci.Text))
	}
	return out
}

func gridReadAll(t *document.Table) map[string]gridRead {
	res := map[string]gridRead{}
	one := func(name string, f func(r *gridRead) string) {
		rd := gridEmptyRead()
		ret, _ := guard(func() string { return f(&rd) })
		rd.Ret = ret
		res[name] = rd
	}
	one("it", func(rd *gridRead) string {
		it := t.NewCellIterator()
		for n := 0; it.HasNext() && n < 10000; n++ {
			ci, err := it.Next()
			if err != nil {
				return "err"
			}
			rd.Cells = append(rd.Cells, gridCellRec(ci.Row, ci.Col, ci.Text))
		}
		return "ok"
	})
	one("fe", func(rd *gridRead) string {
		err := t.ForEach(func(r, c int, cell *document.TableCell, text string) error {
			rd.Cells = append(rd.Cells, gridCellRec(r, c, text))
			return nil
		})
		return errRet(err)
	})
	one("fc", func(rd *gridRead) string {
		cs, err := t.FindCells(func(r, c int, cell *document.TableCell, text string) bool { return true })
		if err != nil {
			return "err"
		}
		rd.Cells = gridInfos(cs)
		return "ok"
	})
	one("gr", func(rd *gridRead) string {
		cs, err := t.GetCellRange(0, 0, t.GetRowCount()-1, t.GetColumnCount()-1)
		if err != nil {
			return "err"
		}
		rd.Cells = gridInfos(cs)
		return "ok"
	})
	// the per-cell getter: every physical cell, row-major
	one("gt", func(rd *gridRead) string {
		for r := range t.Rows {
			for c := range t.Rows[r].Cells {
				text, err := t.GetCellText(r, c)
				if err != nil {
					return "err"
				}
				rd.Cells = append(rd.Cells, gridCellRec(r, c, text))
			}
		}
		return "ok"
	})
	// the row-wise traversal, row after row
	one("fr", func(rd *gridRead) string {
		for r := range t.Rows {
			err := t.ForEachInRow(r, func(c int, cell *document.TableCell, text string) error {
				rd.Cells = append(rd.Cells, gridCellRec(r, c, text))
				return nil
			})
			if err != nil {
				return "err"
			}
		}
		return "ok"
	})
	// every other read accessor, inside, at and beyond the bounds: results are not projected, the calls must return
	one("pr", func(rd *gridRead) string {
		nr := len(t.Rows)
		for r := -1; r <= nr; r++ {
			nc := 1
			if r >= 0 && r < nr {
				nc = len(t.Rows[r].Cells)
			}
			t.GetRowHeight(r)
			t.IsRowHeader(r)
			t.IsRowKeepTogether(r)
			t.ForEachInRow(r, func(int, *document.TableCell, string) error { return nil })
			for c := -1; c <= nc; c++ {
				t.GetCell(r, c)
				t.GetCellText(r, c)
				t.GetCellParagraphs(r, c)
				t.GetCellFormat(r, c)
				t.IsCellMerged(r, c)
				t.GetMergedCellInfo(r, c)
				t.GetNestedTables(r, c)
				t.GetCellTextDirection(r, c)
				if r == 0 {
					t.ForEachInColumn(c, func(int, *document.TableCell, string) error { return nil })
				}
			}
		}
		t.GetTableLayout()
		t.GetTableBreakInfo()
		t.FindCellsByText("t", false)
		t.FindCellsByText("", true)
		return "ok"
	})
	return res
}

// ---- CopyTable: mutate everything reachable, fingerprint everything reachable -----

// gridMutate changes, in place, every settable string/number/bool reachable from v
// (through pointers, slices' existing elements, structs), without reallocating anything.
// undo = true applies the exact inverse walk, so that state the probe shares with the
// table under test is restored afterwards.
func gridMutate(v reflect.Value, depth int, undo bool) {
	if depth > 40 {
		return
	}
	switch v.Kind() {
	case reflect.Ptr, reflect.Interface:
		if !v.IsNil() {
			gridMutate(v.Elem(), depth+1, undo)
		}
	case reflect.Struct:
		for i := 0; i < v.NumField(); i++ {
			if v.Type().Field(i).Name == "XMLName" {
				continue
			}
			gridMutate(v.Field(i), depth+1, undo)
		}
	case reflect.Slice, reflect.Array:
		for i := 0; i < v.Len(); i++ {
			gridMutate(v.Index(i), depth+1, undo)
		}
	case reflect.String:
		if v.CanSet() {
			if undo {
				v.SetString(strings.TrimSuffix(v.String(), "~"))
			} else {
				v.SetString(v.String() + "~")
			}
		}
	case reflect.Int, reflect.Int8, reflect.Int16, reflect.Int32, reflect.Int64:
		if v.CanSet() {
			v.SetInt(v.Int() + gridDelta(undo))
		}
	case reflect.Uint, reflect.Uint8, reflect.Uint16, reflect.Uint32, reflect.Uint64:
		if v.CanSet() {
			v.SetUint(uint64(int64(v.Uint()) + gridDelta(undo)))
		}
	case reflect.Bool:
		if v.CanSet() {
			v.SetBool(!v.Bool())
		}
	case reflect.Float32, reflect.Float64:
		if v.CanSet() {
			v.SetFloat(v.Float() + float64(gridDelta(undo)))
		}
	}
}

func gridDelta(undo bool) int64 {
	if undo {
		return -7
	}
	return 7
}

func gridDump(w io.Writer, v reflect.Value, depth int) {
	if depth > 40 {
		io.WriteString(w, "<deep>")
		return
	}
	switch v.Kind() {
	case reflect.Ptr, reflect.Interface:
		if v.IsNil() {
			io.WriteString(w, "nil;")
			return
		}
		io.WriteString(w, "&")
		gridDump(w, v.Elem(), depth+1)
	case reflect.Struct:
		io.WriteString(w, v.Type().Name()+"{")
		for i := 0; i < v.NumField(); i++ {
			io.WriteString(w, v.Type().Field(i).Name+":")
			gridDump(w, v.Field(i), depth+1)
		}
		io.WriteString(w, "}")
	case reflect.Slice, reflect.Array:
		fmt.Fprintf(w, "[%d:", v.Len())
		for i := 0; i < v.Len(); i++ {
			gridDump(w, v.Index(i), depth+1)
		}
		io.WriteString(w, "]")
	case reflect.Map:
		keys := v.MapKeys()
		sort.Slice(keys, func(i, j int) bool { return fmt.Sprint(keys[i]) < fmt.Sprint(keys[j]) })
		io.WriteString(w, "map{")
		for _, k := range keys {
			fmt.Fprintf(w, "%v=", k)
			gridDump(w, v.MapIndex(k), depth+1)
		}
		io.WriteString(w, "}")
	case reflect.String:
		fmt.Fprintf(w, "%q;", v.String())
	case reflect.Int, reflect.Int8, reflect.Int16, reflect.Int32, reflect.Int64:
		fmt.Fprintf(w, "%d;", v.Int())
	case reflect.Uint, reflect.Uint8, reflect.Uint16, reflect.Uint32, reflect.Uint64:
		fmt.Fprintf(w, "%d;", v.Uint())
	case reflect.Bool:
		fmt.Fprintf(w, "%t;", v.Bool())
	case reflect.Float32, reflect.Float64:
		fmt.Fprintf(w, "%g;", v.Float())
	default:
		io.WriteString(w, "?"+v.Kind().String()+";")
	}
}

// gridPrint: fingerprint of everything reachable from the table
func gridPrint(t *document.Table) string {
	h := sha1.New()
	gridDump(h, reflect.ValueOf(t), 0)
	return hex.EncodeToString(h.Sum(nil))[:16]
}

// gridCopyProbe: (1) copy, mutate the copy, has the original changed? (2) with a second
// copy in the role of the original: copy it, mutate that original, has its copy changed?
func gridCopyProbe(t *document.Table) (map[string]string, string) {
	cp := map[string]string{"o0": "", "o1": "", "c0": "", "c1": ""}
	ret, _ := guard(func() string {
		c1 := t.CopyTable()
		if c1 == nil {
			return "err"
		}
		cp["o0"] = gridPrint(t)
		gridMutate(reflect.ValueOf(c1), 0, false)
		cp["o1"] = gridPrint(t)
		gridMutate(reflect.ValueOf(c1), 0, true)
		orig2 := t.CopyTable() // stands in for the original so that t itself stays usable
		c2 := orig2.CopyTable()
		cp["c0"] = gridPrint(c2)
		gridMutate(reflect.ValueOf(orig2), 0, false)
		cp["c1"] = gridPrint(c2)
		gridMutate(reflect.ValueOf(orig2), 0, true)
		return "ok"
	})
	return cp, ret
}

// ---- the executor --------------------------------------------------------------

var gridSeen = map[[20]byte]bool{}

// WZ_GRID_SAVE=1: also project the serialised w:tbl after the last step of every behaviour
var gridSave = os.Getenv("WZ_GRID_SAVE") == "1"

func gridExec(t *document.Table, op Op, i int) string {
	r, c := op.Int("r"), op.Int("c")
	txt := gridTokText(op.Int("tok"))
	switch op.Name() {
	case "InsertRow":
		return errRet(t.InsertRow(op.Int("pos"), gridData(op)))
	case "AppendRow":
		return errRet(t.AppendRow(gridData(op)))
	case "DeleteRow":
		return errRet(t.DeleteRow(op.Int("i")))
	case "DeleteRows":
		return errRet(t.DeleteRows(op.Int("a"), op.Int("b")))
	case "InsertColumn":
		return errRet(t.InsertColumn(op.Int("pos"), gridData(op), 900))
	case "AppendColumn":
		return errRet(t.AppendColumn(gridData(op), 900))
	case "DeleteColumn":
		return errRet(t.DeleteColumn(op.Int("i")))
	case "DeleteColumns":
		return errRet(t.DeleteColumns(op.Int("a"), op.Int("b")))
	case "SetCellText":
		return errRet(t.SetCellText(r, c, txt))
	case "SetCellFormattedText":
		return errRet(t.SetCellFormattedText(r, c, txt, &document.TextFormat{Bold: true, FontSize: 11}))
	case "AddCellFormattedText":
		return errRet(t.AddCellFormattedText(r, c, "+f", &document.TextFormat{Italic: true}))
	case "AddCellParagraph":
		_, err := t.AddCellParagraph(r, c, "+p")
		return errRet(err)
	case "AddCellFormattedParagraph":
		_, err := t.AddCellFormattedParagraph(r, c, "+q", &document.TextFormat{Bold: true})
		return errRet(err)
	case "ClearCellParagraphs":
		return errRet(t.ClearCellParagraphs(r, c))
	case "ClearCellContent":
		return errRet(t.ClearCellContent(r, c))
	case "AddNestedTable":
		cfg := &document.TableConfig{Rows: 1, Cols: 2, Width: 800}
		switch op.Str("cfg") {
		case "", "ok":
		case "no-rows":
			cfg.Rows = 0
		case "no-cols":
			cfg.Cols = 0
		case "fewer-widths":
			cfg.ColWidths = []int{400}
		case "more-widths":
			cfg.ColWidths = []int{300, 300, 200}
		default:
			return "unknown-op"
		}
		_, err := t.AddNestedTable(r, c, cfg)
		return errRet(err)
	case "AddCellList":
		return errRet(t.AddCellList(r, c, &document.CellListConfig{Type: document.ListTypeBullet, Items: []string{"+a", "+b"}}))
	case "CellFmt":
		kind := -1
		switch op.Str("f") {
		case "SetCellFormat":
			kind = 0
		case "SetCellShading":
			kind = 1
		case "SetCellTextDirection":
			kind = 2
		case "ClearCellFormat":
			kind = 3
		case "RemoveCellBorders":
			kind = 4
		case "SetCellBorders":
			b := &document.BorderConfig{Style: document.BorderStyleSingle, Width: 8, Color: "0000FF"}
			return errRet(t.SetCellBorders(r, c, &document.CellBorderConfig{Top: b, Left: b, Bottom: b, Right: b, DiagDown: b}))
		case "SetCellPadding":
			return errRet(t.SetCellPadding(r, c, 5))
		case "":
			kind = (i + r + c + 8) % 5 // behaviours recorded before the call was part of the operation
		default:
			return "unknown-op"
		}
		switch kind {
		case 0:
			return errRet(t.SetCellFormat(r, c, &document.CellFormat{TextFormat: &document.TextFormat{Bold: true}, HorizontalAlign: document.CellAlignCenter, VerticalAlign: document.CellVAlignTop}))
		case 1:
			return errRet(t.SetCellShading(r, c, &document.ShadingConfig{Pattern: document.ShadingPatternSolid, BackgroundColor: "FF0000"}))
		case 2:
			return errRet(t.SetCellTextDirection(r, c, document.TextDirectionTB))
		case 3:
			return errRet(t.ClearCellFormat(r, c))
		default:
			return errRet(t.RemoveCellBorders(r, c))
		}
	case "MergeCellsHorizontal":
		return errRet(t.MergeCellsHorizontal(r, op.Int("a"), op.Int("b")))
	case "MergeCellsVertical":
		return errRet(t.MergeCellsVertical(op.Int("a"), op.Int("b"), c))
	case "MergeCellsRange":
		return errRet(t.MergeCellsRange(op.Int("sr"), op.Int("er"), op.Int("sc"), op.Int("ec")))
	case "UnmergeCells":
		return errRet(t.UnmergeCells(r, c))
	case "ClearTable":
		t.ClearTable()
		return "ok"
	case "TblFmt":
		switch op.Str("f") {
		case "ApplyTableStyle":
			return errRet(t.ApplyTableStyle(&document.TableStyleConfig{StyleID: "TableGrid", FirstRowHeader: true, BandedRows: true, LastColumnTotal: true}))
		case "SetTableBorders":
			b := &document.BorderConfig{Style: document.BorderStyleSingle, Width: 6, Color: "00FF00"}
			return errRet(t.SetTableBorders(&document.TableBorderConfig{Top: b, Left: b, Bottom: b, Right: b, InsideH: b, InsideV: b}))
		case "SetTableShading":
			return errRet(t.SetTableShading(&document.ShadingConfig{Pattern: document.ShadingPatternSolid, BackgroundColor: "DDDDDD"}))
		case "SetTableLayout":
			return errRet(t.SetTableLayout(&document.TableLayoutConfig{Alignment: document.TableAlignRight}))
		case "SetTableAlignment":
			return errRet(t.SetTableAlignment(document.TableAlignLeft))
		case "RemoveTableBorders":
			return errRet(t.RemoveTableBorders())
		case "SetTablePageBreak":
			return errRet(t.SetTablePageBreak(&document.TablePageBreakConfig{KeepWithNext: true, KeepLines: true}))
		}
		return "unknown-op"
	case "RowFmt":
		n := t.GetRowCount()
		if e := t.SetRowHeight(n-1, &document.RowHeightConfig{Height: 20, Rule: document.RowHeightExact}); e != nil {
			return "err"
		}
		if e := t.SetHeaderRows(0, 0); e != nil {
			return "err"
		}
		if e := t.SetRowKeepTogether(n-1, true); e != nil {
			return "err"
		}
		if e := t.SetAlternatingRowColors("EEEEEE", "FFFFFF"); e != nil {
			return "err"
		}
		return "ok"
	}
	return "unknown-op"
}

func runGrid(c Case, emit Emitter) {
	document.VerifResetGlobals()
	var t *document.Table
	resetDone := false
	for i, op := range c.Steps {
		if t == nil && op.Name() != "Start" && op.Name() != "Create" {
			break // no table came into being (a refused construction): the behaviour ends here
		}
		var before map[string]interface{}
		if t == nil {
			before = map[string]interface{}{"gc": 0, "rows": []interface{}{}}
		} else {
			before = gridProject(t)
		}
		rd := map[string]gridRead{"it": gridEmptyRead(), "fe": gridEmptyRead(), "fc": gridEmptyRead(), "gr": gridEmptyRead(),
			"gt": gridEmptyRead(), "fr": gridEmptyRead(), "pr": gridEmptyRead()}
		cp := map[string]string{"o0": "", "o1": "", "c0": "", "c1": ""}
		var ret, pmsg string
		switch {
		case op.Name() == "Start":
			ret, pmsg = guard(func() string {
				t = gridStart(op.Str("k"))
				return "ok"
			})
			if ret == "panic" {
				// a start table that cannot be built is trouble of the machinery, not of the library's edits
				panic("grid: cannot build start table " + op.Str("k") + ": " + pmsg)
			}
		case op.Name() == "Create":
			ret, pmsg = guard(func() string {
				var r string
				t, r = gridCreate(op)
				return r
			})
		case t == nil:
			ret = "unknown-op"
		case op.Name() == "ReadAll":
			rd = gridReadAll(t)
			ret = "ok"
		case op.Name() == "CopyTable":
			cp, ret = gridCopyProbe(t)
		default:
			ret, pmsg = guard(func() string { return gridExec(t, op, i) })
		}
		var after map[string]interface{}
		if t == nil {
			after = before
		} else {
			after = gridProject(t)
		}
		// rd / cp are only read by the judge on ReadAll / CopyTable steps
		body := Ev{"op": op, "ret": ret, "b": before, "a": after}
		if op.Name() == "ReadAll" {
			body["rd"] = rd
		}
		if op.Name() == "CopyTable" {
			body["cp"] = cp
		}
		if gridSave && t != nil && i == len(c.Steps)-1 {
			// serialised form of the table at the end of the behaviour
			var sv map[string]interface{}
			var sret string
			if r, _ := guard(func() string { sv, sret = gridProjectSaved(t); return "ok" }); r == "panic" {
				sv, sret = map[string]interface{}{"gc": 0, "rows": []interface{}{}}, "panic"
			}
			body["sv"] = map[string]interface{}{"ret": sret, "tbl": sv}
		}
		js, err := json.Marshal(body)
		if err != nil {
			panic(err)
		}
		key := sha1.Sum(js)
		if gridSeen[key] {
			continue
		}
		gridSeen[key] = true
		if !resetDone {
			emit(Ev{"ev": "reset", "case": c.ID})
			resetDone = true
		}
		body["ev"] = "step"
		body["case"] = c.ID
		body["i"] = i
		if pmsg != "" {
			body["pmsg"] = pmsg
		}
		emit(body)
	}
}
