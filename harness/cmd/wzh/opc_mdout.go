package main

// Concretisation and projections of module MdOut (property C20).
//
//   tokens -> text          the spelling of the abstract tokens of a run (seeded choice per word)
//   text   -> tokens        visible text back to tokens (white space, the words, "c:<char>")
//   mdoDocBlocks            a saved package (independent reader) -> abstract blocks
//   mdoMdBlocks             a Markdown text -> abstract blocks, through the reference CommonMark+GFM renderer of the
//                           parser the library embeds (its XHTML output is parsed; nothing of the library under test)
// Block = {k, lvl, toks:[{t,f}], rows:[[{toks}]]}, every field of one fixed JSON type; blocks of a saved package also
// carry np (the paragraph has numbering properties).

import (
	"sort"
	"strconv"
	"strings"
	"unicode/utf8"
)

type mdoM = map[string]interface{}

type mdoTok struct {
	T string   `json:"t"`
	F []string `json:"f"`
}

type mdoSeg struct {
	s string
	f []string
}

var mdoWords = map[string][]string{
	// fourth spelling: a short word, an unbreakable word longer than the narrow wrap width, a one-letter word
	"w1":  {"alpha", "Lorem", "kiwi", "fig"},
	"w2":  {"bravo", "ipsum", "mango", "incomprehensibilities"},
	"w3":  {"charlie", "dolor", "peach", "x"},
	"u1":  {"中文", "日本語", "ñandú", "Ελληνικά"},
	"amp": {"amp", "amp", "amp", "amp"},
}

type mdoConc struct {
	pick map[string]string
	vis  [][2]string // {text, token}, longest text first
}

func mdoNewConc(salt int64) *mdoConc {
	c := &mdoConc{pick: map[string]string{}}
	names := []string{}
	for w := range mdoWords {
		names = append(names, w)
	}
	sort.Strings(names)
	for _, w := range names {
		v := mdoWords[w]
		k := int((salt%int64(len(v)) + int64(len(v))) % int64(len(v)))
		c.pick[w] = v[k]
		c.vis = append(c.vis, [2]string{v[k], w})
	}
	sort.SliceStable(c.vis, func(i, j int) bool { return len(c.vis[i][0]) > len(c.vis[j][0]) })
	return c
}

func (c *mdoConc) text(toks []string) string {
	var sb strings.Builder
	for _, t := range toks {
		switch {
		case t == "sp":
			sb.WriteByte(' ')
		case t == "nl":
			sb.WriteByte('\n')
		case t == "tab":
			sb.WriteByte('\t')
		case strings.HasPrefix(t, "c:"):
			sb.WriteString(t[2:])
		default:
			if s, ok := c.pick[t]; ok {
				sb.WriteString(s)
			} else {
				sb.WriteString("?" + t + "?")
			}
		}
	}
	return sb.String()
}

// tokens maps visible text (segments with the flags of their run) to abstract tokens; a token carries the
// flags of the segment its first character lies in.
func (c *mdoConc) tokens(segs []mdoSeg) []mdoTok {
	var sbuf strings.Builder
	var ends []int
	for _, g := range segs {
		sbuf.WriteString(g.s)
		ends = append(ends, sbuf.Len())
	}
	s := sbuf.String()
	out := []mdoTok{}
	seg, i := 0, 0
	add := func(t string) {
		for seg < len(ends)-1 && ends[seg] <= i {
			seg++
		}
		f := []string{}
		if seg < len(segs) && segs[seg].f != nil {
			f = segs[seg].f
		}
		out = append(out, mdoTok{t, f})
	}
	for i < len(s) {
		rest := s[i:]
		switch rest[0] {
		case ' ':
			add("sp")
			i++
			continue
		case '\n', '\r':
			add("nl")
			i++
			continue
		case '\t':
			add("tab")
			i++
			continue
		}
		matched := false
		for _, v := range c.vis {
			if strings.HasPrefix(rest, v[0]) {
				add(v[1])
				i += len(v[0])
				matched = true
				break
			}
		}
		if matched {
			continue
		}
		r, n := utf8.DecodeRuneInString(rest)
		if r == utf8.RuneError && n <= 1 {
			add("c:U+FFFD")
		} else if r < 0x20 || r == 0x7f {
			add("c:U+" + strconv.FormatInt(int64(r), 16))
		} else if r == 0xa0 {
			add("sp")
		} else {
			add("c:" + string(r))
		}
		i += n
	}
	return out
}

func mdoBlock(k string, lvl int, toks []mdoTok) mdoM {
	if toks == nil {
		toks = []mdoTok{}
	}
	return mdoM{"k": k, "lvl": lvl, "toks": toks, "rows": [][]mdoM{}}
}

// ---- saved package -> blocks ----------------------------------------------------------

func mdoParaSegs(p *Node) []mdoSeg {
	segs := []mdoSeg{}
	var walk func(n *Node, flags []string)
	walk = func(n *Node, flags []string) {
		for _, k := range n.Kids {
			switch k.Local {
			case "pPr", "rPr", "delText", "instrText":
				continue
			case "r":
				walk(k, mdiRunFlags(k))
			case "t":
				segs = append(segs, mdoSeg{k.Text, flags})
			case "tab":
				segs = append(segs, mdoSeg{"\t", nil})
			case "br", "cr":
				segs = append(segs, mdoSeg{"\n", nil})
			default:
				walk(k, flags)
			}
		}
	}
	walk(p, []string{})
	return segs
}

func mdoDocPara(c *mdoConc, p *Node) mdoM {
	k, lvl := "p", 0
	if st := p.Path("pPr", "pStyle"); st != nil {
		v := st.A("val")
		if m := mdiHeadingRe.FindStringSubmatch(v); m != nil {
			k, lvl = "h", int(m[1][0]-'0')
		} else if strings.EqualFold(v, "Quote") {
			k = "q"
		} else if strings.EqualFold(v, "CodeBlock") {
			k = "code"
		}
	}
	if k == "p" && p.Path("pPr", "numPr") != nil {
		k = "li"
	}
	m := mdoBlock(k, lvl, c.tokens(mdoParaSegs(p)))
	m["np"] = p.Path("pPr", "numPr") != nil // carries numbering properties (whatever its style)
	return m
}

func mdoDocBlocks(c *mdoConc, p *Pkg) []mdoM {
	out := []mdoM{}
	body, err := p.MainBody()
	if err != nil {
		return out
	}
	var walk func(n *Node)
	walk = func(n *Node) {
		for _, k := range n.Kids {
			switch k.Local {
			case "p":
				out = append(out, mdoDocPara(c, k))
			case "tbl":
				rows := [][]mdoM{}
				for _, tr := range k.Children("tr") {
					row := []mdoM{}
					for _, tc := range tr.Children("tc") {
						segs := []mdoSeg{}
						for i, cp := range tc.Children("p") {
							if i > 0 {
								segs = append(segs, mdoSeg{"\n", nil})
							}
							segs = append(segs, mdoParaSegs(cp)...)
						}
						row = append(row, mdoM{"toks": c.tokens(segs)})
					}
					rows = append(rows, row)
				}
				out = append(out, mdoM{"k": "tbl", "lvl": 0, "toks": []mdoTok{}, "rows": rows, "np": false})
			case "sdt", "sdtContent", "customXml", "smartTag":
				walk(k)
			}
		}
	}
	walk(body)
	return out
}

// ---- Markdown -> blocks ------------------------------------------------------------------

// mdoStripFrontMatter removes a leading YAML front matter block (--- / key: value lines / ---): document
// metadata by common convention, not body content.
func mdoStripFrontMatter(md string) string {
	if !strings.HasPrefix(md, "---\n") {
		return md
	}
	lines := strings.Split(md, "\n")
	for i := 1; i < len(lines); i++ {
		if lines[i] == "---" {
			if i == 1 {
				return md
			}
			return strings.Join(lines[i+1:], "\n")
		}
		if !strings.Contains(lines[i], ":") {
			return md
		}
	}
	return md
}

type mdoRef struct {
	c   *mdoConc
	out []mdoM
}

func (r *mdoRef) inline(ns []*hNode, flags []string, segs *[]mdoSeg) {
	for _, n := range ns {
		switch n.tag {
		case "#text":
			*segs = append(*segs, mdoSeg{n.text, flags})
		case "em", "i":
			r.inline(n.kids, mdiWith(flags, "i"), segs)
		case "strong", "b":
			r.inline(n.kids, mdiWith(flags, "b"), segs)
		case "del", "s":
			r.inline(n.kids, mdiWith(flags, "s"), segs)
		case "code":
			r.inline(n.kids, mdiWith(flags, "c"), segs)
		case "br":
			*segs = append(*segs, mdoSeg{"\n", nil})
		case "input":
			t := "[ ]"
			if _, ok := n.attr["checked"]; ok {
				t = "[x]"
			}
			*segs = append(*segs, mdoSeg{t, nil})
		default:
			r.inline(n.kids, flags, segs)
		}
	}
}

func (r *mdoRef) toks(ns []*hNode) []mdoTok {
	segs := []mdoSeg{}
	r.inline(ns, []string{}, &segs)
	return r.c.tokens(segs)
}

func mdoAllText(n *hNode, sb *strings.Builder) {
	sb.WriteString(n.text)
	for _, k := range n.kids {
		mdoAllText(k, sb)
	}
}

// blocks projects sibling block elements; inQuote: directly inside a block quote (its paragraphs are kind "q")
func (r *mdoRef) blocks(ns []*hNode, inQuote bool) {
	for _, n := range ns {
		switch n.tag {
		case "h1", "h2", "h3", "h4", "h5", "h6":
			r.out = append(r.out, mdoBlock("h", int(n.tag[1]-'0'), r.toks(n.kids)))
		case "p":
			k := "p"
			if inQuote {
				k = "q"
			}
			r.out = append(r.out, mdoBlock(k, 0, r.toks(n.kids)))
		case "blockquote":
			r.blocks(n.kids, true)
		case "hr":
			r.out = append(r.out, mdoBlock("hr", 0, nil))
		case "pre":
			var sb strings.Builder
			mdoAllText(n, &sb)
			r.out = append(r.out, mdoBlock("code", 0, r.c.tokens([]mdoSeg{{strings.TrimSuffix(sb.String(), "\n"), nil}})))
		case "ul", "ol":
			for _, li := range n.kids {
				if li.tag != "li" {
					continue
				}
				var lead []*hNode
				rest := li.kids
				for len(rest) > 0 && !mdiBlockTags[rest[0].tag] {
					lead = append(lead, rest[0])
					rest = rest[1:]
				}
				blank := true
				for _, x := range lead {
					if x.tag != "#text" || strings.TrimSpace(x.text) != "" {
						blank = false
					}
				}
				if blank && len(rest) > 0 && rest[0].tag == "p" {
					lead = rest[0].kids
					rest = rest[1:]
				}
				r.out = append(r.out, mdoBlock("li", 0, r.toks(lead)))
				r.blocks(rest, false)
			}
		case "table":
			rows := [][]mdoM{}
			var walk func(x *hNode)
			walk = func(x *hNode) {
				for _, k := range x.kids {
					if k.tag == "tr" {
						row := []mdoM{}
						for _, c := range k.kids {
							if c.tag == "td" || c.tag == "th" {
								row = append(row, mdoM{"toks": r.toks(c.kids)})
							}
						}
						rows = append(rows, row)
					} else {
						walk(k)
					}
				}
			}
			walk(n)
			r.out = append(r.out, mdoM{"k": "tbl", "lvl": 0, "toks": []mdoTok{}, "rows": rows})
		case "#text":
			if strings.TrimSpace(n.text) != "" {
				r.out = append(r.out, mdoBlock("p", 0, r.toks([]*hNode{n})))
			}
		default:
			r.blocks(n.kids, inQuote)
		}
	}
}

func mdoMdBlocks(c *mdoConc, md string) []mdoM {
	h, err := mdiRefHTML([]byte(mdoStripFrontMatter(md)), mdiOpts{GFM: true})
	if err != nil {
		return []mdoM{mdoBlock("referr", 0, nil)}
	}
	root, err := mdiParseHTML(h)
	if err != nil {
		return []mdoM{mdoBlock("refparse", 0, nil)}
	}
	r := &mdoRef{c: c, out: []mdoM{}}
	r.blocks(root.kids, false)
	return r.out
}
