package main

// Executor for spec module RoundTrip (property C03): Build(feature...), Save, Open, cycles.
// Executes and projects only; the judgement is in spec/RoundTrip_Trace.tla.
//
// A case is   Build(els, sect, se) ; (Save ; Open)*   where
//   els  = sequence of [c constructor token, fs sequence of feature tokens (canonical order)]
//   sect = sequence of section feature tokens, se = "first" | "last" (when they are applied)
// Every step logs the projection of what the library holds afterwards:
//   Build, Open -> accessor-level projection of the in-memory body (rtMemProj)
//   Save        -> independent parse of the bytes just written      (rtXMLProj)
// A projection identical to one logged earlier in the same case is transported as a
// reference (`same` = step number) instead of being repeated.

import (
	"bytes"
	"encoding/json"
	"fmt"
	"io"
	"os"
	"path/filepath"
	"reflect"

	"github.com/zerx-lab/wordZero/pkg/document"
)

func init() { register("roundtrip", runRoundtrip) }

type rtCtx struct {
	doc  *document.Document
	i    int // 1-based index of the case element being built (0 = section features)
	used map[string]bool
}

type rtTarget struct {
	P   *document.Paragraph
	T   *document.Table
	Img *document.ImageInfo
	M   *document.MathParagraph
}

func rtHas(fs []string, tok string) bool {
	for _, f := range fs {
		if f == tok {
			return true
		}
	}
	return false
}

func rtStrings(v interface{}) []string {
	out := []string{}
	if a, ok := v.([]interface{}); ok {
		for _, x := range a {
			if s, ok := x.(string); ok {
				out = append(out, s)
			}
		}
	}
	return out
}

var rtTmpDir string

func rtTemp() string {
	if rtTmpDir == "" {
		d, err := os.MkdirTemp(".", "rt-tmp-")
		if err != nil {
			fmt.Fprintln(os.Stderr, "tempdir:", err)
			os.Exit(2)
		}
		rtTmpDir = d
	}
	return rtTmpDir
}

// rtBuild applies the constructors and features of a Build op. An error returned by the
// library (a precondition of the call not met, e.g. a second merge over merged cells) is
// recorded in errs and building continues; only harness-level trouble ends the step.
func rtBuild(x *rtCtx, op Op, src map[interface{}]int, errs *[]string) string {
	sect := rtStrings(op["sect"])
	early := op.Str("se") == "first"
	applySect := func() string {
		x.i = 0
		for _, f := range sect {
			fn, ok := rtSectFeats[f]
			if !ok {
				return "unknown-feature:" + f
			}
			if r := fn(x); r == "err" {
				*errs = append(*errs, f)
			} else if r != "ok" {
				return r + ":" + f
			}
		}
		return "ok"
	}
	seen := map[interface{}]bool{}
	mark := func(i int) {
		for _, el := range x.doc.Body.Elements {
			if !seen[el] {
				seen[el] = true
				src[el] = i
			}
		}
	}
	if early {
		if r := applySect(); r != "ok" {
			return r
		}
		mark(0)
	}
	// ps: serialise the document (result discarded) between the constructor of an element and its setters
	ps, _ := op["ps"].(bool)
	els, _ := op["els"].([]interface{})
	for i, e := range els {
		m, _ := e.(map[string]interface{})
		c, _ := m["c"].(string)
		fs := rtStrings(m["fs"])
		x.i = i + 1
		ctor, ok := rtCtors[c]
		if !ok {
			return "unknown-ctor:" + c
		}
		t, r := ctor(x, fs)
		if r == "err" {
			*errs = append(*errs, c)
			mark(i + 1)
			continue
		}
		if r != "ok" {
			return r + ":" + c
		}
		if ps {
			x.doc.ToBytes()
		}
		for _, f := range fs {
			fn, ok := rtFeats[f]
			if !ok {
				return "unknown-feature:" + f
			}
			if fn == nil {
				continue // consumed by the constructor
			}
			if r := fn(x, t); r == "err" {
				*errs = append(*errs, f)
			} else if r != "ok" {
				return r + ":" + f
			}
		}
		mark(i + 1)
	}
	if !early {
		if ps {
			x.doc.ToBytes()
		}
		if r := applySect(); r != "ok" {
			return r
		}
		mark(0)
	}
	return "ok"
}

// rtMarkRest gives elements created by a call that panicked the index of the last element begun
func rtMarkRest(x *rtCtx, src map[interface{}]int) {
	for _, el := range x.doc.Body.Elements {
		if _, ok := src[el]; !ok {
			src[el] = x.i
		}
	}
}

func runRoundtrip(c Case, emit Emitter) {
	document.VerifResetGlobals()
	x := &rtCtx{doc: document.New()}
	emit(Ev{"ev": "reset", "case": c.ID})
	var saved []byte
	var logged []string // canonical JSON of the projection logged at each step ("" = none)
	kinds := []string{}
	nsave := 0
	for i, op := range c.Steps {
		var proj *rtProj
		errs := []string{}
		kind := "mem"
		ret, pmsg := guard(func() string {
			switch op.Name() {
			case "Build":
				src := map[interface{}]int{}
				// a panic inside a setter (not a C03 matter) must not hide the document built so far
				r, pm := guard(func() string { return rtBuild(x, op, src, &errs) })
				if r == "panic" {
					r = "panic:" + pm
					if len(r) > 120 {
						r = r[:120]
					}
					rtMarkRest(x, src)
				}
				proj = rtMemProj(x.doc, src)
				return r
			case "Save":
				kind = "disk"
				nsave++
				saved = nil
				if nsave%2 == 0 {
					// every second cycle goes through the file API (Save / Open)
					fn := filepath.Join(rtTemp(), fmt.Sprintf("c%d.docx", os.Getpid()))
					if err := x.doc.Save(fn); err != nil {
						return "err"
					}
					b, err := os.ReadFile(fn)
					if err != nil {
						return "err-read"
					}
					saved = b
				} else {
					b, err := x.doc.ToBytes()
					if err != nil {
						return "err"
					}
					saved = b
				}
				var r string
				proj, r = rtXMLProj(saved)
				return r
			case "Open":
				if saved == nil {
					return "nothing-saved"
				}
				var d *document.Document
				var err error
				if nsave%2 == 0 {
					fn := filepath.Join(rtTemp(), fmt.Sprintf("c%d.docx", os.Getpid()))
					d, err = document.Open(fn)
				} else {
					d, err = document.OpenFromMemory(io.NopCloser(bytes.NewReader(saved)))
				}
				if err != nil || d == nil {
					return "err"
				}
				x.doc = d
				proj = rtMemProj(d, map[interface{}]int{})
				return "ok"
			}
			return "unknown-op"
		})
		if proj == nil {
			proj = rtEmptyProj()
		}
		js, err := json.Marshal(proj)
		if err != nil {
			fmt.Fprintln(os.Stderr, "marshal:", err)
			os.Exit(2)
		}
		same := 0
		if op.Name() != "Build" {
			for j := len(logged) - 1; j >= 0; j-- {
				if kinds[j] == kind && logged[j] == string(js) {
					same = j + 1
					break
				}
			}
		}
		logged = append(logged, string(js))
		kinds = append(kinds, kind)
		ev := Ev{"ev": "step", "case": c.ID, "i": i + 1, "op": op, "ret": ret, "pmsg": pmsg, "same": same, "errs": errs}
		if same > 0 {
			ev["proj"] = rtEmptyProj()
		} else {
			ev["proj"] = proj
		}
		emit(ev)
	}
}

var _ = reflect.TypeOf
