package main

// Executor for spec module Iso (property C07: documents are independent of each other).
//
// A case is a TLC-generated schedule: a sequence of {d, op, a, sub} entries (d = document,
// sub = "call" for a whole call, "begin"/"cont" for the segments of a registry call between
// the library's verifPoint hooks). The executor
//   1. runs every document's program ALONE after document.VerifResetGlobals()  (ev "solo"),
//   2. runs the schedule with all documents alive in one process, without any reset between
//      the documents                                                            (ev "step"),
// and logs the canonical projection ("view") of every document after every step. There is no
// oracle logic here: the views are compared by spec/Iso_Trace.tla.
//
// extra.mode: "seq"  one goroutine executes the schedule;
//             "go"   every document has its own goroutine, a blocking gate forces the schedule
//                    (call granularity, and hook-point granularity for begin/cont entries).

import (
	"bytes"
	"context"
	"crypto/sha1"
	"encoding/hex"
	"encoding/json"
	"encoding/xml"
	"fmt"
	"io"
	"os"
	"os/exec"
	"path/filepath"
	"runtime"
	"sort"
	"strconv"
	"strings"
	"sync"
	"sync/atomic"
	"time"

	"github.com/zerx-lab/wordZero/pkg/document"
	"github.com/zerx-lab/wordZero/pkg/markdown"
	"github.com/zerx-lab/wordZero/pkg/style"
)

func init() {
	register("iso", runIso)
	register("isosolo", runIsoSoloChild)
}

// ---------------------------------------------------------------- documents

type isoDoc struct {
	name      string
	doc       *document.Document
	aux       string
	saved     []byte
	savedProj []map[string]interface{}
	npos      int // calls started on this document (concretisation token)
}

// isoOrigin is the concretisation of "a document" for this run: "" = document.New(); "tmpl" = rendered
// from ONE document template shared by every document of the process (WZ_ISO_ORIGIN, set by the driver).
var isoOrigin = os.Getenv("WZ_ISO_ORIGIN")

var (
	isoTmplOnce sync.Once
	isoTmplEng  *document.TemplateEngine
)

// isoFromTemplate renders a fresh document from the process-wide template. The base document has
// exactly three document-level relationships (header, two pictures).
func isoFromTemplate() *document.Document {
	isoTmplOnce.Do(func() {
		base := document.New()
		base.AddParagraph("base {{v}}")
		_ = base.AddHeader(document.HeaderFooterTypeDefault, "TH")
		_, _ = base.AddImageFromData(tinyPNG(901), "t1.png", document.ImageFormatPNG, 2, 2, nil)
		_, _ = base.AddImageFromData(tinyPNG(902), "t2.png", document.ImageFormatPNG, 2, 2, nil)
		eng := document.NewTemplateEngine()
		if _, err := eng.LoadTemplateFromDocument("base", base); err == nil {
			isoTmplEng = eng
		}
	})
	if isoTmplEng != nil {
		data := document.NewTemplateData()
		data.SetVariable("v", "x")
		if d, err := isoTmplEng.RenderTemplateToDocument("base", data); err == nil && d != nil {
			return d
		}
	}
	fmt.Fprintln(os.Stderr, "iso: cannot render the shared document template")
	os.Exit(2)
	return nil
}

var (
	isoMdOnce sync.Once
	isoMdConv *markdown.Converter
)

// isoFromMarkdown converts a Markdown text with the process-wide converter; every document of a behaviour asks for
// its own options (explicitly, on every call), so what a document looks like must not depend on the options an
// earlier conversion of the same converter was given.
func isoFromMarkdown(name string) *document.Document {
	isoMdOnce.Do(func() { isoMdConv = markdown.NewConverter(markdown.DefaultOptions()) })
	o := markdown.DefaultOptions()
	switch name {
	case "d1":
		o.GenerateTOC, o.TOCMaxLevel = true, 2
	case "d2":
		o.EnableTables, o.EnableTaskList, o.EnableMath = false, false, false
	default:
		o.EnableTaskList, o.GenerateTOC, o.TOCMaxLevel = false, true, 1
	}
	md := "# H " + name + "\n\ntext of " + name + "\n\n| a | b |\n|---|---|\n| 1 | 2 |\n\n- [x] done\n- [ ] open\n\n## Sub\n\n$x^2$\n"
	d, err := isoMdConv.ConvertString(md, o)
	if err != nil || d == nil {
		fmt.Fprintln(os.Stderr, "iso: cannot convert the Markdown start document:", err)
		os.Exit(2)
	}
	return d
}

func isoNewDoc(name string) *isoDoc {
	d := &isoDoc{name: name, aux: "none", savedProj: []map[string]interface{}{}}
	if isoOrigin == "tmpl" {
		d.doc = isoFromTemplate()
	} else if isoOrigin == "md" {
		d.doc = isoFromMarkdown(name)
	} else {
		d.doc = document.New()
	}
	return d
}

type isoExtra struct {
	Mode   string `json:"mode"`
	Rounds int    `json:"rounds"`
	Origin string `json:"origin"` // "" | "tmpl" | "md": how the documents of this behaviour come into being
}

func isoExtraOf(c Case) isoExtra {
	x := isoExtra{Mode: "seq", Rounds: 8}
	if len(c.Extra) > 0 {
		json.Unmarshal(c.Extra, &x)
	}
	if x.Mode == "" {
		x.Mode = "seq"
	}
	if x.Rounds <= 0 {
		x.Rounds = 8
	}
	return x
}

// isoPrograms splits a schedule into the per-document programs (calls in order).
func isoPrograms(steps []Op) (names []string, progs map[string][]Op) {
	progs = map[string][]Op{}
	for _, s := range steps {
		d := s.Str("d")
		if _, ok := progs[d]; !ok {
			progs[d] = nil
			names = append(names, d)
		}
		if s.Str("sub") == "cont" {
			continue
		}
		progs[d] = append(progs[d], Op{"op": s.Str("op"), "a": s.Str("a")})
	}
	sort.Strings(names)
	return
}

var isoFinalOp = Op{"op": "ToBytes", "a": ""}

// ---------------------------------------------------------------- execution of one abstract call

func isoTokInt(tok string) int {
	h := 0
	for _, c := range tok {
		h = h*31 + int(c)
	}
	if h < 0 {
		h = -h
	}
	return h % 200
}

func isoExec(st *isoDoc, op Op) (string, string) {
	st.npos++
	tok := st.name + "-T" + strconv.Itoa(st.npos)
	return guard(func() string {
		d := st.doc
		a := op.Str("a")
		switch op.Name() {
		case "AddFootnote":
			return errRet(d.AddFootnote(tok, "note "+tok))
		case "AddFootnoteToRun":
			p := d.AddParagraph(tok)
			if len(p.Runs) == 0 {
				return "err"
			}
			return errRet(d.AddFootnoteToRun(&p.Runs[0], "note "+tok))
		case "AddEndnote":
			return errRet(d.AddEndnote(tok, "endnote "+tok))
		case "RemoveFootnote":
			return errRet(d.RemoveFootnote(a))
		case "RemoveEndnote":
			return errRet(d.RemoveEndnote(a))
		case "AddListItem":
			var cfg *document.ListConfig
			switch a {
			case "bullet":
				cfg = &document.ListConfig{Type: document.ListTypeBullet, BulletSymbol: document.BulletTypeDot}
			case "num1":
				cfg = &document.ListConfig{Type: document.ListTypeNumber, StartNumber: 1}
			case "num5":
				cfg = &document.ListConfig{Type: document.ListTypeNumber, StartNumber: 5}
			default:
				return "unknown-op"
			}
			d.AddListItem(tok, cfg)
		case "RestartNumbering":
			// no return value: whether the call changed the numbering part is its observable result
			before, had := d.GetParts()["word/numbering.xml"]
			d.RestartNumbering(a)
			after, has := d.GetParts()["word/numbering.xml"]
			if had != has || !bytes.Equal(before, after) {
				return "changed"
			}
		case "AddParagraph":
			d.AddParagraph(tok)
		case "AddTable":
			t, err := d.AddTable(&document.TableConfig{Rows: 1, Cols: 2, Width: 4000})
			if err != nil {
				return "err"
			}
			t.SetCellText(0, 0, tok)
		case "AddImage":
			// picture classes by token: inline without configuration / floating with wrapping and an offset (another code path:
			// anchors carry ids and stacking values of their own)
			var cfg *document.ImageConfig
			if isoTokInt(tok)%2 == 1 {
				cfg = &document.ImageConfig{Position: document.ImagePositionFloatLeft, WrapText: document.ImageWrapSquare, OffsetX: 3,
					AltText: "alt " + tok, Title: "title " + tok}
			}
			if _, err := d.AddImageFromData(tinyPNG(isoTokInt(tok)), tok+".png", document.ImageFormatPNG, 2, 2, cfg); err != nil {
				return "err"
			}
		case "AddImageFile":
			// every document of the process writes its picture to the same path before inserting it from there; the
			// pictures differ in pixel size by document and call, and are padded to one encoded length (whatever is
			// remembered about "the file at this path" must not outlive the call). Sequential stages only.
			dir := filepath.Join(os.TempDir(), fmt.Sprintf("wzh-iso-%d", os.Getpid()))
			if err := os.MkdirAll(dir, 0o755); err != nil {
				fmt.Fprintln(os.Stderr, "iso: cannot create", dir, err)
				os.Exit(2)
			}
			fn := filepath.Join(dir, "shared_chart.png")
			k := isoTokInt(tok)
			w, h := 3+k%7, 3+(k/7+2*len(st.name))%5
			if st.name == "d2" {
				w, h = h+6, w+1
			}
			if err := os.WriteFile(fn, picPad(tinyPNGSize(k, w, h), "png", 640, k), 0o644); err != nil {
				return "err"
			}
			if _, err := d.AddImageFromFile(fn, nil); err != nil {
				return "err"
			}
		case "AddHeader":
			return errRet(d.AddHeader(document.HeaderFooterTypeDefault, "H"+tok))
		case "AddFooter":
			return errRet(d.AddFooter(document.HeaderFooterTypeDefault, "F"+tok))
		case "AddStyle":
			d.GetStyleManager().AddStyle(&style.Style{Type: "paragraph", StyleID: "C_" + tok, CustomStyle: true,
				Name: &style.StyleName{Val: "custom " + tok}, BasedOn: &style.BasedOn{Val: "Normal"}})
		case "EditStyle":
			// a predefined style is edited in place through the pointer the style manager hands out
			if hs := d.GetStyleManager().GetStyle("Heading1"); hs != nil {
				if hs.RunPr == nil {
					hs.RunPr = &style.RunProperties{}
				}
				if hs.RunPr.FontSize == nil {
					hs.RunPr.FontSize = &style.FontSize{}
				}
				hs.RunPr.FontSize.Val = strconv.Itoa(40 + isoTokInt(tok)%50)
				if hs.ParagraphPr != nil && hs.ParagraphPr.Spacing != nil {
					hs.ParagraphPr.Spacing.Before = strconv.Itoa(100 + isoTokInt(tok)%50)
				}
			}
		case "GenerateTOC":
			cfg := document.DefaultTOCConfig()
			cfg.Title = "TOC " + tok
			return errRet(d.GenerateTOC(cfg))
		case "SetPageMargins":
			if err := d.SetPageMargins(20, 21, 22, 23); err != nil {
				return "err"
			}
			// the read-back is part of the call pattern (GetPageSettings creates section settings when there are none,
			// so it is an operation of the document, not an observation the harness may make at will)
			st.aux = "page|" + isoPageProj(d)
		case "SetFootnoteConfig":
			return errRet(d.SetFootnoteConfig(&document.FootnoteConfig{NumberFormat: document.FootnoteFormatLowerRoman,
				StartNumber: 2, RestartEach: document.FootnoteRestartEachPage, Position: document.FootnotePositionPageBottom}))
		case "RenderTextTemplate":
			te := document.NewTemplateEngine()
			if _, err := te.LoadTemplate("t", "Hello {{name}}\n{{#if on}}shown "+tok+"{{/if}}"); err != nil {
				return "err"
			}
			data := document.NewTemplateData()
			data.SetVariable("name", tok)
			data.SetCondition("on", true)
			r, err := te.RenderToDocument("t", data)
			if err != nil {
				return "err"
			}
			st.aux = "tmpl|" + isoAuxDigest(r)
		case "ConvertMd":
			r, err := markdown.NewConverter(markdown.DefaultOptions()).ConvertString("# H "+tok+"\n\n- a\n- b\n\n1. x\n2. y\n\ntext[^1] "+tok+"\n\n[^1]: fn\n", nil)
			if err != nil {
				return "err"
			}
			st.aux = "md|" + isoAuxDigest(r)
		case "ToBytes":
			b, err := d.ToBytes()
			if err != nil {
				return "err"
			}
			st.setSaved(b)
		case "Save":
			// the documents of a behaviour are saved side by side in one directory under names that differ in a short
			// prefix only (d1_iso_report.docx, d2_iso_report.docx): whatever Save derives from the target name or
			// directory (temporary / backup / lock files) is then shared unless it is derived injectively
			dir := filepath.Join(os.TempDir(), fmt.Sprintf("wzh-iso-%d", os.Getpid()))
			if err := os.MkdirAll(dir, 0o755); err != nil {
				fmt.Fprintln(os.Stderr, "iso: cannot create", dir, err)
				os.Exit(2)
			}
			fn := filepath.Join(dir, st.name+"_iso_report.docx")
			defer os.Remove(fn)
			if err := d.Save(fn); err != nil {
				return "err"
			}
			b, err := os.ReadFile(fn)
			if err != nil {
				return "err"
			}
			st.setSaved(b)
		case "Open":
			b, err := d.ToBytes()
			if err != nil {
				return "err"
			}
			st.setSaved(b)
			nd, err := document.OpenFromMemory(io.NopCloser(bytes.NewReader(b)))
			if err != nil {
				return "err"
			}
			st.doc = nd
		default:
			return "unknown-op"
		}
		return "ok"
	})
}

// ---------------------------------------------------------------- projection

var (
	isoCanonMu    sync.Mutex
	isoCanonCache = map[string]string{}
	// isoNoSync is set in the free-running race child: the harness must not synchronise the
	// document goroutines with each other (a lock would order their accesses and hide races)
	isoNoSync bool
)

func isoHash(b []byte) string {
	s := sha1.Sum(b)
	return hex.EncodeToString(s[:6])
}

// parts whose top-level children are written in map-iteration order by the library
var isoUnordered = map[string]bool{"word/footnotes.xml": true, "word/endnotes.xml": true, "word/numbering.xml": true, "word/styles.xml": true}

func isoCanonNode(n *Node, sb *strings.Builder, sortKids bool) {
	sb.WriteString("<{")
	sb.WriteString(n.Space)
	sb.WriteString("}")
	sb.WriteString(n.Local)
	attrs := make([]string, 0, len(n.Attr))
	for _, a := range n.Attr {
		if a.Name.Space == "xmlns" || a.Name.Local == "xmlns" {
			continue
		}
		attrs = append(attrs, "{"+a.Name.Space+"}"+a.Name.Local+"="+strconv.Quote(a.Value))
	}
	sort.Strings(attrs)
	for _, a := range attrs {
		sb.WriteString(" ")
		sb.WriteString(a)
	}
	sb.WriteString(">")
	if len(n.Kids) == 0 {
		sb.WriteString(n.Text)
	} else {
		sb.WriteString(strings.TrimSpace(n.Text))
	}
	if sortKids {
		ks := make([]string, 0, len(n.Kids))
		for _, k := range n.Kids {
			var s strings.Builder
			isoCanonNode(k, &s, false)
			ks = append(ks, s.String())
		}
		sort.Strings(ks)
		for _, k := range ks {
			sb.WriteString(k)
		}
	} else {
		for _, k := range n.Kids {
			isoCanonNode(k, sb, false)
		}
	}
	sb.WriteString("</>")
}

// isoPartDigest gives a digest of the canonical form of one part (XML parts are parsed by the
// independent reader; attribute order, indentation and map-iteration order do not matter).
func isoPartDigest(name string, data []byte) string {
	key := name + "\x00" + string(data)
	var h string
	if !isoNoSync {
		isoCanonMu.Lock()
		c, ok := isoCanonCache[key]
		isoCanonMu.Unlock()
		if ok {
			return c
		}
	}
	if strings.HasSuffix(name, ".xml") || strings.HasSuffix(name, ".rels") {
		root, err := ParseXML(data)
		if err != nil {
			h = "!xml:" + isoHash(data)
		} else {
			var sb strings.Builder
			isoCanonNode(root, &sb, isoUnordered[name])
			h = isoHash([]byte(sb.String()))
		}
	} else {
		h = isoHash(data)
	}
	if !isoNoSync {
		isoCanonMu.Lock()
		if len(isoCanonCache) > 20000 {
			isoCanonCache = map[string]string{}
		}
		isoCanonCache[key] = h
		isoCanonMu.Unlock()
	}
	return h
}

func isoKind(name string) string {
	var sb strings.Builder
	prev := false
	for _, c := range name {
		if c >= '0' && c <= '9' {
			if !prev {
				sb.WriteByte('#')
			}
			prev = true
			continue
		}
		prev = false
		sb.WriteRune(c)
	}
	return sb.String()
}

func isoPartsProj(parts map[string][]byte) []map[string]interface{} {
	names := make([]string, 0, len(parts))
	for n := range parts {
		names = append(names, n)
	}
	sort.Strings(names)
	out := make([]map[string]interface{}, 0, len(names))
	for _, n := range names {
		out = append(out, map[string]interface{}{"k": isoKind(n), "n": n, "h": isoPartDigest(n, parts[n])})
	}
	return out
}

// setSaved remembers the package last obtained; it is projected when the view is taken.
func (st *isoDoc) setSaved(b []byte) {
	st.saved = b
	st.savedProj = nil
}

func (st *isoDoc) projectSaved() {
	b := st.saved
	p := ReadPkg(b)
	if p.ZipErr != "" {
		st.savedProj = []map[string]interface{}{{"k": "!zip", "n": "!zip", "h": isoHash(b)}}
		return
	}
	st.savedProj = isoPartsProj(p.Parts)
}

func isoBodyProj(d *document.Document) []string {
	out := []string{}
	if d == nil || d.Body == nil {
		return out
	}
	for _, el := range d.Body.Elements {
		data, err := xml.Marshal(el)
		if err != nil {
			out = append(out, kindOf(el)+":!marshal")
			continue
		}
		n, err := ParseXML(data)
		if err != nil {
			out = append(out, kindOf(el)+":!parse:"+isoHash(data))
			continue
		}
		var sb strings.Builder
		isoCanonNode(n, &sb, false)
		out = append(out, kindOf(el)+":"+isoHash([]byte(sb.String()))+":"+n.WText())
	}
	return out
}

func isoStylesProj(d *document.Document) string {
	sm := d.GetStyleManager()
	if sm == nil {
		return "nil"
	}
	// id and full definition of every registered style (order-independent)
	var ids []string
	for _, s := range sm.GetAllStyles() {
		def, err := xml.Marshal(s)
		if err != nil {
			def = []byte("!marshal")
		}
		ids = append(ids, s.StyleID+"="+isoHash(def))
	}
	sort.Strings(ids)
	return fmt.Sprintf("n=%d:%s", len(ids), isoHash([]byte(strings.Join(ids, ","))))
}

func isoCount(f func() int) (n int) {
	defer func() {
		if recover() != nil {
			n = -1
		}
	}()
	return f()
}

// isoView is the canonical projection of one document: accessor results, the in-memory body,
// the in-memory parts and the package last obtained from ToBytes/Save. It calls no mutating method.
func isoView(st *isoDoc) map[string]interface{} {
	d := st.doc
	if st.savedProj == nil {
		st.projectSaved()
	}
	v := map[string]interface{}{
		"fnCount": isoCount(d.GetFootnoteCount),
		"enCount": isoCount(d.GetEndnoteCount),
		"aux":     st.aux,
		"saved":   st.savedProj,
	}
	func() {
		defer func() {
			if r := recover(); r != nil {
				v["body"] = []string{"!panic"}
				v["styles"] = "!panic"
				v["parts"] = []map[string]interface{}{}
			}
		}()
		v["body"] = isoBodyProj(d)
		v["styles"] = isoStylesProj(d)
		v["parts"] = isoPartsProj(d.GetParts())
	}()
	return v
}

// isoPageProj is what the page-settings read accessor returns for the document (it may create section settings).
func isoPageProj(d *document.Document) (out string) {
	defer func() {
		if r := recover(); r != nil {
			out = "!panic"
		}
	}()
	s := d.GetPageSettings()
	if s == nil {
		return "nil"
	}
	return fmt.Sprintf("%v|%v|%.2fx%.2f|%.2f,%.2f,%.2f,%.2f|%.2f,%.2f,%.2f|%v,%v,%v", s.Size, s.Orientation, s.CustomWidth, s.CustomHeight,
		s.MarginTop, s.MarginRight, s.MarginBottom, s.MarginLeft, s.HeaderDistance, s.FooterDistance, s.GutterWidth,
		s.DocGridType, s.DocGridLinePitch, s.DocGridCharSpace)
}

// isoAuxDigest projects a document produced by a rendering call (template, Markdown).
func isoAuxDigest(r *document.Document) string {
	t := &isoDoc{name: "aux", doc: r, aux: "", savedProj: []map[string]interface{}{}}
	if b, err := r.ToBytes(); err == nil {
		t.setSaved(b)
	} else {
		t.aux = "!tobytes"
	}
	v := isoView(t)
	j, _ := json.Marshal(v)
	return fmt.Sprintf("fn=%v|en=%v|%s", v["fnCount"], v["enCount"], isoHash(j))
}

// ---------------------------------------------------------------- views by reference

// isoIntern is a per-case dictionary of views: an event mentions a view by its id and carries
// the definition of the ids it mentions for the first time (compression only, no comparison logic).
type isoIntern struct {
	ids  map[string]string
	pend map[string]interface{}
}

func newIsoIntern() *isoIntern {
	return &isoIntern{ids: map[string]string{}, pend: map[string]interface{}{}}
}

func (t *isoIntern) id(v interface{}) string {
	j, _ := json.Marshal(v)
	if id, ok := t.ids[string(j)]; ok {
		return id
	}
	id := fmt.Sprintf("v%d", len(t.ids)+1)
	t.ids[string(j)] = id
	t.pend[id] = v
	return id
}

// emit attaches the pending definitions to the event.
func (t *isoIntern) emit(emit Emitter, ev Ev) {
	ev["defs"] = t.pend
	t.pend = map[string]interface{}{}
	emit(ev)
}

// ---------------------------------------------------------------- hooks present?

var (
	isoHooksOnce sync.Once
	isoHooks     bool
)

// isoProbeHooks tells whether the library under test carries the notes./numbering. hook points.
func isoProbeHooks() bool {
	isoHooksOnce.Do(func() {
		old := document.VerifHook
		var hit int32
		document.VerifHook = func(p string) {
			if strings.HasPrefix(p, "notes.") || strings.HasPrefix(p, "numbering.") {
				atomic.StoreInt32(&hit, 1)
			}
		}
		guard(func() string {
			d := document.New()
			d.AddFootnote("p", "p")
			d.AddListItem("p", nil)
			return "ok"
		})
		document.VerifHook = old
		document.VerifResetGlobals()
		isoHooks = atomic.LoadInt32(&hit) == 1
	})
	return isoHooks
}

// ---------------------------------------------------------------- solo baseline

// isoSoloRun is the outcome of one per-document program run alone.
type isoSoloRun struct {
	Ops   []Op                     `json:"ops"`
	Rets  []string                 `json:"rets"`
	Views []map[string]interface{} `json:"views"`
}

// A solo run is a function of (document name, program): it is computed once per harness process.
var (
	isoSoloMemo = map[string]*isoSoloRun{}
	// isoSoloInProc: compute baselines in this process (after a registry reset) instead of in a
	// process of their own. Used by the race parent, which executes nothing but baselines.
	isoSoloInProc bool
	isoSoloDir    string
)

func isoSoloRunHere(d string, prog []Op) *isoSoloRun {
	document.VerifResetGlobals()
	st := isoNewDoc(d)
	r := &isoSoloRun{Ops: prog, Rets: []string{}, Views: []map[string]interface{}{isoView(st)}}
	for _, op := range prog {
		ret, _ := isoExec(st, op)
		r.Rets = append(r.Rets, ret)
		r.Views = append(r.Views, isoView(st))
	}
	return r
}

// runIsoSoloChild executes one program on one document in a process of its own ("alone").
func runIsoSoloChild(c Case, emit Emitter) {
	names, progs := isoPrograms(c.Steps)
	for _, d := range names {
		r := isoSoloRunHere(d, progs[d])
		emit(Ev{"ev": "solorun", "d": d, "ops": r.Ops, "rets": r.Rets, "views": r.Views})
	}
}

func isoSoloSpawn(d string, prog []Op) *isoSoloRun {
	if isoSoloDir == "" {
		dir, err := os.MkdirTemp(".", "isosolo-")
		if err != nil {
			fmt.Fprintln(os.Stderr, "isosolo:", err)
			os.Exit(2)
		}
		isoSoloDir = dir
	}
	steps := []Op{}
	for _, op := range prog {
		steps = append(steps, Op{"d": d, "op": op.Str("op"), "a": op.Str("a"), "sub": "call"})
	}
	if len(steps) == 0 {
		return isoSoloRunHere(d, prog)
	}
	cf, of := isoSoloDir+"/case.ndjson", isoSoloDir+"/obs.ndjson"
	cj, _ := json.Marshal(Case{ID: 0, Steps: steps})
	os.WriteFile(cf, append(cj, '\n'), 0o644)
	os.Remove(of)
	ctx, cancel := context.WithTimeout(context.Background(), 120*time.Second)
	defer cancel()
	cmd := exec.CommandContext(ctx, os.Args[0], "isosolo", cf, of)
	cmd.Env = append(os.Environ(), "WZ_ISO_ORIGIN="+isoOrigin)
	var se bytes.Buffer
	cmd.Stderr = &se
	if err := cmd.Run(); err != nil {
		fmt.Fprintf(os.Stderr, "isosolo: baseline process failed (%v):\n%s\n", err, se.String())
		os.Exit(2)
	}
	data, err := os.ReadFile(of)
	var r isoSoloRun
	if err == nil {
		err = json.Unmarshal(bytes.TrimSpace(data), &r)
	}
	if err != nil || len(r.Views) != len(prog)+1 {
		fmt.Fprintf(os.Stderr, "isosolo: cannot read the baseline of %s (%v)\n", d, err)
		os.Exit(2)
	}
	r.Ops = prog
	return &r
}

func isoSoloOf(d string, prog []Op) *isoSoloRun {
	kj, _ := json.Marshal(prog)
	key := isoOrigin + "|" + d + "|" + string(kj)
	if r, ok := isoSoloMemo[key]; ok {
		return r
	}
	var r *isoSoloRun
	if isoSoloInProc {
		r = isoSoloRunHere(d, prog)
	} else {
		// the harness processes of one check run (shards, stages) share their working directory:
		// a baseline computed by one of them is reused by the others
		os.MkdirAll("isosolo-cache", 0o755)
		file := "isosolo-cache/" + isoHash([]byte(key)) + isoHash([]byte("#"+key)) + ".json"
		if data, err := os.ReadFile(file); err == nil {
			var c isoSoloRun
			if json.Unmarshal(data, &c) == nil && len(c.Views) == len(prog)+1 {
				c.Ops = prog
				r = &c
			}
		}
		if r == nil {
			r = isoSoloSpawn(d, prog)
			if data, err := json.Marshal(r); err == nil {
				tmp := fmt.Sprintf("%s.%d.tmp", file, os.Getpid())
				if os.WriteFile(tmp, data, 0o644) == nil {
					os.Rename(tmp, file)
				}
			}
		}
	}
	if len(isoSoloMemo) > 50000 {
		isoSoloMemo = map[string]*isoSoloRun{}
	}
	isoSoloMemo[key] = r
	return r
}

func isoSolo(c Case, names []string, progs map[string][]Op, tab *isoIntern, emit Emitter) {
	for _, d := range names {
		r := isoSoloOf(d, append(append([]Op{}, progs[d]...), isoFinalOp))
		ids := []string{}
		for _, v := range r.Views {
			ids = append(ids, tab.id(v))
		}
		tab.emit(emit, Ev{"ev": "solo", "case": c.ID, "d": d, "ops": r.Ops, "rets": r.Rets, "views": ids})
	}
}

func isoViews(names []string, docs map[string]*isoDoc, tab *isoIntern) map[string]interface{} {
	vs := map[string]interface{}{}
	for _, d := range names {
		vs[d] = tab.id(isoView(docs[d]))
	}
	return vs
}

// ---------------------------------------------------------------- the executor

func runIso(c Case, emit Emitter) {
	x := isoExtraOf(c)
	isoOrigin = x.Origin
	names, progs := isoPrograms(c.Steps)
	emit(Ev{"ev": "reset", "case": c.ID, "mode": x.Mode, "hooks": isoProbeHooks()})
	tab := newIsoIntern()
	isoSolo(c, names, progs, tab, emit)
	document.VerifResetGlobals()
	// all documents exist from the start; nothing is reset between them from here on
	docs := map[string]*isoDoc{}
	for _, d := range names {
		docs[d] = isoNewDoc(d)
	}
	if x.Mode == "go" {
		isoRunGo(c, names, docs, tab, emit)
		return
	}
	steps := append([]Op{}, c.Steps...)
	for _, d := range names {
		steps = append(steps, Op{"d": d, "op": "ToBytes", "a": "", "sub": "call"})
	}
	for _, s := range steps {
		if s.Str("sub") == "cont" {
			continue // one goroutine: a call cannot be suspended; it ran at its "begin" entry
		}
		d := s.Str("d")
		ret, pmsg := isoExec(docs[d], s)
		tab.emit(emit, Ev{"ev": "step", "case": c.ID, "d": d, "op": s, "fin": true, "ret": ret, "pmsg": pmsg,
			"busy": []string{}, "views": isoViews(names, docs, tab)})
	}
}

// ---------------------------------------------------------------- goroutines under a gate

func isoGoid() int64 {
	var buf [64]byte
	n := runtime.Stack(buf[:], false)
	f := strings.Fields(string(buf[:n]))
	if len(f) < 2 {
		return -1
	}
	id, _ := strconv.ParseInt(f[1], 10, 64)
	return id
}

type isoEvt struct {
	done  bool
	point string
	ret   string
	pmsg  string
}

type isoWorker struct {
	st      *isoDoc
	cmd     chan Op
	evt     chan isoEvt
	grant   chan struct{}
	pauseOn int32
	// owned by the scheduler goroutine
	inCall bool
	paused bool
	cur    Op
}

var isoWorkers sync.Map // goroutine id -> *isoWorker

func isoGateHook(point string) {
	if !(strings.HasPrefix(point, "notes.") || strings.HasPrefix(point, "numbering.")) {
		return
	}
	wi, ok := isoWorkers.Load(isoGoid())
	if !ok {
		return
	}
	w := wi.(*isoWorker)
	if atomic.LoadInt32(&w.pauseOn) == 0 {
		return
	}
	w.evt <- isoEvt{point: point}
	<-w.grant
}

func isoRunGo(c Case, names []string, docs map[string]*isoDoc, tab *isoIntern, emit Emitter) {
	ws := map[string]*isoWorker{}
	var ids []int64
	for _, d := range names {
		w := &isoWorker{st: docs[d], cmd: make(chan Op), evt: make(chan isoEvt), grant: make(chan struct{})}
		ws[d] = w
		ready := make(chan int64)
		go func() {
			id := isoGoid()
			isoWorkers.Store(id, w)
			ready <- id
			for op := range w.cmd {
				ret, pmsg := isoExec(w.st, op)
				w.evt <- isoEvt{done: true, ret: ret, pmsg: pmsg}
			}
		}()
		ids = append(ids, <-ready)
	}
	old := document.VerifHook
	document.VerifHook = isoGateHook
	defer func() {
		document.VerifHook = old
		for _, d := range names {
			close(ws[d].cmd)
		}
		for _, id := range ids {
			isoWorkers.Delete(id)
		}
	}()
	busy := func() []string {
		b := []string{}
		for _, d := range names {
			if ws[d].inCall {
				b = append(b, d)
			}
		}
		return b
	}
	log := func(d string, op Op, sub string, fin bool, ev isoEvt) {
		o := Op{"d": d, "op": op.Str("op"), "a": op.Str("a"), "sub": sub}
		ret := ev.ret
		if !fin {
			ret = "paused:" + ev.point
		}
		tab.emit(emit, Ev{"ev": "step", "case": c.ID, "d": d, "op": o, "fin": fin, "ret": ret, "pmsg": ev.pmsg,
			"busy": busy(), "views": isoViews(names, docs, tab)})
	}
	wait := func(w *isoWorker) isoEvt {
		ev := <-w.evt
		if ev.done {
			w.inCall, w.paused = false, false
		} else {
			w.paused = true
		}
		return ev
	}
	// drain lets a suspended call run to its end
	drain := func(d string) {
		w := ws[d]
		if !w.inCall {
			return
		}
		atomic.StoreInt32(&w.pauseOn, 0)
		w.grant <- struct{}{}
		ev := wait(w)
		log(d, w.cur, "drain", true, ev)
	}
	for _, s := range c.Steps {
		d := s.Str("d")
		w := ws[d]
		switch s.Str("sub") {
		case "cont":
			if !w.inCall {
				continue // the library has fewer pause points than the model: nothing to resume
			}
			w.grant <- struct{}{}
			ev := wait(w)
			log(d, w.cur, "cont", ev.done, ev)
		case "begin":
			drain(d)
			atomic.StoreInt32(&w.pauseOn, 1)
			w.cur, w.inCall = s, true
			w.cmd <- s
			ev := wait(w)
			log(d, s, "begin", ev.done, ev)
		default:
			drain(d)
			atomic.StoreInt32(&w.pauseOn, 0)
			w.cur, w.inCall = s, true
			w.cmd <- s
			ev := wait(w)
			log(d, s, "call", true, ev)
		}
	}
	for _, d := range names {
		drain(d)
	}
	for _, d := range names {
		w := ws[d]
		atomic.StoreInt32(&w.pauseOn, 0)
		w.cur, w.inCall = isoFinalOp, true
		w.cmd <- isoFinalOp
		ev := wait(w)
		log(d, isoFinalOp, "call", true, ev)
	}
}
