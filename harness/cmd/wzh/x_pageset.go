package main

// Executor for spec module PageSet (property C12).
//
// Executes abstract page-setting operations on the real library and projects, after every
// step, three views of what the library holds:
//   get  GetPageSettings() of the live document                      (lengths in micrometres)
//   xml  w:pgSz / w:pgMar / w:docGrid of the body-level w:sectPr of the saved main part,
//        read with the independent reader of opc.go                  (twips, as written)
//   re   GetPageSettings() of the saved bytes opened again           (micrometres)
// No comparison is made here; spec/PageSet_Trace.tla judges the views.

import (
	"bytes"
	"io"
	"math"
	"strconv"
	"strings"

	"github.com/zerx-lab/wordZero/pkg/document"
)

func init() { register("pageset", runPageSet) }

func psMM(o Op, k string) float64 { return float64(o.Int(k)) / 1000.0 }

func psUm(mm float64) int {
	v := math.Round(mm * 1000)
	if math.IsNaN(v) || math.IsInf(v, 0) || math.Abs(v) > 1e12 {
		return -999999999
	}
	return int(v)
}

// psGetView projects a *PageSettings to the accessor view.
func psGetView(s *document.PageSettings, ret string) map[string]interface{} {
	v := map[string]interface{}{"ret": ret, "n": "", "cw": 0, "ch": 0, "or": "", "mt": 0, "mr": 0, "mb": 0, "ml": 0,
		"hd": 0, "fd": 0, "gut": 0, "gt": "", "gp": 0, "gc": 0}
	if s == nil {
		return v
	}
	v["n"] = string(s.Size)
	v["cw"] = psUm(s.CustomWidth)
	v["ch"] = psUm(s.CustomHeight)
	v["or"] = string(s.Orientation)
	v["mt"] = psUm(s.MarginTop)
	v["mr"] = psUm(s.MarginRight)
	v["mb"] = psUm(s.MarginBottom)
	v["ml"] = psUm(s.MarginLeft)
	v["hd"] = psUm(s.HeaderDistance)
	v["fd"] = psUm(s.FooterDistance)
	v["gut"] = psUm(s.GutterWidth)
	v["gt"] = string(s.DocGridType)
	v["gp"] = s.DocGridLinePitch
	v["gc"] = s.DocGridCharSpace
	return v
}

// psXMLView reads the section settings of the saved main part.
func psXMLView(b []byte, ret string) map[string]interface{} {
	v := map[string]interface{}{"ret": ret, "nsect": 0, "bad": false,
		"hasSz": false, "w": 0, "h": 0, "orient": "",
		"hasMar": false, "top": 0, "right": 0, "bottom": 0, "left": 0, "header": 0, "footer": 0, "gutter": 0,
		"hasGrid": false, "gtype": "", "gp": 0, "gc": 0}
	if ret != "ok" {
		return v
	}
	p := ReadPkg(b)
	if p.ZipErr != "" {
		v["ret"] = "zip"
		return v
	}
	body, err := p.MainBody()
	if err != nil {
		v["ret"] = "xml"
		return v
	}
	sects := body.Children("sectPr")
	v["nsect"] = len(sects)
	if len(sects) == 0 {
		return v
	}
	sect := sects[len(sects)-1]
	bad := false
	num := func(n *Node, attr string) int {
		s := strings.TrimSpace(n.A(attr))
		if s == "" {
			return 0
		}
		i, err := strconv.Atoi(s)
		if err != nil {
			bad = true
			return 0
		}
		return i
	}
	if sz := sect.Child("pgSz"); sz != nil {
		v["hasSz"] = true
		v["w"] = num(sz, "w")
		v["h"] = num(sz, "h")
		v["orient"] = sz.A("orient")
	}
	if m := sect.Child("pgMar"); m != nil {
		v["hasMar"] = true
		for _, k := range []string{"top", "right", "bottom", "left", "header", "footer", "gutter"} {
			v[k] = num(m, k)
		}
	}
	if g := sect.Child("docGrid"); g != nil {
		v["hasGrid"] = true
		v["gtype"] = g.A("type")
		v["gp"] = num(g, "linePitch")
		v["gc"] = num(g, "charSpace")
	}
	v["bad"] = bad
	return v
}

func psSettings(o Op) *document.PageSettings {
	if o.Bool("isnil") {
		return nil
	}
	return &document.PageSettings{
		Size:             document.PageSize(o.Str("n")),
		CustomWidth:      psMM(o, "w"),
		CustomHeight:     psMM(o, "h"),
		Orientation:      document.PageOrientation(o.Str("or")),
		MarginTop:        psMM(o, "mt"),
		MarginRight:      psMM(o, "mr"),
		MarginBottom:     psMM(o, "mb"),
		MarginLeft:       psMM(o, "ml"),
		HeaderDistance:   psMM(o, "hd"),
		FooterDistance:   psMM(o, "fd"),
		GutterWidth:      psMM(o, "gut"),
		DocGridType:      document.DocGridType(o.Str("gt")),
		DocGridLinePitch: o.Int("gp"),
		DocGridCharSpace: o.Int("gc"),
	}
}

func psReopen(b []byte) (*document.Document, error) {
	return document.OpenFromMemory(io.NopCloser(bytes.NewReader(b)))
}

func runPageSet(c Case, emit Emitter) {
	document.VerifResetGlobals()
	d := document.New()
	emit(Ev{"ev": "reset", "case": c.ID})
	for i, op := range c.Steps {
		ret, pmsg := guard(func() string {
			switch op.Name() {
			case "SetPageSettings":
				return errRet(d.SetPageSettings(psSettings(op)))
			case "SetPageSize":
				return errRet(d.SetPageSize(document.PageSize(op.Str("n"))))
			case "SetCustomPageSize":
				return errRet(d.SetCustomPageSize(psMM(op, "w"), psMM(op, "h")))
			case "SetPageOrientation":
				return errRet(d.SetPageOrientation(document.PageOrientation(op.Str("or"))))
			case "SetPageMargins":
				return errRet(d.SetPageMargins(psMM(op, "mt"), psMM(op, "mr"), psMM(op, "mb"), psMM(op, "ml")))
			case "SetHeaderFooterDistance":
				return errRet(d.SetHeaderFooterDistance(psMM(op, "hd"), psMM(op, "fd")))
			case "SetGutterWidth":
				return errRet(d.SetGutterWidth(psMM(op, "gut")))
			case "SetDocGrid":
				return errRet(d.SetDocGrid(document.DocGridType(op.Str("gt")), op.Int("gp"), op.Int("gc")))
			case "ClearDocGrid":
				return errRet(d.ClearDocGrid())
			case "SetDefaultPageSettings":
				return errRet(d.SetPageSettings(document.DefaultPageSettings()))
			case "GetPageSettings":
				d.GetPageSettings()
				return "ok"
			case "AddHeader":
				return errRet(d.AddHeader(document.HeaderFooterTypeDefault, "H"+strconv.Itoa(i)))
			case "AddFooter":
				return errRet(d.AddFooter(document.HeaderFooterTypeDefault, "F"+strconv.Itoa(i)))
			case "SetDifferentFirstPage":
				d.SetDifferentFirstPage(i%2 == 0)
				return "ok"
			case "AddParagraph":
				d.AddParagraph("P" + strconv.Itoa(i))
				return "ok"
			case "Reopen":
				b, err := d.ToBytes()
				if err != nil {
					return "err"
				}
				d2, err := psReopen(b)
				if err != nil {
					return "err"
				}
				d = d2
				return "ok"
			}
			return "unknown-op"
		})
		ev := Ev{"ev": "step", "case": c.ID, "i": i, "op": op, "ret": ret, "pmsg": pmsg}

		// saved view first (the accessor below creates an empty w:sectPr when there is none)
		var saved []byte
		sret, _ := guard(func() string {
			b, err := d.ToBytes()
			if err != nil {
				return "err"
			}
			saved = b
			return "ok"
		})
		var xv map[string]interface{}
		if r, _ := guard(func() string { xv = psXMLView(saved, sret); return "ok" }); r != "ok" || xv == nil {
			xv = psXMLView(nil, "xml")
		}
		ev["xml"] = xv

		var gv map[string]interface{}
		if r, _ := guard(func() string { gv = psGetView(d.GetPageSettings(), "ok"); return "ok" }); r != "ok" || gv == nil {
			gv = psGetView(nil, "panic")
		}
		ev["get"] = gv

		var rv map[string]interface{}
		if sret == "ok" {
			r, _ := guard(func() string {
				d2, err := psReopen(saved)
				if err != nil {
					return "err"
				}
				rv = psGetView(d2.GetPageSettings(), "ok")
				return "ok"
			})
			if r != "ok" || rv == nil {
				rv = psGetView(nil, r)
			}
		} else {
			rv = psGetView(nil, "nosave")
		}
		ev["re"] = rv
		emit(ev)
	}
}
