package main

// Synthesiser of "foreign" packages for spec module Foreign (property C04).
//
// The abstract package (parts, relationships with ids/targets/modes, body blocks,
// namespace spelling) is decided by the TLA+ specification (Foreign!PkgOf) and arrives
// in the Open operation of every case. This file only turns it into bytes: a raw ZIP
// whose XML is written by hand — nothing here goes through the library under test.

import (
	"archive/zip"
	"bytes"
	"fmt"
	"path"
	"sort"
	"strings"
)

type fgnPart struct {
	N, K, Via, Cls string
	B              string // byte class of the content ("typical", "empty", "onebyte", "big", "bom", "utf16")
}

type fgnRel struct {
	Src, ID, K, Ty, Rt, Tg, Mode, Ref string
}

type fgnItem struct{ K, V string }

type fgnRun struct {
	C, W string
	Its  []fgnItem
}

type fgnBlock struct {
	Blk, Rel, Sty string
	Link          bool
	Runs          []fgnRun
}

type fgnModel struct {
	Parts  []fgnPart
	Rels   []fgnRel
	Body   []fgnBlock
	Ns     string
	PkgNs  string
	HLink  string
	StySp  string          // spelling of word/styles.xml
	StyDef map[string]bool // style ids it defines
	Zip    map[string]bool // container forms: "dirs", "stored", "ctlast"
	byName map[string]fgnPart
}

func fgnStr(m map[string]interface{}, k string) string { s, _ := m[k].(string); return s }

func fgnList(v interface{}) []map[string]interface{} {
	var out []map[string]interface{}
	arr, _ := v.([]interface{})
	for _, x := range arr {
		if m, ok := x.(map[string]interface{}); ok {
			out = append(out, m)
		}
	}
	return out
}

// fgnDecodeModel reads the TLA+ record (as JSON) carried by the Open operation.
func fgnDecodeModel(v interface{}) (*fgnModel, error) {
	mm, ok := v.(map[string]interface{})
	if !ok {
		return nil, fmt.Errorf("Open without pkg")
	}
	m := &fgnModel{Ns: fgnStr(mm, "ns"), PkgNs: fgnStr(mm, "pkgns"), HLink: fgnStr(mm, "hlink"), byName: map[string]fgnPart{}}
	m.StyDef = map[string]bool{}
	m.Zip = map[string]bool{}
	if zs, ok := mm["zip"].([]interface{}); ok {
		for _, z := range zs {
			if s, ok := z.(string); ok {
				m.Zip[s] = true
			}
		}
	}
	if st, ok := mm["styles"].(map[string]interface{}); ok {
		m.StySp = fgnStr(st, "sp")
		ids, _ := st["defs"].([]interface{})
		for _, id := range ids {
			if s, ok := id.(string); ok {
				m.StyDef[s] = true
			}
		}
	}
	for _, p := range fgnList(mm["parts"]) {
		fp := fgnPart{N: fgnStr(p, "n"), K: fgnStr(p, "k"), Via: fgnStr(p, "via"), Cls: fgnStr(p, "cls"), B: fgnStr(p, "b")}
		m.Parts = append(m.Parts, fp)
		m.byName[fp.N] = fp
	}
	for _, r := range fgnList(mm["rels"]) {
		m.Rels = append(m.Rels, fgnRel{Src: fgnStr(r, "src"), ID: fgnStr(r, "id"), K: fgnStr(r, "k"), Ty: fgnStr(r, "ty"),
			Rt: fgnStr(r, "rt"), Tg: fgnStr(r, "tg"), Mode: fgnStr(r, "mode"), Ref: fgnStr(r, "ref")})
	}
	for _, b := range fgnList(mm["body"]) {
		fb := fgnBlock{Blk: fgnStr(b, "blk"), Rel: fgnStr(b, "rel"), Sty: fgnStr(b, "sty")}
		fb.Link, _ = b["link"].(bool)
		for _, r := range fgnList(b["runs"]) {
			fr := fgnRun{C: fgnStr(r, "c"), W: fgnStr(r, "w")}
			for _, it := range fgnList(r["its"]) {
				fr.Its = append(fr.Its, fgnItem{K: fgnStr(it, "k"), V: fgnStr(it, "v")})
			}
			fb.Runs = append(fb.Runs, fr)
		}
		m.Body = append(m.Body, fb)
	}
	if len(m.Parts) == 0 {
		return nil, fmt.Errorf("model package without parts")
	}
	sort.Slice(m.Parts, func(i, j int) bool { return m.Parts[i].N < m.Parts[j].N })
	sort.SliceStable(m.Rels, func(i, j int) bool {
		if m.Rels[i].Src != m.Rels[j].Src {
			return m.Rels[i].Src < m.Rels[j].Src
		}
		return m.Rels[i].ID < m.Rels[j].ID
	})
	return m, nil
}

const (
	fgnODBase = "http://schemas.openxmlformats.org/officeDocument/2006/relationships/"
	fgnPKBase = "http://schemas.openxmlformats.org/package/2006/relationships/"
	fgnMS07   = "http://schemas.microsoft.com/office/2007/relationships/"
	fgnMS11   = "http://schemas.microsoft.com/office/2011/relationships/"
	fgnWML    = "application/vnd.openxmlformats-officedocument.wordprocessingml."
	fgnDecl   = `<?xml version="1.0" encoding="UTF-8" standalone="yes"?>` + "\r\n"
)

// fgnTypeURI expands the spec's relationship type token; fgnTypeTok is its inverse (used by the projector).
func fgnTypeURI(tok string) string {
	switch {
	case strings.HasPrefix(tok, "od/"):
		return fgnODBase + tok[3:]
	case strings.HasPrefix(tok, "pk/"):
		return fgnPKBase + tok[3:]
	case strings.HasPrefix(tok, "ms07/"):
		return fgnMS07 + tok[5:]
	case strings.HasPrefix(tok, "ms11/"):
		return fgnMS11 + tok[5:]
	}
	return tok
}

func fgnTypeTok(uri string) string {
	switch {
	case strings.HasPrefix(uri, fgnODBase):
		return "od/" + uri[len(fgnODBase):]
	case strings.HasPrefix(uri, fgnPKBase):
		return "pk/" + uri[len(fgnPKBase):]
	case strings.HasPrefix(uri, fgnMS07):
		return "ms07/" + uri[len(fgnMS07):]
	case strings.HasPrefix(uri, fgnMS11):
		return "ms11/" + uri[len(fgnMS11):]
	}
	return uri
}

func fgnExt(name string) string { return strings.ToLower(strings.TrimPrefix(path.Ext(name), ".")) }

// fgnContentType gives the content type a producer would declare for a part of this kind.
func fgnContentType(p fgnPart) string {
	switch p.K {
	case "main":
		return fgnWML + "document.main+xml"
	case "styles", "fontTable", "settings", "webSettings", "numbering", "footnotes", "endnotes", "comments", "people", "commentsExtended":
		return fgnWML + p.K + "+xml"
	case "glossary":
		return fgnWML + "document.glossary+xml"
	case "glossary-styles":
		return fgnWML + "styles+xml"
	case "stylesWithEffects":
		return "application/vnd.ms-word.stylesWithEffects+xml"
	case "header", "header1":
		return fgnWML + "header+xml"
	case "footer1":
		return fgnWML + "footer+xml"
	case "theme":
		return "application/vnd.openxmlformats-officedocument.theme+xml"
	case "customXml":
		return "application/xml"
	case "customXml-props":
		return "application/vnd.openxmlformats-officedocument.customXmlProperties+xml"
	case "docProps-core":
		return "application/vnd.openxmlformats-package.core-properties+xml"
	case "docProps-app":
		return "application/vnd.openxmlformats-officedocument.extended-properties+xml"
	case "docProps-custom":
		return "application/vnd.openxmlformats-officedocument.custom-properties+xml"
	case "thumbnail":
		return "image/jpeg"
	case "unknown-ext":
		return "application/vnd.openxmlformats-officedocument.oleObject"
	case "override-only":
		return "application/x-wz-custom-data"
	case "media":
		switch fgnExt(p.N) {
		case "jpeg", "jpg":
			return "image/jpeg"
		}
		return "image/png"
	}
	if strings.HasSuffix(p.N, ".rels") {
		return "application/vnd.openxmlformats-package.relationships+xml"
	}
	return "application/xml"
}

func fgnEsc(s string) string {
	r := strings.NewReplacer("&", "&amp;", "<", "&lt;", ">", "&gt;", `"`, "&quot;")
	return r.Replace(s)
}

func fgnContentTypesXML(m *fgnModel) []byte {
	pfx, xmlns := "", `xmlns="`+nsCT+`"`
	if m.PkgNs == "prefixed" {
		pfx, xmlns = "ct:", `xmlns:ct="`+nsCT+`"`
	}
	var sb strings.Builder
	sb.WriteString(fgnDecl)
	fmt.Fprintf(&sb, "<%sTypes %s>", pfx, xmlns)
	defs := map[string]string{"rels": "application/vnd.openxmlformats-package.relationships+xml", "xml": "application/xml"}
	for _, p := range m.Parts {
		if p.Via == "default" {
			if e := fgnExt(p.N); e != "" {
				if _, ok := defs[e]; !ok {
					defs[e] = fgnContentType(p)
				}
			}
		}
	}
	var exts []string
	for e := range defs {
		exts = append(exts, e)
	}
	sort.Strings(exts)
	for _, e := range exts {
		fmt.Fprintf(&sb, `<%sDefault Extension="%s" ContentType="%s"/>`, pfx, e, defs[e])
	}
	for _, p := range m.Parts {
		if p.Via == "override" {
			fmt.Fprintf(&sb, `<%sOverride PartName="/%s" ContentType="%s"/>`, pfx, p.N, fgnContentType(p))
		}
	}
	fmt.Fprintf(&sb, "</%sTypes>", pfx)
	return []byte(sb.String())
}

func fgnRelsXML(m *fgnModel, src string) []byte {
	pfx, xmlns := "", `xmlns="`+nsRel+`"`
	if m.PkgNs == "prefixed" {
		pfx, xmlns = "rel:", `xmlns:rel="`+nsRel+`"`
	}
	var sb strings.Builder
	sb.WriteString(fgnDecl)
	fmt.Fprintf(&sb, "<%sRelationships %s>", pfx, xmlns)
	for _, r := range m.Rels {
		if r.Src != src {
			continue
		}
		mode := ""
		if r.Mode == "External" {
			mode = ` TargetMode="External"`
		}
		fmt.Fprintf(&sb, `<%sRelationship Id="%s" Type="%s" Target="%s"%s/>`, pfx, fgnEsc(r.ID), fgnEsc(fgnTypeURI(r.Ty)), fgnEsc(r.Tg), mode)
	}
	fmt.Fprintf(&sb, "</%sRelationships>", pfx)
	return []byte(sb.String())
}

// fgnW spells WordprocessingML names under the chosen namespace prefix.
type fgnW struct{ ns string }

func (w fgnW) el(name string) string {
	if w.ns == "default" {
		return name
	}
	return w.ns + ":" + name
}

// attributes never take the default namespace; in "default" mode a second prefix is declared for them
func (w fgnW) at(name string) string {
	if w.ns == "default" {
		return "wa:" + name
	}
	return w.ns + ":" + name
}

func (w fgnW) decl() string {
	if w.ns == "default" {
		return `xmlns="` + nsW + `" xmlns:wa="` + nsW + `"`
	}
	return `xmlns:` + w.ns + `="` + nsW + `"`
}

// run writes one w:r with exactly the items the specification lists, in that order.
func (w fgnW) run(r fgnRun, n int) string {
	var sb strings.Builder
	fmt.Fprintf(&sb, "<%s>", w.el("r"))
	for _, it := range r.Its {
		switch it.K {
		case "t":
			fmt.Fprintf(&sb, `<%s xml:space="preserve">%s</%s>`, w.el("t"), fgnEsc(it.V), w.el("t"))
		case "tab", "br":
			fmt.Fprintf(&sb, "<%s/>", w.el(it.K))
		case "fldChar":
			fmt.Fprintf(&sb, `<%s %s="%s"/>`, w.el("fldChar"), w.at("fldCharType"), fgnEsc(it.V))
		case "instrText":
			fmt.Fprintf(&sb, `<%s xml:space="preserve">%s</%s>`, w.el("instrText"), fgnEsc(it.V), w.el("instrText"))
		case "fnref":
			fmt.Fprintf(&sb, `<%s %s="%s"/>`, w.el("footnoteReference"), w.at("id"), fgnEsc(it.V))
		case "drawing":
			sb.WriteString(w.drawing(it.V, false, 300+n))
		default:
			panic("fgn: unknown run item " + it.K)
		}
	}
	fmt.Fprintf(&sb, "</%s>", w.el("r"))
	return sb.String()
}

func (w fgnW) wrap(c string, inner string, m *fgnModel) string {
	hl := func(s string) string {
		if m.HLink != "" {
			return fmt.Sprintf(`<%s r:id="%s" %s="1">%s</%s>`, w.el("hyperlink"), fgnEsc(m.HLink), w.at("history"), s, w.el("hyperlink"))
		}
		return fmt.Sprintf(`<%s %s="top">%s</%s>`, w.el("hyperlink"), w.at("anchor"), s, w.el("hyperlink"))
	}
	ins := func(s string) string {
		return fmt.Sprintf(`<%s %s="7" %s="Reviewer" %s="2024-01-02T03:04:05Z">%s</%s>`, w.el("ins"), w.at("id"), w.at("author"), w.at("date"), s, w.el("ins"))
	}
	sdt := func(s string) string {
		return fmt.Sprintf(`<%s><%s><%s %s="Control"/></%s><%s>%s</%s></%s>`, w.el("sdt"), w.el("sdtPr"), w.el("alias"), w.at("val"),
			w.el("sdtPr"), w.el("sdtContent"), s, w.el("sdtContent"), w.el("sdt"))
	}
	st := func(s string) string {
		return fmt.Sprintf(`<%s %s="urn:schemas-microsoft-com:office:smarttags" %s="place">%s</%s>`, w.el("smartTag"), w.at("uri"), w.at("element"), s, w.el("smartTag"))
	}
	switch c {
	case "plain":
		return inner
	case "hyperlink":
		return hl(inner)
	case "smartTag":
		return st(inner)
	case "ins":
		return ins(inner)
	case "sdt":
		return sdt(inner)
	case "fldSimple":
		return fmt.Sprintf(`<%s %s=" AUTHOR ">%s</%s>`, w.el("fldSimple"), w.at("instr"), inner, w.el("fldSimple"))
	case "customXml":
		return fmt.Sprintf(`<%s %s="urn:example:cx" %s="item">%s</%s>`, w.el("customXml"), w.at("uri"), w.at("element"), inner, w.el("customXml"))
	case "hl-ins":
		return hl(ins(inner))
	case "sdt-hl":
		return sdt(hl(inner))
	case "st-st":
		return st(st(inner))
	}
	panic("fgn: unknown container " + c)
}

func (w fgnW) para(b fgnBlock, m *fgnModel, n int) string {
	var sb strings.Builder
	fmt.Fprintf(&sb, "<%s>", w.el("p"))
	if b.Sty != "" {
		fmt.Fprintf(&sb, `<%s><%s %s="%s"/></%s>`, w.el("pPr"), w.el("pStyle"), w.at("val"), fgnEsc(b.Sty), w.el("pPr"))
	}
	for j, r := range b.Runs {
		sb.WriteString(w.wrap(r.W, w.run(r, n*10+j), m))
	}
	fmt.Fprintf(&sb, "</%s>", w.el("p"))
	return sb.String()
}

// drawing writes an inline picture; rel = "" gives a picture frame without a blip reference.
func (w fgnW) drawing(rel string, link bool, id int) string {
	attr := ""
	if rel != "" {
		attr = ` r:embed="` + fgnEsc(rel) + `"`
		if link {
			attr = ` r:link="` + fgnEsc(rel) + `"`
		}
	}
	return fmt.Sprintf(`<%[1]s><wp:inline distT="0" distB="0" distL="0" distR="0"><wp:extent cx="914400" cy="914400"/>`+
		`<wp:docPr id="%[2]d" name="Picture %[2]d"/><a:graphic><a:graphicData uri="http://schemas.openxmlformats.org/drawingml/2006/picture">`+
		`<pic:pic><pic:nvPicPr><pic:cNvPr id="%[2]d" name="pic%[2]d"/><pic:cNvPicPr/></pic:nvPicPr><pic:blipFill><a:blip%[3]s/>`+
		`<a:stretch><a:fillRect/></a:stretch></pic:blipFill><pic:spPr><a:xfrm><a:off x="0" y="0"/><a:ext cx="914400" cy="914400"/></a:xfrm>`+
		`<a:prstGeom prst="rect"><a:avLst/></a:prstGeom></pic:spPr></pic:pic></a:graphicData></a:graphic></wp:inline></%[1]s>`,
		w.el("drawing"), id, attr)
}

func (w fgnW) pic(b fgnBlock, n int) string {
	return fmt.Sprintf(`<%[1]s><%[2]s>%[3]s</%[2]s></%[1]s>`, w.el("p"), w.el("r"), w.drawing(b.Rel, b.Link, 100+n))
}

func fgnDocumentXML(m *fgnModel) []byte {
	w := fgnW{m.Ns}
	var sb strings.Builder
	sb.WriteString(fgnDecl)
	fmt.Fprintf(&sb, `<%s %s xmlns:r="%s" xmlns:wp="%s" xmlns:a="%s" xmlns:pic="%s"><%s>`, w.el("document"), w.decl(), nsR, nsWP, nsA, nsPic, w.el("body"))
	for i, b := range m.Body {
		switch b.Blk {
		case "p":
			sb.WriteString(w.para(b, m, i))
		case "pic":
			sb.WriteString(w.pic(b, i))
		case "tbl":
			fmt.Fprintf(&sb, `<%[1]s><%[2]s><%[3]s %[4]s="0" %[5]s="auto"/></%[2]s><%[6]s><%[7]s %[4]s="4000"/></%[6]s><%[8]s><%[9]s><%[10]s><%[11]s %[4]s="4000" %[5]s="dxa"/></%[10]s>%[12]s</%[9]s></%[8]s></%[1]s>`,
				w.el("tbl"), w.el("tblPr"), w.el("tblW"), w.at("w"), w.at("type"), w.el("tblGrid"), w.el("gridCol"), w.el("tr"), w.el("tc"), w.el("tcPr"), w.el("tcW"), w.para(b, m, i))
		case "sdtblk":
			fmt.Fprintf(&sb, `<%[1]s><%[2]s><%[3]s %[4]s="Block control"/></%[2]s><%[5]s>%[6]s</%[5]s></%[1]s>`,
				w.el("sdt"), w.el("sdtPr"), w.el("alias"), w.at("val"), w.el("sdtContent"), w.para(b, m, i))
		default:
			panic("fgn: unknown block " + b.Blk)
		}
	}
	fmt.Fprintf(&sb, "<%s>", w.el("sectPr"))
	first := false
	for _, r := range m.Rels {
		if r.Src != "word/_rels/document.xml.rels" || r.Ref == "" {
			continue
		}
		name := "headerReference"
		if r.Ty == "od/footer" {
			name = "footerReference"
		}
		fmt.Fprintf(&sb, `<%s %s="%s" r:id="%s"/>`, w.el(name), w.at("type"), r.Ref, fgnEsc(r.ID))
		if r.Ref == "first" {
			first = true
		}
	}
	fmt.Fprintf(&sb, `<%s %s="11906" %s="16838"/><%s %s="1440" %s="1800" %s="1440" %s="1800" %s="851" %s="992" %s="0"/>`,
		w.el("pgSz"), w.at("w"), w.at("h"), w.el("pgMar"), w.at("top"), w.at("right"), w.at("bottom"), w.at("left"), w.at("header"), w.at("footer"), w.at("gutter"))
	if first {
		fmt.Fprintf(&sb, "<%s/>", w.el("titlePg"))
	}
	fmt.Fprintf(&sb, "</%s></%s></%s>", w.el("sectPr"), w.el("body"), w.el("document"))
	return []byte(sb.String())
}

// fgnStylesXML writes word/styles.xml in the spelling and with the definitions the specification chose.
// The same infoset is written under every spelling: another namespace prefix, the default namespace
// (attributes stay qualified, as WordprocessingML requires), single-quoted attributes and declaration
// (what lxml-based producers write), attributes in another order.
func fgnStylesXML(m *fgnModel) []byte {
	ep, ap, q, rev := "w:", "w:", `"`, false
	root := `xmlns:w="` + nsW + `"`
	decl := fgnDecl
	switch m.StySp {
	case "", "w":
	case "ns0":
		ep, ap, root = "ns0:", "ns0:", `xmlns:ns0="`+nsW+`"`
	case "default":
		ep, root = "", `xmlns="`+nsW+`" xmlns:w="`+nsW+`"`
	case "squote":
		q, root = "'", `xmlns:w='`+nsW+`'`
		decl = "<?xml version='1.0' encoding='UTF-8' standalone='yes'?>\n"
	case "reorder":
		rev = true
	default:
		panic("fgn: unknown styles spelling " + m.StySp)
	}
	var sb strings.Builder
	open := func(name string, selfClose bool, attrs ...string) {
		sb.WriteString("<" + ep + name)
		n := len(attrs) / 2
		for i := 0; i < n; i++ {
			k := i
			if rev {
				k = n - 1 - i
			}
			sb.WriteString(" " + ap + attrs[2*k] + "=" + q + fgnEsc(attrs[2*k+1]) + q)
		}
		if selfClose {
			sb.WriteString("/>")
		} else {
			sb.WriteString(">")
		}
	}
	end := func(name string) { sb.WriteString("</" + ep + name + ">") }
	sb.WriteString(decl)
	sb.WriteString("<" + ep + "styles " + root + ">")
	open("docDefaults", false)
	open("rPrDefault", false)
	open("rPr", false)
	open("rFonts", true, "ascii", "Calibri", "hAnsi", "Calibri")
	open("sz", true, "val", "22")
	end("rPr")
	end("rPrDefault")
	open("pPrDefault", false)
	open("pPr", false)
	open("spacing", true, "after", "160", "line", "259", "lineRule", "auto")
	end("pPr")
	end("pPrDefault")
	end("docDefaults")
	open("latentStyles", true, "defLockedState", "0", "count", "376")
	var ids []string
	for id := range m.StyDef {
		ids = append(ids, id)
	}
	sort.Slice(ids, func(i, j int) bool { // Normal first, as producers write it
		if (ids[i] == "Normal") != (ids[j] == "Normal") {
			return ids[i] == "Normal"
		}
		return ids[i] < ids[j]
	})
	for _, id := range ids {
		switch id {
		case "Normal":
			open("style", false, "type", "paragraph", "default", "1", "styleId", id)
			open("name", true, "val", "Normal")
			open("qFormat", true)
		case "ForeignStyle":
			open("style", false, "type", "paragraph", "customStyle", "1", "styleId", id)
			open("name", true, "val", "Foreign Style")
			open("basedOn", true, "val", "Normal")
			open("rPr", false)
			open("color", true, "val", "1F4E79")
			end("rPr")
		default:
			name := map[string]string{"Heading1": "heading 1", "Title": "Title", "Quote": "Quote"}[id]
			if name == "" {
				panic("fgn: no definition for style " + id)
			}
			open("style", false, "type", "paragraph", "styleId", id)
			open("name", true, "val", name)
			open("basedOn", true, "val", "Normal")
			open("next", true, "val", "Normal")
			open("qFormat", true)
			open("pPr", false)
			open("keepNext", true)
			open("spacing", true, "before", "480", "after", "0")
			end("pPr")
			open("rPr", false)
			open("b", true)
			open("color", true, "val", "C00000")
			open("sz", true, "val", "30")
			end("rPr")
		}
		end("style")
	}
	end("styles")
	return []byte(sb.String())
}

// fgnPartBytes gives the bytes of every part other than the four structural ones.
func fgnPartBytes(m *fgnModel, p fgnPart, idx int) []byte {
	W := `xmlns:w="` + nsW + `"`
	x := func(s string) []byte { return []byte(fgnDecl + s) }
	switch p.K {
	case "styles":
		return fgnStylesXML(m)
	case "stylesWithEffects":
		return x(`<w:styles ` + W + ` xmlns:mc="http://schemas.openxmlformats.org/markup-compatibility/2006" xmlns:w14="http://schemas.microsoft.com/office/word/2010/wordml" mc:Ignorable="w14">` +
			`<w:docDefaults><w:rPrDefault><w:rPr><w:rFonts w:ascii="Cambria" w:hAnsi="Cambria"/><w14:ligatures w14:val="standard"/></w:rPr></w:rPrDefault></w:docDefaults>` +
			`<w:style w:type="paragraph" w:default="1" w:styleId="Normal"><w:name w:val="Normal"/><w:qFormat/></w:style>` +
			`<w:style w:type="paragraph" w:styleId="Heading1"><w:name w:val="heading 1"/><w:basedOn w:val="Normal"/><w:rPr><w14:shadow w14:blurRad="50800" w14:dist="38100" w14:dir="2700000" w14:sx="100000" w14:sy="100000" w14:kx="0" w14:ky="0" w14:algn="tl"><w14:srgbClr w14:val="000000"/></w14:shadow></w:rPr></w:style>` +
			`</w:styles>`)
	case "glossary":
		return x(`<w:glossaryDocument ` + W + `><w:docParts><w:docPart><w:docPartPr><w:name w:val="Foreign building block"/><w:category><w:name w:val="General"/><w:gallery w:val="placeholder"/></w:category>` +
			`<w:behaviors><w:behavior w:val="content"/></w:behaviors><w:guid w:val="{6E3D1D7C-55F7-4F2B-9A56-0D2E0C4F2A11}"/></w:docPartPr>` +
			`<w:docPartBody><w:p><w:pPr><w:pStyle w:val="Heading1"/></w:pPr><w:r><w:t>glossary text</w:t></w:r></w:p></w:docPartBody></w:docPart></w:docParts></w:glossaryDocument>`)
	case "glossary-styles":
		return x(`<w:styles ` + W + `><w:style w:type="paragraph" w:default="1" w:styleId="Normal"><w:name w:val="Normal"/></w:style>` +
			`<w:style w:type="paragraph" w:styleId="Heading1"><w:name w:val="heading 1"/><w:basedOn w:val="Normal"/><w:rPr><w:color w:val="7030A0"/></w:rPr></w:style></w:styles>`)
	case "people":
		return x(`<w15:people xmlns:w15="http://schemas.microsoft.com/office/word/2012/wordml"><w15:person w15:author="Reviewer"><w15:presenceInfo w15:providerId="None" w15:userId="Reviewer"/></w15:person></w15:people>`)
	case "commentsExtended":
		return x(`<w15:commentsEx xmlns:w15="http://schemas.microsoft.com/office/word/2012/wordml"><w15:commentEx w15:paraId="0A1B2C3D" w15:done="0"/></w15:commentsEx>`)
	case "theme":
		return x(`<a:theme xmlns:a="` + nsA + `" name="Foreign Theme"><a:themeElements><a:clrScheme name="Office"><a:dk1><a:sysClr val="windowText" lastClr="000000"/></a:dk1></a:clrScheme></a:themeElements></a:theme>`)
	case "fontTable":
		return x(`<w:fonts ` + W + `><w:font w:name="Calibri"><w:panose1 w:val="020F0502020204030204"/><w:charset w:val="00"/><w:family w:val="swiss"/></w:font></w:fonts>`)
	case "settings":
		return x(`<w:settings ` + W + `><w:zoom w:percent="120"/><w:trackRevisions/><w:defaultTabStop w:val="720"/><w:compat><w:compatSetting w:name="compatibilityMode" w:uri="http://schemas.microsoft.com/office/word" w:val="15"/></w:compat></w:settings>`)
	case "webSettings":
		return x(`<w:webSettings ` + W + `><w:optimizeForBrowser/><w:allowPNG/></w:webSettings>`)
	case "numbering":
		return x(`<w:numbering ` + W + `><w:abstractNum w:abstractNumId="7"><w:multiLevelType w:val="hybridMultilevel"/><w:lvl w:ilvl="0"><w:start w:val="3"/><w:numFmt w:val="upperRoman"/><w:lvlText w:val="%1)"/></w:lvl></w:abstractNum><w:num w:numId="9"><w:abstractNumId w:val="7"/></w:num></w:numbering>`)
	case "footnotes":
		return x(`<w:footnotes ` + W + `><w:footnote w:type="separator" w:id="-1"><w:p><w:r><w:separator/></w:r></w:p></w:footnote><w:footnote w:id="1"><w:p><w:r><w:t>foreign footnote</w:t></w:r></w:p></w:footnote></w:footnotes>`)
	case "endnotes":
		return x(`<w:endnotes ` + W + `><w:endnote w:type="separator" w:id="-1"><w:p><w:r><w:separator/></w:r></w:p></w:endnote><w:endnote w:id="1"><w:p><w:r><w:t>foreign endnote</w:t></w:r></w:p></w:endnote></w:endnotes>`)
	case "comments":
		return x(`<w:comments ` + W + `><w:comment w:id="0" w:author="Reviewer" w:date="2024-01-02T03:04:05Z"><w:p><w:r><w:t>foreign comment</w:t></w:r></w:p></w:comment></w:comments>`)
	case "customXml":
		return x(`<inv:invoice xmlns:inv="urn:example:invoice"><inv:number>4711</inv:number></inv:invoice>`)
	case "customXml-props":
		return x(`<ds:datastoreItem ds:itemID="{5D0AEA6B-E499-4EEF-98A3-AFBB261C493E}" xmlns:ds="http://schemas.openxmlformats.org/officeDocument/2006/customXml"><ds:schemaRefs><ds:schemaRef ds:uri="urn:example:invoice"/></ds:schemaRefs></ds:datastoreItem>`)
	case "header", "header1":
		link := ""
		if p.K == "header" {
			link = `<w:hyperlink r:id="rId2"><w:r><w:t>link</w:t></w:r></w:hyperlink>`
		}
		return x(`<w:hdr ` + W + ` xmlns:r="` + nsR + `"><w:p><w:pPr><w:pStyle w:val="Header"/></w:pPr><w:r><w:t>Foreign ` + p.K + `</w:t></w:r>` + link + `<w:r><w:pict r:id="rId1"/></w:r></w:p></w:hdr>`)
	case "footer1":
		return x(`<w:ftr ` + W + `><w:p><w:r><w:t>Foreign footer</w:t></w:r></w:p></w:ftr>`)
	case "docProps-core":
		return x(`<cp:coreProperties xmlns:cp="http://schemas.openxmlformats.org/package/2006/metadata/core-properties" xmlns:dc="http://purl.org/dc/elements/1.1/" xmlns:dcterms="http://purl.org/dc/terms/" xmlns:xsi="http://www.w3.org/2001/XMLSchema-instance"><dc:title>Foreign title</dc:title><dc:creator>Someone Else</dc:creator><cp:revision>12</cp:revision><dcterms:created xsi:type="dcterms:W3CDTF">2020-05-06T07:08:09Z</dcterms:created></cp:coreProperties>`)
	case "docProps-app":
		return x(`<Properties xmlns="http://schemas.openxmlformats.org/officeDocument/2006/extended-properties" xmlns:vt="http://schemas.openxmlformats.org/officeDocument/2006/docPropsVTypes"><Template>Normal.dotm</Template><TotalTime>42</TotalTime><Application>Other Word Processor</Application><AppVersion>16.0000</AppVersion></Properties>`)
	case "docProps-custom":
		return x(`<Properties xmlns="http://schemas.openxmlformats.org/officeDocument/2006/custom-properties" xmlns:vt="http://schemas.openxmlformats.org/officeDocument/2006/docPropsVTypes"><property fmtid="{D5CDD505-2E9C-101B-9397-08002B2CF9AE}" pid="2" name="Project"><vt:lpwstr>wz</vt:lpwstr></property></Properties>`)
	case "thumbnail":
		return tinyJPEGSize(200+idx, 4, 3)
	case "unknown-ext":
		return append([]byte{0xD0, 0xCF, 0x11, 0xE0, 0x00, 0x01, 0x02, 0xFF, 0xFE}, []byte(fmt.Sprintf("ole object %d", idx))...)
	case "override-only":
		return []byte(fmt.Sprintf("custom\x00data\r\n%d\x1a", idx))
	case "media":
		switch fgnExt(p.N) {
		case "jpeg", "jpg":
			return tinyJPEGSize(100+idx, 3, 2)
		}
		return tinyPNGSize(100+idx, 3, 2)
	}
	panic("fgn: no bytes for part kind " + p.K + " (" + p.N + ")")
}

// fgnShapeBytes gives the content of a part its byte class: typ is what a producer typically writes for
// the kind. Every class keeps the part well-formed for its kind (the specification applies a class only to
// kinds that admit it, Foreign!BytesKinds).
func fgnShapeBytes(p fgnPart, typ []byte, idx int) []byte {
	isXML := bytes.HasPrefix(typ, []byte("<?xml"))
	switch p.B {
	case "", "typical":
		return typ
	case "empty":
		return []byte{}
	case "onebyte":
		return []byte{byte(idx)}
	case "big": // larger than 64 KiB buffers and than a 16-bit length; hardly compressible
		pad := make([]byte, 0, 200000)
		x := uint32(2463534242 + uint32(idx))
		for len(pad) < 200000 {
			x ^= x << 13
			x ^= x >> 17
			x ^= x << 5
			if isXML {
				pad = append(pad, "0123456789abcdefghijklmnopqrstuvwxyzABCDEFGHIJKLMNOPQRSTUVWXYZ _"[x&63])
			} else {
				pad = append(pad, byte(x))
			}
		}
		if isXML { // a comment after the root element
			return append(append(append([]byte{}, typ...), []byte("\n<!-- ")...), append(pad, []byte(" -->\n")...)...)
		}
		return append(append([]byte{}, typ...), pad...)
	case "bom":
		if !isXML {
			panic("fgn: byte order mark on a part that is not XML: " + p.N)
		}
		return append([]byte{0xEF, 0xBB, 0xBF}, typ...)
	case "utf16":
		if !isXML {
			panic("fgn: UTF-16 on a part that is not XML: " + p.N)
		}
		txt := strings.Replace(string(typ), `encoding="UTF-8"`, `encoding="UTF-16"`, 1)
		out := []byte{0xFF, 0xFE}
		for _, r := range txt {
			if r > 0xFFFF {
				panic("fgn: non-BMP character in synthesised part " + p.N)
			}
			out = append(out, byte(r), byte(r>>8))
		}
		return out
	}
	panic("fgn: unknown byte class " + p.B)
}

// fgnSynth writes the package. Entry order follows common producers: content types first,
// package relationships, then the remaining parts by name.
func fgnSynth(m *fgnModel) ([]byte, error) {
	var buf bytes.Buffer
	zw := zip.NewWriter(&buf)
	dirs := map[string]bool{}
	put := func(name string, data []byte) error {
		if m.Zip["dirs"] { // a placeholder entry for every folder, before its first member (what zip -r writes)
			segs := strings.Split(name, "/")
			for k := 1; k < len(segs); k++ {
				d := strings.Join(segs[:k], "/") + "/"
				if !dirs[d] {
					dirs[d] = true
					if _, err := zw.Create(d); err != nil {
						return err
					}
				}
			}
		}
		method := zip.Deflate
		if m.Zip["stored"] {
			method = zip.Store
		}
		w, err := zw.CreateHeader(&zip.FileHeader{Name: name, Method: method})
		if err != nil {
			return err
		}
		_, err = w.Write(data)
		return err
	}
	ordered := []string{"[Content_Types].xml", "_rels/.rels"}
	for _, p := range m.Parts {
		if p.N != ordered[0] && p.N != ordered[1] {
			ordered = append(ordered, p.N)
		}
	}
	if m.Zip["ctlast"] {
		ordered = append(ordered[1:], ordered[0])
	}
	for i, n := range ordered {
		p, ok := m.byName[n]
		if !ok {
			return nil, fmt.Errorf("model lacks structural part %s", n)
		}
		var data []byte
		switch {
		case p.K == "content-types":
			data = fgnContentTypesXML(m)
		case strings.HasSuffix(n, ".rels"):
			data = fgnRelsXML(m, n)
		case p.K == "main":
			data = fgnDocumentXML(m)
		default:
			data = fgnShapeBytes(p, fgnPartBytes(m, p, i), i)
		}
		if err := put(n, data); err != nil {
			return nil, err
		}
	}
	if err := zw.Close(); err != nil {
		return nil, err
	}
	return buf.Bytes(), nil
}
