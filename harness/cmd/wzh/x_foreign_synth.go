package main

// Synthesiser of "foreign" packages for spec module Foreign (property C04).
//
// The abstract package (parts, relationships with ids/targets/modes, body blocks,
// namespace spelling) is decided by the TLA+ specification (Foreign!PkgOf) and arrives
// in the Open operation of every case. This file only turns it into bytes: a raw ZIP
// whose XML is written by hand — nothing here goes through the library under test.

import (
	"archive/zip"
	"bytes"
	"fmt"
	"path"
	"sort"
	"strings"
)

type fgnPart struct {
	N, K, Via, Cls string
}

type fgnRel struct {
	Src, ID, K, Ty, Rt, Tg, Mode, Ref string
}

type fgnRun struct {
	C  string
	Ts []string
}

type fgnBlock struct {
	Blk, Rel string
	Link     bool
	Runs     []fgnRun
}

type fgnModel struct {
	Parts  []fgnPart
	Rels   []fgnRel
	Body   []fgnBlock
	Ns     string
	PkgNs  string
	HLink  string
	byName map[string]fgnPart
}

func fgnStr(m map[string]interface{}, k string) string { s, _ := m[k].(string); return s }

func fgnList(v interface{}) []map[string]interface{} {
	var out []map[string]interface{}
	arr, _ := v.([]interface{})
	for _, x := range arr {
		if m, ok := x.(map[string]interface{}); ok {
			out = append(out, m)
		}
	}
	return out
}

// fgnDecodeModel reads the TLA+ record (as JSON) carried by the Open operation.
func fgnDecodeModel(v interface{}) (*fgnModel, error) {
	mm, ok := v.(map[string]interface{})
	if !ok {
		return nil, fmt.Errorf("Open without pkg")
	}
	m := &fgnModel{Ns: fgnStr(mm, "ns"), PkgNs: fgnStr(mm, "pkgns"), HLink: fgnStr(mm, "hlink"), byName: map[string]fgnPart{}}
	for _, p := range fgnList(mm["parts"]) {
		fp := fgnPart{N: fgnStr(p, "n"), K: fgnStr(p, "k"), Via: fgnStr(p, "via"), Cls: fgnStr(p, "cls")}
		m.Parts = append(m.Parts, fp)
		m.byName[fp.N] = fp
	}
	for _, r := range fgnList(mm["rels"]) {
		m.Rels = append(m.Rels, fgnRel{Src: fgnStr(r, "src"), ID: fgnStr(r, "id"), K: fgnStr(r, "k"), Ty: fgnStr(r, "ty"),
			Rt: fgnStr(r, "rt"), Tg: fgnStr(r, "tg"), Mode: fgnStr(r, "mode"), Ref: fgnStr(r, "ref")})
	}
	for _, b := range fgnList(mm["body"]) {
		fb := fgnBlock{Blk: fgnStr(b, "blk"), Rel: fgnStr(b, "rel")}
		fb.Link, _ = b["link"].(bool)
		for _, r := range fgnList(b["runs"]) {
			fr := fgnRun{C: fgnStr(r, "c")}
			ts, _ := r["ts"].([]interface{})
			for _, t := range ts {
				s, _ := t.(string)
				fr.Ts = append(fr.Ts, s)
			}
			fb.Runs = append(fb.Runs, fr)
		}
		m.Body = append(m.Body, fb)
	}
	if len(m.Parts) == 0 {
		return nil, fmt.Errorf("model package without parts")
	}
	sort.Slice(m.Parts, func(i, j int) bool { return m.Parts[i].N < m.Parts[j].N })
	sort.SliceStable(m.Rels, func(i, j int) bool {
		if m.Rels[i].Src != m.Rels[j].Src {
			return m.Rels[i].Src < m.Rels[j].Src
		}
		return m.Rels[i].ID < m.Rels[j].ID
	})
	return m, nil
}

const (
	fgnODBase = "http://schemas.openxmlformats.org/officeDocument/2006/relationships/"
	fgnPKBase = "http://schemas.openxmlformats.org/package/2006/relationships/"
	fgnWML    = "application/vnd.openxmlformats-officedocument.wordprocessingml."
	fgnDecl   = `<?xml version="1.0" encoding="UTF-8" standalone="yes"?>` + "\r\n"
)

// fgnTypeURI expands the spec's relationship type token; fgnTypeTok is its inverse (used by the projector).
func fgnTypeURI(tok string) string {
	switch {
	case strings.HasPrefix(tok, "od/"):
		return fgnODBase + tok[3:]
	case strings.HasPrefix(tok, "pk/"):
		return fgnPKBase + tok[3:]
	}
	return tok
}

func fgnTypeTok(uri string) string {
	switch {
	case strings.HasPrefix(uri, fgnODBase):
		return "od/" + uri[len(fgnODBase):]
	case strings.HasPrefix(uri, fgnPKBase):
		return "pk/" + uri[len(fgnPKBase):]
	}
	return uri
}

func fgnExt(name string) string { return strings.ToLower(strings.TrimPrefix(path.Ext(name), ".")) }

// fgnContentType gives the content type a producer would declare for a part of this kind.
func fgnContentType(p fgnPart) string {
	switch p.K {
	case "main":
		return fgnWML + "document.main+xml"
	case "styles", "fontTable", "settings", "webSettings", "numbering", "footnotes", "endnotes", "comments":
		return fgnWML + p.K + "+xml"
	case "header", "header1":
		return fgnWML + "header+xml"
	case "footer1":
		return fgnWML + "footer+xml"
	case "theme":
		return "application/vnd.openxmlformats-officedocument.theme+xml"
	case "customXml":
		return "application/xml"
	case "customXml-props":
		return "application/vnd.openxmlformats-officedocument.customXmlProperties+xml"
	case "docProps-core":
		return "application/vnd.openxmlformats-package.core-properties+xml"
	case "docProps-app":
		return "application/vnd.openxmlformats-officedocument.extended-properties+xml"
	case "docProps-custom":
		return "application/vnd.openxmlformats-officedocument.custom-properties+xml"
	case "thumbnail":
		return "image/jpeg"
	case "unknown-ext":
		return "application/vnd.openxmlformats-officedocument.oleObject"
	case "override-only":
		return "application/x-wz-custom-data"
	case "media":
		switch fgnExt(p.N) {
		case "jpeg", "jpg":
			return "image/jpeg"
		}
		return "image/png"
	}
	if strings.HasSuffix(p.N, ".rels") {
		return "application/vnd.openxmlformats-package.relationships+xml"
	}
	return "application/xml"
}

func fgnEsc(s string) string {
	r := strings.NewReplacer("&", "&amp;", "<", "&lt;", ">", "&gt;", `"`, "&quot;")
	return r.Replace(s)
}

func fgnContentTypesXML(m *fgnModel) []byte {
	pfx, xmlns := "", `xmlns="`+nsCT+`"`
	if m.PkgNs == "prefixed" {
		pfx, xmlns = "ct:", `xmlns:ct="`+nsCT+`"`
	}
	var sb strings.Builder
	sb.WriteString(fgnDecl)
	fmt.Fprintf(&sb, "<%sTypes %s>", pfx, xmlns)
	defs := map[string]string{"rels": "application/vnd.openxmlformats-package.relationships+xml", "xml": "application/xml"}
	for _, p := range m.Parts {
		if p.Via == "default" {
			if e := fgnExt(p.N); e != "" {
				if _, ok := defs[e]; !ok {
					defs[e] = fgnContentType(p)
				}
			}
		}
	}
	var exts []string
	for e := range defs {
		exts = append(exts, e)
	}
	sort.Strings(exts)
	for _, e := range exts {
		fmt.Fprintf(&sb, `<%sDefault Extension="%s" ContentType="%s"/>`, pfx, e, defs[e])
	}
	for _, p := range m.Parts {
		if p.Via == "override" {
			fmt.Fprintf(&sb, `<%sOverride PartName="/%s" ContentType="%s"/>`, pfx, p.N, fgnContentType(p))
		}
	}
	fmt.Fprintf(&sb, "</%sTypes>", pfx)
	return []byte(sb.String())
}

func fgnRelsXML(m *fgnModel, src string) []byte {
	pfx, xmlns := "", `xmlns="`+nsRel+`"`
	if m.PkgNs == "prefixed" {
		pfx, xmlns = "rel:", `xmlns:rel="`+nsRel+`"`
	}
	var sb strings.Builder
	sb.WriteString(fgnDecl)
	fmt.Fprintf(&sb, "<%sRelationships %s>", pfx, xmlns)
	for _, r := range m.Rels {
		if r.Src != src {
			continue
		}
		mode := ""
		if r.Mode == "External" {
			mode = ` TargetMode="External"`
		}
		fmt.Fprintf(&sb, `<%sRelationship Id="%s" Type="%s" Target="%s"%s/>`, pfx, fgnEsc(r.ID), fgnEsc(fgnTypeURI(r.Ty)), fgnEsc(r.Tg), mode)
	}
	fmt.Fprintf(&sb, "</%sRelationships>", pfx)
	return []byte(sb.String())
}

// fgnW spells WordprocessingML names under the chosen namespace prefix.
type fgnW struct{ ns string }

func (w fgnW) el(name string) string {
	if w.ns == "default" {
		return name
	}
	return w.ns + ":" + name
}

// attributes never take the default namespace; in "default" mode a second prefix is declared for them
func (w fgnW) at(name string) string {
	if w.ns == "default" {
		return "wa:" + name
	}
	return w.ns + ":" + name
}

func (w fgnW) decl() string {
	if w.ns == "default" {
		return `xmlns="` + nsW + `" xmlns:wa="` + nsW + `"`
	}
	return `xmlns:` + w.ns + `="` + nsW + `"`
}

func (w fgnW) run(r fgnRun) string {
	var sb strings.Builder
	fmt.Fprintf(&sb, "<%s>", w.el("r"))
	for i, t := range r.Ts {
		if i > 0 {
			fmt.Fprintf(&sb, "<%s/>", w.el("tab"))
		}
		fmt.Fprintf(&sb, `<%s xml:space="preserve">%s</%s>`, w.el("t"), fgnEsc(t), w.el("t"))
	}
	fmt.Fprintf(&sb, "</%s>", w.el("r"))
	return sb.String()
}

func (w fgnW) wrap(c string, inner string, m *fgnModel) string {
	hl := func(s string) string {
		if m.HLink != "" {
			return fmt.Sprintf(`<%s r:id="%s" %s="1">%s</%s>`, w.el("hyperlink"), fgnEsc(m.HLink), w.at("history"), s, w.el("hyperlink"))
		}
		return fmt.Sprintf(`<%s %s="top">%s</%s>`, w.el("hyperlink"), w.at("anchor"), s, w.el("hyperlink"))
	}
	ins := func(s string) string {
		return fmt.Sprintf(`<%s %s="7" %s="Reviewer" %s="2024-01-02T03:04:05Z">%s</%s>`, w.el("ins"), w.at("id"), w.at("author"), w.at("date"), s, w.el("ins"))
	}
	sdt := func(s string) string {
		return fmt.Sprintf(`<%s><%s><%s %s="Control"/></%s><%s>%s</%s></%s>`, w.el("sdt"), w.el("sdtPr"), w.el("alias"), w.at("val"),
			w.el("sdtPr"), w.el("sdtContent"), s, w.el("sdtContent"), w.el("sdt"))
	}
	st := func(s string) string {
		return fmt.Sprintf(`<%s %s="urn:schemas-microsoft-com:office:smarttags" %s="place">%s</%s>`, w.el("smartTag"), w.at("uri"), w.at("element"), s, w.el("smartTag"))
	}
	switch c {
	case "plain", "multiT":
		return inner
	case "hyperlink":
		return hl(inner)
	case "smartTag":
		return st(inner)
	case "ins":
		return ins(inner)
	case "sdt":
		return sdt(inner)
	case "fldSimple":
		return fmt.Sprintf(`<%s %s=" AUTHOR ">%s</%s>`, w.el("fldSimple"), w.at("instr"), inner, w.el("fldSimple"))
	case "customXml":
		return fmt.Sprintf(`<%s %s="urn:example:cx" %s="item">%s</%s>`, w.el("customXml"), w.at("uri"), w.at("element"), inner, w.el("customXml"))
	case "hl-ins":
		return hl(ins(inner))
	case "sdt-hl":
		return sdt(hl(inner))
	case "st-st":
		return st(st(inner))
	}
	panic("fgn: unknown container " + c)
}

func (w fgnW) para(b fgnBlock, m *fgnModel, styled bool) string {
	var sb strings.Builder
	fmt.Fprintf(&sb, "<%s>", w.el("p"))
	if styled {
		fmt.Fprintf(&sb, `<%s><%s %s="ForeignStyle"/></%s>`, w.el("pPr"), w.el("pStyle"), w.at("val"), w.el("pPr"))
	}
	for _, r := range b.Runs {
		sb.WriteString(w.wrap(r.C, w.run(r), m))
	}
	fmt.Fprintf(&sb, "</%s>", w.el("p"))
	return sb.String()
}

func (w fgnW) pic(b fgnBlock, n int) string {
	attr := "r:embed"
	if b.Link {
		attr = "r:link"
	}
	return fmt.Sprintf(`<%[1]s><%[2]s><%[3]s><wp:inline distT="0" distB="0" distL="0" distR="0"><wp:extent cx="914400" cy="914400"/>`+
		`<wp:docPr id="%[4]d" name="Picture %[4]d"/><a:graphic><a:graphicData uri="http://schemas.openxmlformats.org/drawingml/2006/picture">`+
		`<pic:pic><pic:nvPicPr><pic:cNvPr id="%[4]d" name="pic%[4]d"/><pic:cNvPicPr/></pic:nvPicPr><pic:blipFill><a:blip %[5]s="%[6]s"/>`+
		`<a:stretch><a:fillRect/></a:stretch></pic:blipFill><pic:spPr><a:xfrm><a:off x="0" y="0"/><a:ext cx="914400" cy="914400"/></a:xfrm>`+
		`<a:prstGeom prst="rect"><a:avLst/></a:prstGeom></pic:spPr></pic:pic></a:graphicData></a:graphic></wp:inline></%[3]s></%[2]s></%[1]s>`,
		w.el("p"), w.el("r"), w.el("drawing"), 100+n, attr, fgnEsc(b.Rel))
}

func fgnDocumentXML(m *fgnModel) []byte {
	w := fgnW{m.Ns}
	var sb strings.Builder
	sb.WriteString(fgnDecl)
	fmt.Fprintf(&sb, `<%s %s xmlns:r="%s" xmlns:wp="%s" xmlns:a="%s" xmlns:pic="%s"><%s>`, w.el("document"), w.decl(), nsR, nsWP, nsA, nsPic, w.el("body"))
	for i, b := range m.Body {
		switch b.Blk {
		case "p":
			sb.WriteString(w.para(b, m, i == 0))
		case "pic":
			sb.WriteString(w.pic(b, i))
		case "tbl":
			fmt.Fprintf(&sb, `<%[1]s><%[2]s><%[3]s %[4]s="0" %[5]s="auto"/></%[2]s><%[6]s><%[7]s %[4]s="4000"/></%[6]s><%[8]s><%[9]s><%[10]s><%[11]s %[4]s="4000" %[5]s="dxa"/></%[10]s>%[12]s</%[9]s></%[8]s></%[1]s>`,
				w.el("tbl"), w.el("tblPr"), w.el("tblW"), w.at("w"), w.at("type"), w.el("tblGrid"), w.el("gridCol"), w.el("tr"), w.el("tc"), w.el("tcPr"), w.el("tcW"), w.para(b, m, false))
		case "sdtblk":
			fmt.Fprintf(&sb, `<%[1]s><%[2]s><%[3]s %[4]s="Block control"/></%[2]s><%[5]s>%[6]s</%[5]s></%[1]s>`,
				w.el("sdt"), w.el("sdtPr"), w.el("alias"), w.at("val"), w.el("sdtContent"), w.para(b, m, false))
		default:
			panic("fgn: unknown block " + b.Blk)
		}
	}
	fmt.Fprintf(&sb, "<%s>", w.el("sectPr"))
	first := false
	for _, r := range m.Rels {
		if r.Src != "word/_rels/document.xml.rels" || r.Ref == "" {
			continue
		}
		name := "headerReference"
		if r.Ty == "od/footer" {
			name = "footerReference"
		}
		fmt.Fprintf(&sb, `<%s %s="%s" r:id="%s"/>`, w.el(name), w.at("type"), r.Ref, fgnEsc(r.ID))
		if r.Ref == "first" {
			first = true
		}
	}
	fmt.Fprintf(&sb, `<%s %s="11906" %s="16838"/><%s %s="1440" %s="1800" %s="1440" %s="1800" %s="851" %s="992" %s="0"/>`,
		w.el("pgSz"), w.at("w"), w.at("h"), w.el("pgMar"), w.at("top"), w.at("right"), w.at("bottom"), w.at("left"), w.at("header"), w.at("footer"), w.at("gutter"))
	if first {
		fmt.Fprintf(&sb, "<%s/>", w.el("titlePg"))
	}
	fmt.Fprintf(&sb, "</%s></%s></%s>", w.el("sectPr"), w.el("body"), w.el("document"))
	return []byte(sb.String())
}

// fgnPartBytes gives the bytes of every part other than the four structural ones.
func fgnPartBytes(p fgnPart, idx int) []byte {
	W := `xmlns:w="` + nsW + `"`
	x := func(s string) []byte { return []byte(fgnDecl + s) }
	switch p.K {
	case "styles":
		return x(`<w:styles ` + W + `><w:docDefaults><w:rPrDefault><w:rPr><w:rFonts w:ascii="Calibri" w:hAnsi="Calibri"/><w:sz w:val="22"/></w:rPr></w:rPrDefault>` +
			`<w:pPrDefault><w:pPr><w:spacing w:after="160" w:line="259" w:lineRule="auto"/></w:pPr></w:pPrDefault></w:docDefaults>` +
			`<w:latentStyles w:defLockedState="0" w:count="376"/>` +
			`<w:style w:type="paragraph" w:default="1" w:styleId="Normal"><w:name w:val="Normal"/><w:qFormat/></w:style>` +
			`<w:style w:type="paragraph" w:customStyle="1" w:styleId="ForeignStyle"><w:name w:val="Foreign Style"/><w:basedOn w:val="Normal"/><w:rPr><w:color w:val="1F4E79"/></w:rPr></w:style>` +
			`</w:styles>`)
	case "theme":
		return x(`<a:theme xmlns:a="` + nsA + `" name="Foreign Theme"><a:themeElements><a:clrScheme name="Office"><a:dk1><a:sysClr val="windowText" lastClr="000000"/></a:dk1></a:clrScheme></a:themeElements></a:theme>`)
	case "fontTable":
		return x(`<w:fonts ` + W + `><w:font w:name="Calibri"><w:panose1 w:val="020F0502020204030204"/><w:charset w:val="00"/><w:family w:val="swiss"/></w:font></w:fonts>`)
	case "settings":
		return x(`<w:settings ` + W + `><w:zoom w:percent="120"/><w:trackRevisions/><w:defaultTabStop w:val="720"/><w:compat><w:compatSetting w:name="compatibilityMode" w:uri="http://schemas.microsoft.com/office/word" w:val="15"/></w:compat></w:settings>`)
	case "webSettings":
		return x(`<w:webSettings ` + W + `><w:optimizeForBrowser/><w:allowPNG/></w:webSettings>`)
	case "numbering":
		return x(`<w:numbering ` + W + `><w:abstractNum w:abstractNumId="7"><w:multiLevelType w:val="hybridMultilevel"/><w:lvl w:ilvl="0"><w:start w:val="3"/><w:numFmt w:val="upperRoman"/><w:lvlText w:val="%1)"/></w:lvl></w:abstractNum><w:num w:numId="9"><w:abstractNumId w:val="7"/></w:num></w:numbering>`)
	case "footnotes":
		return x(`<w:footnotes ` + W + `><w:footnote w:type="separator" w:id="-1"><w:p><w:r><w:separator/></w:r></w:p></w:footnote><w:footnote w:id="1"><w:p><w:r><w:t>foreign footnote</w:t></w:r></w:p></w:footnote></w:footnotes>`)
	case "endnotes":
		return x(`<w:endnotes ` + W + `><w:endnote w:type="separator" w:id="-1"><w:p><w:r><w:separator/></w:r></w:p></w:endnote><w:endnote w:id="1"><w:p><w:r><w:t>foreign endnote</w:t></w:r></w:p></w:endnote></w:endnotes>`)
	case "comments":
		return x(`<w:comments ` + W + `><w:comment w:id="0" w:author="Reviewer" w:date="2024-01-02T03:04:05Z"><w:p><w:r><w:t>foreign comment</w:t></w:r></w:p></w:comment></w:comments>`)
	case "customXml":
		return x(`<inv:invoice xmlns:inv="urn:example:invoice"><inv:number>4711</inv:number></inv:invoice>`)
	case "customXml-props":
		return x(`<ds:datastoreItem ds:itemID="{5D0AEA6B-E499-4EEF-98A3-AFBB261C493E}" xmlns:ds="http://schemas.openxmlformats.org/officeDocument/2006/customXml"><ds:schemaRefs><ds:schemaRef ds:uri="urn:example:invoice"/></ds:schemaRefs></ds:datastoreItem>`)
	case "header", "header1":
		link := ""
		if p.K == "header" {
			link = `<w:hyperlink r:id="rId2"><w:r><w:t>link</w:t></w:r></w:hyperlink>`
		}
		return x(`<w:hdr ` + W + ` xmlns:r="` + nsR + `"><w:p><w:pPr><w:pStyle w:val="Header"/></w:pPr><w:r><w:t>Foreign ` + p.K + `</w:t></w:r>` + link + `<w:r><w:pict r:id="rId1"/></w:r></w:p></w:hdr>`)
	case "footer1":
		return x(`<w:ftr ` + W + `><w:p><w:r><w:t>Foreign footer</w:t></w:r></w:p></w:ftr>`)
	case "docProps-core":
		return x(`<cp:coreProperties xmlns:cp="http://schemas.openxmlformats.org/package/2006/metadata/core-properties" xmlns:dc="http://purl.org/dc/elements/1.1/" xmlns:dcterms="http://purl.org/dc/terms/" xmlns:xsi="http://www.w3.org/2001/XMLSchema-instance"><dc:title>Foreign title</dc:title><dc:creator>Someone Else</dc:creator><cp:revision>12</cp:revision><dcterms:created xsi:type="dcterms:W3CDTF">2020-05-06T07:08:09Z</dcterms:created></cp:coreProperties>`)
	case "docProps-app":
		return x(`<Properties xmlns="http://schemas.openxmlformats.org/officeDocument/2006/extended-properties" xmlns:vt="http://schemas.openxmlformats.org/officeDocument/2006/docPropsVTypes"><Template>Normal.dotm</Template><TotalTime>42</TotalTime><Application>Other Word Processor</Application><AppVersion>16.0000</AppVersion></Properties>`)
	case "docProps-custom":
		return x(`<Properties xmlns="http://schemas.openxmlformats.org/officeDocument/2006/custom-properties" xmlns:vt="http://schemas.openxmlformats.org/officeDocument/2006/docPropsVTypes"><property fmtid="{D5CDD505-2E9C-101B-9397-08002B2CF9AE}" pid="2" name="Project"><vt:lpwstr>wz</vt:lpwstr></property></Properties>`)
	case "thumbnail":
		return tinyJPEGSize(200+idx, 4, 3)
	case "unknown-ext":
		return append([]byte{0xD0, 0xCF, 0x11, 0xE0, 0x00, 0x01, 0x02, 0xFF, 0xFE}, []byte(fmt.Sprintf("ole object %d", idx))...)
	case "override-only":
		return []byte(fmt.Sprintf("custom\x00data\r\n%d\x1a", idx))
	case "media":
		switch fgnExt(p.N) {
		case "jpeg", "jpg":
			return tinyJPEGSize(100+idx, 3, 2)
		}
		return tinyPNGSize(100+idx, 3, 2)
	}
	panic("fgn: no bytes for part kind " + p.K + " (" + p.N + ")")
}

// fgnSynth writes the package. Entry order follows common producers: content types first,
// package relationships, then the remaining parts by name.
func fgnSynth(m *fgnModel) ([]byte, error) {
	var buf bytes.Buffer
	zw := zip.NewWriter(&buf)
	put := func(name string, data []byte) error {
		w, err := zw.Create(name)
		if err != nil {
			return err
		}
		_, err = w.Write(data)
		return err
	}
	ordered := []string{"[Content_Types].xml", "_rels/.rels"}
	for _, p := range m.Parts {
		if p.N != ordered[0] && p.N != ordered[1] {
			ordered = append(ordered, p.N)
		}
	}
	for i, n := range ordered {
		p, ok := m.byName[n]
		if !ok {
			return nil, fmt.Errorf("model lacks structural part %s", n)
		}
		var data []byte
		switch {
		case p.K == "content-types":
			data = fgnContentTypesXML(m)
		case strings.HasSuffix(n, ".rels"):
			data = fgnRelsXML(m, n)
		case p.K == "main":
			data = fgnDocumentXML(m)
		default:
			data = fgnPartBytes(p, i)
		}
		if err := put(n, data); err != nil {
			return nil, err
		}
	}
	if err := zw.Close(); err != nil {
		return nil, err
	}
	return buf.Bytes(), nil
}
