package main

// Executor for spec module SaveIO (property C05), second file:
//   * the origin class "openodd": a package of another producer that carries degenerate parts;
//   * the plan "conc": the save under test repeated by its own goroutine while other goroutines save
//     documents of their own to paths of their own (SaveIO_MC.tla, GC).
// No oracle logic here: every call becomes one "save" observation judged by SaveIO_Trace.tla.

import (
	"archive/zip"
	"bytes"
	"fmt"
	"io"
	"math/rand"
	"os"
	"sync"

	"github.com/zerx-lab/wordZero/pkg/document"
)

// sioOddForeign is the minimal foreign package plus parts at the extremes of what a part can be:
// zero-length (stored and deflated), one byte, incompressible and longer than one deflate block,
// names with a space, outside ASCII, and deep below the root.
func sioOddForeign() ([]byte, error) {
	b, err := sioMinimalForeign("odd")
	if err != nil {
		return nil, err
	}
	zr, err := zip.NewReader(bytes.NewReader(b), int64(len(b)))
	if err != nil {
		return nil, err
	}
	var out bytes.Buffer
	zw := zip.NewWriter(&out)
	for _, f := range zr.File {
		w, err := zw.Create(f.Name)
		if err != nil {
			return nil, err
		}
		r, err := f.Open()
		if err != nil {
			return nil, err
		}
		_, err = io.Copy(w, r)
		r.Close()
		if err != nil {
			return nil, err
		}
	}
	noise := make([]byte, 150000)
	rand.New(rand.NewSource(424242)).Read(noise)
	extra := []struct {
		name   string
		data   []byte
		method uint16
	}{
		{"customXml/item1.xml", nil, zip.Deflate},
		{"word/media/placeholder.bin", nil, zip.Store},
		{"customXml/one.bin", []byte{0x7f}, zip.Deflate},
		{"word/embeddings/blob.bin", noise, zip.Deflate},
		{"customXml/item with space.xml", []byte(`<?xml version="1.0"?><a xmlns="urn:odd">space</a>`), zip.Deflate},
		{"customXml/dépôt/项目.xml", []byte(`<?xml version="1.0"?><a xmlns="urn:odd">utf8</a>`), zip.Deflate},
		{"deep/a/b/c/d/e/f/g/part.bin", []byte("deep"), zip.Store},
	}
	for _, e := range extra {
		w, err := zw.CreateHeader(&zip.FileHeader{Name: e.name, Method: e.method})
		if err != nil {
			return nil, err
		}
		if _, err := w.Write(e.data); err != nil {
			return nil, err
		}
	}
	if err := zw.Close(); err != nil {
		return nil, err
	}
	return out.Bytes(), nil
}

// sioCompanion builds the j-th other document of a concurrent stage: its own content, its own size.
func sioCompanion(j int) *document.Document {
	d := document.New()
	r := rand.New(rand.NewSource(int64(7700 + j)))
	for i := 0; i < 12+45*j; i++ {
		d.AddParagraph(fmt.Sprintf("companion %d paragraph %d %s", j, i, sioWords(r, 12)))
	}
	if j%2 == 1 {
		d.AddImageFromData(tinyPNGSize(j+3, 24, 24), fmt.Sprintf("c%d.png", j), document.ImageFormatPNG, 24, 24, nil)
	}
	if j%3 == 2 {
		d.AddHeader(document.HeaderFooterTypeDefault, fmt.Sprintf("companion %d", j))
	}
	return d
}

// sioTakeTB is the in-memory serialisation of d now: (tb, projected parts).
func sioTakeTB(d *document.Document) (string, []map[string]interface{}) {
	var b []byte
	tb, _ := guard(func() string {
		var err error
		b, err = d.ToBytes()
		return errRet(err)
	})
	if tb != "ok" {
		return tb, []map[string]interface{}{}
	}
	return tb, sioParts(ReadPkg(b))
}

// sioReadBack is what the path holds now: (size, complete, projected parts).
func sioReadBack(path string) (int, bool, []map[string]interface{}) {
	fi, err := os.Stat(path)
	if err != nil || !fi.Mode().IsRegular() {
		return -1, false, []map[string]interface{}{}
	}
	data, err := os.ReadFile(path)
	if err != nil {
		return int(fi.Size()), false, []map[string]interface{}{}
	}
	p := ReadPkg(data)
	if p.ZipErr != "" {
		return int(fi.Size()), false, []map[string]interface{}{}
	}
	return int(fi.Size()), true, sioParts(p)
}

type sioConcCall struct {
	t        *sioTarget
	ret      string
	pmsg     string
	size     int
	complete bool
	disk     []map[string]interface{}
	read     bool
}

// concurrent runs the stage: goroutine 0 saves x.doc `rounds` times to targets of the class of t0, goroutines
// 1..others save companion j as often to targets of the same class; all free-running, nothing between two saves
// of a goroutine.  Every save goes to a path of its own (except class "resave": the same path again and again,
// read back at once), the files are read back after the stage.
func (x *sioCtx) concurrent(t0 *sioTarget, rounds, others int) []Ev {
	class := t0.class
	docs := []*document.Document{x.doc}
	for j := 1; j <= others; j++ {
		docs = append(docs, sioCompanion(j))
	}
	type before struct {
		tb    string
		parts []map[string]interface{}
	}
	bef := make([]before, len(docs))
	calls := make([][]*sioConcCall, len(docs))
	for j, d := range docs {
		tb, parts := sioTakeTB(d)
		bef[j] = before{tb, parts}
		var same *sioTarget
		for r := 0; r < rounds; r++ {
			var t *sioTarget
			switch {
			case j == 0 && r == 0:
				t = t0
			case class == "resave" && same != nil:
				t = same
			default:
				t = x.target(class)
				if class == "resave" && j > 0 {
					// a companion has no earlier save: a fresh path of its own, saved to again and again
					t.path = fmt.Sprintf("%s.c%d", t.path, j)
				}
			}
			if class == "resave" && same == nil {
				same = t
			}
			if class != "resave" {
				t.reset()
			}
			calls[j] = append(calls[j], &sioConcCall{t: t})
		}
	}
	var wg sync.WaitGroup
	start := make(chan struct{})
	for j := range docs {
		wg.Add(1)
		go func(j int) {
			defer wg.Done()
			<-start
			for _, c := range calls[j] {
				c := c
				c.ret, c.pmsg = guard(func() string { return errRet(docs[j].Save(c.t.path)) })
				if class == "resave" {
					c.size, c.complete, c.disk = sioReadBack(c.t.path)
					c.read = true
				}
			}
		}(j)
	}
	close(start)
	wg.Wait()
	var out []Ev
	for j := range docs {
		for _, c := range calls[j] {
			if !c.read {
				c.size, c.complete, c.disk = sioReadBack(c.t.path)
			}
			c.t.done()
			out = append(out, Ev{"ev": "save", "case": x.c.ID, "via": "Save", "target": class, "k": -1, "tbwhen": "before",
				"conc": others, "tb": bef[j].tb, "before": bef[j].parts, "ret": c.ret, "pmsg": c.pmsg,
				"size": c.size, "complete": c.complete, "disk": c.disk, "n0": 0, "dirstart": 0, "cmax": 0})
		}
	}
	return out
}
