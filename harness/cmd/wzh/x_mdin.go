package main

// Executor for spec module MdIn (property C19): Markdown -> Word.
//
// Behaviours are sequences of
//   {op:"new",  opts}                      markdown.NewConverter(opts)
//   {op:"conv", ast, api, co}              ConvertString / ConvertBytes / ConvertFile / BatchConvert of the
//                                          Markdown spelling of ast (co: options argument nil or a copy)
//   {op:"raw",  toks, masks}               ConvertBytes of a token string under every option mask
//   {op:"deep", tok, n, mask}              ConvertBytes of tok^n in a child process with a wall-clock limit
// For every conversion the saved package is read back with the independent reader and projected to
// package facts and the abstract body.  No oracle logic here: MdIn_Trace.tla judges.

import (
	"bytes"
	"encoding/json"
	"fmt"
	"os"
	"os/exec"
	"path/filepath"
	"strings"
	"syscall"
	"time"

	"github.com/zerx-lab/wordZero/pkg/markdown"
)

func init() {
	register("mdin", runMdIn)
	register("mdinchild", runMdInChild)
}

func mdiDecode(v interface{}, into interface{}) error {
	b, err := json.Marshal(v)
	if err != nil {
		return err
	}
	return json.Unmarshal(b, into)
}

func mdiOptions(o mdiOpts) *markdown.ConvertOptions {
	opts := markdown.DefaultOptions()
	opts.EnableGFM = o.GFM
	opts.EnableTables = o.Tables
	opts.EnableTaskList = o.Tasks
	opts.EnableMath = o.Math
	opts.EnableFootnotes = o.Fn
	opts.GenerateTOC = o.TOC
	opts.TOCMaxLevel = o.Lvl
	return opts
}

// bit order as MdIn!OptOfMask
func mdiMaskOpts(m int) mdiOpts {
	lv := []int{0, 1, 3, 9}
	return mdiOpts{GFM: m&1 != 0, Tables: m&2 != 0, Tasks: m&4 != 0, Math: m&8 != 0, Fn: m&16 != 0, TOC: m&32 != 0, Lvl: lv[(m/64)%4]}
}

var mdiTotToks = map[string]string{
	"hash": "#", "star": "*", "us": "_", "bt": "`", "tilde": "~", "pipe": "|", "dash": "-", "gt": ">",
	"lb": "[", "rb": "]", "lp": "(", "rp": ")", "bang": "!", "dollar": "$", "bs": "\\", "amp": "&amp;",
	"lt": "<", "num": "1.", "box": "[ ]", "colon": ":", "sp": " ", "tab": "\t", "nl": "\n", "a": "a",
	"e": "é", "nul": "\x00", "ff": "\xff", "eq": "=", "fnref": "[^1]", "fndef": "[^1]:", "dd": "$$",
	"fence": "```", "plus": "+", "frac": "\\frac{", "rbrace": "}", "cr": "\r", "bom": "\xef\xbb\xbf",
	"ctl": "\x01", "indent": "    ", "html": "<div>", "sqrt": "\\sqrt[", "li": "- ", "qq": "> ",
}

func mdiRawBytes(toks []string) []byte {
	var b bytes.Buffer
	for _, t := range toks {
		if s, ok := mdiTotToks[t]; ok {
			b.WriteString(s)
		} else {
			b.WriteString(t)
		}
	}
	return b.Bytes()
}

// mdiConvertBytes runs one conversion + ToBytes and returns (ret, saveret, bytes, panic text)
func mdiConvertBytes(conv *markdown.Converter, md []byte, co *markdown.ConvertOptions) (string, string, []byte, string) {
	var out []byte
	saveret := "none"
	ret, pmsg := guard(func() string {
		doc, err := conv.ConvertBytes(md, co)
		if err != nil || doc == nil {
			return "err"
		}
		b, err := doc.ToBytes()
		if err != nil {
			saveret = "err"
			return "ok"
		}
		saveret = "ok"
		out = b
		return "ok"
	})
	return ret, saveret, out, pmsg
}

func runMdIn(c Case, emit Emitter) {
	emit(Ev{"ev": "reset", "case": c.ID})
	var conv *markdown.Converter
	var cur mdiOpts
	tmp := ""
	defer func() {
		if tmp != "" {
			os.RemoveAll(tmp)
		}
	}()
	for i, op := range c.Steps {
		switch op.Name() {
		case "new":
			if err := mdiDecode(op["opts"], &cur); err != nil {
				fmt.Fprintln(os.Stderr, "mdin: bad opts:", err)
				os.Exit(2)
			}
			conv = markdown.NewConverter(mdiOptions(cur))
			emit(Ev{"ev": "step", "case": c.ID, "op": "new", "opts": op["opts"]})
		case "conv":
			var ast []*mdiNode
			if err := mdiDecode(op["ast"], &ast); err != nil {
				fmt.Fprintln(os.Stderr, "mdin: bad ast:", err)
				os.Exit(2)
			}
			if conv == nil {
				cur = mdiMaskOpts(191)
				conv = markdown.NewConverter(mdiOptions(cur))
			}
			cc := mdiNewConc(seed + int64(c.ID)*7 + int64(i))
			md := cc.markdown(ast)
			// line-ending class: CommonMark treats LF and CRLF alike; every third concretisation is written with CRLF
			if (seed+int64(c.ID)+int64(i))%3 == 1 {
				md = strings.ReplaceAll(md, "\n", "\r\n")
			}
			var co *markdown.ConvertOptions
			if op.Str("co") == "same" {
				co = mdiOptions(cur)
			}
			api := op.Str("api")
			var out []byte
			ret, saveret, pmsg := "ok", "none", ""
			switch api {
			case "file", "batch", "missing":
				if tmp == "" {
					d, err := os.MkdirTemp("", "wzh-mdin-")
					if err != nil {
						fmt.Fprintln(os.Stderr, "mdin:", err)
						os.Exit(2)
					}
					tmp = d
				}
				in := filepath.Join(tmp, fmt.Sprintf("in%d.md", i))
				if api == "missing" {
					in = filepath.Join(tmp, fmt.Sprintf("missing%d.md", i))
				} else if err := os.WriteFile(in, []byte(md), 0o644); err != nil {
					fmt.Fprintln(os.Stderr, "mdin:", err)
					os.Exit(2)
				}
				outPath := filepath.Join(tmp, fmt.Sprintf("in%d.docx", i))
				ret, pmsg = guard(func() string {
					if api != "batch" {
						return errRet(conv.ConvertFile(in, outPath, co))
					}
					other := filepath.Join(tmp, "other.md")
					if err := os.WriteFile(other, []byte("other\n"), 0o644); err != nil {
						return "err"
					}
					return errRet(conv.BatchConvert([]string{other, in}, tmp, co))
				})
				if ret == "ok" {
					b, err := os.ReadFile(outPath)
					if err != nil {
						saveret = "err"
					} else {
						saveret = "ok"
						out = b
					}
				}
			case "string":
				var doc interface{ ToBytes() ([]byte, error) }
				ret, pmsg = guard(func() string {
					d, err := conv.ConvertString(md, co)
					if err != nil || d == nil {
						return "err"
					}
					doc = d
					return "ok"
				})
				if ret == "ok" {
					r2, _ := guard(func() string {
						b, err := doc.ToBytes()
						if err != nil {
							return "err"
						}
						out = b
						return "ok"
					})
					saveret = r2
				}
			default:
				ret, saveret, out, pmsg = mdiConvertBytes(conv, []byte(md), co)
			}
			pk := mdiNoPkg()
			body := []mdiM{}
			if saveret == "ok" {
				var p *Pkg
				pk, p = mdiPkgFacts(out)
				body = mdiBody(cc, p)
			}
			emit(Ev{"ev": "step", "case": c.ID, "op": "conv", "ast": op["ast"], "opts": cur, "api": api, "co": op.Str("co"),
				"ret": ret, "saveret": saveret, "pmsg": pmsg, "pk": pk, "body": body,
				"ref": mdiRefBody(cc, []byte(md), cur), "md": md})
		case "raw":
			var toks []string
			var masks []int
			if mdiDecode(op["toks"], &toks) != nil || mdiDecode(op["masks"], &masks) != nil {
				fmt.Fprintln(os.Stderr, "mdin: bad raw case")
				os.Exit(2)
			}
			md := mdiRawBytes(toks)
			outs := []mdiM{}
			index := map[string]int{}
			for _, m := range masks {
				o := mdiMaskOpts(m)
				cv := markdown.NewConverter(mdiOptions(o))
				ret, saveret, out, _ := mdiConvertBytes(cv, md, nil)
				pk := mdiNoPkg()
				if saveret == "ok" {
					pk, _ = mdiPkgFacts(out)
				}
				kb, _ := json.Marshal([]interface{}{ret, saveret, pk})
				if j, ok := index[string(kb)]; ok {
					outs[j]["masks"] = append(outs[j]["masks"].([]int), m)
					continue
				}
				index[string(kb)] = len(outs)
				outs = append(outs, mdiM{"ret": ret, "saveret": saveret, "pk": pk, "masks": []int{m}})
			}
			emit(Ev{"ev": "step", "case": c.ID, "op": "raw", "toks": toks, "outs": outs})
		case "deep":
			tok, n, mask := op.Str("tok"), op.Int("n"), op.Int("mask")
			out := mdiRunChild(tok, n, mask)
			emit(Ev{"ev": "step", "case": c.ID, "op": "deep", "toks": []string{tok, fmt.Sprintf("x%d", n)}, "outs": []mdiM{out}})
		default:
			fmt.Fprintln(os.Stderr, "mdin: unknown op", op.Name())
			os.Exit(2)
		}
	}
}

// The child limits its own CPU time (robust against a loaded machine); the wall-clock limit is a last resort.
const (
	mdiChildCPU   = 120 // seconds of CPU time
	mdiChildLimit = 15 * time.Minute
)

// mdiRunChild converts tok^n in a child process (a stack overflow or a hang must not kill the harness).
func mdiRunChild(tok string, n, mask int) mdiM {
	res := mdiM{"ret": "fatal", "saveret": "none", "pk": mdiNoPkg(), "masks": []int{mask}}
	d, err := os.MkdirTemp("", "wzh-mdin-child-")
	if err != nil {
		fmt.Fprintln(os.Stderr, "mdin:", err)
		os.Exit(2)
	}
	defer os.RemoveAll(d)
	cf, of := filepath.Join(d, "case.ndjson"), filepath.Join(d, "obs.ndjson")
	cb, _ := json.Marshal(Case{ID: 1, Steps: []Op{{"op": "deep", "tok": tok, "n": n, "mask": mask}}})
	if err := os.WriteFile(cf, append(cb, '\n'), 0o644); err != nil {
		fmt.Fprintln(os.Stderr, "mdin:", err)
		os.Exit(2)
	}
	cmd := exec.Command(os.Args[0], "mdinchild", cf, of)
	cmd.Env = append(os.Environ(), "GOMAXPROCS=2")
	if err := cmd.Start(); err != nil {
		fmt.Fprintln(os.Stderr, "mdin: cannot start child:", err)
		os.Exit(2)
	}
	done := make(chan error, 1)
	go func() { done <- cmd.Wait() }()
	select {
	case err = <-done:
	case <-time.After(mdiChildLimit):
		cmd.Process.Kill()
		<-done
		res["ret"] = "timeout"
		return res
	}
	if err != nil {
		if ee, ok := err.(*exec.ExitError); ok {
			if ws, ok := ee.Sys().(syscall.WaitStatus); ok && ws.Signaled() && (ws.Signal() == syscall.SIGXCPU || ws.Signal() == syscall.SIGKILL) {
				res["ret"] = "timeout" // CPU limit exceeded
			}
		}
		return res // otherwise the child died: fatal
	}
	b, err := os.ReadFile(of)
	if err != nil {
		return res
	}
	for _, line := range strings.Split(string(b), "\n") {
		var ev struct {
			Ev  string `json:"ev"`
			Out mdiM   `json:"out"`
		}
		if json.Unmarshal([]byte(line), &ev) == nil && ev.Ev == "step" && ev.Out != nil {
			ev.Out["masks"] = []int{mask}
			return ev.Out
		}
	}
	return res
}

// runMdInChild is the child side: one conversion, outcome logged.
func runMdInChild(c Case, emit Emitter) {
	syscall.Setrlimit(syscall.RLIMIT_CPU, &syscall.Rlimit{Cur: mdiChildCPU, Max: mdiChildCPU + 5})
	for _, op := range c.Steps {
		tok, n, mask := op.Str("tok"), op.Int("n"), op.Int("mask")
		s := mdiTotToks[tok]
		if s == "" {
			s = tok
		}
		md := []byte(strings.Repeat(s, n) + "a\n")
		cv := markdown.NewConverter(mdiOptions(mdiMaskOpts(mask)))
		ret, saveret, out, _ := mdiConvertBytes(cv, md, nil)
		pk := mdiNoPkg()
		if saveret == "ok" {
			pk, _ = mdiPkgFacts(out)
		}
		emit(Ev{"ev": "step", "case": c.ID, "out": mdiM{"ret": ret, "saveret": saveret, "pk": pk}})
	}
}
