package main

import (
	"bytes"
	"image"
	"image/color"
	"image/gif"
	"image/jpeg"
	"image/png"
)

func tinyImage(tok, w, h int) *image.RGBA {
	if w <= 0 {
		w = 2
	}
	if h <= 0 {
		h = 2
	}
	img := image.NewRGBA(image.Rect(0, 0, w, h))
	for y := 0; y < h; y++ {
		for x := 0; x < w; x++ {
			img.Set(x, y, color.RGBA{uint8(tok * 37), uint8(tok*11 + x), uint8(200 - tok + y), 255})
		}
	}
	return img
}

// tinyPNG returns a small PNG whose bytes differ for every tok.
func tinyPNG(tok int) []byte { return tinyPNGSize(tok, 2, 2) }

func tinyPNGSize(tok, w, h int) []byte {
	var buf bytes.Buffer
	png.Encode(&buf, tinyImage(tok, w, h))
	return buf.Bytes()
}

func tinyJPEGSize(tok, w, h int) []byte {
	var buf bytes.Buffer
	jpeg.Encode(&buf, tinyImage(tok, w, h), &jpeg.Options{Quality: 90})
	return buf.Bytes()
}

func tinyGIFSize(tok, w, h int) []byte {
	var buf bytes.Buffer
	gif.Encode(&buf, tinyImage(tok, w, h), nil)
	return buf.Bytes()
}
