package main

// Executors "isorace" / "isoracechild" for spec module Iso (property C07, concurrent part).
//
// "isorace" (parent, built with -race) logs the solo baseline of every per-document program and
// then re-executes itself as "isoracechild" for the case: the child runs the programs free on one
// goroutine per document for a number of rounds (registries reset only at the start of a round)
// and logs the final view of every document. The parent reads the child's standard error: every
// "WARNING: DATA RACE" block is reduced to the top library frame of the racing access (function
// name, no line numbers); "fatal error: concurrent map ..." is recorded as such. The race
// detector is an observation channel only: programs and oracle come from the specification, the
// verdict from spec/Iso_Trace.tla (ev "race").

import (
	"bufio"
	"bytes"
	"context"
	"encoding/json"
	"fmt"
	"os"
	"os/exec"
	"regexp"
	"runtime"
	"sort"
	"strings"
	"sync"
	"sync/atomic"
	"time"

	"github.com/zerx-lab/wordZero/pkg/document"
)

func init() {
	register("isorace", runIsoRace)
	register("isoracechild", runIsoRaceChild)
}

const isoLibPrefix = "github.com/zerx-lab/wordZero/pkg/"

var isoFrameRe = regexp.MustCompile(`^\s+(\S+)\(\)$`)

// isoRaceSites extracts one site per DATA RACE block: the top library frame of the first stack
// that contains one.
func isoRaceSites(stderr string) []string {
	seen := map[string]bool{}
	for _, blk := range strings.Split(stderr, "==================") {
		if !strings.Contains(blk, "WARNING: DATA RACE") {
			continue
		}
		site := ""
		for _, ln := range strings.Split(blk, "\n") {
			m := isoFrameRe.FindStringSubmatch(ln)
			if m == nil {
				continue
			}
			// XML marshalling callbacks of element types are reached from many places; the site is
			// the library function that started the marshalling
			if strings.HasPrefix(m[1], isoLibPrefix) && !strings.HasSuffix(m[1], ".MarshalXML") {
				site = strings.TrimPrefix(m[1], isoLibPrefix)
				break
			}
		}
		if site == "" {
			site = "unknown"
		}
		seen[site] = true
	}
	out := []string{}
	for s := range seen {
		out = append(out, s)
	}
	sort.Strings(out)
	return out
}

var isoFatalRe = regexp.MustCompile(`fatal error: (concurrent map[^\n]*)`)

func runIsoRace(c Case, emit Emitter) {
	x := isoExtraOf(c)
	isoOrigin = x.Origin
	names, progs := isoPrograms(c.Steps)
	emit(Ev{"ev": "reset", "case": c.ID, "mode": "race", "hooks": isoProbeHooks()})
	tab := newIsoIntern()
	isoSoloInProc = true // this process executes nothing but baselines
	isoSolo(c, names, progs, tab, emit)
	document.VerifResetGlobals()

	tmp, err := os.MkdirTemp(".", "isorace-")
	if err != nil {
		fmt.Fprintln(os.Stderr, "isorace:", err)
		os.Exit(2)
	}
	defer os.RemoveAll(tmp)
	cf, of := tmp+"/case.ndjson", tmp+"/obs.ndjson"
	cj, _ := json.Marshal(c)
	os.WriteFile(cf, append(cj, '\n'), 0o644)
	// a child that dies without a recognisable runtime report (killed from outside, out of memory)
	// is not an observation of the library: it is retried, then reported as a machinery failure
	var stderr string
	var runErr error
	timedOut := false
	for attempt := 0; attempt < 3; attempt++ {
		os.Remove(of)
		ctx, cancel := context.WithTimeout(context.Background(), 300*time.Second)
		cmd := exec.CommandContext(ctx, os.Args[0], "isoracechild", cf, of)
		cmd.Env = append(os.Environ(), "GORACE=halt_on_error=0 exitcode=0")
		var se bytes.Buffer
		cmd.Stderr = &se
		runErr = cmd.Run()
		timedOut = ctx.Err() != nil
		cancel()
		stderr = se.String()
		if runErr == nil || isoFatalRe.MatchString(stderr) {
			break
		}
	}
	fatal := ""
	if m := isoFatalRe.FindStringSubmatch(stderr); m != nil {
		fatal = strings.TrimSpace(m[1])
	} else if runErr != nil {
		// not an observation of the library: the child was killed or could not run
		head := stderr
		if len(head) > 3000 {
			head = head[:1500] + "\n...\n" + head[len(head)-1500:]
		}
		os.WriteFile(fmt.Sprintf("isorace-fail-%d.txt", c.ID), []byte(stderr), 0o644)
		fmt.Fprintf(os.Stderr, "%s\nisorace: child failed on case %d (%v, timeout=%v)\n", head, c.ID, runErr, timedOut)
		os.Exit(2)
	}
	// distinct final views over the rounds the child completed
	var views []map[string]interface{}
	var rets []map[string][]string
	if f, err := os.Open(of); err == nil {
		sc := bufio.NewScanner(f)
		sc.Buffer(make([]byte, 1<<20), 1<<28)
		seen := map[string]bool{}
		for sc.Scan() {
			var e struct {
				Ev    string                 `json:"ev"`
				Views map[string]interface{} `json:"views"`
				Rets  map[string][]string    `json:"rets"`
			}
			if json.Unmarshal(sc.Bytes(), &e) != nil || e.Ev != "round" {
				continue
			}
			k, _ := json.Marshal([]interface{}{e.Views, e.Rets})
			if !seen[string(k)] {
				seen[string(k)] = true
				views = append(views, e.Views)
				rets = append(rets, e.Rets)
			}
		}
		f.Close()
	}
	if len(views) == 0 {
		views = append(views, map[string]interface{}{})
		rets = append(rets, map[string][]string{})
	}
	sites := isoRaceSites(stderr)
	for i, v := range views {
		ids := map[string]interface{}{}
		for d, dv := range v {
			ids[d] = tab.id(dv)
		}
		ev := Ev{"ev": "race", "case": c.ID, "sites": []string{}, "fatal": "", "views": ids, "rets": rets[i], "rounds": x.Rounds}
		if i == 0 {
			ev["sites"] = sites
			ev["fatal"] = fatal
		}
		tab.emit(emit, ev)
	}
}

// runIsoRaceChild: rounds of free-running goroutines, one per document.
func runIsoRaceChild(c Case, emit Emitter) {
	x := isoExtraOf(c)
	isoOrigin = x.Origin
	names, progs := isoPrograms(c.Steps)
	for r := 0; r < x.Rounds; r++ {
		isoNoSync = true // while the document goroutines run, the harness takes no lock
		document.VerifResetGlobals()
		docs := map[string]*isoDoc{}
		for _, d := range names {
			docs[d] = isoNewDoc(d)
		}
		// start barrier: every goroutine spins until all are running, so that the programs really
		// overlap (the barrier orders only what happens before it)
		var ready int32
		n := int32(len(names))
		var wg sync.WaitGroup
		rets := map[string][]string{}
		vs := map[string]interface{}{}
		var vmu sync.Mutex // taken after a goroutine's last access to its document: orders nothing the library does
		for _, d := range names {
			wg.Add(1)
			st, prog := docs[d], append(append([]Op{}, progs[d]...), isoFinalOp)
			out := make([]string, len(prog))
			rets[d] = out
			go func() {
				defer wg.Done()
				atomic.AddInt32(&ready, 1)
				for atomic.LoadInt32(&ready) < n {
					runtime.Gosched()
				}
				for i, op := range prog {
					out[i], _ = isoExec(st, op)
				}
				// the read accessors and the projection of the document are the caller's last use of it: they run on
				// the caller's goroutine too, concurrently with whatever the other documents' goroutines are doing
				v := isoView(st)
				vmu.Lock()
				vs[st.name] = v
				vmu.Unlock()
			}()
		}
		wg.Wait()
		isoNoSync = false
		emit(Ev{"ev": "round", "case": c.ID, "r": r, "views": vs, "rets": rets})
	}
}
