package main

// Projection of a saved package for spec module Defs (on top of the shared independent reader
// opc.go) and synthesis of the small foreign packages that Defs.tla describes.

import (
	"archive/zip"
	"bytes"
	"fmt"
	"regexp"
	"sort"
	"strconv"
	"strings"
)

const (
	defsRelNumbering = "http://schemas.openxmlformats.org/officeDocument/2006/relationships/numbering"
	defsRelFootnotes = "http://schemas.openxmlformats.org/officeDocument/2006/relationships/footnotes"
	defsRelEndnotes  = "http://schemas.openxmlformats.org/officeDocument/2006/relationships/endnotes"
)

var (
	defsFnMarker = regexp.MustCompile(`^fnote.*\[(\d+)\]$`)
	defsEnMarker = regexp.MustCompile(`^enote.*\[尾注(\d+)\]$`)
)

func defsAtoi(s string) int {
	n, err := strconv.Atoi(strings.TrimSpace(s))
	if err != nil {
		return -1
	}
	return n
}

// defsRefsOf collects, below root: style ids referred to (pStyle, rStyle, tblStyle), numIds used by
// paragraphs, and note references (real reference elements and the text markers "[n]" / "[尾注n]" that
// the library writes at the end of the paragraph created by AddFootnote / AddEndnote).
func defsRefsOf(root *Node) (refs []string, nums []int, notes []map[string]interface{}) {
	seenR := map[string]bool{}
	seenN := map[int]bool{}
	seenT := map[string]bool{}
	note := func(k string, id int) {
		key := k + strconv.Itoa(id)
		if !seenT[key] {
			seenT[key] = true
			notes = append(notes, map[string]interface{}{"k": k, "id": id})
		}
	}
	var walk func(n *Node)
	walk = func(n *Node) {
		switch n.Local {
		case "pStyle", "rStyle", "tblStyle":
			if id := n.A("val"); !seenR[id] {
				seenR[id] = true
				refs = append(refs, id)
			}
		case "numId":
			if n.Parent != nil && n.Parent.Local == "numPr" {
				if id := defsAtoi(n.A("val")); !seenN[id] {
					seenN[id] = true
					nums = append(nums, id)
				}
			}
		case "footnoteReference":
			note("fn", defsAtoi(n.A("id")))
		case "endnoteReference":
			note("en", defsAtoi(n.A("id")))
		case "p":
			t := n.WText()
			if m := defsFnMarker.FindStringSubmatch(t); m != nil {
				note("fn", defsAtoi(m[1]))
			} else if m := defsEnMarker.FindStringSubmatch(t); m != nil {
				note("en", defsAtoi(m[1]))
			}
		}
		for _, k := range n.Kids {
			walk(k)
		}
	}
	walk(root)
	sort.Strings(refs)
	sort.Ints(nums)
	return
}

// defsPart finds the part of the given relationship type of the main document (falling back to
// the conventional name, so that a misplaced relationship - property C02 - is not reported here).
func defsPart(p *Pkg, relType, conventional string) ([]byte, bool) {
	main := p.MainDocName()
	for _, r := range p.Rels[RelsPartFor(main)] {
		if r.Type == relType && r.Mode != "External" {
			if data, ok := p.Parts[ResolveTarget(main, r.Target)]; ok {
				return data, true
			}
		}
	}
	data, ok := p.Parts[conventional]
	return data, ok
}

// defsParse is ParseXML with a small cache keyed by the bytes: most saves rewrite identical styles,
// numbering, notes and header/footer parts. The trees are only read.
type defsParsed struct {
	root *Node
	err  error
}

var defsParseCache = map[string]defsParsed{}

func defsParse(data []byte) (*Node, error) {
	if c, ok := defsParseCache[string(data)]; ok {
		return c.root, c.err
	}
	root, err := ParseXML(data)
	if len(defsParseCache) > 128 {
		defsParseCache = map[string]defsParsed{}
	}
	defsParseCache[string(data)] = defsParsed{root, err}
	return root, err
}

// defsProjectPkg turns saved bytes into the abstract package of Defs.tla.
func defsProjectPkg(b []byte) map[string]interface{} {
	out := defsEmptyPkg()
	p := ReadPkg(b)
	if p.ZipErr != "" {
		out["ok"] = "zip"
		return out
	}
	main := p.MainDocName()
	mainData, ok := p.Parts[main]
	if !ok {
		out["ok"] = "no-main-part"
		return out
	}
	roots := []*Node{}
	root, err := ParseXML(mainData)
	if err != nil {
		out["ok"] = "xml:document"
		return out
	}
	roots = append(roots, root)
	for _, r := range p.Rels[RelsPartFor(main)] {
		if (r.Type == relHeader || r.Type == relFooter) && r.Mode != "External" {
			if data, ok := p.Parts[ResolveTarget(main, r.Target)]; ok {
				hr, err := defsParse(data)
				if err != nil {
					out["ok"] = "xml:header-footer"
					return out
				}
				roots = append(roots, hr)
			}
		}
	}
	refSet, numSet, noteSet := map[string]bool{}, map[int]bool{}, map[string]bool{}
	refs, numrefs, noterefs := []string{}, []int{}, []map[string]interface{}{}
	for _, rt := range roots {
		r, n, t := defsRefsOf(rt)
		for _, x := range r {
			if !refSet[x] {
				refSet[x] = true
				refs = append(refs, x)
			}
		}
		for _, x := range n {
			if !numSet[x] {
				numSet[x] = true
				numrefs = append(numrefs, x)
			}
		}
		for _, x := range t {
			key := fmt.Sprint(x["k"], x["id"])
			if !noteSet[key] {
				noteSet[key] = true
				noterefs = append(noterefs, x)
			}
		}
	}
	out["refs"], out["numrefs"], out["noterefs"] = refs, numrefs, noterefs

	// styles part
	styles, sver, sbased := []string{}, []map[string]interface{}{}, []map[string]interface{}{}
	if data, ok := defsPart(p, relStyles, "word/styles.xml"); ok {
		sr, err := defsParse(data)
		if err != nil {
			out["ok"] = "xml:styles"
			return out
		}
		out["hasStyles"] = true
		seen := map[string]bool{}
		for _, s := range sr.Children("style") {
			id := s.A("styleId")
			if seen[id] {
				continue
			}
			seen[id] = true
			styles = append(styles, id)
			if v := defsVerOfSz(s.Path("rPr", "sz").A("val")); v != "base" {
				sver = append(sver, map[string]interface{}{"id": id, "v": v})
			}
			// what a style the behaviour added through the style API is based on
			if defsBasedIds[id] {
				if on := s.Child("basedOn").A("val"); on != "" {
					sbased = append(sbased, map[string]interface{}{"id": id, "on": on})
				}
			}
		}
	}
	out["styles"], out["sver"], out["sbased"] = styles, sver, sbased

	// numbering part
	nums, abss := []map[string]interface{}{}, []int{}
	if data, ok := defsPart(p, defsRelNumbering, "word/numbering.xml"); ok {
		nr, err := defsParse(data)
		if err != nil {
			out["ok"] = "xml:numbering"
			return out
		}
		for _, a := range nr.Children("abstractNum") {
			abss = append(abss, defsAtoi(a.A("abstractNumId")))
		}
		for _, n := range nr.Children("num") {
			nums = append(nums, map[string]interface{}{"n": defsAtoi(n.A("numId")), "a": defsAtoi(n.Child("abstractNumId").A("val"))})
		}
	}
	out["nums"], out["abss"] = nums, abss

	// notes parts
	notes := []map[string]interface{}{}
	for _, k := range []struct{ k, rel, conv, el string }{
		{"fn", defsRelFootnotes, "word/footnotes.xml", "footnote"},
		{"en", defsRelEndnotes, "word/endnotes.xml", "endnote"},
	} {
		if data, ok := defsPart(p, k.rel, k.conv); ok {
			nr, err := defsParse(data)
			if err != nil {
				out["ok"] = "xml:" + k.el + "s"
				return out
			}
			for _, n := range nr.Children(k.el) {
				if t := n.A("type"); t == "separator" || t == "continuationSeparator" {
					continue
				}
				notes = append(notes, map[string]interface{}{"k": k.k, "id": defsAtoi(n.A("id"))})
			}
		}
	}
	out["notes"] = notes
	out["ok"] = "ok"
	return out
}

// ---------------------------------------------------------------- foreign packages

func defsList(v interface{}) []map[string]interface{} {
	var out []map[string]interface{}
	if l, ok := v.([]interface{}); ok {
		for _, x := range l {
			if m, ok := x.(map[string]interface{}); ok {
				out = append(out, m)
			}
		}
	}
	return out
}

func defsNum(v interface{}) int {
	if f, ok := v.(float64); ok {
		return int(f)
	}
	return 0
}

// defsSynth builds the package described by a Defs.tla ForeignShape record.
func defsSynth(shape map[string]interface{}) []byte {
	const w = `xmlns:w="http://schemas.openxmlformats.org/wordprocessingml/2006/main"`
	styles := defsList(shape["styles"])
	paras := defsList(shape["paras"])
	nums := defsList(shape["nums"])
	var abss []int
	if l, ok := shape["abss"].([]interface{}); ok {
		for _, x := range l {
			abss = append(abss, defsNum(x))
		}
	}
	var ct, rels, sty, num, body strings.Builder
	ct.WriteString(`<?xml version="1.0" encoding="UTF-8" standalone="yes"?><Types xmlns="http://schemas.openxmlformats.org/package/2006/content-types"><Default Extension="rels" ContentType="application/vnd.openxmlformats-package.relationships+xml"/><Default Extension="xml" ContentType="application/xml"/><Override PartName="/word/document.xml" ContentType="application/vnd.openxmlformats-officedocument.wordprocessingml.document.main+xml"/>`)
	rels.WriteString(`<?xml version="1.0" encoding="UTF-8" standalone="yes"?><Relationships xmlns="http://schemas.openxmlformats.org/package/2006/relationships">`)
	rid := 1
	if len(styles) > 0 {
		ct.WriteString(`<Override PartName="/word/styles.xml" ContentType="application/vnd.openxmlformats-officedocument.wordprocessingml.styles+xml"/>`)
		fmt.Fprintf(&rels, `<Relationship Id="rId%d" Type="%s" Target="styles.xml"/>`, rid, relStyles)
		rid++
		sty.WriteString(`<?xml version="1.0" encoding="UTF-8" standalone="yes"?><w:styles ` + w + `><w:docDefaults><w:rPrDefault><w:rPr><w:lang w:val="en-US"/></w:rPr></w:rPrDefault></w:docDefaults>`)
		for _, s := range styles {
			id, _ := s["id"].(string)
			t, _ := s["t"].(string)
			v, _ := s["v"].(string)
			def := ""
			if id == "Normal" {
				def = ` w:default="1"`
			}
			fmt.Fprintf(&sty, `<w:style w:type="%s"%s w:styleId="%s"><w:name w:val="%s foreign"/><w:qFormat/>`, t, def, id, id)
			if sz, ok := defsSz[v]; ok {
				fmt.Fprintf(&sty, `<w:rPr><w:sz w:val="%s"/></w:rPr>`, sz)
			} else {
				sty.WriteString(`<w:rPr><w:color w:val="1F3864"/></w:rPr>`)
			}
			sty.WriteString(`</w:style>`)
		}
		sty.WriteString(`</w:styles>`)
	}
	if len(nums) > 0 || len(abss) > 0 {
		ct.WriteString(`<Override PartName="/word/numbering.xml" ContentType="application/vnd.openxmlformats-officedocument.wordprocessingml.numbering+xml"/>`)
		fmt.Fprintf(&rels, `<Relationship Id="rId%d" Type="%s" Target="numbering.xml"/>`, rid, defsRelNumbering)
		rid++
		num.WriteString(`<?xml version="1.0" encoding="UTF-8" standalone="yes"?><w:numbering ` + w + `>`)
		for _, a := range abss {
			fmt.Fprintf(&num, `<w:abstractNum w:abstractNumId="%d"><w:multiLevelType w:val="hybridMultilevel"/><w:lvl w:ilvl="0"><w:start w:val="1"/><w:numFmt w:val="upperRoman"/><w:lvlText w:val="(%%1)"/><w:lvlJc w:val="left"/></w:lvl></w:abstractNum>`, a)
		}
		for _, n := range nums {
			fmt.Fprintf(&num, `<w:num w:numId="%d"><w:abstractNumId w:val="%d"/></w:num>`, defsNum(n["n"]), defsNum(n["a"]))
		}
		num.WriteString(`</w:numbering>`)
	}
	ct.WriteString(`</Types>`)
	rels.WriteString(`</Relationships>`)
	body.WriteString(`<?xml version="1.0" encoding="UTF-8" standalone="yes"?><w:document ` + w + `><w:body>`)
	for i, p := range paras {
		k, _ := p["k"].(string)
		st, _ := p["st"].(string)
		text := fmt.Sprintf("foreign %d", i)
		switch k {
		case "tbl":
			body.WriteString(`<w:tbl><w:tblPr>`)
			if st != "" {
				fmt.Fprintf(&body, `<w:tblStyle w:val="%s"/>`, st)
			}
			fmt.Fprintf(&body, `<w:tblW w:w="4000" w:type="dxa"/></w:tblPr><w:tblGrid><w:gridCol w:w="4000"/></w:tblGrid><w:tr><w:tc><w:tcPr><w:tcW w:w="4000" w:type="dxa"/></w:tcPr><w:p><w:r><w:t>%s</w:t></w:r></w:p></w:tc></w:tr></w:tbl>`, text)
		default:
			body.WriteString(`<w:p>`)
			if st != "" || k == "li" {
				body.WriteString(`<w:pPr>`)
				if st != "" {
					fmt.Fprintf(&body, `<w:pStyle w:val="%s"/>`, st)
				}
				if k == "li" {
					fmt.Fprintf(&body, `<w:numPr><w:ilvl w:val="0"/><w:numId w:val="%d"/></w:numPr>`, defsNum(p["n"]))
				}
				body.WriteString(`</w:pPr>`)
			}
			fmt.Fprintf(&body, `<w:r><w:t>%s</w:t></w:r></w:p>`, text)
		}
	}
	body.WriteString(`<w:sectPr><w:pgSz w:w="11906" w:h="16838"/></w:sectPr></w:body></w:document>`)

	var buf bytes.Buffer
	zw := zip.NewWriter(&buf)
	add := func(name, s string) {
		f, _ := zw.Create(name)
		f.Write([]byte(s))
	}
	add("[Content_Types].xml", ct.String())
	add("_rels/.rels", `<?xml version="1.0" encoding="UTF-8" standalone="yes"?><Relationships xmlns="http://schemas.openxmlformats.org/package/2006/relationships"><Relationship Id="rId1" Type="`+relOfficeDoc+`" Target="word/document.xml"/></Relationships>`)
	add("word/document.xml", body.String())
	add("word/_rels/document.xml.rels", rels.String())
	if sty.Len() > 0 {
		add("word/styles.xml", sty.String())
	}
	if num.Len() > 0 {
		add("word/numbering.xml", num.String())
	}
	zw.Close()
	return buf.Bytes()
}
