package main

// Executor for spec module DocTmpl (property C18): document templates.
//
// A behaviour is   Build(base description, via) ; Render(data)+
// The executor concretises the abstract base document produced by TLC into a real
// document (public structs / API calls; raw XML injected into the saved package where the
// API cannot express a shape), loads it as a document template, renders it with the real
// engine and projects base and result with the independent reader (opc_doctmpl.go).
// All comparison is done by spec/DocTmpl_Trace.tla.

import (
	"archive/zip"
	"bytes"
	"encoding/json"
	"fmt"
	"io"
	"os"
	"path/filepath"
	"reflect"
	"strconv"
	"strings"

	"github.com/zerx-lab/wordZero/pkg/document"
)

func init() { register("doctmpl", runDocTmpl) }

// ---- abstract case -------------------------------------------------------------------

type dtRun struct {
	Cs []string `json:"cs"`
	F  int      `json:"f"`
	X  string   `json:"x"`
}

type dtBlock struct {
	K    string        `json:"k"`
	Ppr  []string      `json:"ppr"`
	Runs []dtRun       `json:"runs"`
	Full bool          `json:"full"`
	Rows [][][]dtBlock `json:"rows"` // rows -> cells -> blocks
}

// dtMedia is a picture the base document already carries: the name of its part and the token of its bytes.
type dtMedia struct {
	Num  int    `json:"num"`
	Name string `json:"name"`
	Tok  string `json:"tok"`
}

type dtDesc struct {
	Body  []dtBlock `json:"body"`
	Hdr   []dtRun   `json:"hdr"`
	Ftr   []dtRun   `json:"ftr"`
	Sect  string    `json:"sect"`
	Extra bool      `json:"extra"`
	Media []dtMedia `json:"media"`
}

// dtPair: V is the text the value stands for, Ty says as what it is handed to the library.
type dtPair struct {
	N  []string `json:"n"`
	V  []string `json:"v"`
	Ty string   `json:"ty"`
}

// dtValue concretises a value: the Go value of type Ty whose text is V.
func dtValue(p dtPair) interface{} {
	s := dtStr(p.V)
	switch p.Ty {
	case "", "str":
		return s
	case "nil":
		if s != "" {
			panic("nil value with text " + s)
		}
		return nil
	case "int":
		n, err := strconv.Atoi(s)
		if err != nil {
			panic(err)
		}
		return n
	case "bool":
		b, err := strconv.ParseBool(s)
		if err != nil {
			panic(err)
		}
		return b
	case "float":
		f, err := strconv.ParseFloat(s, 64)
		if err != nil {
			panic(err)
		}
		return f
	}
	panic("unknown value type " + p.Ty)
}

type dtList struct {
	N     []string   `json:"n"`
	Items [][]dtPair `json:"items"`
}

type dtImg struct {
	N   []string `json:"n"`
	Img string   `json:"img"`
}

type dtData struct {
	Cls   string   `json:"cls"`
	Vars  []dtPair `json:"vars"`
	Lists []dtList `json:"lists"`
	Imgs  []dtImg  `json:"imgs"`
}

// ---- concretisation ------------------------------------------------------------------

var dtCtl = []string{"\x01", "\x0b", "\x1f", "\x00"}

const dtCJK = "\u4e2d"

func dtStr(toks []string) string {
	var sb strings.Builder
	for _, t := range toks {
		if t == "CTL" {
			sb.WriteString(dtCtl[int(seed)%len(dtCtl)])
		} else if t == "CJK" {
			sb.WriteString(dtCJK) // a multi-byte character: byte offsets and character offsets differ after it
		} else {
			sb.WriteString(t)
		}
	}
	return sb.String()
}

func dtImageBytes(tok string) []byte {
	switch tok {
	case "img1":
		return tinyPNGSize(1, 3, 2)
	case "img2":
		return tinyJPEGSize(2, 4, 4)
	case "img3":
		return tinyPNGSize(3, 2, 5)
	case "img8":
		return tinyPNGSize(8, 3, 3) // second picture already present in the base document
	}
	return tinyPNGSize(9, 2, 2) // img9: picture already present in the base document
}

// dtFmt returns the run formatting of format id k (distinct for distinct k, 0 = none).
func dtFmt(k int) *document.RunProperties {
	if k <= 0 {
		return nil
	}
	rp := &document.RunProperties{
		FontSize:   &document.FontSize{Val: fmt.Sprint(20 + 2*k)},
		FontSizeCs: &document.FontSizeCs{Val: fmt.Sprint(20 + 2*k)},
		Color:      &document.Color{Val: fmt.Sprintf("%02X00%02X", 16*k, 255-16*k)},
	}
	if k%2 == 1 {
		rp.Bold = &document.Bold{}
		rp.BoldCs = &document.BoldCs{}
	}
	if k%3 == 0 {
		rp.Italic = &document.Italic{}
		rp.ItalicCs = &document.ItalicCs{}
	}
	if k%3 == 1 {
		rp.Underline = &document.Underline{Val: "single"}
	}
	if k%4 == 2 {
		rp.Strike = &document.Strike{}
		rp.Highlight = &document.Highlight{Val: "yellow"}
	}
	if k%2 == 0 {
		rp.FontFamily = &document.FontFamily{ASCII: "Arial", HAnsi: "Arial", EastAsia: "SimSun", CS: "Arial", Hint: "eastAsia"}
	}
	return rp
}

// dtFmtXML is the same formatting written by hand for raw header/footer XML.
func dtFmtXML(k int) string {
	if k <= 0 {
		return ""
	}
	s := "<w:rPr>"
	if k%2 == 0 {
		s += `<w:rFonts w:ascii="Arial" w:hAnsi="Arial" w:eastAsia="SimSun" w:cs="Arial" w:hint="eastAsia"/>`
	}
	if k%2 == 1 {
		s += "<w:b/><w:bCs/>"
	}
	if k%3 == 0 {
		s += "<w:i/><w:iCs/>"
	}
	s += fmt.Sprintf(`<w:color w:val="%02X00%02X"/><w:sz w:val="%d"/>`, (7*k)%256, 255-(7*k)%256, 20+2*k)
	return s + "</w:rPr>"
}

type dtBuilder struct {
	doc  *document.Document
	pj   *dtProj
	pics map[string]*document.DrawingElement // token -> drawing of a picture already present in the base
	made []string                            // tokens in the order the pictures were added (the library numbers the parts in this order)
	nbm  int
}

// drawing returns the drawing of the base document's picture with this token, adding the picture on first use.
func (b *dtBuilder) drawing(tok string) *document.DrawingElement {
	if b.pics == nil {
		b.pics = map[string]*document.DrawingElement{}
	}
	if b.pics[tok] == nil {
		n := len(b.doc.Body.Elements)
		if _, err := b.doc.AddImageFromData(dtImageBytes(tok), "base.png", document.ImageFormatPNG, 2, 2, nil); err != nil {
			panic(err)
		}
		p := b.doc.Body.Elements[n].(*document.Paragraph)
		b.doc.Body.Elements = b.doc.Body.Elements[:n]
		b.pics[tok] = p.Runs[0].Drawing
		b.made = append(b.made, tok)
		b.pj.imgTok[dtSha(dtImageBytes(tok))] = tok
	}
	return b.pics[tok]
}

func (b *dtBuilder) run(r dtRun) document.Run {
	out := document.Run{Properties: dtFmt(r.F), Text: document.Text{Content: dtStr(r.Cs), Space: "preserve"}}
	switch r.X {
	case "":
	case "br":
		out.Break = &document.Break{Type: "page"}
	case "drawing":
		out.Drawing = b.drawing("img9")
	case "drawing2":
		out.Drawing = b.drawing("img8")
	case "fldB":
		out.FieldChar = &document.FieldChar{FieldCharType: "begin"}
	case "fldI":
		out.InstrText = &document.InstrText{Space: "preserve", Content: "PAGE"}
	case "fldE":
		out.FieldChar = &document.FieldChar{FieldCharType: "end"}
	default:
		panic("unknown run extra " + r.X)
	}
	if len(r.Cs) == 0 {
		out.Text = document.Text{}
	}
	return out
}

func dtPpr(names []string) *document.ParagraphProperties {
	if len(names) == 0 {
		return nil
	}
	pp := &document.ParagraphProperties{}
	for _, n := range names {
		switch n {
		case "pStyle":
			pp.ParagraphStyle = &document.ParagraphStyle{Val: "Heading2"}
		case "numPr":
			pp.NumberingProperties = &document.NumberingProperties{ILevel: &document.ILevel{Val: "1"}, NumID: &document.NumID{Val: "3"}}
		case "pBdr":
			pp.ParagraphBorder = &document.ParagraphBorder{
				Top:    &document.ParagraphBorderLine{Val: "single", Sz: "6", Space: "1", Color: "FF0000"},
				Bottom: &document.ParagraphBorderLine{Val: "double", Sz: "4", Space: "1", Color: "0000FF"},
			}
		case "tabs":
			pp.Tabs = &document.Tabs{Tabs: []document.TabDef{{Val: "left", Pos: "2000"}, {Val: "right", Leader: "dot", Pos: "8000"}}}
		case "snapToGrid":
			pp.SnapToGrid = &document.SnapToGrid{Val: "0"}
		case "spacing":
			pp.Spacing = &document.Spacing{Before: "120", After: "240", Line: "360", LineRule: "auto"}
		case "ind":
			pp.Indentation = &document.Indentation{FirstLine: "420", Left: "300", Right: "200"}
		case "jc":
			pp.Justification = &document.Justification{Val: "center"}
		case "keepNext":
			pp.KeepNext = &document.KeepNext{}
		case "keepLines":
			pp.KeepLines = &document.KeepLines{}
		case "pageBreakBefore":
			pp.PageBreakBefore = &document.PageBreakBefore{}
		case "widowControl":
			pp.WidowControl = &document.WidowControl{}
		case "outlineLvl":
			pp.OutlineLevel = &document.OutlineLevel{Val: "2"}
		default:
			panic("unknown paragraph property " + n)
		}
	}
	return pp
}

func (b *dtBuilder) para(bl dtBlock) document.Paragraph {
	p := document.Paragraph{Properties: dtPpr(bl.Ppr), Runs: []document.Run{}}
	for _, r := range bl.Runs {
		p.Runs = append(p.Runs, b.run(r))
	}
	return p
}

// dtFill sets every settable string field (recursively, allocating every pointer) of a
// property struct to a non-zero value, so that any field a copy forgets becomes visible.
func dtFill(v reflect.Value, depth int) {
	if depth > 6 {
		return
	}
	switch v.Kind() {
	case reflect.Ptr:
		if v.IsNil() {
			v.Set(reflect.New(v.Type().Elem()))
		}
		dtFill(v.Elem(), depth+1)
	case reflect.Struct:
		for i := 0; i < v.NumField(); i++ {
			f := v.Type().Field(i)
			if f.Name == "XMLName" || f.PkgPath != "" {
				continue
			}
			dtFill(v.Field(i), depth+1)
		}
	case reflect.String:
		if v.String() == "" && v.CanSet() {
			v.SetString("7")
		}
	}
}

func (b *dtBuilder) table(bl dtBlock) *document.Table {
	rows := len(bl.Rows)
	cols := 0
	for _, r := range bl.Rows {
		if len(r) > cols {
			cols = len(r)
		}
	}
	t, err := b.doc.CreateTable(&document.TableConfig{Rows: rows, Cols: cols, Width: 8000})
	if err != nil {
		panic(err)
	}
	if bl.Full {
		dtFill(reflect.ValueOf(&t.Properties), 0)
	}
	for i, r := range bl.Rows {
		t.Rows[i].Cells = t.Rows[i].Cells[:len(r)]
		if bl.Full {
			dtFill(reflect.ValueOf(&t.Rows[i].Properties), 0)
		}
		for j, c := range r {
			cell := &t.Rows[i].Cells[j]
			if bl.Full {
				dtFill(reflect.ValueOf(&cell.Properties), 0)
				// keep the grid shape regular: no spans/merges from the blanket fill
				cell.Properties.GridSpan = nil
				cell.Properties.VMerge = nil
			}
			cell.Paragraphs = nil
			cell.Tables = nil
			for _, cb := range c {
				switch cb.K {
				case "p":
					cell.Paragraphs = append(cell.Paragraphs, b.para(cb))
				case "tbl":
					cell.Tables = append(cell.Tables, *b.table(cb))
				}
			}
		}
	}
	return t
}

func dtHFXML(root string, runs []dtRun) []byte {
	var sb strings.Builder
	sb.WriteString(`<?xml version="1.0" encoding="UTF-8" standalone="yes"?>` + "\n")
	sb.WriteString(`<w:` + root + ` xmlns:w="` + nsW + `" xmlns:r="` + nsR + `"><w:p><w:pPr><w:jc w:val="center"/></w:pPr>`)
	for _, r := range runs {
		sb.WriteString("<w:r>" + dtFmtXML(r.F))
		if len(r.Cs) > 0 {
			var esc bytes.Buffer
			_ = xmlEscape(&esc, dtStr(r.Cs))
			sb.WriteString(`<w:t xml:space="preserve">` + esc.String() + `</w:t>`)
		}
		switch r.X {
		case "br":
			sb.WriteString(`<w:br w:type="page"/>`)
		case "fldB":
			sb.WriteString(`<w:fldChar w:fldCharType="begin"/>`)
		case "fldI":
			sb.WriteString(`<w:instrText xml:space="preserve">PAGE</w:instrText>`)
		case "fldE":
			sb.WriteString(`<w:fldChar w:fldCharType="end"/>`)
		}
		sb.WriteString("</w:r>")
	}
	sb.WriteString(`</w:p></w:` + root + `>`)
	return []byte(sb.String())
}

func xmlEscape(w io.Writer, s string) error {
	r := strings.NewReplacer("&", "&amp;", "<", "&lt;", ">", "&gt;", `"`, "&quot;")
	_, err := io.WriteString(w, r.Replace(s))
	return err
}

func dtSimpleRuns(rs []dtRun) bool { return len(rs) == 1 && rs[0].F == 0 && rs[0].X == "" }

// dtRewrite re-packs a saved package replacing / adding parts.
func dtRewrite(pkg []byte, repl map[string][]byte, ctOverrides map[string]string) []byte {
	return dtRewriteRen(pkg, repl, ctOverrides, nil)
}

// dtRewriteRen additionally renames parts (all at once) and the relationship targets of the main
// document that point at them: ren maps a part name to its new name.
func dtRewriteRen(pkg []byte, repl map[string][]byte, ctOverrides map[string]string, ren map[string]string) []byte {
	zr, err := zip.NewReader(bytes.NewReader(pkg), int64(len(pkg)))
	if err != nil {
		panic(err)
	}
	var buf bytes.Buffer
	zw := zip.NewWriter(&buf)
	seen := map[string]bool{}
	for _, f := range zr.File {
		rc, _ := f.Open()
		data, _ := io.ReadAll(rc)
		rc.Close()
		if nd, ok := repl[f.Name]; ok {
			data = nd
		}
		if f.Name == "[Content_Types].xml" && len(ctOverrides) > 0 {
			s := string(data)
			add := ""
			for part, ct := range ctOverrides {
				add += `<Override PartName="` + part + `" ContentType="` + ct + `"></Override>`
			}
			s = strings.Replace(s, "</Types>", add+"</Types>", 1)
			data = []byte(s)
		}
		seen[f.Name] = true
		name := f.Name
		if nn, ok := ren[name]; ok {
			name = nn
		}
		if f.Name == "word/_rels/document.xml.rels" && len(ren) > 0 {
			var pairs []string
			for o, n := range ren {
				pairs = append(pairs, `Target="`+strings.TrimPrefix(o, "word/")+`"`, `Target="`+strings.TrimPrefix(n, "word/")+`"`)
			}
			data = []byte(strings.NewReplacer(pairs...).Replace(string(data)))
		}
		w, _ := zw.Create(name)
		w.Write(data)
	}
	for name, data := range repl {
		if !seen[name] {
			w, _ := zw.Create(name)
			w.Write(data)
		}
	}
	zw.Close()
	return buf.Bytes()
}

// dtBuild concretises the description. via: "doc" (the document as built), "open"
// (saved and re-opened from memory), "file" (saved to a file for LoadTemplateFromFile).
func dtBuild(d dtDesc, pj *dtProj) (doc *document.Document, pkg []byte, needOpen bool) {
	b := &dtBuilder{doc: document.New(), pj: pj}
	doc = b.doc
	for _, bl := range d.Body {
		switch bl.K {
		case "p":
			p := b.para(bl)
			doc.Body.Elements = append(doc.Body.Elements, &p)
		case "tbl":
			doc.Body.Elements = append(doc.Body.Elements, b.table(bl))
		case "bm":
			b.nbm++
			doc.Body.Elements = append(doc.Body.Elements,
				&document.BookmarkStart{ID: fmt.Sprint(b.nbm), Name: fmt.Sprintf("bm%d", b.nbm)},
				&document.BookmarkEnd{ID: fmt.Sprint(b.nbm)})
		}
	}
	switch d.Sect {
	case "", "none":
	case "plain":
		if err := doc.SetPageMargins(20, 21, 22, 23); err != nil {
			panic(err)
		}
	case "full":
		if err := doc.SetPageMargins(20, 21, 22, 23); err != nil {
			panic(err)
		}
		if err := doc.SetPageOrientation(document.OrientationLandscape); err != nil {
			panic(err)
		}
		if err := doc.SetDocGrid(document.DocGridLines, 312, 0); err != nil {
			panic(err)
		}
		doc.SetDifferentFirstPage(true)
		for _, el := range doc.Body.Elements {
			if sp, ok := el.(*document.SectionProperties); ok {
				dtFill(reflect.ValueOf(&sp.Columns), 0)
				dtFill(reflect.ValueOf(&sp.PageNumType), 0)
				dtFill(reflect.ValueOf(&sp.DocGrid), 0)
				dtFill(reflect.ValueOf(&sp.PageMargins), 0)
			}
		}
	}
	repl := map[string][]byte{}
	if len(d.Hdr) > 0 {
		text := "H"
		if dtSimpleRuns(d.Hdr) {
			text = dtStr(d.Hdr[0].Cs)
		} else {
			repl["word/header1.xml"] = dtHFXML("hdr", d.Hdr)
		}
		if err := doc.AddHeader(document.HeaderFooterTypeDefault, text); err != nil {
			panic(err)
		}
	}
	if len(d.Ftr) > 0 {
		text := "F"
		if dtSimpleRuns(d.Ftr) {
			text = dtStr(d.Ftr[0].Cs)
		} else {
			repl["word/footer1.xml"] = dtHFXML("ftr", d.Ftr)
		}
		if err := doc.AddFooter(document.HeaderFooterTypeDefault, text); err != nil {
			panic(err)
		}
	}
	ct := map[string]string{}
	if d.Extra {
		repl["customXml/item1.xml"] = []byte(`<?xml version="1.0" encoding="UTF-8"?><extra xmlns="urn:verif"><v>kept</v></extra>`)
		repl["word/vbaData.bin"] = []byte{0, 1, 2, 3, 250, 251, 252}
		ct["/customXml/item1.xml"] = "application/xml"
		ct["/word/vbaData.bin"] = "application/octet-stream"
	}
	pj.imgTok[dtSha(dtImageBytes("img9"))] = "img9"
	// the pictures the base already carries get the part names of the description
	ren := map[string]string{}
	if len(d.Media) > 0 {
		if len(b.made) != len(d.Media) {
			panic(fmt.Sprintf("description names %d pictures, the body shows %d", len(d.Media), len(b.made)))
		}
		for i, tok := range b.made {
			var m *dtMedia
			for k := range d.Media {
				if d.Media[k].Tok == tok {
					m = &d.Media[k]
				}
			}
			if m == nil {
				panic("no media entry for " + tok)
			}
			from := fmt.Sprintf("word/media/image%d.png", i)
			if to := "word/media/" + m.Name; to != from {
				ren[from] = to
			}
		}
	}
	if len(repl) > 0 || len(ren) > 0 {
		raw, err := doc.ToBytes()
		if err != nil {
			panic(err)
		}
		return doc, dtRewriteRen(raw, repl, ct, ren), true
	}
	return doc, nil, false
}

func dtTemplateData(d dtData, pj *dtProj) *document.TemplateData {
	td := document.NewTemplateData()
	for _, v := range d.Vars {
		td.SetVariable(dtStr(v.N), dtValue(v))
	}
	for _, l := range d.Lists {
		items := []interface{}{}
		for _, it := range l.Items {
			m := map[string]interface{}{}
			for _, kv := range it {
				m[dtStr(kv.N)] = dtValue(kv)
			}
			items = append(items, m)
		}
		td.SetList(dtStr(l.N), items)
	}
	for _, im := range d.Imgs {
		data := dtImageBytes(im.Img)
		pj.imgTok[dtSha(data)] = im.Img
		td.SetImageFromData(dtStr(im.N), data, nil)
	}
	return td
}

func dtProjSum(p dtM) string {
	raw, err := json.Marshal(p)
	if err != nil {
		panic(err)
	}
	return dtSha(raw)
}

func dtDecode(op Op, key string, into interface{}) {
	raw, err := json.Marshal(op[key])
	if err != nil {
		panic(err)
	}
	if err := json.Unmarshal(raw, into); err != nil {
		panic(fmt.Sprintf("bad %s in case: %v", key, err))
	}
}

func runDocTmpl(c Case, emit Emitter) {
	document.VerifResetGlobals()
	emit(Ev{"ev": "reset", "case": c.ID})
	pj := newDtProj()
	var (
		base     *document.Document
		engine   *document.TemplateEngine
		renderer *document.TemplateRenderer
		baseSum  string
		tmpDir   string
	)
	defer func() {
		if tmpDir != "" {
			os.RemoveAll(tmpDir)
		}
	}()
	emptyDoc := dtM{"body": []dtM{}, "sect": []dtM{}, "hf": []dtM{}, "parts": []dtM{}}
	for i, op := range c.Steps {
		echo := Op{}
		for k, v := range op {
			if k != "plan" { // generator bookkeeping, of no interest to the judge
				echo[k] = v
			}
		}
		ev := Ev{"ev": "step", "case": c.ID, "i": i, "op": echo}
		switch op.Name() {
		case "Build":
			var d dtDesc
			dtDecode(op, "base", &d)
			via := op.Str("via")
			proj := emptyDoc
			ret, pmsg := guard(func() string {
				doc, pkg, needOpen := dtBuild(d, pj)
				if via == "doc" && needOpen {
					via = "open"
				}
				switch via {
				case "doc":
					base = doc
				case "open", "file":
					if pkg == nil {
						raw, err := doc.ToBytes()
						if err != nil {
							return "save-err"
						}
						pkg = raw
					}
					if via == "open" {
						od, err := document.OpenFromMemory(io.NopCloser(bytes.NewReader(pkg)))
						if err != nil {
							return "open-err"
						}
						base = od
					}
				default:
					return "unknown-via"
				}
				if via == "file" {
					dir, err := os.MkdirTemp("", "dtc18-")
					if err != nil {
						panic(err)
					}
					tmpDir = dir
					path := filepath.Join(dir, "base.docx")
					if err := os.WriteFile(path, pkg, 0o644); err != nil {
						panic(err)
					}
					renderer = document.NewTemplateRenderer()
					renderer.SetLogging(false)
					t, err := renderer.LoadTemplateFromFile("t", path)
					if err != nil {
						return "load-err"
					}
					base = t.BaseDoc
				} else {
					engine = document.NewTemplateEngine()
					if _, err := engine.LoadTemplateFromDocument("t", base); err != nil {
						return "load-err"
					}
				}
				raw, err := base.ToBytes()
				if err != nil {
					return "save-err"
				}
				p, r := pj.project(raw)
				if r != "ok" {
					return "base-" + r
				}
				proj = p
				baseSum = dtProjSum(p)
				return "ok"
			})
			ev["ret"], ev["pmsg"], ev["doc"], ev["basesame"] = ret, pmsg, proj, true
		case "Render":
			var d dtData
			dtDecode(op, "data", &d)
			proj := emptyDoc
			same := true
			ret, pmsg := guard(func() string {
				if base == nil {
					return "no-base"
				}
				td := dtTemplateData(d, pj)
				var out *document.Document
				var err error
				if renderer != nil {
					out, err = renderer.RenderTemplate("t", td)
				} else {
					out, err = engine.RenderTemplateToDocument("t", td)
				}
				if err != nil {
					return "err"
				}
				raw, err := out.ToBytes()
				if err != nil {
					return "save-err"
				}
				p, r := pj.project(raw)
				if r != "ok" {
					return "out-" + r
				}
				proj = p
				// the base document must not have been touched by rendering (dumb equality of its projection)
				same = false
				if braw, err := base.ToBytes(); err == nil {
					if bp, r := pj.project(braw); r == "ok" {
						same = dtProjSum(bp) == baseSum
					}
				}
				return "ok"
			})
			ev["ret"], ev["pmsg"], ev["doc"], ev["basesame"] = ret, pmsg, proj, same
		default:
			ev["ret"], ev["pmsg"], ev["doc"], ev["basesame"] = "unknown-op", "", emptyDoc, true
		}
		emit(ev)
	}
}
