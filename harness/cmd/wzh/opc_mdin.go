package main

// Projection helpers of module MdIn (property C19) on top of the independent reader (opc.go):
// facts about a saved package and the abstract Word body (blocks, visible tokens, run flags,
// table cells and alignment).

import (
	"crypto/sha1"
	"regexp"
	"sort"
	"strings"
	"sync"
)

type mdiM = map[string]interface{}

var (
	mdiXMLCache   = map[[20]byte]string{} // sha1 of part bytes -> "" (well-formed) or error text
	mdiXMLCacheMu sync.Mutex
)

func mdiXMLErr(data []byte) string {
	h := sha1.Sum(data)
	mdiXMLCacheMu.Lock()
	e, ok := mdiXMLCache[h]
	mdiXMLCacheMu.Unlock()
	if ok {
		return e
	}
	_, err := ParseXML(data)
	e = ""
	if err != nil {
		e = err.Error()
	}
	mdiXMLCacheMu.Lock()
	if len(mdiXMLCache) < 4096 {
		mdiXMLCache[h] = e
	}
	mdiXMLCacheMu.Unlock()
	return e
}

func mdiNoPkg() mdiM {
	return mdiM{"zip": "", "ct": "", "xml": []string{}, "noct": []string{}, "dangling": []string{}, "main": false}
}

// mdiPkgFacts reads the bytes of a saved package; every field has a fixed JSON type.
func mdiPkgFacts(b []byte) (mdiM, *Pkg) {
	f := mdiNoPkg()
	p := ReadPkg(b)
	if p.ZipErr != "" {
		f["zip"] = "unreadable"
		return f, p
	}
	if p.CTErr != "" {
		f["ct"] = "bad"
	}
	xmlBad := []string{}
	noct := []string{}
	for _, name := range p.SortedNames() {
		if strings.HasSuffix(name, "/") {
			continue
		}
		if name != "[Content_Types].xml" && p.CTErr == "" && p.ContentType(name) == "" {
			noct = append(noct, name)
		}
		if p.IsXMLPart(name) {
			if e := mdiXMLErr(p.Parts[name]); e != "" {
				xmlBad = append(xmlBad, name)
			}
		}
	}
	dangling := []string{}
	for rn, rs := range p.Rels {
		src := SourceOfRels(rn)
		for _, r := range rs {
			if r.Mode == "External" {
				continue
			}
			if _, ok := p.Parts[ResolveTarget(src, r.Target)]; !ok {
				dangling = append(dangling, r.Target)
			}
		}
	}
	sort.Strings(dangling)
	f["xml"] = xmlBad
	f["noct"] = noct
	f["dangling"] = dangling
	if _, err := p.MainBody(); err == nil {
		f["main"] = true
	}
	return f, p
}

var (
	mdiHeadingRe = regexp.MustCompile(`(?i)^heading\s*([1-9])$`)
	mdiMono      = map[string]bool{"consolas": true, "courier new": true, "courier": true, "menlo": true, "monaco": true,
		"monospace": true, "lucida console": true, "source code pro": true, "dejavu sans mono": true}
)

func mdiOn(n *Node) bool {
	if n == nil {
		return false
	}
	v := strings.ToLower(n.A("val"))
	return v != "0" && v != "false" && v != "none"
}

func mdiRunFlags(r *Node) []string {
	fl := []string{}
	rpr := r.Child("rPr")
	if rpr == nil {
		return fl
	}
	if mdiOn(rpr.Child("b")) {
		fl = append(fl, "b")
	}
	if mdiOn(rpr.Child("i")) {
		fl = append(fl, "i")
	}
	if mdiOn(rpr.Child("strike")) || mdiOn(rpr.Child("dstrike")) {
		fl = append(fl, "s")
	}
	mono := false
	if f := rpr.Child("rFonts"); f != nil && mdiMono[strings.ToLower(f.A("ascii"))] {
		mono = true
	}
	if s := rpr.Child("rStyle"); s != nil && strings.Contains(strings.ToLower(s.A("val")), "code") {
		mono = true
	}
	if mono {
		fl = append(fl, "c")
	}
	return fl
}

// mdiParaToks tokenises the visible content of a w:p in document order (runs, also inside hyperlinks
// and other inline containers; w:tab and w:br count as white space; m:t text of formulas).
func mdiParaToks(c *mdiConc, p *Node) []mdiTok {
	segs := []mdiSeg{}
	var walk func(n *Node, flags []string)
	walk = func(n *Node, flags []string) {
		for _, k := range n.Kids {
			switch k.Local {
			case "pPr", "rPr", "delText", "instrText":
				continue
			case "r":
				walk(k, mdiRunFlags(k))
			case "t":
				segs = append(segs, mdiSeg{k.Text, flags})
			case "tab":
				segs = append(segs, mdiSeg{"\t", nil})
			case "br", "cr":
				segs = append(segs, mdiSeg{"\n", nil})
			default:
				walk(k, flags)
			}
		}
	}
	walk(p, []string{})
	return c.tokens(segs, true)
}

func mdiParaBlock(c *mdiConc, p *Node) mdiM {
	k, lvl := "p", 0
	if st := p.Path("pPr", "pStyle"); st != nil {
		if m := mdiHeadingRe.FindStringSubmatch(st.A("val")); m != nil {
			k = "h"
			lvl = int(m[1][0] - '0')
		}
	}
	return mdiM{"k": k, "lvl": lvl, "toks": mdiParaToks(c, p), "rows": [][]mdiM{}}
}

func mdiTableBlock(c *mdiConc, t *Node) mdiM {
	rows := [][]mdiM{}
	for _, tr := range t.Children("tr") {
		row := []mdiM{}
		for _, tc := range tr.Children("tc") {
			toks := []mdiTok{}
			al := ""
			for i, p := range tc.Children("p") {
				if i == 0 {
					if jc := p.Path("pPr", "jc"); jc != nil {
						al = jc.A("val")
					}
				} else {
					toks = append(toks, mdiTok{"nl", []string{}})
				}
				toks = append(toks, mdiParaToks(c, p)...)
			}
			row = append(row, mdiM{"toks": toks, "al": al})
		}
		rows = append(rows, row)
	}
	return mdiM{"k": "tbl", "lvl": 0, "toks": []mdiTok{}, "rows": rows}
}

// mdiBody projects the children of w:body (paragraphs and tables, in order).
func mdiBody(c *mdiConc, p *Pkg) []mdiM {
	out := []mdiM{}
	body, err := p.MainBody()
	if err != nil {
		return out
	}
	var walk func(n *Node)
	walk = func(n *Node) {
		for _, k := range n.Kids {
			switch k.Local {
			case "p":
				out = append(out, mdiParaBlock(c, k))
			case "tbl":
				out = append(out, mdiTableBlock(c, k))
			case "sdt", "sdtContent", "customXml", "smartTag":
				walk(k)
			}
		}
	}
	walk(body)
	return out
}
