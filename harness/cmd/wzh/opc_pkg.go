package main

// Projection of saved bytes to the abstract package of spec module Pkg (property C01).
// Only facts are reported (what the independent reader saw); Pkg_Trace.tla decides.

import (
	"archive/zip"
	"bytes"
	"crypto/sha1"
	"path"
	"regexp"
	"sort"
	"strings"
	"unicode/utf8"
)

var (
	pkgHdrRe = regexp.MustCompile(`^word/header[^/]*\.xml$`)
	pkgFtrRe = regexp.MustCompile(`^word/footer[^/]*\.xml$`)
)

// pkgKind classifies a part by its name (main = target of the officeDocument relationship).
func pkgKind(name, main string) string {
	switch {
	case name == "[Content_Types].xml":
		return "ctypes"
	case name == "_rels/.rels":
		return "pkgrels"
	case name == main || name == "word/document.xml":
		return "document"
	case name == RelsPartFor(main) || name == "word/_rels/document.xml.rels":
		return "docrels"
	case strings.HasSuffix(name, ".rels"):
		return "rels"
	case name == "word/styles.xml":
		return "styles"
	case pkgHdrRe.MatchString(name):
		return "header"
	case pkgFtrRe.MatchString(name):
		return "footer"
	case name == "word/footnotes.xml":
		return "footnotes"
	case name == "word/endnotes.xml":
		return "endnotes"
	case name == "word/numbering.xml":
		return "numbering"
	case name == "word/settings.xml":
		return "settings"
	case name == "docProps/core.xml":
		return "core"
	case name == "docProps/app.xml":
		return "app"
	case strings.HasPrefix(name, "word/media/"):
		return "media"
	}
	return "other"
}

// verdicts of pkgWFRaw by content (most parts are rewritten with the same bytes at every save of a behaviour)
var pkgWFCache = map[[sha1.Size]byte]string{}

// pkgWF reports how an XML part fails to be well-formed ("ok" if it does not).
func pkgWF(b []byte) string {
	h := sha1.Sum(b)
	if v, ok := pkgWFCache[h]; ok {
		return v
	}
	if len(pkgWFCache) > 200000 {
		pkgWFCache = map[[sha1.Size]byte]string{}
	}
	v := pkgWFRaw(b)
	pkgWFCache[h] = v
	return v
}

func pkgWFRaw(b []byte) string {
	if !utf8.Valid(b) {
		return "utf8"
	}
	for _, r := range string(b) {
		if !isXMLChar(r) {
			return "char"
		}
	}
	if _, err := ParseXML(b); err != nil {
		return "syntax"
	}
	return "ok"
}

// pkgRootIs: is the root element of the (well-formed) stream {space}local ?
func pkgRootIs(b []byte, space, local string) bool {
	root, err := ParseXML(b)
	return err == nil && root != nil && root.Local == local && root.Space == space
}

func pkgEmpty(zipState string) map[string]interface{} {
	return map[string]interface{}{"zip": zipState, "dups": []string{}, "ct": "-", "prels": "-",
		"odoc": []bool{}, "parts": []map[string]interface{}{}}
}

// pkgProject reads saved bytes with the independent reader.
func pkgProject(b []byte) map[string]interface{} {
	p := ReadPkg(b)
	if p.ZipErr != "" {
		return pkgEmpty("unreadable")
	}
	out := pkgEmpty("ok")
	// duplicate entry names (archive order is kept by ReadPkg.Names); also names the archive/zip reader accepts
	// but that differ only by case are distinct parts for ZIP and are not reported
	seen := map[string]int{}
	for _, n := range p.Names {
		seen[n]++
	}
	main := p.MainDocName()
	dups := []string{}
	for n, c := range seen {
		if c > 1 {
			dups = append(dups, pkgKind(n, main))
		}
	}
	sort.Strings(dups)
	out["dups"] = dups
	// "foreign": well-formed XML whose root is not the Types / Relationships element of the OPC namespaces, i.e. a stream
	// that declares no content type / relationship at all to a namespace-aware consumer
	switch {
	case p.CTErr == "missing":
		out["ct"] = "missing"
	case p.CTErr != "":
		out["ct"] = "ill-formed"
	case !pkgRootIs(p.Parts["[Content_Types].xml"], nsCT, "Types"):
		out["ct"] = "foreign"
	default:
		out["ct"] = "ok"
	}
	if _, ok := p.Parts["_rels/.rels"]; !ok {
		out["prels"] = "missing"
	} else if p.RelsErr["_rels/.rels"] != "" {
		out["prels"] = "ill-formed"
	} else if !pkgRootIs(p.Parts["_rels/.rels"], nsRel, "Relationships") {
		out["prels"] = "foreign"
	} else {
		out["prels"] = "ok"
	}
	odoc := []bool{}
	for _, r := range p.Rels["_rels/.rels"] {
		if r.Type == relOfficeDoc {
			_, ok := p.Parts[ResolveTarget("", r.Target)]
			odoc = append(odoc, ok && r.Mode != "External")
		}
	}
	out["odoc"] = odoc
	parts := []map[string]interface{}{}
	for _, n := range p.SortedNames() {
		if strings.HasSuffix(n, "/") {
			continue // a directory entry is not a part
		}
		ext := strings.TrimPrefix(path.Ext(n), ".")
		isx := p.IsXMLPart(n)
		wf := "-"
		if isx {
			wf = pkgWF(p.Parts[n])
		}
		ct := "none"
		if _, ok := p.Overr["/"+n]; ok {
			ct = "ovr"
		} else if ext != "" {
			if _, ok := p.Defaults[strings.ToLower(ext)]; ok {
				ct = "def"
			}
		}
		if n == "[Content_Types].xml" {
			ct = "self" // the content-types stream is not a part
		}
		parts = append(parts, map[string]interface{}{"k": pkgKind(n, main), "x": ext, "xml": isx, "wf": wf, "ct": ct})
	}
	out["parts"] = parts
	return out
}

// pkgZipOK is used by the executor to decide whether a written file can be reopened at all.
func pkgZipOK(b []byte) bool {
	_, err := zip.NewReader(bytes.NewReader(b), int64(len(b)))
	return err == nil
}
