package main

// Projection of a saved package to the abstract state of spec module Rels (property C02):
// every relationship of every relationship part (source part, class of the source part, id,
// type, resolved target, mode), the names of all parts, and every attribute of the
// relationships namespace (r:id, r:embed, r:link ...) used in the main part and in the
// header/footer parts. Built on the independent reader of opc.go; knows nothing about the
// library's structs. No oracle logic: resolution and all verdicts are the TLA+ judge's.

import (
	"regexp"
	"sort"
	"strings"
)

type relsM = map[string]interface{}

// relsTypeName is the last path segment of a relationship type URI.
func relsTypeName(typ string) string {
	i := strings.LastIndex(typ, "/")
	k := typ[i+1:]
	if k == "" {
		return "other"
	}
	return k
}

// relsClassOf classifies a part by the root element of its XML.
func relsClassOf(p *Pkg, name string, cache map[string]*Node) (string, *Node) {
	data, ok := p.Parts[name]
	if !ok {
		return "missing", nil
	}
	low := strings.ToLower(name)
	if !strings.HasSuffix(low, ".xml") {
		return "other", nil
	}
	if n, ok := cache[name]; ok {
		if n == nil {
			return "bad", nil
		}
		return relsRootClass(n), n
	}
	root, err := ParseXML(data)
	if err != nil {
		cache[name] = nil
		return "bad", nil
	}
	cache[name] = root
	return relsRootClass(root), root
}

func relsRootClass(n *Node) string {
	switch n.Local {
	case "document":
		return "main"
	case "hdr":
		return "header"
	case "ftr":
		return "footer"
	}
	return "other"
}

// relsRefsOf lists every attribute of the relationships namespace below n, in document order.
func relsRefsOf(part, cls string, n *Node) []relsM {
	out := []relsM{}
	var walk func(*Node)
	walk = func(x *Node) {
		for _, a := range x.Attr {
			if a.Name.Space != nsR {
				continue
			}
			kind, slot := "other", ""
			switch {
			case x.Local == "headerReference" && a.Name.Local == "id":
				kind, slot = "hdr", x.A("type")
			case x.Local == "footerReference" && a.Name.Local == "id":
				kind, slot = "ftr", x.A("type")
			case x.Local == "hyperlink" && a.Name.Local == "id":
				kind = "hlink"
			case a.Name.Local == "embed":
				kind = "embed"
			case a.Name.Local == "link":
				kind = "link"
			case x.Local == "imagedata" && a.Name.Local == "id":
				kind = "embed"
			}
			out = append(out, relsM{"part": part, "pc": cls, "kind": kind, "slot": slot, "id": a.Value})
		}
		for _, k := range x.Kids {
			walk(k)
		}
	}
	if n != nil {
		walk(n)
	}
	return out
}

var relsPhRe = regexp.MustCompile(`\{\{#image\s+\w+\}\}`)

func relsEmptyPkg(ok string) relsM {
	return relsM{"ok": ok, "main": "", "rels": []relsM{}, "refs": []relsM{}, "parts": []string{}, "ph": 0}
}

// relsProject reads the bytes of a package.
func relsProject(b []byte) relsM {
	p := ReadPkg(b)
	if p.ZipErr != "" {
		return relsEmptyPkg("zip")
	}
	if len(p.RelsErr) > 0 {
		return relsEmptyPkg("rels-xml")
	}
	seen := map[string]int{}
	for _, n := range p.Names {
		seen[n]++
		if seen[n] > 1 {
			return relsEmptyPkg("dup-entry")
		}
	}
	out := relsEmptyPkg("ok")
	main := p.MainDocName()
	out["main"] = main
	out["parts"] = p.SortedNames()
	cache := map[string]*Node{}
	mcls, mroot := relsClassOf(p, main, cache)
	if mcls != "main" {
		return relsEmptyPkg("main-" + mcls)
	}
	// relationships of every relationship part
	rels := []relsM{}
	var rnames []string
	for n := range p.Rels {
		rnames = append(rnames, n)
	}
	sort.Strings(rnames)
	scan := map[string]bool{} // header/footer parts to scan for references
	for _, rn := range rnames {
		src := SourceOfRels(rn)
		sc := "root"
		if src != "" {
			sc, _ = relsClassOf(p, src, cache)
			if sc == "header" || sc == "footer" {
				scan[src] = true
			}
		}
		for _, r := range p.Rels[rn] {
			tgt := r.Target
			if r.Mode != "External" {
				tgt = ResolveTarget(src, r.Target)
				ty := relsTypeName(r.Type)
				if ty == "header" || ty == "footer" {
					if c, _ := relsClassOf(p, tgt, cache); c == "header" || c == "footer" {
						scan[tgt] = true
					}
				}
			}
			rels = append(rels, relsM{"src": src, "sc": sc, "id": r.ID, "ty": relsTypeName(r.Type), "tgt": tgt, "mode": r.Mode})
		}
	}
	out["rels"] = rels
	// references: the main part, then header/footer parts by name
	refs := relsRefsOf(main, "main", mroot)
	var hf []string
	for n := range scan {
		if n != main {
			hf = append(hf, n)
		}
	}
	sort.Strings(hf)
	for _, n := range hf {
		c, root := relsClassOf(p, n, cache)
		refs = append(refs, relsRefsOf(n, c, root)...)
	}
	out["refs"] = refs
	// picture placeholders still present in the text of the main part
	ph := 0
	for _, para := range mroot.Desc("p") {
		ph += len(relsPhRe.FindAllString(para.WText(), -1))
	}
	// paragraphs nested in table cells are descendants of body paragraphs' siblings only; Desc("p")
	// already visits each w:p once
	out["ph"] = ph
	return out
}
