package main

// Executor for spec module Pics (property C10: every picture shows exactly the image bytes it
// was given, at the requested size). No oracle logic here: abstract operations are mapped to
// API calls, the package the library writes is projected by opc_pics.go, and spec/Pics_Trace.tla
// resolves every picture and decides.
//
//	pics      writes and projects the package after every step
//	picslazy  writes it only where the behaviour itself saves/loads/renders, and after the last step

import (
	"bytes"
	"fmt"
	"hash/fnv"
	"io"
	"os"
	"path/filepath"
	"strings"

	"github.com/zerx-lab/wordZero/pkg/document"
)

func init() {
	register("pics", func(c Case, emit Emitter) { runPics(c, emit, false) })
	register("picslazy", func(c Case, emit Emitter) { runPics(c, emit, true) })
}

type picCtx struct {
	doc   *document.Document
	infos []*document.ImageInfo
	dir   string
	tokOf map[string]string // sha1 of image bytes -> token
	nfile int
	last  []byte // bytes of the package written by the current step (Save)
}

func picMap(v interface{}) map[string]interface{} {
	m, _ := v.(map[string]interface{})
	if m == nil {
		m = map[string]interface{}{}
	}
	return m
}
func picList(v interface{}) []interface{} { l, _ := v.([]interface{}); return l }
func picStr(m map[string]interface{}, k string) string {
	s, _ := m[k].(string)
	return s
}
func picInt(m map[string]interface{}, k string) int {
	f, _ := m[k].(float64)
	return int(f)
}
func picBool(m map[string]interface{}, k string) bool { b, _ := m[k].(bool); return b }

// ---- concretisation -----------------------------------------------------------

func picFormat(f string) document.ImageFormat {
	switch f {
	case "jpeg":
		return document.ImageFormatJPEG
	case "gif":
		return document.ImageFormatGIF
	}
	return document.ImageFormatPNG
}

// picBytes returns the bytes of the image an abstract image record stands for and registers them.
func (c *picCtx) picBytes(img map[string]interface{}) []byte {
	t, f, pw, ph := picStr(img, "t"), picStr(img, "f"), picInt(img, "pw"), picInt(img, "ph")
	h := fnv.New32a()
	h.Write([]byte(t))
	tok := int(h.Sum32()%200) + 1
	ln := picInt(img, "len")
	key := fmt.Sprintf("%s/%s/%d/%d/%d", t, f, pw, ph, ln)
	b, cached := picBytesCache[key]
	if !cached {
		enc := func(k int) []byte {
			switch f {
			case "jpeg":
				return tinyJPEGSize(k, pw, ph)
			case "gif":
				return tinyGIFSize(k, pw, ph)
			}
			return tinyPNGSize(k, pw, ph)
		}
		b = enc(tok)
		if strings.HasSuffix(t, "b") {
			// a twin: same format and pixel size as the token without the suffix and the same encoded length, other bytes
			hb := fnv.New32a()
			hb.Write([]byte(strings.TrimSuffix(t, "b")))
			base := enc(int(hb.Sum32()%200) + 1)
			found := false
			for k := 1; k <= 400 && !found; k++ {
				if c := enc(k); len(c) == len(base) && !bytes.Equal(c, base) {
					b, found = c, true
				}
			}
			if !found {
				fmt.Fprintf(os.Stderr, "pics: no twin of equal length for %s\n", t)
				os.Exit(2)
			}
		}
		if ln > 0 {
			b = picPad(b, f, ln, tok)
			if len(b) != ln {
				fmt.Fprintf(os.Stderr, "pics: cannot give image %s the length %d (got %d)\n", t, ln, len(b))
				os.Exit(2)
			}
		}
		picBytesCache[key] = b
		picShaCache[key] = picSha(b)
	}
	sha := picShaCache[key]
	if old, ok := c.tokOf[sha]; ok && old != t {
		fmt.Fprintf(os.Stderr, "pics: image tokens %s and %s have identical bytes\n", old, t)
		os.Exit(2)
	}
	c.tokOf[sha] = t
	return b
}

var picBytesCache = map[string][]byte{}
var picShaCache = map[string]string{}

var picNames = map[string][]string{
	"png":       {"x.png", "photo.png"},
	"jpg":       {"x.jpg", "scan.jpg"},
	"jpeg":      {"x.jpeg"},
	"PNG":       {"X.PNG", "Logo.Png"},
	"gif":       {"x.gif"},
	"noext":     {"noext", "picture"},
	"dot":       {"x.", "."},
	"multi":     {"a.b.c", "archive.tar.gz"},
	"cjk":       {"中文图片.png", "画像.jpeg", "Ünïcödé.gif"},
	"space":     {"sp ace.png", " lead.png"},
	"meta":      {"x.p<g", "a&b\".png", "q?.png"},
	"internal0": {"image0.png"},
	"internal1": {"image1.jpeg", "image1.png"},
	"dotdot":    {"../up.png", "sub/dir/in.png"},
	"empty":     {""},
}

func picName(cls string, i int) string {
	l := picNames[cls]
	if len(l) == 0 {
		return cls
	}
	return l[(int(seed)+i)%len(l)]
}

// picFile writes data under a file name of the class and returns its path.
func (c *picCtx) picFile(cls string, i int, data []byte) string {
	name := picName(cls, i)
	if name == "" || name == "." {
		name = "f"
	}
	c.nfile++
	dir := filepath.Join(c.dir, fmt.Sprintf("f%d", c.nfile), "a", "b")
	p := filepath.Join(dir, name)
	os.MkdirAll(filepath.Dir(p), 0o755)
	if err := os.WriteFile(p, data, 0o644); err != nil {
		fmt.Fprintln(os.Stderr, "pics: cannot write image file:", err)
		os.Exit(2)
	}
	return p
}

func picSize(sz map[string]interface{}) *document.ImageSize {
	return &document.ImageSize{Width: float64(picInt(sz, "w")) / 100, Height: float64(picInt(sz, "h")) / 100,
		KeepAspectRatio: picBool(sz, "keep")}
}

func picConfig(sz map[string]interface{}, pos string, i int) *document.ImageConfig {
	cfgk := picStr(sz, "cfg")
	if cfgk == "nil" && (pos == "inline" || pos == "") {
		return nil
	}
	cfg := &document.ImageConfig{}
	if cfgk == "size" {
		cfg.Size = picSize(sz)
	}
	switch pos {
	case "floatLeft":
		cfg.Position = document.ImagePositionFloatLeft
		cfg.WrapText = []document.ImageWrapText{document.ImageWrapSquare, document.ImageWrapTight, document.ImageWrapNone, document.ImageWrapTopAndBottom}[(int(seed)+i)%4]
		cfg.OffsetX = float64((int(seed) + i) % 3)
	case "floatRight":
		cfg.Position = document.ImagePositionFloatRight
		cfg.OffsetY = 2.5
	default:
		if (int(seed)+i)%2 == 0 {
			cfg.Position = document.ImagePositionInline
			cfg.Alignment = document.AlignCenter
		}
	}
	if i%3 == 1 {
		cfg.AltText, cfg.Title = "alt <&> text", "title"
	}
	return cfg
}

func (c *picCtx) table(n int) *document.Table {
	if n < 1 || c.doc.Body == nil {
		return nil
	}
	ts := c.doc.Body.GetTables()
	if n > len(ts) {
		return nil
	}
	return ts[n-1]
}

func picPlaceholder(slot int, lay string) string {
	ph := fmt.Sprintf("{{#image s%d}}", slot)
	if lay == "around" {
		return "before " + ph + " after"
	}
	return ph
}

func (c *picCtx) templateData(data []interface{}, i int) *document.TemplateData {
	td := document.NewTemplateData()
	for j, x := range data {
		e := picMap(x)
		name := fmt.Sprintf("s%d", picInt(e, "slot"))
		img, sz := picMap(e["img"]), picMap(e["sz"])
		b := c.picBytes(img)
		cfg := picConfig(sz, "inline", i+j)
		switch picStr(e, "via") {
		case "file":
			td.SetImage(name, c.picFile("png", i+j, b), cfg)
		case "details-data":
			td.SetImageWithDetails(name, "", b, cfg, "alt", "title")
		case "details-file":
			td.SetImageWithDetails(name, c.picFile("noext", i+j, b), nil, cfg, "alt", "")
		default:
			td.SetImageFromData(name, b, cfg)
		}
	}
	return td
}

func (c *picCtx) tmpFile(tag string) string {
	c.nfile++
	return filepath.Join(c.dir, fmt.Sprintf("%s%d.docx", tag, c.nfile))
}

func (c *picCtx) info(h string) *document.ImageInfo {
	switch h {
	case "nil":
		return nil
	case "first":
		if len(c.infos) > 0 {
			return c.infos[0]
		}
	default:
		if len(c.infos) > 0 {
			return c.infos[len(c.infos)-1]
		}
	}
	return &document.ImageInfo{ID: "no-such-picture"}
}

// step executes one abstract operation; inforel is the RelationID of the ImageInfo returned.
func (c *picCtx) step(op Op, i int) (ret string, inforel string) {
	d := c.doc
	keepInfo := func(info *document.ImageInfo, err error) string {
		if err != nil {
			return "err"
		}
		if info == nil {
			return "nil-info"
		}
		c.infos = append(c.infos, info)
		inforel = info.RelationID
		return "ok"
	}
	switch op.Name() {
	case "AddImage":
		img, sz := picMap(op["img"]), picMap(op["sz"])
		cfg := picConfig(sz, op.Str("pos"), i)
		if slot := op.Str("path"); slot != "" { // one of the caller's files, as it is now
			return keepInfo(d.AddImageFromFile(c.slotPath(slot, i), cfg)), inforel
		}
		b := c.picBytes(img)
		if op.Str("via") == "file" {
			return keepInfo(d.AddImageFromFile(c.picFile(op.Str("name"), i, b), cfg)), inforel
		}
		return keepInfo(d.AddImageFromData(b, picName(op.Str("name"), i), picFormat(picStr(img, "f")), picInt(img, "pw"), picInt(img, "ph"), cfg)), inforel
	case "AddResource":
		img := picMap(op["img"])
		b := c.picBytes(img)
		return keepInfo(d.AddImageFromDataWithoutElement(b, picName(op.Str("name"), i), picFormat(picStr(img, "f")), picInt(img, "pw"), picInt(img, "ph"), nil)), inforel
	case "AddTable":
		if _, err := d.AddTable(&document.TableConfig{Rows: 2, Cols: 2, Width: 4000}); err != nil {
			return "err", ""
		}
	case "AddCellImage":
		img, sz := picMap(op["img"]), picMap(op["sz"])
		slot := op.Str("path")
		var b []byte
		if slot == "" {
			b = c.picBytes(img)
		}
		t := c.table(op.Int("tbl"))
		r, col := op.Int("r"), op.Int("c")
		w := float64(picInt(sz, "w")) / 100
		switch op.Str("via") {
		case "data":
			return keepInfo(d.AddCellImageFromData(t, r, col, b, w)), inforel
		case "file":
			if slot != "" {
				return keepInfo(d.AddCellImageFromFile(t, r, col, c.slotPath(slot, i), w)), inforel
			}
			return keepInfo(d.AddCellImageFromFile(t, r, col, c.picFile("jpg", i, b), w)), inforel
		}
		cc := &document.CellImageConfig{Width: w, Height: float64(picInt(sz, "h")) / 100, KeepAspectRatio: picBool(sz, "keep")}
		if i%2 == 0 {
			cc.AltText, cc.Title = "cell alt", "cell title"
		}
		if op.Str("via") == "cfg-file" && slot != "" {
			cc.FilePath = c.slotPath(slot, i)
		} else if op.Str("via") == "cfg-file" {
			cc.FilePath = c.picFile("cjk", i, b)
		} else {
			cc.Data = b
			switch f := op.Str("fmt"); f {
			case "":
			case "bad": // a format the bytes are not in
				if picStr(img, "f") == "png" {
					cc.Format = document.ImageFormatGIF
				} else {
					cc.Format = document.ImageFormatPNG
				}
			default:
				cc.Format = picFormat(f)
			}
		}
		return keepInfo(d.AddCellImage(t, r, col, cc)), inforel
	case "WriteFile":
		return c.slotWrite(op.Str("path"), c.picBytes(picMap(op["img"])), i), ""
	case "RemoveFile":
		if err := os.Remove(c.slotFile(op.Str("path"))); err != nil {
			return "err", ""
		}
	case "AddPlaceholder":
		d.AddParagraph(picPlaceholder(op.Int("slot"), op.Str("lay")))
	case "AddCellPlaceholder":
		t := c.table(op.Int("tbl"))
		if t == nil {
			return "err", ""
		}
		if _, err := t.AddCellParagraph(op.Int("r"), op.Int("c"), picPlaceholder(op.Int("slot"), op.Str("lay"))); err != nil {
			return "err", ""
		}
	case "Render":
		td := c.templateData(picList(op["data"]), i)
		var out *document.Document
		var err error
		if op.Str("how") == "renderer" {
			p := c.tmpFile("tpl")
			if err = d.Save(p); err != nil {
				return "err-save", ""
			}
			tr := document.NewTemplateRenderer()
			tr.SetLogging(false)
			if _, err = tr.LoadTemplateFromFile("t", p); err != nil {
				return "err-load", ""
			}
			out, err = tr.RenderTemplate("t", td)
		} else {
			e := document.NewTemplateEngine()
			if _, err = e.LoadTemplateFromDocument("t", d); err != nil {
				return "err-load", ""
			}
			out, err = e.RenderTemplateToDocument("t", td)
		}
		if err != nil || out == nil {
			return "err", ""
		}
		if !op.Bool("keep") {
			c.doc = out
		} else if _, err := out.ToBytes(); err != nil { // the copy is written, the base document stays current
			return "err-copy", ""
		}
	case "RenderString":
		td := c.templateData(picList(op["data"]), i)
		var lines []string
		for _, s := range picList(op["slots"]) {
			f, _ := s.(float64)
			lines = append(lines, picPlaceholder(int(f), op.Str("lay")))
		}
		e := document.NewTemplateEngine()
		if _, err := e.LoadTemplate("t", strings.Join(lines, "\n")); err != nil {
			return "err-load", ""
		}
		out, err := e.RenderToDocument("t", td)
		if err != nil || out == nil {
			return "err", ""
		}
		c.doc = out
	case "RemovePic":
		n := 0
		for _, el := range d.Body.Elements {
			p, ok := el.(*document.Paragraph)
			if !ok {
				continue
			}
			has := false
			for _, r := range p.Runs {
				if r.Drawing != nil {
					has = true
				}
			}
			if has {
				n++
				if n == op.Int("i") {
					if d.RemoveParagraph(p) {
						return "ok", ""
					}
					return "err", ""
				}
			}
		}
		return "err", ""
	case "Other":
		tok := fmt.Sprintf("T%d", i)
		switch op.Str("what") {
		case "AddHeader":
			return errRet(d.AddHeader(document.HeaderFooterTypeDefault, "H"+tok)), ""
		case "AddFooter":
			return errRet(d.AddFooter(document.HeaderFooterTypeDefault, "F"+tok)), ""
		case "AddHeaderWithPageNumber":
			return errRet(d.AddHeaderWithPageNumber(document.HeaderFooterTypeFirst, "H"+tok, true)), ""
		case "AddListItem":
			d.AddListItem(tok, nil)
		case "AddFootnote":
			return errRet(d.AddFootnote(tok, "note "+tok)), ""
		case "AddEndnote":
			return errRet(d.AddEndnote(tok, "note "+tok)), ""
		default:
			d.AddParagraph(tok)
		}
	case "ResizeImage":
		return errRet(d.ResizeImage(c.info(op.Str("h")), &document.ImageSize{Width: 77, Height: 55})), ""
	case "SetImagePosition":
		return errRet(d.SetImagePosition(c.info(op.Str("h")), document.ImagePositionFloatLeft, 5, 5)), ""
	case "SetImageWrapText":
		return errRet(d.SetImageWrapText(c.info(op.Str("h")), document.ImageWrapTight)), ""
	case "SetImageAltText":
		return errRet(d.SetImageAltText(c.info(op.Str("h")), "new alt")), ""
	case "SetImageTitle":
		return errRet(d.SetImageTitle(c.info(op.Str("h")), "new title")), ""
	case "SetImageAlignment":
		return errRet(d.SetImageAlignment(c.info(op.Str("h")), document.AlignRight)), ""
	case "Save":
		p := c.tmpFile("save")
		if err := d.Save(p); err != nil {
			return "err", ""
		}
		b, err := os.ReadFile(p)
		if err != nil {
			return "err-read", ""
		}
		c.last = b
	case "Reopen":
		var nd *document.Document
		var err error
		if op.Str("how") == "file" {
			p := c.tmpFile("re")
			if err = d.Save(p); err != nil {
				return "err-save", ""
			}
			nd, err = document.Open(p)
		} else {
			var b []byte
			if b, err = d.ToBytes(); err != nil {
				return "err-save", ""
			}
			nd, err = document.OpenFromMemory(io.NopCloser(bytes.NewReader(b)))
		}
		if err != nil || nd == nil {
			return "err", ""
		}
		c.doc = nd
	case "OpenForeign":
		b := c.synth(picMap(op["shape"]))
		nd, err := document.OpenFromMemory(io.NopCloser(bytes.NewReader(b)))
		if err != nil || nd == nil {
			return "err", ""
		}
		c.doc = nd
	default:
		return "unknown-op", ""
	}
	return "ok", inforel
}

// observing steps of the lazy variant: the behaviour itself writes or loads a package there
func picWrites(op Op) bool {
	switch op.Name() {
	case "Save", "Reopen", "OpenForeign", "Render", "RenderString":
		return true
	}
	return false
}

func runPics(c Case, emit Emitter, lazy bool) {
	document.VerifResetGlobals()
	dir, err := os.MkdirTemp("", "wzpics")
	if err != nil {
		fmt.Fprintln(os.Stderr, "pics:", err)
		os.Exit(2)
	}
	defer os.RemoveAll(dir)
	ctx := &picCtx{doc: document.New(), dir: dir, tokOf: map[string]string{}}
	emit(Ev{"ev": "reset", "case": c.ID})
	for i, op := range c.Steps {
		ctx.last = nil
		var inforel string
		ret, pmsg := guard(func() string {
			r, ir := ctx.step(op, i)
			inforel = ir
			return r
		})
		ev := Ev{"ev": "step", "case": c.ID, "i": i, "op": op, "ret": ret, "pmsg": pmsg, "info": inforel}
		pr := picProj{saved: "none", body: []picM{}, media: []picM{}, rels: []picM{}}
		seen := !lazy || picWrites(op) || i == len(c.Steps)-1
		if seen {
			var b []byte
			sret, _ := guard(func() string {
				if ctx.last != nil {
					b = ctx.last
					return "ok"
				}
				var err error
				b, err = ctx.doc.ToBytes()
				if err != nil {
					return "err"
				}
				return "ok"
			})
			if sret != "ok" {
				pr.saved = "write-" + sret
			} else {
				pr = picProject(b, ctx.tokOf)
			}
		}
		ev["seen"] = seen
		ev["saved"] = pr.saved
		ev["body"] = pr.body
		ev["media"] = pr.media
		ev["rels"] = pr.rels
		emit(ev)
	}
}
