package main

// Executor for spec module SaveIO (property C05).
//
// A behaviour is a sequence of content operations and saves. A save with plan "sweep" is
// expanded into one call of the save entry point per fault offset k (RLIMIT_FSIZE = k around
// the call, SIGXFSZ ignored), each logged as one "save" observation:
//
//	via, target, k, ret, tb (ToBytes just before), complete (independent reader accepts the
//	file as a zip), before / disk (part name + canonical digest), size, and the layout of an
//	unfaulted reference save of the same document (n0, dirstart, cmax).
//
// No oracle logic here: whether a return value is acceptable is decided by SaveIO_Trace.tla.

import (
	"archive/zip"
	"bufio"
	"bytes"
	"context"
	"crypto/sha1"
	"encoding/hex"
	"encoding/json"
	"fmt"
	"image"
	"image/png"
	"io"
	"math/rand"
	"os"
	"os/exec"
	"os/signal"
	"path/filepath"
	"sort"
	"strings"
	"sync"
	"syscall"
	"time"

	"github.com/zerx-lab/wordZero/pkg/document"
	"github.com/zerx-lab/wordZero/pkg/markdown"
	"github.com/zerx-lab/wordZero/pkg/style"
)

func init() {
	register("saveio", func(c Case, emit Emitter) { runSaveIO(c, emit, false) })
	// the same executor restricted to the saves whose target class depends on file permissions;
	// run by the parent as an unprivileged child process when the parent itself is privileged
	register("saveiochild", func(c Case, emit Emitter) { runSaveIO(c, emit, true) })
}

var (
	sioOnce     sync.Once
	sioPriv     bool   // permission bits do not stop this process (root / CAP_DAC_OVERRIDE)
	sioOld      []byte // a complete package of another document (content of "existing"/"rofile" targets)
	sioOldParts []map[string]interface{}
	sioCanonMu  sync.Mutex
	sioCanonMem = map[[20]byte]string{}
)

func sioSetup() {
	sioOnce.Do(func() {
		signal.Ignore(syscall.SIGXFSZ)
		// privilege probe: can a file be created in a directory without write permission?
		if d, err := os.MkdirTemp("", "sio-probe-"); err == nil {
			ro := filepath.Join(d, "ro")
			os.Mkdir(ro, 0o555)
			if f, err := os.Create(filepath.Join(ro, "x")); err == nil {
				f.Close()
				sioPriv = true
			}
			os.Chmod(ro, 0o755)
			os.RemoveAll(d)
		}
		od := document.New()
		od.AddParagraph("OLD CONTENT OF THE TARGET FILE")
		for i := 0; i < 40; i++ {
			od.AddParagraph(sioWords(rand.New(rand.NewSource(int64(9000+i))), 60))
		}
		b, err := od.ToBytes()
		if err != nil {
			fmt.Fprintln(os.Stderr, "saveio: cannot build the old package:", err)
			os.Exit(2)
		}
		sioOld = b
		sioOldParts = sioParts(ReadPkg(b))
	})
}

// ---------------------------------------------------------------- projection

// sioCanon is the digest of a part in canonical form. Parts other than the main document
// are written with their top-level children in map-iteration order (styles, notes,
// content types, relationships), so for those the children are compared as a multiset;
// everything below the top level, and the main document as a whole, keeps its order.
func sioCanon(name string, data []byte) string {
	raw := sha1.Sum(append([]byte(name+"\x00"), data...))
	sioCanonMu.Lock()
	if v, ok := sioCanonMem[raw]; ok {
		sioCanonMu.Unlock()
		return v
	}
	sioCanonMu.Unlock()
	out := ""
	isXML := strings.HasSuffix(name, ".xml") || strings.HasSuffix(name, ".rels")
	if isXML && name != "word/document.xml" {
		if root, err := ParseXML(data); err == nil {
			var kids []string
			for _, k := range root.Kids {
				var sb strings.Builder
				sioWriteNode(&sb, k)
				kids = append(kids, sb.String())
			}
			sort.Strings(kids)
			var sb strings.Builder
			sioWriteHead(&sb, root)
			sb.WriteString(strings.TrimSpace(root.Text))
			for _, k := range kids {
				sb.WriteString(k)
			}
			h := sha1.Sum([]byte(sb.String()))
			out = "x:" + hex.EncodeToString(h[:8])
		}
	}
	if out == "" {
		h := sha1.Sum(data)
		out = fmt.Sprintf("b:%d:%s", len(data), hex.EncodeToString(h[:8]))
	}
	sioCanonMu.Lock()
	if len(sioCanonMem) > 200000 {
		sioCanonMem = map[[20]byte]string{}
	}
	sioCanonMem[raw] = out
	sioCanonMu.Unlock()
	return out
}

func sioWriteHead(sb *strings.Builder, n *Node) {
	sb.WriteString("<{" + n.Space + "}" + n.Local)
	var as []string
	for _, a := range n.Attr {
		if a.Name.Space == "xmlns" || (a.Name.Space == "" && a.Name.Local == "xmlns") {
			continue // namespace declarations: already resolved into Space
		}
		as = append(as, "{"+a.Name.Space+"}"+a.Name.Local+"="+fmt.Sprintf("%q", a.Value))
	}
	sort.Strings(as)
	for _, a := range as {
		sb.WriteString(" " + a)
	}
	sb.WriteString(">")
}

func sioWriteNode(sb *strings.Builder, n *Node) {
	sioWriteHead(sb, n)
	sb.WriteString(n.Text)
	for _, k := range n.Kids {
		sioWriteNode(sb, k)
	}
	sb.WriteString("</>")
}

// sioParts projects a package to [(part name, canonical digest)], sorted by name; a duplicated
// entry name is kept visible.
func sioParts(p *Pkg) []map[string]interface{} {
	out := []map[string]interface{}{}
	if p == nil || p.ZipErr != "" {
		return out
	}
	seen := map[string]int{}
	for _, n := range p.Names {
		seen[n]++
	}
	for _, n := range p.SortedNames() {
		h := sioCanon(n, p.Parts[n])
		if seen[n] > 1 {
			h = fmt.Sprintf("dup%d:%s", seen[n], h)
		}
		out = append(out, map[string]interface{}{"n": n, "h": h})
	}
	return out
}

// sioLayout reads the layout of a complete package: length, start of the central directory
// (end of the last entry's data incl. descriptor), largest compressed entry.
func sioLayout(b []byte) (n0, dirstart, cmax int, ok bool) {
	zr, err := zip.NewReader(bytes.NewReader(b), int64(len(b)))
	if err != nil {
		return 0, 0, 0, false
	}
	for _, f := range zr.File {
		off, err := f.DataOffset()
		if err != nil {
			return 0, 0, 0, false
		}
		end := int(off) + int(f.CompressedSize64)
		if f.Flags&0x8 != 0 {
			end += 16
		}
		if end > dirstart {
			dirstart = end
		}
		if int(f.CompressedSize64) > cmax {
			cmax = int(f.CompressedSize64)
		}
	}
	return len(b), dirstart, cmax, true
}

// ---------------------------------------------------------------- content

func sioWords(r *rand.Rand, n int) string {
	var sb strings.Builder
	for i := 0; i < n; i++ {
		l := 2 + r.Intn(9)
		for j := 0; j < l; j++ {
			sb.WriteByte(byte('a' + r.Intn(26)))
		}
		sb.WriteByte(' ')
	}
	return sb.String()
}

// sioNoisePNG is an incompressible picture of roughly w*h*4 bytes.
func sioNoisePNG(seed int64, w, h int) []byte {
	r := rand.New(rand.NewSource(seed))
	img := image.NewRGBA(image.Rect(0, 0, w, h))
	r.Read(img.Pix)
	for i := 3; i < len(img.Pix); i += 4 {
		img.Pix[i] = 255
	}
	var buf bytes.Buffer
	enc := png.Encoder{CompressionLevel: png.NoCompression}
	enc.Encode(&buf, img)
	return buf.Bytes()
}

type sioCtx struct {
	c    Case
	doc  *document.Document
	md   strings.Builder
	work string
	rnd  *rand.Rand
	nsv  int
	// path written by the last successful Save of x.doc to a regular file ("" = none)
	lastPath string
}

func (x *sioCtx) edit(i int, op Op) string {
	tok := fmt.Sprintf("T%d", i)
	d := x.doc
	switch op.Name() {
	case "openmin":
		// origin class "opened": the document becomes one opened from a package of another producer whose
		// styles part defines only the default paragraph style (the library keeps such a styles part and
		// patches it when the body refers to styles it does not define)
		b, err := sioMinimalForeign(tok)
		if err != nil {
			return "err"
		}
		nd, err := document.OpenFromMemory(io.NopCloser(bytes.NewReader(b)))
		if err != nil {
			return "err"
		}
		x.doc = nd
		x.lastPath = ""
	case "openrich":
		// origin class "opened from a rich package": parts the library neither regenerates nor refers to from the main
		// part's relationships (a header with its own relationship part and picture, a theme, a media part nothing refers to)
		b, err := sioRichForeign()
		if err != nil {
			fmt.Fprintln(os.Stderr, "saveio: cannot synthesise the rich package:", err)
			os.Exit(2)
		}
		nd, err := document.OpenFromMemory(io.NopCloser(bytes.NewReader(b)))
		if err != nil {
			return "err"
		}
		x.doc = nd
		x.lastPath = ""
	case "openodd":
		// origin class "opened from a package with degenerate parts" (x_saveio_odd.go)
		b, err := sioOddForeign()
		if err != nil {
			fmt.Fprintln(os.Stderr, "saveio: cannot synthesise the odd package:", err)
			os.Exit(2)
		}
		nd, err := document.OpenFromMemory(io.NopCloser(bytes.NewReader(b)))
		if err != nil {
			return "err"
		}
		x.doc = nd
		x.lastPath = ""
	case "para":
		d.AddParagraph("paragraph " + tok)
	case "heading":
		d.AddHeadingParagraph("heading "+tok, 1+i%3)
	case "longtext":
		for j := 0; j < 6; j++ {
			d.AddParagraph(sioWords(x.rnd, 300))
		}
	case "table":
		t, err := d.AddTable(&document.TableConfig{Rows: 3, Cols: 3, Width: 6000})
		if err != nil {
			return "err"
		}
		for r := 0; r < 3; r++ {
			for c := 0; c < 3; c++ {
				t.SetCellText(r, c, fmt.Sprintf("%s r%dc%d", tok, r, c))
			}
		}
	case "image":
		if _, err := d.AddImageFromData(tinyPNGSize(i+1, 16, 16), tok+".png", document.ImageFormatPNG, 16, 16, nil); err != nil {
			return "err"
		}
	case "bigimage":
		if _, err := d.AddImageFromData(sioNoisePNG(seed*100+int64(i), 260, 260), tok+".png", document.ImageFormatPNG, 260, 260, nil); err != nil {
			return "err"
		}
	case "hugeimage":
		// size class beyond a quarter / half of a MiB (about 600 KB of incompressible pixels in one part)
		if _, err := d.AddImageFromData(sioNoisePNG(seed*100+int64(i), 450, 450), tok+".png", document.ImageFormatPNG, 450, 450, nil); err != nil {
			return "err"
		}
	case "midimage":
		if _, err := d.AddImageFromData(sioNoisePNG(seed*100+int64(i), 48, 48), tok+".png", document.ImageFormatPNG, 48, 48, nil); err != nil {
			return "err"
		}
	case "header":
		return errRet(d.AddHeader(document.HeaderFooterTypeDefault, "header "+tok))
	case "footer":
		return errRet(d.AddFooter(document.HeaderFooterTypeDefault, "footer "+tok))
	case "footnote":
		return errRet(d.AddFootnote("noted "+tok, "footnote "+tok))
	case "list":
		d.AddListItem("item "+tok, nil)
	case "margins":
		return errRet(d.SetPageMargins(20, 21, 22, 23))
	case "pad32k", "pad64k":
		// boundary class of the byte-copying layers (32 KiB copy buffers / deflate window): the main part
		// is padded to EXACTLY a multiple of 32768 bytes
		unit := 32768
		if op.Name() == "pad64k" {
			unit = 65536
		}
		d.AddParagraph("pad " + tok + " ")
		p := d.Body.GetParagraphs()
		last := p[len(p)-1]
		for try := 0; try < 4; try++ {
			b, err := d.ToBytes()
			if err != nil {
				return "err"
			}
			cur := len(ReadPkg(b).Parts["word/document.xml"])
			if cur%unit == 0 {
				break
			}
			last.Runs[0].Text.Content += strings.Repeat("x", unit-cur%unit)
		}
	case "title":
		// changes docProps only (no body change)
		return errRet(d.SetTitle("title " + tok))
	case "style":
		// changes word/styles.xml only: a registered style is edited through the style manager
		if st := d.GetStyleManager().GetStyle("Heading1"); st != nil {
			st.Name = &style.StyleName{Val: "heading one " + tok}
		}
	case "mdpara":
		x.md.WriteString("Paragraph " + tok + " with *emphasis* and `code`.\n\n")
	case "mdheading":
		x.md.WriteString(strings.Repeat("#", 1+i%3) + " Heading " + tok + "\n\n")
	case "mdlist":
		x.md.WriteString("- item " + tok + "\n- second\n\n1. one\n2. two\n\n")
	case "mdtable":
		x.md.WriteString("| a | b |\n|---|---|\n| " + tok + " | 2 |\n\n")
	case "mdlong":
		for j := 0; j < 6; j++ {
			x.md.WriteString(sioWords(x.rnd, 300) + "\n\n")
		}
	default:
		return "unknown-op"
	}
	return "ok"
}

// sioMinimalForeign is a package as another producer writes it: the library's own output for a
// one-paragraph document with word/styles.xml replaced by a part that defines only "Normal".
func sioMinimalForeign(tok string) ([]byte, error) {
	od := document.New()
	od.AddParagraph("opened " + tok)
	b, err := od.ToBytes()
	if err != nil {
		return nil, err
	}
	zr, err := zip.NewReader(bytes.NewReader(b), int64(len(b)))
	if err != nil {
		return nil, err
	}
	var out bytes.Buffer
	zw := zip.NewWriter(&out)
	for _, f := range zr.File {
		w, err := zw.Create(f.Name)
		if err != nil {
			return nil, err
		}
		if f.Name == "word/styles.xml" {
			io.WriteString(w, `<?xml version="1.0" encoding="UTF-8" standalone="yes"?>`+
				`<w:styles xmlns:w="http://schemas.openxmlformats.org/wordprocessingml/2006/main">`+
				`<w:style w:type="paragraph" w:default="1" w:styleId="Normal"><w:name w:val="Normal"/><w:qFormat/></w:style>`+
				`</w:styles>`)
			continue
		}
		r, err := f.Open()
		if err != nil {
			return nil, err
		}
		_, err = io.Copy(w, r)
		r.Close()
		if err != nil {
			return nil, err
		}
	}
	if err := zw.Close(); err != nil {
		return nil, err
	}
	return out.Bytes(), nil
}

// ---------------------------------------------------------------- targets

type sioTarget struct {
	class  string
	path   string
	cwd    string // "" or the working directory the (relative) path is meant for
	outDir string // for BatchConvert: the output directory; the input is named after the file
	reset  func() // re-establishes the class before every call
	done   func()
}

func (x *sioCtx) target(class string) *sioTarget {
	x.nsv++
	base := filepath.Join(x.work, fmt.Sprintf("t%d", x.nsv))
	os.MkdirAll(base, 0o755)
	t := &sioTarget{class: class, done: func() {}}
	switch class {
	case "newdir":
		t.path = filepath.Join(base, "a", "b", "c", "out.docx")
		t.reset = func() { os.RemoveAll(filepath.Join(base, "a")) }
	case "existing":
		t.path = filepath.Join(base, "out.docx")
		t.reset = func() { os.WriteFile(t.path, sioOld, 0o644) }
	case "resave":
		// the file of this document's previous successful Save, left exactly as that call left it
		// (a fresh path if the document has not been saved yet)
		t.path = filepath.Join(base, "a", "out.docx")
		if x.lastPath != "" {
			t.path = x.lastPath
		}
		t.reset = func() {}
	case "device":
		t.path = filepath.Join(base, "out.docx")
		t.reset = func() { os.Remove(t.path); os.Symlink("/dev/full", t.path) }
	case "rodir":
		ro := filepath.Join(base, "ro")
		t.path = filepath.Join(ro, "out.docx")
		t.reset = func() { os.Mkdir(ro, 0o555); os.Chmod(ro, 0o555) }
		t.done = func() { os.Chmod(ro, 0o755) }
	case "rofile":
		t.path = filepath.Join(base, "out.docx")
		t.reset = func() {
			os.Chmod(t.path, 0o644)
			os.WriteFile(t.path, sioOld, 0o644)
			os.Chmod(t.path, 0o444)
		}
		t.done = func() { os.Chmod(t.path, 0o644) }
	case "parentfile":
		f := filepath.Join(base, "file")
		t.path = filepath.Join(f, "sub", "out.docx")
		t.reset = func() { os.WriteFile(f, []byte("x"), 0o644) }
	case "isdir":
		t.path = filepath.Join(base, "out.docx")
		t.reset = func() { os.MkdirAll(t.path, 0o755) }
	// ---- spellings of a path to a new regular file (SaveIO.tla, PathForms / DirOf); the strings are composed by hand,
	// filepath.Join would clean them
	case "relative":
		t.cwd = base
		t.path = "a/out.docx"
		t.reset = func() { os.RemoveAll(filepath.Join(base, "a")) }
	case "dotdot":
		t.path = base + "/a/../b/out.docx"
		t.reset = func() { os.MkdirAll(filepath.Join(base, "a"), 0o755); os.RemoveAll(filepath.Join(base, "b")) }
	case "unclean":
		t.path = base + "/.//a/./b//out.docx"
		t.reset = func() { os.RemoveAll(filepath.Join(base, "a")) }
	case "vialink":
		t.path = base + "/link/sub/out.docx"
		t.reset = func() {
			os.MkdirAll(filepath.Join(base, "store"), 0o755)
			os.RemoveAll(filepath.Join(base, "store", "sub"))
			os.Remove(filepath.Join(base, "link"))
			os.Symlink("store", filepath.Join(base, "link"))
		}
	case "linkdotdot":
		t.path = base + "/link/../out.docx"
		t.reset = func() {
			os.MkdirAll(filepath.Join(base, "store", "deep", "sub"), 0o755)
			os.Remove(filepath.Join(base, "store", "deep", "out.docx"))
			os.Remove(filepath.Join(base, "out.docx"))
			os.Remove(filepath.Join(base, "link"))
			os.Symlink("store/deep/sub", filepath.Join(base, "link"))
		}
	case "linktofile":
		t.path = base + "/out.docx"
		t.reset = func() {
			os.MkdirAll(filepath.Join(base, "store"), 0o755)
			os.WriteFile(filepath.Join(base, "store", "real.docx"), sioOld, 0o644)
			os.Remove(t.path)
			os.Symlink("store/real.docx", t.path)
		}
	case "danglinglink":
		t.path = base + "/out.docx"
		t.reset = func() {
			os.MkdirAll(filepath.Join(base, "store"), 0o755)
			os.Remove(filepath.Join(base, "store", "new.docx"))
			os.Remove(t.path)
			os.Symlink("store/new.docx", t.path)
		}
	default:
		return nil
	}
	// the directory part of the string, taken literally
	t.outDir = t.path[:strings.LastIndex(t.path, "/")]
	return t
}

// ---------------------------------------------------------------- one call

// sioLimited runs f with RLIMIT_FSIZE = k (k < 0: unlimited) and restores the limit even if f panics.
func sioLimited(k int, f func()) (limErr string) {
	if k < 0 {
		f()
		return ""
	}
	var old syscall.Rlimit
	if err := syscall.Getrlimit(syscall.RLIMIT_FSIZE, &old); err != nil {
		return err.Error()
	}
	if err := syscall.Setrlimit(syscall.RLIMIT_FSIZE, &syscall.Rlimit{Cur: uint64(k), Max: old.Max}); err != nil {
		return err.Error()
	}
	defer func() {
		if err := syscall.Setrlimit(syscall.RLIMIT_FSIZE, &old); err != nil {
			fmt.Fprintln(os.Stderr, "saveio: cannot restore RLIMIT_FSIZE:", err)
			os.Exit(2)
		}
	}()
	f()
	return ""
}

type sioRef struct{ n0, dirstart, cmax int }

// call performs one save through `via` to target t with the file-size limit k and returns the observation.
//
// tbAfter = false: the in-memory serialisation is taken immediately before the call (the
// property's observation point); tbAfter = true: immediately after it instead, so that the call
// is not preceded by a ToBytes that has already refreshed every part (only used for calls
// without a limit, where the save must not change what the document serialises to).
func (x *sioCtx) call(via string, t *sioTarget, k int, ref *sioRef, tbAfter bool) Ev {
	t.reset()
	defer t.done()
	if t.cwd != "" {
		// the harness executes one behaviour at a time per process, so the working directory is ours
		old, err := os.Getwd()
		if err != nil || os.Chdir(t.cwd) != nil {
			fmt.Fprintln(os.Stderr, "saveio: cannot change the working directory:", err)
			os.Exit(2)
		}
		defer func() {
			if os.Chdir(old) != nil {
				fmt.Fprintln(os.Stderr, "saveio: cannot restore the working directory")
				os.Exit(2)
			}
		}()
	}
	ev := Ev{"ev": "save", "case": x.c.ID, "via": via, "target": t.class, "k": k, "tbwhen": "before", "conc": 0}
	if tbAfter {
		ev["tbwhen"] = "after"
	}

	// the in-memory serialisation at this moment
	var before []byte
	var src string
	var conv *markdown.Converter
	takeTB := func() {
		tb, _ := guard(func() string {
			if via == "Save" {
				b, err := x.doc.ToBytes()
				before = b
				return errRet(err)
			}
			document.VerifResetGlobals()
			conv = markdown.NewConverter(markdown.DefaultOptions())
			d2, err := conv.ConvertBytes([]byte(x.md.String()), nil)
			if err != nil {
				return "err"
			}
			b, err := d2.ToBytes()
			before = b
			return errRet(err)
		})
		ev["tb"] = tb
		if tb == "ok" {
			ev["before"] = sioParts(ReadPkg(before))
		} else {
			ev["before"] = []map[string]interface{}{}
		}
	}
	if !tbAfter {
		takeTB()
	}
	if via != "Save" {
		// the Markdown source next to nothing else; BatchConvert derives the output name from it
		src = filepath.Join(x.work, fmt.Sprintf("src%d", x.nsv), strings.TrimSuffix(filepath.Base(t.path), ".docx")+".md")
		os.MkdirAll(filepath.Dir(src), 0o755)
		os.WriteFile(src, []byte(x.md.String()), 0o644)
		document.VerifResetGlobals()
		conv = markdown.NewConverter(markdown.DefaultOptions())
	}

	var ret, pmsg string
	limErr := sioLimited(k, func() {
		ret, pmsg = guard(func() string {
			switch via {
			case "Save":
				return errRet(x.doc.Save(t.path))
			case "ConvertFile":
				return errRet(conv.ConvertFile(src, t.path, nil))
			case "BatchConvert":
				return errRet(conv.BatchConvert([]string{src}, t.outDir, nil))
			}
			return "unknown-via"
		})
	})
	if limErr != "" {
		fmt.Fprintln(os.Stderr, "saveio: cannot set RLIMIT_FSIZE:", limErr)
		os.Exit(2)
	}
	ev["ret"] = ret
	ev["pmsg"] = pmsg
	if tbAfter {
		takeTB()
	}

	// what is on disk now
	size := -1
	complete := false
	disk := []map[string]interface{}{}
	if fi, err := os.Stat(t.path); err == nil && fi.Mode().IsRegular() {
		size = int(fi.Size())
		if data, err := os.ReadFile(t.path); err == nil {
			p := ReadPkg(data)
			if p.ZipErr == "" {
				complete = true
				disk = sioParts(p)
				if ref != nil && ref.n0 == 0 && k < 0 && ret == "ok" {
					if n0, ds, cm, ok := sioLayout(data); ok {
						ref.n0, ref.dirstart, ref.cmax = n0, ds, cm
					}
				}
			}
		}
	}
	ev["size"] = size
	ev["complete"] = complete
	ev["disk"] = disk
	if ref != nil {
		ev["n0"], ev["dirstart"], ev["cmax"] = ref.n0, ref.dirstart, ref.cmax
	} else {
		ev["n0"], ev["dirstart"], ev["cmax"] = 0, 0, 0
	}
	return ev
}

// offsets of a sweep: every k in 0..n0+2 (points = 0), or about `points` evenly spaced ones
// (seeded phase) plus the first and last `edge` offsets and the neighbours of every multiple
// of the buffered writer's capacity near the end.
func sioOffsets(n0, points, edge int) []int {
	set := map[int]bool{}
	add := func(k int) {
		if k >= 0 && k <= n0+2 {
			set[k] = true
		}
	}
	if points <= 0 || points >= n0 {
		for k := 0; k <= n0+2; k++ {
			add(k)
		}
	} else {
		stride := n0 / points
		if stride < 1 {
			stride = 1
		}
		for k := int(seed) % stride; k <= n0; k += stride {
			add(k)
		}
		for k := 0; k <= edge; k++ {
			add(k)
			add(n0 - k)
		}
		add(n0 + 1)
		add(n0 + 2)
		for m := 4096; m <= n0; m += 4096 {
			if n0-m < 80000 || m < 20000 {
				for d := -1; d <= 1; d++ {
					add(m + d)
				}
			}
		}
	}
	out := make([]int, 0, len(set))
	for k := range set {
		out = append(out, k)
	}
	sort.Ints(out)
	return out
}

func sioPermClass(class string) bool { return class == "rodir" || class == "rofile" }

// classes whose target is a regular file the call may write: the only ones where a limit on the file size means something
func sioSweepable(class string) bool {
	switch class {
	case "newdir", "existing", "relative", "dotdot", "unclean", "vialink", "linkdotdot", "linktofile", "danglinglink":
		return true
	}
	return false
}

// sioUnprivileged re-executes the whole behaviour in a child process running as "nobody" and
// returns the observations of its permission-dependent saves; nil if that is not possible here.
func sioUnprivileged(c Case) []Ev {
	dir, err := os.MkdirTemp("", "sio-child-")
	if err != nil {
		return nil
	}
	defer os.RemoveAll(dir)
	const nobody = 65534
	if os.Chown(dir, nobody, nobody) != nil || os.Chmod(dir, 0o755) != nil {
		return nil
	}
	cf, of := filepath.Join(dir, "case.ndjson"), filepath.Join(dir, "obs.ndjson")
	line, _ := json.Marshal(c)
	if os.WriteFile(cf, append(line, '\n'), 0o644) != nil {
		return nil
	}
	self, err := os.Executable()
	if err != nil {
		return nil
	}
	cctx, cancel := context.WithTimeout(context.Background(), 3*time.Minute)
	defer cancel()
	cmd := exec.CommandContext(cctx, self, "saveiochild", cf, of)
	cmd.Dir = dir
	cmd.Env = append(os.Environ(), "TMPDIR=/tmp", "HOME="+dir)
	cmd.SysProcAttr = &syscall.SysProcAttr{Credential: &syscall.Credential{Uid: nobody, Gid: nobody}}
	if err := cmd.Run(); err != nil {
		return nil
	}
	f, err := os.Open(of)
	if err != nil {
		return nil
	}
	defer f.Close()
	var out []Ev
	sc := bufio.NewScanner(f)
	sc.Buffer(make([]byte, 1<<20), 1<<28)
	for sc.Scan() {
		var e Ev
		if json.Unmarshal(sc.Bytes(), &e) != nil {
			return nil
		}
		if e["ev"] == "save" || e["ev"] == "skip" {
			out = append(out, e)
		}
	}
	return out
}

func runSaveIO(c Case, emit Emitter, onlyPerm bool) {
	sioSetup()
	document.VerifResetGlobals()
	work, err := os.MkdirTemp("", fmt.Sprintf("sio-%d-", c.ID))
	if err != nil {
		fmt.Fprintln(os.Stderr, "saveio:", err)
		os.Exit(2)
	}
	defer os.RemoveAll(work)
	x := &sioCtx{c: c, doc: document.New(), work: work, rnd: rand.New(rand.NewSource(seed*7919 + 17))}
	emit(Ev{"ev": "reset", "case": c.ID})
	// permission-dependent target classes cannot fail for a privileged process: delegate them
	var childEvs []Ev
	childTried := false
	for i, op := range c.Steps {
		if op.Name() == "Group" {
			continue // names the scenario group the behaviour was generated from
		}
		if op.Name() != "Save" {
			ret, pmsg := guard(func() string { return x.edit(i, op) })
			emit(Ev{"ev": "edit", "case": c.ID, "op": op.Name(), "ret": ret, "pmsg": pmsg})
			continue
		}
		via, class := op.Str("via"), op.Str("target")
		if onlyPerm && !sioPermClass(class) {
			continue
		}
		if sioPriv && sioPermClass(class) {
			if !onlyPerm && !childTried {
				childTried = true
				childEvs = sioUnprivileged(c)
				for _, e := range childEvs {
					emit(e)
				}
			}
			if childEvs == nil {
				emit(Ev{"ev": "skip", "case": c.ID, "target": class, "why": "privileged"})
			}
			continue
		}
		// unfaulted reference save of the same document through the same entry point: gives the layout
		// (not for "resave": the call under test must be the first Save since the one that wrote the file)
		ref := &sioRef{}
		if class != "resave" && op.Str("plan") != "conc" {
			rt := x.target("newdir")
			emit(x.call(via, rt, -1, ref, true))
		}
		t := x.target(class)
		if t == nil {
			emit(Ev{"ev": "skip", "case": c.ID, "target": class, "why": "unknown-target"})
			continue
		}
		if class == "device" && via == "Save" {
			t.path, t.reset = "/dev/full", func() {} // the device itself; the other entry points reach it through a link
		}
		if op.Str("plan") == "conc" {
			for _, e := range x.concurrent(t, op.Int("rounds"), op.Int("others")) {
				emit(e)
			}
			x.lastPath = ""
			continue
		}
		if op.Str("plan") == "sweep" && ref.n0 > 0 && sioSweepable(class) {
			for _, k := range sioOffsets(ref.n0, op.Int("points"), op.Int("edge")) {
				emit(x.call(via, t, k, ref, false))
			}
		}
		// and without a limit (after the failed attempts, if any)
		e := x.call(via, t, -1, ref, false)
		emit(e)
		if via == "Save" && (class == "newdir" || class == "existing" || class == "resave") {
			if e["ret"] == "ok" {
				x.lastPath = t.path
			} else {
				x.lastPath = ""
			}
		}
	}
}

// sioRichForeign writes (with the synthesiser of the Foreign module) a package of another producer that holds parts
// outside the main part's relationship closure.
func sioRichForeign() ([]byte, error) {
	dr := "word/_rels/document.xml.rels"
	hr := "word/_rels/header2.xml.rels"
	m := &fgnModel{Ns: "w", PkgNs: "default", HLink: "rId8", byName: map[string]fgnPart{}}
	m.Parts = []fgnPart{
		{N: "[Content_Types].xml", K: "content-types"}, {N: "_rels/.rels", K: "rels"},
		{N: "word/document.xml", K: "main", Via: "override"}, {N: dr, K: "rels"},
		{N: "word/styles.xml", K: "styles", Via: "override"},
		{N: "word/theme/theme1.xml", K: "theme", Via: "override"},
		{N: "word/header2.xml", K: "header", Via: "override"}, {N: hr, K: "rels"},
		{N: "word/media/image2.png", K: "media", Via: "default"},
		{N: "word/media/orphan.png", K: "media", Via: "default"},
		{N: "docProps/core.xml", K: "docProps-core", Via: "override"},
	}
	for _, p := range m.Parts {
		m.byName[p.N] = p
	}
	m.Rels = []fgnRel{
		{Src: "_rels/.rels", ID: "rId1", Ty: "od/officeDocument", Tg: "word/document.xml"},
		{Src: "_rels/.rels", ID: "rId2", Ty: "pk/metadata/core-properties", Tg: "docProps/core.xml"},
		{Src: dr, ID: "rId1", Ty: "od/styles", Tg: "styles.xml"},
		{Src: dr, ID: "rId2", Ty: "od/theme", Tg: "theme/theme1.xml"},
		{Src: dr, ID: "rId3", Ty: "od/header", Tg: "header2.xml"},
		{Src: hr, ID: "rId1", Ty: "od/image", Tg: "media/image2.png"},
		{Src: hr, ID: "rId2", Ty: "od/hyperlink", Tg: "https://example.org/", Mode: "External"},
	}
	return fgnSynth(m)
}
