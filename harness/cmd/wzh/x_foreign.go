package main

// Executor + projector for spec module Foreign (property C04): open a package written by
// "another application" (synthesised by x_foreign_synth.go from the TLA+ shape), apply the
// edit sequence through the public API, save, and project both packages with the independent
// reader. No comparison of the two packages happens here: Foreign_Trace.tla judges.

import (
	"bytes"
	"crypto/sha256"
	"encoding/hex"
	"fmt"
	"io"
	"os"
	"path/filepath"
	"regexp"
	"sort"
	"strings"

	"github.com/zerx-lab/wordZero/pkg/document"
)

func init() { register("foreign", runForeign) }

var fgnTokRe = regexp.MustCompile(`qT[0-9]+x[0-9]+y[0-9]+q`)

// fgnProject turns package bytes into the abstract observation:
// parts (name, hash, content type), every relationship of every .rels part (with mode and
// resolved target), and the tokens carried by w:t elements at any depth of the main body.
func fgnProject(b []byte) map[string]interface{} {
	parts := []map[string]interface{}{}
	rels := []map[string]interface{}{}
	toks := []string{}
	obs := map[string]interface{}{"zip": "ok", "body": "ok"}
	finish := func() map[string]interface{} {
		obs["parts"], obs["rels"], obs["toks"], obs["mem"] = parts, rels, toks, []string{}
		return obs
	}
	if b == nil {
		obs["zip"], obs["body"] = "none", "none"
		return finish()
	}
	p := ReadPkg(b)
	if p.ZipErr != "" {
		obs["zip"], obs["body"] = "zip-error", "none"
		return finish()
	}
	for _, n := range p.SortedNames() {
		if strings.HasSuffix(n, "/") { // a directory placeholder of the archive, not a part (OPC part names never end in "/")
			continue
		}
		sum := sha256.Sum256(p.Parts[n])
		parts = append(parts, map[string]interface{}{"n": n, "h": hex.EncodeToString(sum[:8]), "ct": p.ContentType(n)})
	}
	var relNames []string
	for n := range p.Rels {
		relNames = append(relNames, n)
	}
	sort.Strings(relNames)
	ix := 0
	for _, n := range relNames {
		src := SourceOfRels(n)
		for _, r := range p.Rels[n] {
			ix++
			mode, rt := "Internal", ""
			if strings.EqualFold(r.Mode, "External") {
				mode = "External"
			} else {
				rt = ResolveTarget(src, r.Target)
			}
			rels = append(rels, map[string]interface{}{"src": n, "id": r.ID, "ty": fgnTypeTok(r.Type), "tg": r.Target, "rt": rt, "mode": mode, "ix": ix})
		}
	}
	if len(p.RelsErr) > 0 {
		obs["zip"] = "rels-ill-formed"
	}
	if p.CTErr != "" {
		obs["zip"] = "content-types-" + map[bool]string{true: "missing", false: "ill-formed"}[p.CTErr == "missing"]
	}
	body, err := p.MainBody()
	switch {
	case err != nil && strings.Contains(err.Error(), "missing"):
		obs["body"] = "missing"
	case err != nil:
		obs["body"] = "ill-formed"
	default:
		toks = append(toks, fgnTokRe.FindAllString(body.WText(), -1)...)
	}
	return finish()
}

// fgnMemToks projects the document in memory: the tokens carried by the text of runs of body
// paragraphs and of table cells at any depth (the library's own model, read through its fields).
func fgnMemToks(d *document.Document) []string {
	toks := []string{}
	if d == nil || d.Body == nil {
		return toks
	}
	var para func(p *document.Paragraph)
	var table func(t *document.Table)
	para = func(p *document.Paragraph) {
		for i := range p.Runs {
			toks = append(toks, fgnTokRe.FindAllString(p.Runs[i].Text.Content, -1)...)
		}
	}
	table = func(t *document.Table) {
		for ri := range t.Rows {
			for ci := range t.Rows[ri].Cells {
				c := &t.Rows[ri].Cells[ci]
				for pi := range c.Paragraphs {
					para(&c.Paragraphs[pi])
				}
				for ti := range c.Tables {
					table(&c.Tables[ti])
				}
			}
		}
	}
	for _, e := range d.Body.Elements {
		switch x := e.(type) {
		case *document.Paragraph:
			para(x)
		case document.Paragraph:
			para(&x)
		case *document.Table:
			table(x)
		case document.Table:
			table(&x)
		}
	}
	return toks
}

type fgnCtx struct {
	doc *document.Document
	tmp string
}

func fgnHdrType(t string) document.HeaderFooterType {
	switch t {
	case "first":
		return document.HeaderFooterTypeFirst
	case "even":
		return document.HeaderFooterTypeEven
	}
	return document.HeaderFooterTypeDefault
}

// fgnEdit maps one abstract edit to API calls.
func (c *fgnCtx) edit(op Op, i int) string {
	d := c.doc
	tok := fmt.Sprintf("qE%dq", i)
	switch op.Name() {
	case "AddParagraph":
		d.AddParagraph(tok)
	case "AddHeading":
		d.AddHeadingParagraph(tok, 1)
	case "AddFormattedParagraph":
		d.AddFormattedParagraph(tok, &document.TextFormat{Bold: true, FontSize: 14})
	case "AddPageBreak":
		d.AddPageBreak()
	case "AddImage":
		name := "pic"
		if op.Str("fn") == "ext" {
			name = "pic.png"
		}
		if op.Str("fmt") == "jpeg" {
			if op.Str("fn") == "ext" {
				name = "pic.jpg"
			}
			_, err := d.AddImageFromData(tinyJPEGSize(i+1, 2, 2), name, document.ImageFormatJPEG, 2, 2, nil)
			return errRet(err)
		}
		_, err := d.AddImageFromData(tinyPNG(i+1), name, document.ImageFormatPNG, 2, 2, nil)
		return errRet(err)
	case "AddHeader":
		return errRet(d.AddHeader(fgnHdrType(op.Str("t")), "qH"+tok))
	case "AddFooter":
		return errRet(d.AddFooter(fgnHdrType(op.Str("t")), "qF"+tok))
	case "AddListItem":
		d.AddListItem(tok, nil)
	case "AddFootnote":
		return errRet(d.AddFootnote(tok, "note "+tok))
	case "AddEndnote":
		return errRet(d.AddEndnote(tok, "note "+tok))
	case "SetFootnoteConfig":
		return errRet(d.SetFootnoteConfig(document.DefaultFootnoteConfig()))
	case "SetTitle":
		return errRet(d.SetTitle("title " + tok))
	case "SetAuthor":
		return errRet(d.SetAuthor("author " + tok))
	case "SetSubject":
		return errRet(d.SetSubject("subject " + tok))
	case "SetKeywords":
		return errRet(d.SetKeywords("kw1, " + tok))
	case "SetDescription":
		return errRet(d.SetDescription("description " + tok))
	case "SetCategory":
		return errRet(d.SetCategory("category " + tok))
	case "UpdateStatistics":
		return errRet(d.UpdateStatistics())
	case "SetDocumentProperties":
		return errRet(d.SetDocumentProperties(&document.DocumentProperties{Title: "title " + tok, Creator: "creator " + tok, Keywords: tok}))
	case "GetDocumentProperties":
		_, err := d.GetDocumentProperties()
		return errRet(err)
	case "SetPageMargins":
		return errRet(d.SetPageMargins(20, 20, 20, 20))
	case "AddTable":
		t, err := d.AddTable(&document.TableConfig{Rows: 1, Cols: 1, Width: 4000})
		if err != nil {
			return "err"
		}
		t.SetCellText(0, 0, tok)
	case "RemoveParagraphAt":
		return boolRet(d.RemoveParagraphAt(op.Int("i")))
	case "Save":
		_, err := d.ToBytes()
		return errRet(err)
	case "SaveFile":
		return errRet(d.Save(filepath.Join(c.tmp, "mid.docx")))
	case "Reopen":
		b, err := d.ToBytes()
		if err != nil {
			return "err"
		}
		nd, err := document.OpenFromMemory(io.NopCloser(bytes.NewReader(b)))
		if err != nil {
			return "err"
		}
		c.doc = nd
	case "Render":
		te := document.NewTemplateEngine()
		if _, err := te.LoadTemplateFromDocument("t", d); err != nil {
			return "err"
		}
		nd, err := te.RenderTemplateToDocument("t", document.NewTemplateData())
		if err != nil {
			return "err"
		}
		c.doc = nd
	default:
		return "unknown-op"
	}
	return "ok"
}

// fgnReplay opens the foreign bytes afresh, applies steps[1..upto] and saves.
// It returns the return value of the last step, how far the pipeline got, and the saved bytes.
func fgnReplay(foreign []byte, steps []Op, upto int, viaFile bool, tmp string) (ret, pmsg, sv string, out []byte, np int, mem []string) {
	document.VerifResetGlobals()
	c := &fgnCtx{tmp: tmp}
	sv = "ok"
	ret, pmsg = guard(func() string {
		d, err := document.OpenFromMemory(io.NopCloser(bytes.NewReader(foreign)))
		if err != nil {
			return "err"
		}
		c.doc = d
		return "ok"
	})
	if ret != "ok" {
		return ret, pmsg, "open-" + ret, nil, 0, nil
	}
	for i := 1; i <= upto; i++ {
		ret, pmsg = guard(func() string { return c.edit(steps[i], i) })
		if ret == "panic" {
			return ret, pmsg, "edit-panic", nil, 0, nil
		}
		if ret == "unknown-op" {
			fmt.Fprintln(os.Stderr, "foreign: unknown op", steps[i].Name())
			os.Exit(2)
		}
	}
	sret, spmsg := guard(func() string {
		if viaFile {
			f := filepath.Join(tmp, "out.docx")
			if err := c.doc.Save(f); err != nil {
				return "err"
			}
			b, err := os.ReadFile(f)
			if err != nil {
				fmt.Fprintln(os.Stderr, "foreign: cannot read back", f, err)
				os.Exit(2)
			}
			out = b
			return "ok"
		}
		b, err := c.doc.ToBytes()
		if err != nil {
			return "err"
		}
		out = b
		return "ok"
	})
	if sret != "ok" {
		if pmsg == "" {
			pmsg = spmsg
		}
		return ret, pmsg, "save-" + sret, nil, 0, nil
	}
	if c.doc != nil && c.doc.Body != nil {
		np = len(c.doc.Body.GetParagraphs())
	}
	mret, _ := guard(func() string { mem = fgnMemToks(c.doc); return "ok" })
	if mret != "ok" {
		mem = []string{}
	}
	return ret, pmsg, "ok", out, np, mem
}

func runForeign(c Case, emit Emitter) {
	emit(Ev{"ev": "reset", "case": c.ID})
	if len(c.Steps) == 0 || c.Steps[0].Name() != "Open" {
		fmt.Fprintln(os.Stderr, "foreign: case does not start with Open")
		os.Exit(2)
	}
	model, err := fgnDecodeModel(c.Steps[0]["pkg"])
	if err != nil {
		fmt.Fprintln(os.Stderr, "foreign:", err)
		os.Exit(2)
	}
	foreign, err := fgnSynth(model)
	if err != nil {
		fmt.Fprintln(os.Stderr, "foreign: synthesis failed:", err)
		os.Exit(2)
	}
	if dir := os.Getenv("WZ_FGN_DUMP"); dir != "" {
		os.WriteFile(filepath.Join(dir, fmt.Sprintf("case%d.docx", c.ID)), foreign, 0o644)
	}
	tmp, err := os.MkdirTemp("", "wzh-fgn")
	if err != nil {
		fmt.Fprintln(os.Stderr, "foreign:", err)
		os.Exit(2)
	}
	defer os.RemoveAll(tmp)
	orig := fgnProject(foreign)
	empty := fgnProject(nil)
	viaFile := c.ID%2 == 0
	for i, op := range c.Steps {
		ret, pmsg, sv, out, np, mem := fgnReplay(foreign, c.Steps, i, viaFile, tmp)
		ev := Ev{"ev": "step", "case": c.ID, "i": i, "op": op, "ret": ret, "pmsg": pmsg, "sv": sv, "np": np}
		if i == 0 {
			ev["orig"] = orig
		} else {
			ev["orig"] = empty
		}
		pkg := fgnProject(out)
		if mem != nil {
			pkg["mem"] = mem
		}
		ev["pkg"] = pkg
		if dir := os.Getenv("WZ_FGN_DUMP"); dir != "" && out != nil {
			os.WriteFile(filepath.Join(dir, fmt.Sprintf("case%d.step%d.docx", c.ID, i)), out, 0o644)
		}
		emit(ev)
	}
}
