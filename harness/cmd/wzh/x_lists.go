package main

// Executor for spec module Lists (property C15: lists, notes and tables of contents reflect
// exactly the calls made). One behaviour = a sequence of operations on one or two documents that
// are alive in the same process. After every step the view of EVERY document is logged: the saved
// package through the independent reader (opc_lists.go) and the public accessors
// (GetFootnoteCount, GetEndnoteCount, ListHeadings, GetHeadingCount). No oracle logic here.

import (
	"bytes"
	"fmt"
	"io"
	"os"
	"regexp"

	"github.com/zerx-lab/wordZero/pkg/document"
)

func init() { register("lists", runLists) }

var (
	lstMarker = regexp.MustCompile(`\[(?:尾注)?(-?\d+)\]$`)
)

type lstCtx struct {
	docs  []*document.Document
	aux   *document.Document // owner of "foreign" runs
	views []lstObj           // last logged view of every document
	goneF [][]string         // footnote ids removed from each document
	goneE [][]string
}

func lstIsHeading(p *document.Paragraph) bool {
	return p.Properties != nil && p.Properties.ParagraphStyle != nil && lstHeadingStyle.MatchString(p.Properties.ParagraphStyle.Val)
}

func lstIsListItem(p *document.Paragraph) bool {
	return p.Properties != nil && p.Properties.NumberingProperties != nil
}

// lstNth returns the k-th (1-based) paragraph of the body that satisfies is, or a paragraph that is
// not part of any document.
func lstNth(d *document.Document, k int, is func(*document.Paragraph) bool) *document.Paragraph {
	n := 0
	for _, el := range d.Body.Elements {
		if p, ok := el.(*document.Paragraph); ok && is(p) {
			n++
			if n == k {
				return p
			}
		}
	}
	return &document.Paragraph{}
}

func lstNumIDs(d *document.Document) []string {
	var out []string
	for _, el := range d.Body.Elements {
		if p, ok := el.(*document.Paragraph); ok && lstIsListItem(p) && p.Properties.NumberingProperties.NumID != nil {
			out = append(out, p.Properties.NumberingProperties.NumID.Val)
		}
	}
	return out
}

// lstLastMarker reads the id the library put into the reference marker "[n]" at the end of txt.
func lstLastMarker(txt string) string {
	if m := lstMarker.FindStringSubmatch(txt); m != nil {
		return m[1]
	}
	return "?"
}

func lstLastParaMarker(d *document.Document) string {
	if n := len(d.Body.Elements); n > 0 {
		if p, ok := d.Body.Elements[n-1].(*document.Paragraph); ok && len(p.Runs) > 0 {
			return lstLastMarker(p.Runs[len(p.Runs)-1].Text.Content)
		}
	}
	return "?"
}

func lstTOCConfig(op Op) *document.TOCConfig {
	if op.Bool("nil") {
		return nil
	}
	cfg := document.DefaultTOCConfig()
	cfg.Title = "TOC"
	cfg.MaxLevel = op.Int("ml")
	return cfg
}

func lstListConfig(o Op) *document.ListConfig {
	return &document.ListConfig{
		Type:         document.ListType(o.Str("type")),
		BulletSymbol: document.BulletType(lstSymbols[o.Str("sym")]),
		StartNumber:  o.Int("start"),
		IndentLevel:  o.Int("lvl"),
	}
}

func (c *lstCtx) view(i int) lstObj {
	d := c.docs[i]
	v := lstEmptyView("ok")
	if ret, _ := guard(func() string {
		v["fnc"] = d.GetFootnoteCount()
		v["enc"] = d.GetEndnoteCount()
		lh := []lstObj{}
		for _, h := range d.ListHeadings() {
			lh = append(lh, lstObj{"lvl": h.Level, "text": h.Text})
		}
		v["lheads"] = lh
		cnt := []int{0, 0, 0, 0, 0, 0, 0, 0, 0}
		for l, n := range d.GetHeadingCount() {
			if l >= 1 && l <= 9 {
				cnt[l-1] = n
			}
		}
		v["hcnt"] = cnt
		return "ok"
	}); ret != "ok" {
		v["sv"] = "accessor-panic"
		return v
	}
	if ret, _ := guard(func() string {
		b, err := d.ToBytes()
		if err != nil {
			return "err"
		}
		lstProject(b, v)
		return "ok"
	}); ret != "ok" {
		v["sv"] = "save-" + ret
	}
	return v
}

// noteRef resolves the reference class of a removal to the id string handed to the library.
func (c *lstCtx) noteRef(op Op, di int, foot bool) string {
	part, gone := "en", c.goneE
	if foot {
		part, gone = "fn", c.goneF
	}
	ids := func(i int) []string {
		var out []string
		if l, ok := c.views[i][part].([]lstObj); ok {
			for _, n := range l {
				out = append(out, n["id"].(string))
			}
		}
		return out
	}
	switch op.Str("ref") {
	case "kth":
		if own, k := ids(di), op.Int("k"); k >= 1 && k <= len(own) {
			return own[k-1]
		}
		return "999"
	case "gone":
		if len(gone[di]) > 0 {
			return gone[di][0]
		}
		return "998"
	case "other":
		if len(c.docs) > 1 {
			if o := ids(1 - di); len(o) > 0 {
				return o[0]
			}
		}
		return "997"
	case "sep":
		return "-1"
	case "empty":
		return ""
	}
	return "999"
}

func runLists(cs Case, emit Emitter) {
	document.VerifResetGlobals()
	nd := 1
	for _, op := range cs.Steps {
		if op.Int("d") > nd {
			nd = op.Int("d")
		}
	}
	c := &lstCtx{aux: document.New()}
	for i := 0; i < nd; i++ {
		c.docs = append(c.docs, document.New())
		c.views = append(c.views, lstEmptyView("ok"))
		c.goneF = append(c.goneF, nil)
		c.goneE = append(c.goneE, nil)
	}
	emit(Ev{"ev": "reset", "case": cs.ID, "nd": nd})
	for i, op := range cs.Steps {
		di := op.Int("d") - 1
		if di < 0 || di >= nd {
			di = 0
		}
		d := c.docs[di]
		id := ""
		toks := []string{}
		tok := func(j int) string {
			t := fmt.Sprintf("L%d.%d", i, j)
			toks = append(toks, t)
			return t
		}
		ret, pmsg := guard(func() string {
			switch op.Name() {
			case "AddListItem":
				d.AddListItem(tok(0), lstListConfig(op))
			case "AddListItemNil":
				d.AddListItem(tok(0), nil)
			case "AddBulletList":
				d.AddBulletList(tok(0), op.Int("lvl"), document.BulletType(lstSymbols[op.Str("sym")]))
			case "AddNumberedList":
				d.AddNumberedList(tok(0), op.Int("lvl"), document.ListType(op.Str("type")))
			case "CreateMultiLevelList":
				var items []document.ListItem
				if raw, ok := op["items"].([]interface{}); ok {
					for j, r := range raw {
						m, _ := r.(map[string]interface{})
						cfg := lstListConfig(Op(m))
						items = append(items, document.ListItem{Text: tok(j), Level: cfg.IndentLevel, Type: cfg.Type,
							BulletSymbol: cfg.BulletSymbol, StartNumber: cfg.StartNumber})
					}
				}
				return errRet(d.CreateMultiLevelList(items))
			case "RestartNumbering":
				ref := "999"
				own := lstNumIDs(d)
				switch op.Str("ref") {
				case "first":
					if len(own) > 0 {
						ref = own[0]
					}
				case "last":
					if len(own) > 0 {
						ref = own[len(own)-1]
					}
				case "other":
					if nd > 1 {
						if o := lstNumIDs(c.docs[1-di]); len(o) > 0 {
							ref = o[0]
						}
					}
				}
				d.RestartNumbering(ref)
			case "RemoveListItem":
				return boolRet(d.RemoveParagraph(lstNth(d, op.Int("k"), lstIsListItem)))
			case "AddFootnote":
				err := d.AddFootnote(fmt.Sprintf("N%d", i), op.Str("text"))
				id = lstLastParaMarker(d)
				return errRet(err)
			case "AddEndnote":
				err := d.AddEndnote(fmt.Sprintf("N%d", i), op.Str("text"))
				id = lstLastParaMarker(d)
				return errRet(err)
			case "AddFootnoteToRun":
				var run *document.Run
				switch op.Str("run") {
				case "para":
					// a run of a plain paragraph of this document (created here if there is none)
					p := lstNth(d, 1, func(p *document.Paragraph) bool { return !lstIsHeading(p) && !lstIsListItem(p) && len(p.Runs) > 0 })
					if len(p.Runs) == 0 {
						p = d.AddParagraph(fmt.Sprintf("P%d", i))
					}
					run = &p.Runs[len(p.Runs)-1]
				case "foreign":
					p := c.aux.AddParagraph(fmt.Sprintf("X%d", i))
					run = &p.Runs[0]
				case "heading":
					// the text run of the first heading (none: a run outside any document)
					if p := lstNth(d, 1, lstIsHeading); len(p.Runs) > 0 {
						run = &p.Runs[len(p.Runs)-1]
					} else {
						run = &document.Run{}
					}
				default:
					run = &document.Run{}
				}
				err := d.AddFootnoteToRun(run, op.Str("text"))
				id = lstLastMarker(run.Text.Content)
				return errRet(err)
			case "RemoveFootnote":
				id = c.noteRef(op, di, true)
				err := d.RemoveFootnote(id)
				if err == nil {
					c.goneF[di] = append(c.goneF[di], id)
				}
				return errRet(err)
			case "RemoveEndnote":
				id = c.noteRef(op, di, false)
				err := d.RemoveEndnote(id)
				if err == nil {
					c.goneE[di] = append(c.goneE[di], id)
				}
				return errRet(err)
			case "SetFootnoteConfig":
				if op.Bool("nil") {
					return errRet(d.SetFootnoteConfig(nil))
				}
				return errRet(d.SetFootnoteConfig(&document.FootnoteConfig{
					NumberFormat: document.FootnoteNumberFormat(op.Str("fmt")),
					StartNumber:  op.Int("start"),
					RestartEach:  document.FootnoteRestart(op.Str("restart")),
					Position:     document.FootnotePosition(op.Str("pos")),
				}))
			case "AddHeading":
				switch op.Str("api") {
				case "parabm":
					d.AddHeadingParagraphWithBookmark(op.Str("text"), op.Int("lvl"), fmt.Sprintf("bm_%d", i))
				case "tocbm":
					d.AddHeadingWithBookmark(op.Str("text"), op.Int("lvl"), fmt.Sprintf("hb_%d", i))
				default:
					d.AddHeadingParagraph(op.Str("text"), op.Int("lvl"))
				}
			case "AddStyledParagraph":
				d.AddParagraph(op.Str("text")).SetStyle(op.Str("style"))
			case "RemoveHeading":
				return boolRet(d.RemoveParagraph(lstNth(d, op.Int("k"), lstIsHeading)))
			case "GenerateTOC":
				return errRet(d.GenerateTOC(lstTOCConfig(op)))
			case "AutoGenerateTOC":
				return errRet(d.AutoGenerateTOC(lstTOCConfig(op)))
			case "UpdateTOC":
				return errRet(d.UpdateTOC())
			case "SetTOCStyle":
				return errRet(d.SetTOCStyle(op.Int("lvl"), &document.TextFormat{Bold: true}))
			case "BuildTOCSDT":
				s := d.CreateTOCSDT("T", 3)
				s.AddTOCEntry("x", 1, 1, "1474600")
				s.FinalizeTOCSDT()
			case "Reopen":
				var nd *document.Document
				if op.Bool("file") {
					name := fmt.Sprintf("lst_%d_c%d_%d.docx", os.Getpid(), cs.ID, i) // in the run's scratch directory (cwd)
					if err := d.Save(name); err != nil {
						return "err"
					}
					if op.Bool("fresh") {
						document.VerifResetGlobals()
					}
					o, err := document.Open(name)
					os.Remove(name)
					if err != nil {
						return "err"
					}
					nd = o
				} else {
					b, err := d.ToBytes()
					if err != nil {
						return "err"
					}
					if op.Bool("fresh") {
						// what a new process would start with
						document.VerifResetGlobals()
					}
					o, err := document.OpenFromMemory(io.NopCloser(bytes.NewReader(b)))
					if err != nil {
						return "err"
					}
					nd = o
				}
				c.docs[di] = nd
			default:
				return "unknown-op"
			}
			return "ok"
		})
		for j := range c.docs {
			c.views[j] = c.view(j)
		}
		emit(Ev{"ev": "step", "case": cs.ID, "i": i, "op": op, "ret": ret, "pmsg": pmsg,
			"ch": lstObj{"id": id, "toks": toks}, "docs": c.views})
	}
}
