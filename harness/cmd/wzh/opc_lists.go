package main

// Projection of a saved package to the per-document view of spec module Lists (property C15),
// on top of the shared independent reader (opc.go). No oracle logic: references are followed
// (list paragraph -> w:num -> w:abstractNum -> w:lvl), values are abstracted to the tokens the
// specification uses, nothing is compared here.

import (
	"regexp"
	"sort"
	"strconv"
	"strings"
)

// concrete bullet symbols <-> abstract symbol tokens of Lists.tla
var lstSymbols = map[string]string{
	"dot":    "•",
	"circle": "○",
	"square": "■",
	"dash":   "–",
	"arrow":  "→",
	"custom": "★",
	"empty":  "",
}

func lstSymTok(concrete string) string {
	for tok, c := range lstSymbols {
		if c == concrete {
			return tok
		}
	}
	return "raw:" + concrete
}

var (
	lstHeadingStyle = regexp.MustCompile(`^Heading([1-9])$`)
	lstTocAnchor    = regexp.MustCompile(`^_Toc\d+$`)
)

func lstAtoi(s string, def int) int {
	n, err := strconv.Atoi(strings.TrimSpace(s))
	if err != nil {
		return def
	}
	return n
}

type lstObj = map[string]interface{}

func lstEmptyCfg() lstObj { return lstObj{"fmt": "", "start": "", "restart": "", "pos": ""} }

// lstEmptyView is the view of a document nothing could be read from.
func lstEmptyView(sv string) lstObj {
	return lstObj{"items": []lstObj{}, "fn": []lstObj{}, "en": []lstObj{}, "fnc": 0, "enc": 0,
		"cfgf": lstEmptyCfg(), "cfge": lstEmptyCfg(), "heads": []lstObj{}, "lheads": []lstObj{},
		"hcnt": []int{0, 0, 0, 0, 0, 0, 0, 0, 0}, "tocs": []lstObj{}, "sv": sv}
}

func lstNotes(p *Pkg, part, elem string) ([]lstObj, string) {
	out := []lstObj{}
	data, ok := p.Parts[part]
	if !ok {
		return out, ""
	}
	root, err := ParseXML(data)
	if err != nil {
		return out, "xml:" + part
	}
	for _, n := range root.Children(elem) {
		if n.A("type") != "" { // separator / continuationSeparator notes are not notes of the caller
			continue
		}
		out = append(out, lstObj{"id": n.A("id"), "text": n.WText()})
	}
	sort.SliceStable(out, func(i, j int) bool {
		a, b := out[i]["id"].(string), out[j]["id"].(string)
		ai, bi := lstAtoi(a, 1<<30), lstAtoi(b, 1<<30)
		if ai != bi {
			return ai < bi
		}
		if a != b {
			return a < b
		}
		return out[i]["text"].(string) < out[j]["text"].(string)
	})
	return out, ""
}

func lstNoteCfg(root *Node, elem string) lstObj {
	c := lstEmptyCfg()
	pr := root.Child(elem)
	if pr == nil {
		return c
	}
	c["fmt"] = pr.Child("numFmt").A("val")
	c["start"] = pr.Child("numStart").A("val")
	c["restart"] = pr.Child("numRestart").A("val")
	c["pos"] = pr.Child("pos").A("val")
	return c
}

// lstTocEntries reads the entries of one table-of-contents content control: every entry paragraph
// (style 13..21 = TOC 1..9) with the entry text, which is either the nested placeholder control in
// front of it or the first text run of the paragraph itself.
func lstTocEntries(sdt *Node) []lstObj {
	ents := []lstObj{}
	content := sdt.Child("sdtContent")
	if content == nil {
		return ents
	}
	pending, have := "", false
	for _, c := range content.Kids {
		switch c.Local {
		case "sdt":
			pending, have = c.WText(), true
		case "p":
			n := lstAtoi(c.Path("pPr", "pStyle").A("val"), 0)
			if n >= 13 && n <= 21 {
				text := pending
				if !have {
					if ts := c.Desc("t"); len(ts) > 0 {
						text = ts[0].Text
					}
				}
				ents = append(ents, lstObj{"lvl": n - 12, "text": text})
			}
			pending, have = "", false
		}
	}
	return ents
}

// lstProject fills the saved-package side of the view.
func lstProject(b []byte, v lstObj) {
	p := ReadPkg(b)
	if p.ZipErr != "" {
		v["sv"] = "zip"
		return
	}
	body, err := p.MainBody()
	if err != nil {
		v["sv"] = "xml:document"
		return
	}
	// numbering definitions
	nums := map[string]string{}
	abss := map[string]*Node{}
	if data, ok := p.Parts["word/numbering.xml"]; ok {
		root, err := ParseXML(data)
		if err != nil {
			v["sv"] = "xml:numbering"
			return
		}
		for _, n := range root.Children("num") {
			id := n.A("numId")
			if _, dup := nums[id]; !dup {
				nums[id] = n.Child("abstractNumId").A("val")
			}
		}
		for _, a := range root.Children("abstractNum") {
			id := a.A("abstractNumId")
			if _, dup := abss[id]; !dup {
				abss[id] = a
			}
		}
	}
	items := []lstObj{}
	heads := []lstObj{}
	tocs := []lstObj{}
	for i, k := range body.Kids {
		switch k.Local {
		case "p":
			if numPr := k.Path("pPr", "numPr"); numPr != nil {
				ilvl := lstAtoi(numPr.Child("ilvl").A("val"), 0)
				num := numPr.Child("numId").A("val")
				it := lstObj{"tok": k.WText(), "num": num, "abs": "?", "ilvl": ilvl, "ok": false, "fmt": "", "sym": "", "start": -1}
				if abs, ok := nums[num]; ok {
					it["abs"] = abs
					if a := abss[abs]; a != nil {
						for _, l := range a.Children("lvl") {
							if l.A("ilvl") == strconv.Itoa(ilvl) {
								it["ok"] = true
								it["fmt"] = l.Child("numFmt").A("val")
								it["sym"] = lstSymTok(l.Child("lvlText").A("val"))
								it["start"] = lstAtoi(l.Child("start").A("val"), -1)
								break
							}
						}
					}
				}
				items = append(items, it)
			}
			if m := lstHeadingStyle.FindStringSubmatch(k.Path("pPr", "pStyle").A("val")); m != nil {
				nb, ta := 0, false
				for j := i - 1; j >= 0 && body.Kids[j].Local == "bookmarkStart"; j-- {
					nb++
					if lstTocAnchor.MatchString(body.Kids[j].A("name")) {
						ta = true
					}
				}
				heads = append(heads, lstObj{"lvl": lstAtoi(m[1], 0), "text": k.WText(), "nb": nb, "ta": ta})
			}
		case "sdt":
			if k.Path("sdtPr", "docPartObj", "docPartGallery").A("val") == "Table of Contents" {
				tocs = append(tocs, lstObj{"ents": lstTocEntries(k)})
			}
		}
	}
	v["items"], v["heads"], v["tocs"] = items, heads, tocs
	var bad string
	if v["fn"], bad = lstNotes(p, "word/footnotes.xml", "footnote"); bad != "" {
		v["sv"] = bad
		return
	}
	if v["en"], bad = lstNotes(p, "word/endnotes.xml", "endnote"); bad != "" {
		v["sv"] = bad
		return
	}
	if data, ok := p.Parts["word/settings.xml"]; ok {
		root, err := ParseXML(data)
		if err != nil {
			v["sv"] = "xml:settings"
			return
		}
		v["cfgf"] = lstNoteCfg(root, "footnotePr")
		v["cfge"] = lstNoteCfg(root, "endnotePr")
	}
}
