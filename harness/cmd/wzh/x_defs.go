package main

// Executor + projector for spec module Defs (property C13: everything a document refers to
// by id is defined in the same package). No oracle logic here: the executor maps abstract
// operations to API calls; the projectors turn (a) the in-memory document and (b) the bytes
// it saves into the abstract state that spec/Defs_Trace.tla judges.

import (
	"bytes"
	"encoding/xml"
	"fmt"
	"io"
	"os"
	"path/filepath"
	"strconv"
	"strings"

	"github.com/zerx-lab/wordZero/pkg/document"
	"github.com/zerx-lab/wordZero/pkg/markdown"
	"github.com/zerx-lab/wordZero/pkg/style"
)

func init() { register("defs", runDefs) }

// version token <-> concrete font size (half points) of a style
var defsSz = map[string]string{"v1": "202", "v2": "204", "v3": "206"}
var defsPt = map[string]int{"v1": 101, "v2": 102, "v3": 103}

func defsVerOfSz(sz string) string {
	for v, s := range defsSz {
		if s == sz {
			return v
		}
	}
	return "base"
}

func defsStyleType(id string) style.StyleType {
	if id == "TS1" || id == "FT1" {
		return style.StyleTypeTable
	}
	return style.StyleTypeParagraph
}

// ---------------------------------------------------------------- in-memory projection

// defsBasedIds: the style ids the behaviour being executed adds through the style API; the projections
// report what these styles are based on (in memory and in the saved styles part).
var defsBasedIds = map[string]bool{}

type defsMemObs struct {
	reg    []string
	ver    []map[string]interface{}
	based  []map[string]interface{}
	mrefs  []string
	mnums  []int
	mnotes []map[string]interface{}
	nsdt   int
}

// defsMem projects the in-memory document. A plain save does not touch the body, so the body part of
// the previous projection (prev) is reused for it; the registry is always read afresh.
func defsMem(d *document.Document, prev *defsMemObs) defsMemObs {
	o := defsMemObs{reg: []string{}, ver: []map[string]interface{}{}, based: []map[string]interface{}{}, mrefs: []string{}, mnums: []int{}, mnotes: []map[string]interface{}{}}
	if d == nil {
		return o
	}
	if sm := d.GetStyleManager(); sm != nil {
		for _, st := range sm.GetAllStyles() {
			o.reg = append(o.reg, st.StyleID)
			if st.RunPr != nil && st.RunPr.FontSize != nil {
				if v := defsVerOfSz(st.RunPr.FontSize.Val); v != "base" {
					o.ver = append(o.ver, map[string]interface{}{"id": st.StyleID, "v": v})
				}
			}
			if defsBasedIds[st.StyleID] && st.BasedOn != nil && st.BasedOn.Val != "" {
				o.based = append(o.based, map[string]interface{}{"id": st.StyleID, "on": st.BasedOn.Val})
			}
		}
	}
	if prev != nil {
		o.mrefs, o.mnums, o.mnotes, o.nsdt = prev.mrefs, prev.mnums, prev.mnotes, prev.nsdt
	} else if d.Body != nil {
		for _, el := range d.Body.Elements {
			if _, ok := el.(*document.SDT); ok {
				o.nsdt++
			}
		}
		if data, err := xml.Marshal(d.Body); err == nil {
			if root, err := ParseXML(data); err == nil {
				refs, nums, notes := defsRefsOf(root)
				for _, r := range refs {
					o.mrefs = append(o.mrefs, r)
				}
				o.mnums = append(o.mnums, nums...)
				o.mnotes = append(o.mnotes, notes...)
			}
		}
	}
	return o
}

// defsWorld: the documents alive in the process. Operations act on doc; "Switch" exchanges the two
// (the other document is a new one the first time).
type defsWorld struct {
	doc, alt *document.Document
}

// defsNoteText: note texts of different lengths (the step index decides), so that the notes parts of two
// documents with the same number of notes still differ in size.
func defsNoteText(tok string, i int) string {
	return "text of " + tok + strings.Repeat(" more", i%4)
}

func runDefsStep(w *defsWorld, op Op, i int) string {
	tok := fmt.Sprintf("T%d", i)
	doc := w.doc
	d := &w.doc
	// the style manager is only fetched by the operations that need it (a caller that never touches
	// styles never calls GetStyleManager)
	var sm *style.StyleManager
	switch op.Name() {
	case "AddStyle", "ModifyStyle", "RemoveStyle":
		sm = doc.GetStyleManager()
	}
	switch op.Name() {
	case "Switch":
		if w.alt == nil {
			w.alt = document.New()
		}
		w.doc, w.alt = w.alt, w.doc
	case "Look":
		switch op.Str("what") {
		case "body":
			if doc.Body != nil {
				_ = doc.Body.GetParagraphs()
				_ = doc.Body.GetTables()
			}
			_ = doc.ListHeadings()
			_ = doc.GetHeadingCount()
			_ = doc.GetFootnoteCount()
			_ = doc.GetEndnoteCount()
		case "parts":
			n := 0
			for _, b := range doc.GetParts() {
				n += len(b)
			}
			_ = n
		default:
			m := doc.GetStyleManager()
			_ = m.GetAllStyles()
			_ = m.StyleExists("Heading1")
			_ = m.GetStyleWithInheritance("Heading2")
			_ = m.GetHeadingStyles()
		}
	case "AddParagraph":
		doc.AddParagraph(tok)
	case "AddHeader":
		return errRet(doc.AddHeader(document.HeaderFooterTypeDefault, "H"+tok))
	case "AddFooter":
		return errRet(doc.AddFooter(document.HeaderFooterTypeDefault, "F"+tok))
	case "AddTable":
		if _, err := doc.AddTable(&document.TableConfig{Rows: 1, Cols: 2, Width: 4000}); err != nil {
			return "err"
		}
	case "AddHeading":
		l := op.Int("l")
		switch (int(seed) + i) % 3 {
		case 0:
			doc.AddHeadingParagraph("H"+tok, l)
		case 1:
			doc.AddHeadingParagraphWithBookmark("H"+tok, l, "bm_"+tok)
		default:
			doc.AddHeadingWithBookmark("H"+tok, l, "hb_"+tok)
		}
	case "SetStyle":
		doc.AddParagraph(tok).SetStyle(op.Str("id"))
	case "AddStyle":
		id, v, on := op.Str("id"), op.Str("v"), op.Str("on")
		switch op.Str("via") {
		case "CreateCustomStyle":
			st := sm.CreateCustomStyle(id, id+" name", defsStyleType(id), on)
			st.RunPr = &style.RunProperties{FontSize: &style.FontSize{Val: defsSz[v]}}
		case "CreateQuickStyle":
			_, err := style.NewQuickStyleAPI(sm).CreateQuickStyle(style.QuickStyleConfig{
				ID: id, Name: id + " name", Type: defsStyleType(id), BasedOn: on,
				RunConfig: &style.QuickRunConfig{FontSize: defsPt[v]},
			})
			return errRet(err)
		default:
			sm.AddStyle(&style.Style{Type: string(defsStyleType(id)), StyleID: id, CustomStyle: true,
				Name: &style.StyleName{Val: id + " name"}, BasedOn: &style.BasedOn{Val: on},
				RunPr: &style.RunProperties{FontSize: &style.FontSize{Val: defsSz[v]}}})
		}
	case "ModifyStyle":
		st := sm.GetStyle(op.Str("id"))
		if st == nil {
			return "nostyle"
		}
		if op.Str("how") == "replace" {
			cp := *st
			rp := style.RunProperties{}
			if st.RunPr != nil {
				rp = *st.RunPr
			}
			rp.FontSize = &style.FontSize{Val: defsSz[op.Str("v")]}
			cp.RunPr = &rp
			sm.AddStyle(&cp)
		} else {
			if st.RunPr == nil {
				st.RunPr = &style.RunProperties{}
			}
			st.RunPr.FontSize = &style.FontSize{Val: defsSz[op.Str("v")]}
		}
	case "RemoveStyle":
		sm.RemoveStyle(op.Str("id"))
	case "GenerateTOC":
		cfg := document.DefaultTOCConfig()
		cfg.MaxLevel = op.Int("max")
		return errRet(doc.GenerateTOC(cfg))
	case "AutoGenerateTOC":
		cfg := document.DefaultTOCConfig()
		cfg.MaxLevel = op.Int("max")
		return errRet(doc.AutoGenerateTOC(cfg))
	case "UpdateTOC":
		return errRet(doc.UpdateTOC())
	case "TOCEntry":
		sdt := doc.CreateTOCSDT("toc "+tok, 9)
		sdt.AddTOCEntry("E"+tok, op.Int("l"), 1, fmt.Sprintf("1474%d", 6000+i))
		sdt.FinalizeTOCSDT()
		doc.Body.Elements = append(doc.Body.Elements, sdt)
	case "ApplyTableStyle":
		t, err := doc.AddTable(&document.TableConfig{Rows: 1, Cols: 2, Width: 4000})
		if err != nil {
			return "err"
		}
		cfg := &document.TableStyleConfig{FirstRowHeader: true}
		if op.Str("kind") == "template" {
			cfg.Template = document.TableStyleTemplate(op.Str("id"))
		} else {
			cfg.StyleID = op.Str("id")
		}
		return errRet(t.ApplyTableStyle(cfg))
	case "CreateCustomTableStyle":
		t, err := doc.AddTable(&document.TableConfig{Rows: 1, Cols: 2, Width: 4000})
		if err != nil {
			return "err"
		}
		return errRet(t.CreateCustomTableStyle(op.Str("id"), op.Str("id")+" name", nil, nil, true))
	case "AddListItem":
		lt := document.ListType(op.Str("t"))
		switch (int(seed) + i) % 3 {
		case 0:
			doc.AddListItem(tok, &document.ListConfig{Type: lt, BulletSymbol: document.BulletTypeDot, StartNumber: 1})
		case 1:
			if lt == document.ListTypeBullet {
				doc.AddBulletList(tok, 0, document.BulletTypeDot)
			} else {
				doc.AddNumberedList(tok, 0, lt)
			}
		default:
			return errRet(doc.CreateMultiLevelList([]document.ListItem{{Text: tok, Level: 0, Type: lt, BulletSymbol: document.BulletTypeDot, StartNumber: 1}}))
		}
	case "AddNote":
		if op.Str("k") == "fn" {
			if (int(seed)+i)%2 == 1 {
				p := doc.AddParagraph("fnote" + tok)
				if len(p.Runs) == 0 {
					return "err"
				}
				return errRet(doc.AddFootnoteToRun(&p.Runs[0], defsNoteText(tok, i)))
			}
			return errRet(doc.AddFootnote("fnote"+tok, defsNoteText(tok, i)))
		}
		return errRet(doc.AddEndnote("enote"+tok, defsNoteText(tok, i)))
	case "RenderTemplate":
		te := document.NewTemplateEngine()
		if _, err := te.LoadTemplateFromDocument("t"+tok, doc); err != nil {
			return "err"
		}
		nd, err := te.RenderTemplateToDocument("t"+tok, document.NewTemplateData())
		if err != nil || nd == nil {
			return "err"
		}
		*d = nd
	case "RemoveNote":
		if op.Str("k") == "fn" {
			return errRet(doc.RemoveFootnote(strconv.Itoa(op.Int("id"))))
		}
		return errRet(doc.RemoveEndnote(strconv.Itoa(op.Int("id"))))
	case "OpenForeign":
		shape, _ := op["shape"].(map[string]interface{})
		nd, err := document.OpenFromMemory(io.NopCloser(bytes.NewReader(defsSynth(shape))))
		if err != nil {
			return "err"
		}
		*d = nd
	case "Markdown":
		opts := markdown.DefaultOptions()
		opts.GenerateTOC = (int(seed)+i)%2 == 0
		nd, err := markdown.NewConverter(opts).ConvertString(defsMarkdown(op.Str("kind")), nil)
		if err != nil || nd == nil {
			return "err"
		}
		*d = nd
	default:
		return "unknown-op"
	}
	return "ok"
}

func defsMarkdown(kind string) string {
	switch kind {
	case "quote":
		return "plain text\n\n> a quoted line\n"
	case "code":
		return "plain text\n\n```\ncode line 1\n\ncode line 3\n```\n"
	case "heads":
		return "# one\n\ntext\n\n## two\n\n###### six\n\ntext\n"
	}
	return "# one\n\n> a quoted line\n\n### three\n\n```go\nx := 1\n```\n\ntext\n"
}

func defsEmptyPkg() map[string]interface{} {
	return map[string]interface{}{"ok": "none", "hasStyles": false, "styles": []string{}, "sver": []map[string]interface{}{},
		"sbased": []map[string]interface{}{},
		"refs": []string{}, "numrefs": []int{}, "nums": []map[string]interface{}{}, "abss": []int{},
		"noterefs": []map[string]interface{}{}, "notes": []map[string]interface{}{}}
}

// defsSave writes the document the requested way and returns the bytes ("" = fine).
func defsSave(d *document.Document, how string) ([]byte, string) {
	if how == "Save" {
		dir, err := os.MkdirTemp("", "wzh-defs-")
		if err != nil {
			return nil, "tmpdir"
		}
		defer os.RemoveAll(dir)
		p := filepath.Join(dir, "out.docx")
		if err := d.Save(p); err != nil {
			return nil, "save-err"
		}
		b, err := os.ReadFile(p)
		if err != nil {
			return nil, "save-err"
		}
		return b, ""
	}
	b, err := d.ToBytes()
	if err != nil {
		return nil, "save-err"
	}
	return b, ""
}

// Variants of executing one behaviour:
//
//	A  saving where the behaviour says so and once at the end; the in-memory document is projected after every step
//	B  saving after every step; projected after every step
//	C  "blind": the schedule of A, but nothing reads the document between the operations (no accessor is
//	   called by the observer; the style manager is only fetched by the style operations of the behaviour).
//	   The in-memory fields of its events are those A observed at the same step.
func runDefsVariant(c Case, emit Emitter, variant string, rec *[]defsMemObs) {
	document.VerifResetGlobals()
	w := &defsWorld{doc: document.New()}
	everyStep := variant == "B"
	blind := variant == "C"
	emit(Ev{"ev": "reset", "case": c.ID, "var": variant})
	var last *defsMemObs
	k := 0
	step := func(i int, op Op) {
		pkg := defsEmptyPkg()
		saved := false
		ret, pmsg := guard(func() string {
			switch op.Name() {
			case "Save":
				saved = true
				b, e := defsSave(w.doc, op.Str("how"))
				if e != "" {
					pkg["ok"] = e
					return "ok"
				}
				pkg = defsProjectPkg(b)
				return "ok"
			case "Reopen":
				saved = true
				b, e := defsSave(w.doc, "ToBytes")
				if e != "" {
					pkg["ok"] = e
					return "ok"
				}
				pkg = defsProjectPkg(b)
				if op.Bool("fresh") {
					document.VerifResetGlobals()
				}
				nd, err := document.OpenFromMemory(io.NopCloser(bytes.NewReader(b)))
				if err != nil {
					return "err"
				}
				w.doc = nd
				return "ok"
			}
			return runDefsStep(w, op, i)
		})
		var m defsMemObs
		if blind {
			if rec != nil && k < len(*rec) {
				m = (*rec)[k]
			} else {
				m = defsMem(nil, nil)
			}
		} else {
			prev := last
			if op.Name() != "Save" {
				prev = nil
			}
			if _, p2 := guard(func() string { m = defsMem(w.doc, prev); return "" }); p2 != "" {
				m = defsMem(nil, nil)
				pmsg += " | projection: " + p2
				ret = "panic"
			}
			if rec != nil {
				*rec = append(*rec, m)
			}
		}
		k++
		last = &m
		emit(Ev{"ev": "step", "case": c.ID, "i": i, "op": op, "ret": ret, "pmsg": pmsg, "saved": saved,
			"reg": m.reg, "ver": m.ver, "based": m.based, "mrefs": m.mrefs, "mnums": m.mnums, "mnotes": m.mnotes, "nsdt": m.nsdt, "pkg": pkg})
	}
	implicit := Op{"op": "Save", "how": "ToBytes"}
	n := len(c.Steps)
	for i, op := range c.Steps {
		step(i, op)
		saving := op.Name() == "Save" || op.Name() == "Reopen"
		if !saving && (everyStep || i == n-1) {
			step(i, implicit)
		}
	}
}

// runDefs executes every behaviour three times (see runDefsVariant).
func runDefs(c Case, emit Emitter) {
	defsBasedIds = map[string]bool{}
	for _, op := range c.Steps {
		if op.Name() == "AddStyle" {
			defsBasedIds[op.Str("id")] = true
		}
	}
	var rec []defsMemObs
	runDefsVariant(c, emit, "A", &rec)
	runDefsVariant(c, emit, "B", nil)
	runDefsVariant(c, emit, "C", &rec)
}
