package main

// Parent side of the sequential Engine executor: behaviours run in a long-lived child process
// (wzh enginechild) so that a behaviour that kills the process is observed as ret = "fatal" /
// "timeout" of the step in progress instead of taking the harness down.

import (
	"bufio"
	"encoding/json"
	"fmt"
	"io"
	"os"
	"os/exec"
	"time"
)

type engKidProc struct {
	cmd   *exec.Cmd
	in    io.WriteCloser
	lines chan []byte
	errb  *engTailBuf
}

// engTailBuf keeps the last few KiB written to it.
type engTailBuf struct{ b []byte }

func (t *engTailBuf) Write(p []byte) (int, error) {
	t.b = append(t.b, p...)
	if len(t.b) > 16384 {
		t.b = append([]byte(nil), t.b[len(t.b)-8192:]...)
	}
	return len(p), nil
}

var engKid *engKidProc

const engCaseLimit = 180 * time.Second

func engKidStart() *engKidProc {
	r, w, err := os.Pipe()
	if err != nil {
		fmt.Fprintln(os.Stderr, "engine: pipe:", err)
		os.Exit(2)
	}
	cmd := exec.Command(os.Args[0], "enginechild", "/dev/stdin", os.DevNull)
	cmd.ExtraFiles = []*os.File{w}
	k := &engKidProc{cmd: cmd, lines: make(chan []byte, 64), errb: &engTailBuf{}}
	cmd.Stderr = k.errb
	k.in, err = cmd.StdinPipe()
	if err == nil {
		err = cmd.Start()
	}
	if err != nil {
		fmt.Fprintln(os.Stderr, "engine: cannot start child:", err)
		os.Exit(2)
	}
	w.Close()
	go func() {
		br := bufio.NewReaderSize(r, 1<<20)
		for {
			line, err := br.ReadBytes('\n')
			if len(line) > 1 {
				k.lines <- line
			}
			if err != nil {
				close(k.lines)
				r.Close()
				return
			}
		}
	}()
	return k
}

func (k *engKidProc) stop() {
	k.in.Close()
	k.cmd.Process.Kill()
	go k.cmd.Wait()
}

// engCrashEvent is the observation of a step during which the child died: nothing but the fact.
func engCrashEvent(c Case, i int, how string) Ev {
	var op Op = Op{"op": "none"}
	if i < len(c.Steps) {
		op = c.Steps[i]
	}
	none := map[string]interface{}{}
	return Ev{"ev": "step", "case": c.ID, "i": i, "op": op, "ret": how,
		"res": engNoRes(), "again": engNoRes(), "saved": engNoRes(),
		"tmod": []string{}, "bmod": []string{}, "dmod": []string{}, "ptmod": []string{}, "pbmod": []string{}, "pdmod": []string{}, "atmod": []string{}, "abmod": []string{},
		"cache": none, "probe": none}
}

func runEngine(c Case, emit Emitter) {
	if os.Getenv("WZ_ENG_INPROC") == "1" {
		runEngineInProc(c, emit)
		return
	}
	if engKid == nil {
		engKid = engKidStart()
	}
	k := engKid
	b, _ := json.Marshal(c)
	if _, err := k.in.Write(append(b, '\n')); err != nil {
		// the child is gone before it saw this behaviour: start a fresh one once
		k.stop()
		engKid = engKidStart()
		k = engKid
		if _, err := k.in.Write(append(b, '\n')); err != nil {
			fmt.Fprintln(os.Stderr, "engine: cannot reach child:", err)
			os.Exit(2)
		}
	}
	next := 0 // index of the step whose event is awaited
	sawReset := false
	deadline := time.After(engCaseLimit)
	for {
		select {
		case line, ok := <-k.lines:
			if !ok {
				// the child died while executing step `next`
				if !sawReset {
					emit(Ev{"ev": "reset", "case": c.ID})
				}
				emit(engCrashEvent(c, next, "fatal"))
				fmt.Fprintf(os.Stderr, "engine: child died in case %d step %d: %s\n", c.ID, next, engFirstLine(k.errb.b))
				k.stop()
				engKid = nil
				return
			}
			var ev Ev
			if err := json.Unmarshal(line, &ev); err != nil {
				fmt.Fprintln(os.Stderr, "engine: bad line from child:", err)
				os.Exit(2)
			}
			switch ev["ev"] {
			case "end":
				return
			case "reset":
				sawReset = true
			case "step":
				next++
			}
			emit(ev)
		case <-deadline:
			if !sawReset {
				emit(Ev{"ev": "reset", "case": c.ID})
			}
			emit(engCrashEvent(c, next, "timeout"))
			k.stop()
			engKid = nil
			return
		}
	}
}

func engFirstLine(b []byte) string {
	for i, ch := range b {
		if ch == '\n' {
			return string(b[:i])
		}
	}
	return string(b)
}
