package main

// Helpers of the Grid module on top of the shared reader: rewrite the main part of a package.

import (
	"archive/zip"
	"bytes"
	"fmt"
	"io"
	"regexp"
)

var gridBodyRe = regexp.MustCompile(`(?s)(<w:body[^>]*>)(.*?)(<w:sectPr|</w:body>)`)

// gridReplaceBody returns a copy of the package in which the children of w:body that precede
// the section properties are replaced by inner.
func gridReplaceBody(pkg []byte, inner string) ([]byte, error) {
	zr, err := zip.NewReader(bytes.NewReader(pkg), int64(len(pkg)))
	if err != nil {
		return nil, err
	}
	var out bytes.Buffer
	zw := zip.NewWriter(&out)
	done := false
	for _, f := range zr.File {
		rc, err := f.Open()
		if err != nil {
			return nil, err
		}
		data, err := io.ReadAll(rc)
		rc.Close()
		if err != nil {
			return nil, err
		}
		if f.Name == "word/document.xml" {
			loc := gridBodyRe.FindSubmatchIndex(data)
			if loc == nil {
				return nil, fmt.Errorf("no w:body in main part")
			}
			var nb []byte
			nb = append(nb, data[:loc[3]]...)
			nb = append(nb, inner...)
			nb = append(nb, data[loc[6]:]...)
			data = nb
			done = true
		}
		w, err := zw.Create(f.Name)
		if err != nil {
			return nil, err
		}
		if _, err := w.Write(data); err != nil {
			return nil, err
		}
	}
	if err := zw.Close(); err != nil {
		return nil, err
	}
	if !done {
		return nil, fmt.Errorf("no main part")
	}
	return out.Bytes(), nil
}
