package main

// Reflection-based deep dumps used by the Engine executor to observe whether an object
// graph (Template, TemplateData, base Document) changed across a call. Reads exported and
// unexported fields (read-only), follows pointers / slices / maps / interfaces, detects
// sharing and cycles. engFull yields path -> value, engSum a digest of the same walk.

import (
	"crypto/sha1"
	"encoding/hex"
	"fmt"
	"hash"
	"reflect"
	"regexp"
	"sort"
	"strconv"

	"github.com/zerx-lab/wordZero/pkg/document"
)

// fields of *document.Template that are tracked as separate objects
var engTemplateSkip = map[string]bool{"Template.BaseDoc": true, "Template.Parent": true}

type engWalker struct {
	skip map[string]bool
	seen map[uintptr]string
	put  func(path, val string)
}

func (w *engWalker) walk(v reflect.Value, path string) {
	if !v.IsValid() {
		w.put(path, "invalid")
		return
	}
	switch v.Kind() {
	case reflect.Ptr:
		if v.IsNil() {
			w.put(path, "nil")
			return
		}
		p := v.Pointer()
		if at, ok := w.seen[p]; ok && v.Elem().Kind() == reflect.Struct {
			w.put(path, "@"+at)
			return
		}
		if v.Elem().Kind() == reflect.Struct {
			w.seen[p] = path
		}
		w.walk(v.Elem(), path)
	case reflect.Interface:
		if v.IsNil() {
			w.put(path, "nil")
			return
		}
		w.put(path+"(type)", v.Elem().Type().String())
		w.walk(v.Elem(), path)
	case reflect.Struct:
		t := v.Type()
		for i := 0; i < v.NumField(); i++ {
			f := t.Field(i)
			if w.skip != nil && w.skip[t.Name()+"."+f.Name] {
				fv := v.Field(i)
				if fv.Kind() == reflect.Ptr {
					// identity only
					w.put(path+"."+f.Name, "ptr:"+strconv.FormatUint(uint64(fv.Pointer()), 16))
				}
				continue
			}
			w.walk(v.Field(i), path+"."+f.Name)
		}
	case reflect.Slice:
		if v.IsNil() {
			w.put(path, "nil")
			return
		}
		if v.Type().Elem().Kind() == reflect.Uint8 {
			b := v.Bytes()
			s := sha1.Sum(b)
			w.put(path, "bytes:"+strconv.Itoa(len(b))+":"+hex.EncodeToString(s[:6]))
			return
		}
		w.put(path+".#", strconv.Itoa(v.Len()))
		for i := 0; i < v.Len(); i++ {
			w.walk(v.Index(i), path+"["+strconv.Itoa(i)+"]")
		}
	case reflect.Array:
		for i := 0; i < v.Len(); i++ {
			w.walk(v.Index(i), path+"["+strconv.Itoa(i)+"]")
		}
	case reflect.Map:
		if v.IsNil() {
			w.put(path, "nil")
			return
		}
		type kv struct {
			k string
			v reflect.Value
		}
		var kvs []kv
		it := v.MapRange()
		for it.Next() {
			kvs = append(kvs, kv{engScalar(it.Key()), it.Value()})
		}
		sort.Slice(kvs, func(i, j int) bool { return kvs[i].k < kvs[j].k })
		w.put(path+".#", strconv.Itoa(len(kvs)))
		for _, e := range kvs {
			w.walk(e.v, path+"{"+e.k+"}")
		}
	case reflect.Func, reflect.Chan, reflect.UnsafePointer:
		// not data
	default:
		w.put(path, engScalar(v))
	}
}

func engScalar(v reflect.Value) string {
	switch v.Kind() {
	case reflect.String:
		return strconv.Quote(v.String())
	case reflect.Bool:
		return strconv.FormatBool(v.Bool())
	case reflect.Int, reflect.Int8, reflect.Int16, reflect.Int32, reflect.Int64:
		return strconv.FormatInt(v.Int(), 10)
	case reflect.Uint, reflect.Uint8, reflect.Uint16, reflect.Uint32, reflect.Uint64, reflect.Uintptr:
		return strconv.FormatUint(v.Uint(), 10)
	case reflect.Float32, reflect.Float64:
		return strconv.FormatFloat(v.Float(), 'g', -1, 64)
	case reflect.Complex64, reflect.Complex128:
		return fmt.Sprint(v.Complex())
	}
	return "?" + v.Kind().String()
}

func engFull(x interface{}, skip map[string]bool) map[string]string {
	out := map[string]string{}
	w := &engWalker{skip: skip, seen: map[uintptr]string{}, put: func(p, s string) { out[p] = s }}
	w.walk(reflect.ValueOf(x), "")
	return out
}

func engSum(x interface{}, skip map[string]bool) string {
	var h hash.Hash = sha1.New()
	w := &engWalker{skip: skip, seen: map[uintptr]string{}, put: func(p, s string) {
		h.Write([]byte(p))
		h.Write([]byte{0})
		h.Write([]byte(s))
		h.Write([]byte{1})
	}}
	w.walk(reflect.ValueOf(x), "")
	return hex.EncodeToString(h.Sum(nil))
}

var engIdxRe = regexp.MustCompile(`\[\d+\]|\{[^}]*\}`)

// engDiff lists the field paths (indices and map keys removed) whose value differs between two dumps.
func engDiff(a, b map[string]string) []string {
	m := map[string]bool{}
	for k, va := range a {
		if vb, ok := b[k]; !ok || vb != va {
			m[engIdxRe.ReplaceAllString(k, "")] = true
		}
	}
	for k := range b {
		if _, ok := a[k]; !ok {
			m[engIdxRe.ReplaceAllString(k, "")] = true
		}
	}
	out := []string{}
	for k := range m {
		out = append(out, k)
	}
	sort.Strings(out)
	return out
}

// engPartsOf reads the unexported part table of a document (read-only).
func engPartsOf(d *document.Document) map[string][]byte {
	out := map[string][]byte{}
	if d == nil {
		return out
	}
	f := reflect.ValueOf(d).Elem().FieldByName("parts")
	if !f.IsValid() || f.Kind() != reflect.Map || f.IsNil() {
		return out
	}
	it := f.MapRange()
	for it.Next() {
		out[it.Key().String()] = it.Value().Bytes()
	}
	return out
}
