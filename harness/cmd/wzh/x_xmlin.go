package main

// Executor + projector for spec module XmlIn (property C06): open whatever bytes the
// specification describes, and on a document run the battery of accessors, edits and saves.
//
// No library code runs in the supervising process: a worker child ("xmlinchild") executes the
// cases one after the other and reports every call on a pipe; the supervisor enforces the
// wall-clock limit per call, and when the worker dies or overruns, re-executes that case in a
// fresh worker with a longer limit (only an outcome that repeats is logged as "fatal" /
// "timeout"; otherwise "noise", which the judge does not turn into a verdict).
// No oracle logic here: XmlIn_Trace.tla judges the logged outcomes.

import (
	"bufio"
	"bytes"
	"encoding/json"
	"fmt"
	"io"
	"os"
	"os/exec"
	"path/filepath"
	"regexp"
	"runtime/debug"
	"strconv"
	"strings"
	"syscall"
	"time"

	"github.com/zerx-lab/wordZero/pkg/document"
)

func init() {
	register("xmlin", runXmlIn)
	register("xmlinchild", runXmlInChild)
}

// ------------------------------------------------------------------------------ worker side

type xmlinCall struct {
	O   string `json:"o"`
	Ret string `json:"ret"`
	Wh  string `json:"wh"` // library function in which a recovered panic was raised ("" otherwise)
	Wf  string `json:"wf"` // saves: verdict of the independent reader on the regenerated main part
	Ms  int64  `json:"ms"`
}

type xmlinLine struct {
	T    string     `json:"t"` // "synth" | "call" | "done"
	Case int        `json:"case"`
	Call *xmlinCall `json:"call,omitempty"`
	InWf string     `json:"inwf,omitempty"`
	NTok int        `json:"ntok"`
	Size int        `json:"size"`
	PMsg string     `json:"pmsg,omitempty"`
}

var xmlinPipe *os.File

func xmlinReport(l xmlinLine) {
	if xmlinPipe == nil {
		xmlinPipe = os.NewFile(3, "report")
		// a runaway allocation must end this worker, not the machine
		if os.Getenv("WZ_XMLIN_NOLIMIT") == "" {
			lim := &syscall.Rlimit{Cur: 6 << 30, Max: 6 << 30}
			syscall.Setrlimit(syscall.RLIMIT_AS, lim)
		}
	}
	b, _ := json.Marshal(l)
	b = append(b, '\n')
	if _, err := xmlinPipe.Write(b); err != nil {
		fmt.Fprintln(os.Stderr, "xmlinchild: cannot report:", err)
		os.Exit(3)
	}
}

var xmlinFrameRe = regexp.MustCompile(`wordZero/pkg/([A-Za-z0-9_]+)\.(\(\*?[A-Za-z0-9_]+\)\.)?([A-Za-z0-9_]+)`)

// xmlinGuard runs f; a panic becomes ret "panic" with the innermost library function on the stack.
func xmlinGuard(f func() string) (ret, wh, pmsg string) {
	defer func() {
		if r := recover(); r != nil {
			ret, pmsg = "panic", fmt.Sprint(r)
			st := string(debug.Stack())
			if i := strings.Index(st, "panic("); i >= 0 {
				st = st[i:]
			}
			if m := xmlinFrameRe.FindStringSubmatch(st); m != nil {
				wh = m[1] + "." + m[2] + m[3]
			} else {
				wh = "outside-library"
			}
		}
	}()
	return f(), "", ""
}

type xmlinErrReader struct {
	r io.Reader
	n int
}

func (e *xmlinErrReader) Read(p []byte) (int, error) {
	if e.n <= 0 {
		return 0, fmt.Errorf("injected read error")
	}
	if len(p) > e.n {
		p = p[:e.n]
	}
	n, err := e.r.Read(p)
	e.n -= n
	return n, err
}
func (e *xmlinErrReader) Close() error { return nil }

type xmlinRun struct {
	doc *document.Document
	tmp string
	n   int
}

const xmlinCap = 48 // tables / paragraphs visited by the per-element calls of the battery

func (x *xmlinRun) tables() []*document.Table {
	var out []*document.Table
	var nested func(t *document.Table, depth int)
	nested = func(t *document.Table, depth int) {
		if len(out) >= xmlinCap || depth > 6 {
			return
		}
		out = append(out, t)
		for r := range t.Rows {
			for c := range t.Rows[r].Cells {
				for k := range t.Rows[r].Cells[c].Tables {
					nested(&t.Rows[r].Cells[c].Tables[k], depth+1)
				}
			}
		}
	}
	for _, t := range x.doc.Body.GetTables() {
		nested(t, 0)
	}
	return out
}

func (x *xmlinRun) paras() []*document.Paragraph {
	ps := x.doc.Body.GetParagraphs()
	if len(ps) > xmlinCap {
		ps = append(ps[:xmlinCap-2:xmlinCap-2], ps[len(ps)-2:]...)
	}
	return ps
}

func xmlinAny(errs ...error) string {
	for _, e := range errs {
		if e != nil {
			return "err"
		}
	}
	return "ok"
}

func xmlinData(n int, tag string) []string {
	out := make([]string, n)
	for i := range out {
		out[i] = fmt.Sprintf("%s%d", tag, i)
	}
	return out
}

// call maps one battery name to API calls. Arguments are the natural ones a caller derives from the
// accessors (row / column counts of the table at hand); errors are fine, the outcome is just logged.
func (x *xmlinRun) call(name string) string {
	d := x.doc
	x.n++
	tok := fmt.Sprintf("qB%dq", x.n)
	var errs []error
	add := func(e error) { errs = append(errs, e) }
	switch name {
	case "GetParagraphs":
		n := 0
		for _, p := range d.Body.GetParagraphs() {
			_ = p.ElementType()
			for i := range p.Runs {
				n += len(p.Runs[i].Text.Content)
			}
		}
		for _, e := range d.Body.Elements {
			switch v := e.(type) {
			case *document.Paragraph:
				_ = v.ElementType()
			case *document.Table:
				_ = v.ElementType()
			}
		}
	case "GetTables":
		for _, t := range d.Body.GetTables() {
			_, _ = t.GetRowCount(), t.GetColumnCount()
		}
	case "TableReads":
		for _, t := range x.tables() {
			rows, cols := t.GetRowCount(), t.GetColumnCount()
			for r := 0; r < rows && r < 6; r++ {
				for c := 0; c < cols && c < 6; c++ {
					_, e := t.GetCellText(r, c)
					add(e)
					_, e = t.GetCell(r, c)
					add(e)
					_, e = t.IsCellMerged(r, c)
					add(e)
					_, e = t.GetMergedCellInfo(r, c)
					add(e)
					_, e = t.GetCellFormat(r, c)
					add(e)
					_, e = t.GetCellTextDirection(r, c)
					add(e)
					_, e = t.GetCellParagraphs(r, c)
					add(e)
					_, e = t.GetNestedTables(r, c)
					add(e)
				}
				_, e := t.GetRowHeight(r)
				add(e)
				_, e = t.IsRowHeader(r)
				add(e)
				_, e = t.IsRowKeepTogether(r)
				add(e)
				add(t.ForEachInRow(r, func(int, *document.TableCell, string) error { return nil }))
			}
			for c := 0; c < cols && c < 6; c++ {
				add(t.ForEachInColumn(c, func(int, *document.TableCell, string) error { return nil }))
			}
			it := t.NewCellIterator()
			_, _ = it.Total(), it.Progress()
			for k := 0; it.HasNext() && k < 4096; k++ {
				_, e := it.Next()
				add(e)
				it.Current()
			}
			it.Reset()
			add(t.ForEach(func(int, int, *document.TableCell, string) error { return nil }))
			_, e := t.GetCellRange(0, 0, rows-1, cols-1)
			add(e)
			_, e = t.FindCells(func(int, int, *document.TableCell, string) bool { return true })
			add(e)
			_, e = t.FindCellsByText("q", false)
			add(e)
			_ = t.GetTableLayout()
			_ = t.GetTableBreakInfo()
		}
	case "GetPageSettings":
		_ = d.GetPageSettings()
	case "ListHeadings":
		_ = d.ListHeadings()
		_ = d.GetHeadingCount()
	case "Counts":
		_, _ = d.GetFootnoteCount(), d.GetEndnoteCount()
		_ = d.GetParts()
		_, e := d.GetDocumentProperties()
		add(e)
	case "StyleReads":
		sm := d.GetStyleManager()
		for _, st := range sm.GetAllStyles() {
			_ = sm.GetStyle(st.StyleID)
			_ = sm.GetStyleWithInheritance(st.StyleID)
			_ = sm.StyleExists(st.StyleID)
			_, e := sm.ApplyStyleToXML(st.StyleID)
			add(e)
		}
		_ = sm.GetHeadingStyles()
		_ = sm.GetStyleWithInheritance("Heading1")
		_ = sm.GetStyleWithInheritance("ForeignStyle")
	case "ToBytes":
		b, err := d.ToBytes()
		if err != nil {
			return "err"
		}
		x.saved(b)
		return "ok"
	case "SaveFile":
		f := filepath.Join(x.tmp, "out.docx")
		if err := d.Save(f); err != nil {
			return "err"
		}
		b, err := os.ReadFile(f)
		if err != nil {
			fmt.Fprintln(os.Stderr, "xmlinchild: cannot read back", f, err)
			os.Exit(3)
		}
		x.saved(b)
		return "ok"
	case "AddParagraph":
		d.AddParagraph(tok)
		d.AddFormattedParagraph(tok, &document.TextFormat{Bold: true, FontSize: 14, FontColor: "FF0000"})
		d.AddHeadingParagraph("H"+tok, 2)
		d.AddPageBreak()
	case "ParaSetters":
		for _, p := range x.paras() {
			p.SetAlignment(document.AlignCenter)
			p.SetStyle("Heading1")
			p.SetSpacing(&document.SpacingConfig{LineSpacing: 1.5, BeforePara: 6, AfterPara: 6})
			p.SetIndentation(0.5, 1, 0)
			p.SetKeepWithNext(true)
			p.SetOutlineLevel(1)
			p.SetBold(true)
			p.SetItalic(true)
			p.SetUnderline(true)
			p.SetFontSize(12)
			p.SetFontFamily("Arial")
			p.SetColor("00FF00")
			p.SetHighlight("yellow")
			p.AddFormattedText(tok, &document.TextFormat{Italic: true})
			p.SetBorder(&document.ParagraphBorderConfig{Style: document.BorderStyleSingle, Size: 4, Color: "000000"}, nil, nil, nil)
			p.SetParagraphFormat(&document.ParagraphFormatConfig{KeepLines: true, WidowControl: true, OutlineLevel: 2})
		}
	case "SetCellText":
		for _, t := range x.tables() {
			rows, cols := t.GetRowCount(), t.GetColumnCount()
			if rows > 0 && cols > 0 {
				add(t.SetCellText(0, 0, tok))
				add(t.SetCellText(rows-1, cols-1, tok))
				add(t.SetCellFormattedText(0, cols-1, tok, &document.TextFormat{Bold: true}))
				add(t.AddCellFormattedText(rows-1, 0, tok, &document.TextFormat{Italic: true}))
				_, e := t.AddCellParagraph(0, 0, tok)
				add(e)
				add(t.AddCellList(rows-1, cols-1, &document.CellListConfig{Type: document.ListTypeBullet, Items: []string{"a", "b"}}))
				add(t.ClearCellContent(0, cols-1))
			}
		}
	case "CellFormat":
		for _, t := range x.tables() {
			rows, cols := t.GetRowCount(), t.GetColumnCount()
			if rows > 0 && cols > 0 {
				add(t.SetCellFormat(rows-1, cols-1, &document.CellFormat{TextFormat: &document.TextFormat{Bold: true}, HorizontalAlign: document.CellAlignCenter,
					VerticalAlign: document.CellVAlignTop, BackgroundColor: "FFFF00", Padding: 4}))
				add(t.SetCellPadding(0, 0, 5))
				add(t.SetCellTextDirection(0, 0, document.TextDirectionTB))
				add(t.SetCellShading(0, 0, &document.ShadingConfig{Pattern: document.ShadingPatternClear, BackgroundColor: "EEEEEE"}))
				add(t.SetCellBorders(0, 0, &document.CellBorderConfig{Top: &document.BorderConfig{Style: document.BorderStyleSingle, Width: 4, Color: "000000"}}))
				add(t.RemoveCellBorders(rows-1, 0))
				add(t.ClearCellFormat(0, cols-1))
				add(t.SetRowHeight(rows-1, &document.RowHeightConfig{Height: 20, Rule: document.RowHeightExact}))
				add(t.SetRowAsHeader(0, true))
				add(t.SetRowKeepTogether(rows-1, true))
				add(t.SetRowKeepWithNext(0, true))
				add(t.SetHeaderRows(0, 0))
				add(t.SetRowHeightRange(0, rows-1, &document.RowHeightConfig{Height: 18, Rule: document.RowHeightMinimum}))
			}
		}
	case "InsertRow":
		for _, t := range x.tables() {
			add(t.InsertRow(0, xmlinData(t.GetColumnCount(), "ir")))
			add(t.InsertRow(t.GetRowCount(), xmlinData(t.GetColumnCount(), "ie")))
		}
	case "AppendRow":
		for _, t := range x.tables() {
			add(t.AppendRow(xmlinData(t.GetColumnCount(), "ar")))
			add(t.AppendRow(nil))
		}
	case "InsertColumn":
		for _, t := range x.tables() {
			add(t.InsertColumn(0, xmlinData(t.GetRowCount(), "ic"), 1200))
			add(t.InsertColumn(t.GetColumnCount(), xmlinData(t.GetRowCount(), "ie"), 1200))
		}
	case "AppendColumn":
		for _, t := range x.tables() {
			add(t.AppendColumn(xmlinData(t.GetRowCount(), "ac"), 1000))
			add(t.AppendColumn(nil, 0))
		}
	case "MergeCells":
		for _, t := range x.tables() {
			rows, cols := t.GetRowCount(), t.GetColumnCount()
			if rows > 0 && cols > 1 {
				add(t.MergeCellsHorizontal(0, 0, 1))
			}
			if rows > 1 && cols > 0 {
				add(t.MergeCellsVertical(0, 1, cols-1))
			}
			if rows > 2 && cols > 2 {
				add(t.MergeCellsRange(1, 2, 1, 2))
			}
		}
	case "UnmergeCells":
		for _, t := range x.tables() {
			rows, cols := t.GetRowCount(), t.GetColumnCount()
			for r := 0; r < rows && r < 8; r++ {
				for c := 0; c < cols && c < 8; c++ {
					add(t.UnmergeCells(r, c))
				}
			}
		}
	case "TableLook":
		for _, t := range x.tables() {
			add(t.ApplyTableStyle(&document.TableStyleConfig{Template: document.TableStyleTemplateGrid, FirstRowHeader: true, BandedRows: true}))
			add(t.SetTableBorders(&document.TableBorderConfig{Top: &document.BorderConfig{Style: document.BorderStyleSingle, Width: 4, Color: "000000"}}))
			add(t.SetTableShading(&document.ShadingConfig{Pattern: document.ShadingPatternClear, BackgroundColor: "DDDDDD"}))
			add(t.SetAlternatingRowColors("FFFFFF", "EEEEEE"))
			add(t.SetTableAlignment(document.TableAlignCenter))
			add(t.SetTableLayout(&document.TableLayoutConfig{Alignment: document.TableAlignCenter}))
			add(t.SetTablePageBreak(&document.TablePageBreakConfig{KeepWithNext: true, KeepLines: true}))
			add(t.RemoveTableBorders())
		}
	case "NestedTable":
		for _, t := range x.tables() {
			if t.GetRowCount() > 0 && t.GetColumnCount() > 0 {
				_, e := t.AddNestedTable(0, 0, &document.TableConfig{Rows: 1, Cols: 2, Width: 800})
				add(e)
			}
		}
	case "CopyTable":
		for _, t := range x.tables() {
			cp := t.CopyTable()
			if cp != nil {
				add(cp.AppendRow(xmlinData(cp.GetColumnCount(), "cp")))
				cp.ClearTable()
			}
		}
	case "DeleteColumn":
		for _, t := range x.tables() {
			if c := t.GetColumnCount(); c > 0 {
				add(t.DeleteColumn(c - 1))
			}
			if c := t.GetColumnCount(); c > 1 {
				add(t.DeleteColumns(0, 0))
			}
		}
	case "DeleteRow":
		for _, t := range x.tables() {
			if r := t.GetRowCount(); r > 0 {
				add(t.DeleteRow(r - 1))
			}
			if r := t.GetRowCount(); r > 1 {
				add(t.DeleteRows(0, 0))
			}
		}
	case "PageSetters":
		add(d.SetPageMargins(20, 25, 20, 25))
		add(d.SetPageSize(document.PageSizeA4))
		add(d.SetPageOrientation(document.OrientationLandscape))
		add(d.SetHeaderFooterDistance(10, 10))
		add(d.SetGutterWidth(5))
		add(d.SetDocGrid(document.DocGridLines, 312, 0))
		add(d.SetCustomPageSize(200, 250))
		s := d.GetPageSettings()
		if s != nil {
			add(d.SetPageSettings(s))
		}
		d.SetDifferentFirstPage(true)
	case "AddHeader":
		add(d.AddHeader(document.HeaderFooterTypeDefault, "H"+tok))
		add(d.AddHeaderWithPageNumber(document.HeaderFooterTypeFirst, "H1"+tok, true))
	case "AddFooter":
		add(d.AddFooter(document.HeaderFooterTypeDefault, "F"+tok))
		add(d.AddFooterWithPageNumber(document.HeaderFooterTypeEven, "F2"+tok, true))
	case "AddImage":
		info, e := d.AddImageFromData(tinyPNG(x.n), "pic.png", document.ImageFormatPNG, 2, 2, nil)
		add(e)
		if e == nil && info != nil {
			add(d.ResizeImage(info, &document.ImageSize{Width: 20, Height: 10}))
			add(d.SetImageAltText(info, "alt"))
			add(d.SetImageTitle(info, "title"))
			add(d.SetImageAlignment(info, document.AlignCenter))
			add(d.SetImagePosition(info, document.ImagePositionFloatLeft, 1, 1))
			add(d.SetImageWrapText(info, document.ImageWrapSquare))
		}
	case "CellImage":
		for _, t := range x.tables() {
			if t.GetRowCount() > 0 && t.GetColumnCount() > 0 {
				_, e := d.AddCellImageFromData(t, 0, 0, tinyPNG(x.n), 10)
				add(e)
			}
		}
	case "AddListItem":
		d.AddListItem(tok, &document.ListConfig{Type: document.ListTypeNumber, IndentLevel: 0})
		d.AddBulletList(tok, 1, document.BulletTypeDot)
		d.AddNumberedList(tok, 0, document.ListTypeDecimal)
		d.RestartNumbering("9")
	case "AddFootnote":
		add(d.AddFootnote(tok, "note "+tok))
		add(d.SetFootnoteConfig(document.DefaultFootnoteConfig()))
	case "AddEndnote":
		add(d.AddEndnote(tok, "note "+tok))
	case "SetTitle":
		add(d.SetTitle("title " + tok))
		add(d.SetAuthor("author"))
		add(d.UpdateStatistics())
	case "AddTable":
		t, e := d.AddTable(&document.TableConfig{Rows: 2, Cols: 2, Width: 4000})
		add(e)
		if e == nil && t != nil {
			add(t.SetCellText(0, 0, tok))
		}
	case "TOC":
		add(d.GenerateTOC(document.DefaultTOCConfig()))
		add(d.UpdateTOC())
		add(d.AutoGenerateTOC(document.DefaultTOCConfig()))
	case "RemoveParagraphAt":
		n := len(d.Body.GetParagraphs())
		r1 := d.RemoveParagraphAt(0)
		r2 := d.RemoveParagraphAt(n)
		if n > 1 {
			d.RemoveParagraphAt(n - 2)
		}
		if len(d.Body.Elements) > 0 {
			d.RemoveElementAt(len(d.Body.Elements) - 1)
		}
		if ps := d.Body.GetParagraphs(); len(ps) > 0 {
			d.RemoveParagraph(ps[len(ps)-1])
		}
		_ = r2
		return boolRet(r1)
	case "Template":
		te := document.NewTemplateEngine()
		if _, e := te.LoadTemplateFromDocument("t", d); e != nil {
			return "err"
		}
		nd, e := te.RenderTemplateToDocument("t", document.NewTemplateData())
		if e != nil {
			return "err"
		}
		if nd != nil {
			_, e = nd.ToBytes()
			add(e)
		}
	default:
		fmt.Fprintln(os.Stderr, "xmlinchild: unknown battery call", name)
		os.Exit(3)
	}
	return xmlinAny(errs...)
}

var xmlinLastWf string

// saved projects saved bytes: is the regenerated main part well-formed (independent reader)?
func (x *xmlinRun) saved(b []byte) {
	p := ReadPkg(b)
	switch {
	case p.ZipErr != "":
		xmlinLastWf = "zip-error"
	default:
		data, ok := p.Parts["word/document.xml"]
		if !ok {
			xmlinLastWf = "absent"
		} else if _, err := ParseXML(data); err != nil {
			xmlinLastWf = "ill"
		} else {
			xmlinLastWf = "wf"
		}
	}
}

func xmlinCalls(c Case) []string {
	var out []string
	if len(c.Steps) > 1 {
		arr, _ := c.Steps[1]["calls"].([]interface{})
		for _, a := range arr {
			s, _ := a.(string)
			out = append(out, s)
		}
	}
	return out
}

// runXmlInChild executes one case and reports every call on fd 3.
func runXmlInChild(c Case, _ Emitter) {
	if len(c.Steps) == 0 || c.Steps[0].Name() != "Open" {
		fmt.Fprintln(os.Stderr, "xmlinchild: case does not start with Open")
		os.Exit(3)
	}
	in, err := xmlinDecode(c.Steps[0])
	if err != nil {
		fmt.Fprintln(os.Stderr, "xmlinchild:", err)
		os.Exit(3)
	}
	document.VerifResetGlobals()
	main, ntok, present := xmlinMainPart(in, seed)
	inwf := "absent"
	if present {
		if _, err := ParseXML(main); err != nil {
			inwf = "ill"
		} else {
			inwf = "wf"
		}
	}
	raw := xmlinZip(xmlinPackage(in, main, present, seed), in.Pk.Zip, &in.Pk.Lie, seed)
	if dir := os.Getenv("WZ_XMLIN_DUMP"); dir != "" {
		os.WriteFile(filepath.Join(dir, fmt.Sprintf("case%d.docx", c.ID)), raw, 0o644)
		os.WriteFile(filepath.Join(dir, fmt.Sprintf("case%d.document.xml", c.ID)), main, 0o644)
	}
	xmlinReport(xmlinLine{T: "synth", Case: c.ID, InWf: inwf, NTok: ntok, Size: len(raw)})
	tmp, err := os.MkdirTemp("", "wzh-xmlin")
	if err != nil {
		fmt.Fprintln(os.Stderr, "xmlinchild:", err)
		os.Exit(3)
	}
	defer os.RemoveAll(tmp)
	x := &xmlinRun{tmp: tmp}
	ret, wh, pmsg := xmlinGuard(func() string {
		var d *document.Document
		var err error
		switch in.Pk.Entry {
		case "file":
			f := filepath.Join(tmp, "in.docx")
			if werr := os.WriteFile(f, raw, 0o644); werr != nil {
				fmt.Fprintln(os.Stderr, "xmlinchild:", werr)
				os.Exit(3)
			}
			d, err = document.Open(f)
		case "memerr":
			d, err = document.OpenFromMemory(&xmlinErrReader{r: bytes.NewReader(raw), n: len(raw) / 2})
		default:
			d, err = document.OpenFromMemory(io.NopCloser(bytes.NewReader(raw)))
		}
		if err != nil || d == nil {
			return "err"
		}
		x.doc = d
		return "doc"
	})
	xmlinReport(xmlinLine{T: "call", Case: c.ID, Call: &xmlinCall{O: "Open", Ret: ret, Wh: wh, Wf: "-"}, PMsg: pmsg})
	if ret == "doc" {
		for _, name := range xmlinCalls(c) {
			xmlinLastWf = "-"
			t0 := time.Now()
			ret, wh, pmsg := xmlinGuard(func() string { return x.call(name) })
			ms := time.Since(t0).Milliseconds()
			wf := "-"
			if ret == "ok" && (name == "ToBytes" || name == "SaveFile") {
				wf = xmlinLastWf
			}
			xmlinReport(xmlinLine{T: "call", Case: c.ID, Call: &xmlinCall{O: name, Ret: ret, Wh: wh, Wf: wf, Ms: ms}, PMsg: pmsg})
		}
	}
	xmlinReport(xmlinLine{T: "done", Case: c.ID})
}

// -------------------------------------------------------------------------- supervisor side

type xmlinWorker struct {
	cmd    *exec.Cmd
	stdin  io.WriteCloser
	lines  chan xmlinLine
	stderr *bytes.Buffer
	waited bool
	werr   error
}

func xmlinFail(msg string) {
	fmt.Fprintln(os.Stderr, "xmlin:", msg)
	os.Exit(2)
}

func xmlinStart() *xmlinWorker {
	pr, pw, err := os.Pipe()
	if err != nil {
		xmlinFail(err.Error())
	}
	cmd := exec.Command(os.Args[0], "xmlinchild", "/dev/stdin", os.DevNull)
	cmd.ExtraFiles = []*os.File{pw}
	w := &xmlinWorker{cmd: cmd, stderr: &bytes.Buffer{}, lines: make(chan xmlinLine, 256)}
	cmd.Stderr = w.stderr
	cmd.Env = append(os.Environ(), "GOTRACEBACK=single")
	w.stdin, err = cmd.StdinPipe()
	if err != nil {
		xmlinFail(err.Error())
	}
	if err := cmd.Start(); err != nil {
		xmlinFail("cannot start worker: " + err.Error())
	}
	pw.Close()
	go func() {
		sc := bufio.NewScanner(pr)
		sc.Buffer(make([]byte, 1<<16), 1<<24)
		for sc.Scan() {
			var l xmlinLine
			if err := json.Unmarshal(sc.Bytes(), &l); err != nil {
				xmlinFail("bad line from worker: " + err.Error())
			}
			w.lines <- l
		}
		close(w.lines)
		pr.Close()
	}()
	return w
}

func (w *xmlinWorker) kill() {
	if w == nil || w.waited {
		return
	}
	w.stdin.Close()
	w.cmd.Process.Kill()
	w.werr = w.cmd.Wait()
	w.waited = true
}

func (w *xmlinWorker) wait() error {
	if !w.waited {
		w.stdin.Close()
		w.werr = w.cmd.Wait()
		w.waited = true
	}
	return w.werr
}

type xmlinOutcome struct {
	calls  []xmlinCall
	inwf   string
	ntok   int
	size   int
	status string // "ok" | "timeout" | "fatal" | "noise"
	pmsg   string
}

// xmlinExec sends one case to the worker and collects its report under the per-call limit.
// The worker is unusable afterwards unless status is "ok".
func xmlinExec(w *xmlinWorker, c Case, limit time.Duration) xmlinOutcome {
	out := xmlinOutcome{inwf: "unknown", status: "ok"}
	b, _ := json.Marshal(c)
	b = append(b, '\n')
	if _, err := w.stdin.Write(b); err != nil {
		w.kill()
		out.status = "noise"
		return out
	}
	timer := time.NewTimer(limit)
	defer timer.Stop()
	for {
		select {
		case l, ok := <-w.lines:
			if !ok {
				// the worker is gone: only a death announced by the Go runtime counts
				err := w.wait()
				ee, _ := err.(*exec.ExitError)
				se := w.stderr.String()
				if ee != nil && ee.ExitCode() == 3 {
					xmlinFail(fmt.Sprintf("case %d: worker reported a harness fault: %s", c.ID, xmlinTail(se)))
				}
				if ee != nil && ee.ExitCode() == 2 && (strings.Contains(se, "fatal error:") || strings.Contains(se, "panic:")) {
					out.status = "fatal"
					out.pmsg = xmlinFirstFatal(se)
				} else {
					out.status = "noise"
					out.pmsg = fmt.Sprintf("worker ended: %v: %s", err, xmlinTail(se))
				}
				return out
			}
			if l.Case != c.ID {
				xmlinFail(fmt.Sprintf("worker answered for case %d while case %d was running", l.Case, c.ID))
			}
			switch l.T {
			case "synth":
				out.inwf, out.ntok, out.size = l.InWf, l.NTok, l.Size
			case "call":
				out.calls = append(out.calls, *l.Call)
				if l.PMsg != "" && out.pmsg == "" {
					out.pmsg = l.Call.O + ": " + l.PMsg
				}
			case "done":
				return out
			}
			if !timer.Stop() {
				select {
				case <-timer.C:
				default:
				}
			}
			timer.Reset(limit)
		case <-timer.C:
			w.kill()
			out.status = "timeout"
			return out
		}
	}
}

func xmlinTail(s string) string {
	if len(s) > 600 {
		s = s[len(s)-600:]
	}
	return strings.ReplaceAll(s, "\n", " | ")
}

func xmlinFirstFatal(se string) string {
	for _, l := range strings.Split(se, "\n") {
		if strings.HasPrefix(l, "fatal error:") || strings.HasPrefix(l, "panic:") || strings.HasPrefix(l, "runtime: goroutine stack exceeds") {
			return l
		}
	}
	return ""
}

var xmlinCur *xmlinWorker

func xmlinLimits(in *xmlinInput) (time.Duration, time.Duration) {
	base := 10
	if s := os.Getenv("WZ_XMLIN_LIMIT"); s != "" {
		if n, err := strconv.Atoi(s); err == nil && n > 0 {
			base = n
		}
	}
	if in.Mut.N > 1000 {
		base *= 2
	}
	return time.Duration(base) * time.Second, time.Duration(base*4) * time.Second
}

// nextCall names the call that did not come back: the one after the last reported one.
func xmlinNextCall(c Case, done []xmlinCall) string {
	if len(done) == 0 {
		return "Open"
	}
	names := xmlinCalls(c)
	if k := len(done) - 1; k < len(names) {
		return names[k]
	}
	return "end"
}

func runXmlIn(c Case, emit Emitter) {
	emit(Ev{"ev": "reset", "case": c.ID})
	if len(c.Steps) == 0 || c.Steps[0].Name() != "Open" {
		xmlinFail("case does not start with Open")
	}
	in, err := xmlinDecode(c.Steps[0])
	if err != nil {
		xmlinFail(err.Error())
	}
	lim, lim2 := xmlinLimits(in)
	t0 := time.Now()
	if xmlinCur == nil {
		xmlinCur = xmlinStart()
	}
	out := xmlinExec(xmlinCur, c, lim)
	retried := false
	if out.status != "ok" {
		// re-execute in a fresh worker with a longer limit: only what repeats is logged as the library's
		xmlinCur.kill()
		first := out
		w2 := xmlinStart()
		out = xmlinExec(w2, c, lim2)
		retried = true
		if out.status == "ok" {
			xmlinCur = w2
		} else {
			w2.kill()
			xmlinCur = nil
			// the same call failed both times: the second outcome (longer limit) is the one logged
			if len(out.calls) != len(first.calls) || out.status == "noise" {
				out.status = "noise"
			}
		}
	}
	if out.status != "ok" {
		out.calls = append(out.calls, xmlinCall{O: xmlinNextCall(c, out.calls), Ret: out.status, Wh: "", Wf: "-"})
	}
	calls := make([]map[string]interface{}, 0, len(out.calls))
	for _, k := range out.calls {
		calls = append(calls, map[string]interface{}{"o": k.O, "ret": k.Ret, "wh": k.Wh, "wf": k.Wf})
	}
	op := Op{}
	for k, v := range c.Steps[0] {
		if k != "toks" {
			op[k] = v
		}
	}
	emit(Ev{"ev": "step", "case": c.ID, "op": op, "inwf": out.inwf, "ntok": out.ntok, "size": out.size,
		"calls": calls, "pmsg": out.pmsg, "retried": retried, "ms": time.Since(t0).Milliseconds()})
}
