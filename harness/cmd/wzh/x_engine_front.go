package main

// Engine executor (property C17): the TemplateRenderer front, template files, the tables of a
// document template and their projection.
//
// A behaviour runs on ONE engine: the one a document.TemplateRenderer creates for itself. The
// renderer offers no accessor for it, so the pointer is read from the unexported field (read
// only: the harness never writes through reflection). LoadTemplateFromFile, RenderTemplate and
// AnalyzeTemplate go through the renderer, every other operation straight to that engine.

import (
	"fmt"
	"os"
	"path/filepath"
	"reflect"
	"strings"
	"unsafe"

	"github.com/zerx-lab/wordZero/pkg/document"
)

func engInner(r *document.TemplateRenderer) *document.TemplateEngine {
	f := reflect.ValueOf(r).Elem().FieldByName("engine")
	if !f.IsValid() || f.Kind() != reflect.Ptr || f.IsNil() {
		fmt.Fprintln(os.Stderr, "engine: TemplateRenderer has no engine field (harness out of date)")
		os.Exit(2)
	}
	e, ok := reflect.NewAt(f.Type(), unsafe.Pointer(f.UnsafeAddr())).Elem().Interface().(*document.TemplateEngine)
	if !ok || e == nil {
		fmt.Fprintln(os.Stderr, "engine: TemplateRenderer.engine is not a *TemplateEngine (harness out of date)")
		os.Exit(2)
	}
	return e
}

// tmplFile writes a base document to a fresh file of this behaviour's directory.
func (c *engCtx) tmplFile(d *document.Document) string {
	c.fmu.Lock()
	defer c.fmu.Unlock()
	if c.tmp == "" {
		dir, err := os.MkdirTemp("", "wzh-engtmpl")
		if err != nil {
			fmt.Fprintln(os.Stderr, "engine: temp dir:", err)
			os.Exit(2)
		}
		c.tmp = dir
	}
	c.files++
	p := filepath.Join(c.tmp, fmt.Sprintf("t%d.docx", c.files))
	if err := d.Save(p); err != nil {
		fmt.Fprintln(os.Stderr, "engine: cannot write template file:", err)
		os.Exit(2)
	}
	return p
}

func (c *engCtx) cleanup() {
	if c.tmp != "" {
		os.RemoveAll(c.tmp)
		c.tmp = ""
	}
}

// analyze runs AnalyzeTemplate(name).GetRequiredData() and renders the template twice with the data
// object it got. Returns the status of the analysis, the two renders, the fields of the data
// that a render changed and the fields of templates / base documents the analysis itself changed.
func (c *engCtx) analyze(name string) (ret string, r1, r2 engRes, dmod, atmod, abmod []string) {
	r1, r2, dmod = engNoRes(), engNoRes(), []string{}
	defer func() {
		if atmod == nil {
			atmod, abmod = c.sync()
		}
	}()
	var td *document.TemplateData
	ret, _ = guard(func() string {
		a, err := c.rnd.AnalyzeTemplate(name)
		if err != nil {
			return "err"
		}
		td = a.GetRequiredData()
		return "ok"
	})
	atmod, abmod = c.sync()
	if ret != "ok" || td == nil {
		return
	}
	before := engFull(td, nil)
	r1, _ = c.render(name, "tpl", td)
	mid := engFull(td, nil)
	r2, _ = c.render(name, "rnd", td)
	dmod = engUniq(append(engDiff(before, mid), engDiff(mid, engFull(td, nil))...))
	return
}

// ---- tables ---------------------------------------------------------------------------------

type engCellSpec struct {
	runs []string
	nest []string
}

// engTblSpec reads the concrete tables of a load operation: table -> row -> cell -> {runs, nest}.
func engTblSpec(v interface{}) [][][]engCellSpec {
	out := [][][]engCellSpec{}
	ts, _ := v.([]interface{})
	for _, t := range ts {
		rows := [][]engCellSpec{}
		rs, _ := t.([]interface{})
		for _, r := range rs {
			cells := []engCellSpec{}
			cs, _ := r.([]interface{})
			for _, c := range cs {
				m, _ := c.(map[string]interface{})
				cells = append(cells, engCellSpec{runs: engStrs(m["runs"]), nest: engStrs(m["nest"])})
			}
			rows = append(rows, cells)
		}
		out = append(out, rows)
	}
	return out
}

func engRunsPara(parts []string) []document.Paragraph {
	p := document.Paragraph{}
	for _, x := range parts {
		p.Runs = append(p.Runs, document.Run{Text: document.Text{Content: x}})
	}
	return []document.Paragraph{p}
}

// engAddTables appends the tables to the document: a cell whose text comes in several runs gets exactly
// those runs, a nested 1x1 table is added to the cells that carry one.
func engAddTables(d *document.Document, tbls interface{}) {
	for _, rows := range engTblSpec(tbls) {
		if len(rows) == 0 || len(rows[0]) == 0 {
			continue
		}
		t, err := d.AddTable(&document.TableConfig{Rows: len(rows), Cols: len(rows[0]), Width: 4000})
		if err != nil || t == nil || len(t.Rows) != len(rows) {
			fmt.Fprintln(os.Stderr, "engine: cannot build a template table:", err)
			os.Exit(2)
		}
		for i, r := range rows {
			for j, c := range r {
				if j >= len(t.Rows[i].Cells) {
					continue
				}
				if len(c.runs) == 1 {
					_ = t.SetCellText(i, j, c.runs[0])
				} else {
					t.Rows[i].Cells[j].Paragraphs = engRunsPara(c.runs)
				}
				if len(c.nest) > 0 {
					if in, err := t.AddNestedTable(i, j, &document.TableConfig{Rows: 1, Cols: 1, Width: 1000}); err == nil && in != nil {
						if len(c.nest) == 1 {
							_ = in.SetCellText(0, 0, c.nest[0])
						} else if len(in.Rows) == 1 && len(in.Rows[0].Cells) == 1 {
							in.Rows[0].Cells[0].Paragraphs = engRunsPara(c.nest)
						}
					}
				}
			}
		}
	}
}

// projection of the tables of an in-memory document: "=" opens a top-level table, then one string per
// row: cell texts joined by "|", paragraphs of a cell by "/", a nested table "[row;row]" after its cell's text.
func engTbls(d *document.Document) []string {
	out := []string{}
	if d == nil || d.Body == nil {
		return out
	}
	for _, el := range d.Body.Elements {
		if t, ok := el.(*document.Table); ok && t != nil {
			out = append(append(out, "="), engTblRows(t)...)
		}
	}
	return out
}

func engTblRows(t *document.Table) []string {
	out := []string{}
	for i := range t.Rows {
		cs := []string{}
		for j := range t.Rows[i].Cells {
			c := &t.Rows[i].Cells[j]
			ps := []string{}
			for k := range c.Paragraphs {
				s := ""
				for _, r := range c.Paragraphs[k].Runs {
					s += r.Text.Content
					if r.Drawing != nil {
						s += "<img>"
					}
				}
				ps = append(ps, s)
			}
			s := strings.Join(ps, "/")
			for k := range c.Tables {
				s += "[" + strings.Join(engTblRows(&c.Tables[k]), ";") + "]"
			}
			cs = append(cs, s)
		}
		out = append(out, strings.Join(cs, "|"))
	}
	return out
}

// the same projection from the XML of a saved document (independent reader)
func engTblRowsXML(t *Node) []string {
	out := []string{}
	for _, tr := range t.Children("tr") {
		cs := []string{}
		for _, tc := range tr.Children("tc") {
			ps := []string{}
			nested := ""
			for _, k := range tc.Kids {
				switch k.Local {
				case "p":
					s := k.WText()
					if len(k.Desc("drawing")) > 0 {
						s += "<img>"
					}
					ps = append(ps, s)
				case "tbl":
					nested += "[" + strings.Join(engTblRowsXML(k), ";") + "]"
				}
			}
			cs = append(cs, strings.Join(ps, "/")+nested)
		}
		out = append(out, strings.Join(cs, "|"))
	}
	return out
}
