package main

// Canonical projection of a saved document for spec module DocTmpl (property C18).
// Built only on the independent reader (ReadPkg / ParseXML / Node); knows nothing of
// the library's structs. No judgement happens here: the result is the abstract
// document that spec/DocTmpl_Trace.tla compares with Subst(base, data).
//
//	doc   = {body: [block], sect: [nv], hf: [hfpart], parts: [nv]}
//	block = {k:"p", ppr:[nv], atoms:[atom]}
//	      | {k:"tbl", tpr:[nv], rows:[{trpr:[nv], cells:[{tcpr:[nv], blocks:[block]}]}]}
//	      | {k:"other", n:name, v:canonical}
//	atom  = {k:"c"|<element name>, t:token, f:format id, r:run index}
//	nv    = {n:name, v:canonical string}

import (
	"crypto/sha1"
	"encoding/hex"
	"sort"
	"strings"
	"unicode/utf8"
)

type dtM = map[string]interface{}

// dtProj carries the per-case interning tables shared by the base and the result projections.
type dtProj struct {
	fmtID  map[string]int    // canonical rPr -> id (order of first appearance, 0 = no formatting)
	imgTok map[string]string // sha1 of media bytes -> image token
}

func newDtProj() *dtProj { return &dtProj{fmtID: map[string]int{}, imgTok: map[string]string{}} }

func dtSha(b []byte) string {
	h := sha1.Sum(b)
	return hex.EncodeToString(h[:8])
}

// dtCanon renders an element canonically: name, sorted attributes (xmlns declarations
// dropped), text, children in document order.
func dtCanon(n *Node) string {
	var sb strings.Builder
	var walk func(x *Node)
	walk = func(x *Node) {
		sb.WriteString("<")
		sb.WriteString(x.Local)
		var as []string
		for _, a := range x.Attr {
			if a.Name.Space == "xmlns" || a.Name.Local == "xmlns" {
				continue
			}
			as = append(as, a.Name.Local+"="+a.Value)
		}
		sort.Strings(as)
		for _, a := range as {
			sb.WriteString(" ")
			sb.WriteString(a)
		}
		sb.WriteString(">")
		if strings.TrimSpace(x.Text) != "" {
			sb.WriteString(x.Text)
		}
		for _, k := range x.Kids {
			walk(k)
		}
		sb.WriteString("</>")
	}
	walk(n)
	return sb.String()
}

// dtCanonInner is dtCanon without the element's own name (attributes + content only).
func dtCanonInner(n *Node) string {
	s := dtCanon(n)
	return strings.TrimPrefix(s, "<"+n.Local)
}

func dtNVs(parent *Node, skip map[string]bool) []dtM {
	out := []dtM{}
	if parent == nil {
		return out
	}
	for _, k := range parent.Kids {
		if skip != nil && skip[k.Local] {
			continue
		}
		out = append(out, dtM{"n": k.Local, "v": dtCanonInner(k)})
	}
	return out
}

func (pj *dtProj) fmtOf(rpr *Node) int {
	if rpr == nil || len(rpr.Kids) == 0 {
		return 0
	}
	c := dtCanonInner(rpr)
	if id, ok := pj.fmtID[c]; ok {
		return id
	}
	id := len(pj.fmtID) + 1
	pj.fmtID[c] = id
	return id
}

// dtTok maps a character to its abstract token.
func dtTok(r rune) string {
	if r == utf8.RuneError || !isXMLChar(r) || (r < 0x20 && r != '\t' && r != '\n' && r != '\r') {
		return "CTL"
	}
	if r == 0x4e2d {
		return "CJK"
	}
	return string(r)
}

type dtPartCtx struct {
	pkg  *Pkg
	part string // name of the part the XML came from (for relationship resolution)
}

func (pj *dtProj) drawingTok(d *Node, pc dtPartCtx) string {
	toks := []string{}
	for _, blip := range d.Desc("blip") {
		id := blip.A("embed")
		tok := "img?"
		for _, r := range pc.pkg.Rels[RelsPartFor(pc.part)] {
			if r.ID == id && r.Type == relImage {
				if data, ok := pc.pkg.Parts[ResolveTarget(pc.part, r.Target)]; ok {
					if t, ok := pj.imgTok[dtSha(data)]; ok {
						tok = t
					} else {
						tok = "img!" // resolves, but to bytes nobody supplied
					}
				}
			}
		}
		toks = append(toks, tok)
	}
	if len(toks) == 0 {
		return "none"
	}
	return strings.Join(toks, "+")
}

func (pj *dtProj) para(p *Node, pc dtPartCtx) dtM {
	atoms := []dtM{}
	ri := 0
	for _, k := range p.Kids {
		switch k.Local {
		case "pPr":
		case "r":
			ri++
			f := pj.fmtOf(k.Child("rPr"))
			for _, c := range k.Kids {
				switch c.Local {
				case "rPr":
				case "t":
					for _, r := range c.Text {
						atoms = append(atoms, dtM{"k": "c", "t": dtTok(r), "f": f, "r": ri})
					}
				case "br":
					atoms = append(atoms, dtM{"k": "br", "t": "br:" + c.A("type"), "f": f, "r": ri})
				case "drawing":
					atoms = append(atoms, dtM{"k": "drawing", "t": pj.drawingTok(c, pc), "f": f, "r": ri})
				case "fldChar":
					atoms = append(atoms, dtM{"k": "fldChar", "t": "fldChar:" + c.A("fldCharType"), "f": f, "r": ri})
				case "instrText":
					atoms = append(atoms, dtM{"k": "instrText", "t": "instrText:" + strings.TrimSpace(c.Text), "f": f, "r": ri})
				default:
					atoms = append(atoms, dtM{"k": c.Local, "t": dtCanon(c), "f": f, "r": ri})
				}
			}
		default:
			ri++
			atoms = append(atoms, dtM{"k": k.Local, "t": dtCanon(k), "f": 0, "r": ri})
		}
	}
	return dtM{"k": "p", "ppr": dtNVs(p.Child("pPr"), nil), "atoms": atoms}
}

func (pj *dtProj) table(t *Node, pc dtPartCtx) dtM {
	tpr := dtNVs(t.Child("tblPr"), nil)
	if g := t.Child("tblGrid"); g != nil {
		tpr = append(tpr, dtM{"n": "tblGrid", "v": dtCanonInner(g)})
	}
	rows := []dtM{}
	for _, tr := range t.Children("tr") {
		cells := []dtM{}
		for _, tc := range tr.Children("tc") {
			cells = append(cells, dtM{"tcpr": dtNVs(tc.Child("tcPr"), nil), "blocks": pj.blocks(tc, pc, map[string]bool{"tcPr": true})})
		}
		rows = append(rows, dtM{"trpr": dtNVs(tr.Child("trPr"), nil), "cells": cells})
	}
	return dtM{"k": "tbl", "tpr": tpr, "rows": rows}
}

func (pj *dtProj) blocks(parent *Node, pc dtPartCtx, skip map[string]bool) []dtM {
	out := []dtM{}
	for _, k := range parent.Kids {
		if skip[k.Local] {
			continue
		}
		switch k.Local {
		case "p":
			out = append(out, pj.para(k, pc))
		case "tbl":
			out = append(out, pj.table(k, pc))
		default:
			out = append(out, dtM{"k": "other", "n": k.Local, "v": dtCanonInner(k)})
		}
	}
	return out
}

// sect projects the body-level section settings; header/footer references are
// resolved to the part they point to, so relationship-id spelling does not matter.
func (pj *dtProj) sect(s *Node, pc dtPartCtx) []dtM {
	out := []dtM{}
	if s == nil {
		return out
	}
	for _, k := range s.Kids {
		if k.Local == "headerReference" || k.Local == "footerReference" {
			target := "?"
			for _, r := range pc.pkg.Rels[RelsPartFor(pc.part)] {
				if r.ID == k.A("id") {
					target = ResolveTarget(pc.part, r.Target)
				}
			}
			out = append(out, dtM{"n": k.Local, "v": k.A("type") + "->" + target})
			continue
		}
		out = append(out, dtM{"n": k.Local, "v": dtCanonInner(k)})
	}
	return out
}

func dtSkeleton(n *Node) string {
	var sb strings.Builder
	var walk func(x *Node)
	walk = func(x *Node) {
		sb.WriteString("<" + x.Local)
		var as []string
		for _, a := range x.Attr {
			if a.Name.Space == "xmlns" || a.Name.Local == "xmlns" || (x.Local == "t" && a.Name.Local == "space") {
				continue
			}
			as = append(as, a.Name.Local+"="+a.Value)
		}
		sort.Strings(as)
		sb.WriteString(" " + strings.Join(as, " ") + ">")
		if x.Local != "t" && strings.TrimSpace(x.Text) != "" {
			sb.WriteString(x.Text)
		}
		for _, k := range x.Kids {
			walk(k)
		}
		sb.WriteString("</>")
	}
	walk(n)
	return dtSha([]byte(sb.String()))
}

func dtIsHF(name string) string {
	if strings.HasPrefix(name, "word/header") && strings.HasSuffix(name, ".xml") {
		return "header"
	}
	if strings.HasPrefix(name, "word/footer") && strings.HasSuffix(name, ".xml") {
		return "footer"
	}
	return ""
}

// dtPartClass gives a run-independent class name of a part for witness signatures.
func dtPartClass(name string) string {
	switch {
	case strings.HasPrefix(name, "word/media/"):
		return "media"
	case strings.HasPrefix(name, "customXml/"), strings.HasPrefix(name, "custom/"):
		return "custom"
	case strings.HasPrefix(name, "docProps/"):
		return "docProps"
	}
	return name
}

// dtPartSum is a digest of a part that does not depend on the order in which the library
// happens to write the children of the root element (styles are written in map order).
func dtPartSum(p *Pkg, name string, data []byte) string {
	if p.IsXMLPart(name) {
		if root, err := ParseXML(data); err == nil {
			var kids []string
			for _, k := range root.Kids {
				kids = append(kids, dtCanon(k))
			}
			sort.Strings(kids)
			return dtSha([]byte(root.Local + strings.Join(kids, "")))
		}
	}
	return dtSha(data)
}

// project turns package bytes into the abstract document. ret is "ok", "zip" or "xml".
func (pj *dtProj) project(b []byte) (dtM, string) {
	empty := dtM{"body": []dtM{}, "sect": []dtM{}, "hf": []dtM{}, "parts": []dtM{}}
	p := ReadPkg(b)
	if p.ZipErr != "" {
		return empty, "zip"
	}
	main := p.MainDocName()
	body, err := p.MainBody()
	if err != nil {
		return empty, "xml"
	}
	pc := dtPartCtx{pkg: p, part: main}
	doc := dtM{}
	doc["body"] = pj.blocks(body, pc, map[string]bool{"sectPr": true})
	doc["sect"] = pj.sect(body.Child("sectPr"), pc)
	hf := []dtM{}
	parts := []dtM{}
	for _, name := range p.SortedNames() {
		data := p.Parts[name]
		if name == main {
			continue
		}
		if kind := dtIsHF(name); kind != "" {
			e := dtM{"name": name, "kind": kind, "ok": true, "skel": "", "blocks": []dtM{}}
			root, err := ParseXML(data)
			if err != nil {
				e["ok"] = false
			} else {
				e["skel"] = dtSkeleton(root)
				e["blocks"] = pj.blocks(root, dtPartCtx{pkg: p, part: name}, map[string]bool{})
			}
			hf = append(hf, e)
			continue
		}
		switch {
		case strings.HasSuffix(name, ".rels"):
			for _, r := range p.Rels[name] {
				parts = append(parts, dtM{"n": "rel:" + name, "c": "rels", "v": r.ID + "|" + r.Type + "|" + r.Target + "|" + r.Mode})
			}
			if e, bad := p.RelsErr[name]; bad {
				parts = append(parts, dtM{"n": "rel:" + name, "c": "rels", "v": "!" + e})
			}
		case name == "[Content_Types].xml":
			var exts, ovs []string
			for e := range p.Defaults {
				exts = append(exts, e)
			}
			for o := range p.Overr {
				ovs = append(ovs, o)
			}
			sort.Strings(exts)
			sort.Strings(ovs)
			for _, e := range exts {
				parts = append(parts, dtM{"n": "ct", "c": "contentTypes", "v": "default:" + e + "=" + p.Defaults[e]})
			}
			for _, o := range ovs {
				parts = append(parts, dtM{"n": "ct", "c": "contentTypes", "v": "override:" + o + "=" + p.Overr[o]})
			}
		default:
			parts = append(parts, dtM{"n": name, "c": dtPartClass(name), "v": dtPartSum(p, name, data)})
		}
	}
	doc["hf"] = hf
	doc["parts"] = parts
	return doc, "ok"
}
