package main

// Executor for spec module MdOut (property C20): Word -> Markdown.
//
// Behaviours are sequences of
//   {op:"new",    opts, co}                         markdown.NewExporter(opts or nil)
//   {op:"export", body, opts, api, co, origin}      build the abstract body with the public API (a numbered heading / quote /
//                                                   code paragraph = a list item given that style; origin "open": save and
//                                                   reopen it), export it through ExportToString / ExportToBytes /
//                                                   ExportToFile / BatchExport / AutoConvert, convert the Markdown back
//                                                   with the real ConvertString and export that again
// Logged per export: the projection of the exported document (saved bytes, independent reader), of the Markdown
// (reference CommonMark+GFM reader), of the converted document, and whether the second export equals the first
// (a plain string comparison).  No oracle logic here: MdOut_Trace.tla judges.

import (
	"bytes"
	"fmt"
	"io"
	"os"
	"path/filepath"
	"strings"

	"github.com/zerx-lab/wordZero/pkg/document"
	"github.com/zerx-lab/wordZero/pkg/markdown"
)

func init() { register("mdout", runMdOut) }

type mdoRun struct {
	F []string `json:"f"`
	C string   `json:"c"`
	T []string `json:"t"`
}

type mdoCell struct {
	C string   `json:"c"`
	T []string `json:"t"`
}

type mdoBlk struct {
	K    string      `json:"k"`
	N    int         `json:"n"`
	A    string      `json:"a"`
	Runs []mdoRun    `json:"runs"`
	Rows [][]mdoCell `json:"rows"`
}

type mdoOpts struct {
	Gfm    bool   `json:"gfm"`
	Setext bool   `json:"setext"`
	Meta   bool   `json:"meta"`
	Bullet string `json:"bullet"`
	Emph   string `json:"emph"`
	Lang   string `json:"lang"`
	Wrap   int    `json:"wrap"`
	Misc   string `json:"misc"`
}

// mdoOptions spells an abstract option record as the library's ExportOptions (every field is set).
func mdoOptions(o mdoOpts, tmp string) *markdown.ExportOptions {
	opts := markdown.DefaultExportOptions()
	switch o.Misc {
	case "hq":
		opts = markdown.HighQualityExportOptions()
	case "alltrue":
		opts.PreserveFootnotes, opts.PreserveLineBreaks = true, true
		opts.ExtractImages, opts.ImageRelativePath = true, true
		opts.ImageOutputDir = filepath.Join(tmp, "img")
		opts.ImageNamePattern = "pic_%d.png"
		opts.PreserveBookmarks, opts.ConvertHyperlinks, opts.PreserveCodeStyle = true, true, true
		opts.CustomStyleMap = map[string]string{"Normal": "p", "Heading1": "h2", "Quote": "p"}
		opts.IgnoreUnknownStyles, opts.PreserveTOC, opts.StripComments = true, true, true
		opts.StrictMode, opts.IgnoreErrors = true, true
		opts.ErrorCallback = func(error) {}
		opts.ProgressCallback = func(int, int) {}
	case "allfalse":
		opts.PreserveFootnotes, opts.PreserveLineBreaks = false, false
		opts.ExtractImages, opts.ImageRelativePath = false, false
		opts.ImageOutputDir, opts.ImageNamePattern = "", ""
		opts.PreserveBookmarks, opts.ConvertHyperlinks, opts.PreserveCodeStyle = false, false, false
		opts.CustomStyleMap = nil
		opts.IgnoreUnknownStyles, opts.PreserveTOC, opts.StripComments = false, false, false
		opts.StrictMode, opts.IgnoreErrors = false, false
		opts.ErrorCallback, opts.ProgressCallback = nil, nil
	}
	opts.UseGFMTables = o.Gfm
	opts.UseSetext = o.Setext
	opts.IncludeMetadata = o.Meta
	opts.BulletListMarker = o.Bullet
	opts.EmphasisMarker = o.Emph
	opts.DefaultCodeLang = o.Lang
	opts.WrapLongLines = o.Wrap > 0
	if o.Wrap > 0 {
		opts.MaxLineLength = o.Wrap
	}
	return opts
}

// mdoAbstract reads an ExportOptions value back as the abstract record (misc is the caller's: it has no single field).
func mdoAbstract(e *markdown.ExportOptions, misc string) mdoOpts {
	w := 0
	if e.WrapLongLines {
		w = e.MaxLineLength
	}
	return mdoOpts{Gfm: e.UseGFMTables, Setext: e.UseSetext, Meta: e.IncludeMetadata, Bullet: e.BulletListMarker,
		Emph: e.EmphasisMarker, Lang: e.DefaultCodeLang, Wrap: w, Misc: misc}
}

func mdoFormat(f []string) *document.TextFormat {
	if len(f) == 0 {
		return nil
	}
	tf := &document.TextFormat{}
	for _, x := range f {
		switch x {
		case "b":
			tf.Bold = true
		case "i":
			tf.Italic = true
		case "s":
			tf.Strike = true
		case "c":
			tf.FontFamily = "Consolas"
		}
	}
	return tf
}

// mdoBuild builds the abstract body with the public API of pkg/document.
func mdoBuild(c *mdoConc, body []mdoBlk, salt int64) *document.Document {
	doc := document.New()
	for bi, b := range body {
		if b.K == "tbl" {
			data := make([][]string, len(b.Rows))
			for r, row := range b.Rows {
				data[r] = make([]string, len(row))
				for j, cell := range row {
					data[r][j] = c.text(cell.T)
				}
			}
			cols := 0
			if len(data) > 0 {
				cols = len(data[0])
			}
			if (salt+int64(bi))%2 == 0 {
				doc.AddTable(&document.TableConfig{Rows: len(data), Cols: cols, Width: 9000, Data: data})
			} else {
				t, err := doc.AddTable(&document.TableConfig{Rows: len(data), Cols: cols, Width: 9000})
				if err == nil && t != nil {
					for r := range data {
						for j := range data[r] {
							t.SetCellText(r, j, data[r][j])
						}
					}
				}
			}
			continue
		}
		var para *document.Paragraph
		first, rest := "", b.Runs
		var firstFmt *document.TextFormat
		if len(b.Runs) > 0 {
			first, firstFmt, rest = c.text(b.Runs[0].T), mdoFormat(b.Runs[0].F), b.Runs[1:]
		}
		// a list item, or a heading / quote / code paragraph that carries numbering properties (the style is set below)
		if b.K == "li" || b.A != "" {
			cfg := &document.ListConfig{Type: document.ListTypeBullet, BulletSymbol: document.BulletTypeDot, IndentLevel: b.N}
			if b.A == "num" {
				cfg = &document.ListConfig{Type: document.ListTypeDecimal, IndentLevel: b.N, StartNumber: 1}
			}
			if firstFmt == nil {
				para = doc.AddListItem(first, cfg)
			} else {
				para = doc.AddListItem("", cfg)
				para.AddFormattedText(first, firstFmt)
			}
		} else if firstFmt == nil {
			para = doc.AddParagraph(first)
		} else {
			para = doc.AddFormattedParagraph(first, firstFmt)
		}
		for _, r := range rest {
			para.AddFormattedText(c.text(r.T), mdoFormat(r.F))
		}
		switch b.K {
		case "h":
			para.SetStyle(fmt.Sprintf("Heading%d", b.N))
		case "q":
			para.SetStyle("Quote")
		case "code":
			para.SetStyle("CodeBlock")
		}
	}
	return doc
}

func mdoFail(a ...interface{}) {
	fmt.Fprintln(os.Stderr, append([]interface{}{"mdout:"}, a...)...)
	os.Exit(2)
}

func runMdOut(c Case, emit Emitter) {
	emit(Ev{"ev": "reset", "case": c.ID})
	tmp := ""
	defer func() {
		if tmp != "" {
			os.RemoveAll(tmp)
		}
	}()
	needTmp := func() string {
		if tmp == "" {
			d, err := os.MkdirTemp("", "wzh-mdout-")
			if err != nil {
				mdoFail(err)
			}
			tmp = d
		}
		return tmp
	}
	var ex *markdown.Exporter
	var ctor *markdown.ExportOptions // what NewExporter was given (nil = defaults)
	for i, op := range c.Steps {
		var o mdoOpts
		if err := mdiDecode(op["opts"], &o); err != nil {
			mdoFail("bad opts:", err)
		}
		co := op.Str("co")
		switch op.Name() {
		case "new":
			ctor = nil
			if co == "ctor" || co == "both" {
				ctor = mdoOptions(o, needTmp())
			}
			ex = markdown.NewExporter(ctor)
			emit(Ev{"ev": "step", "case": c.ID, "op": "new", "opts": o, "co": co})
		case "export":
			var body []mdoBlk
			if err := mdiDecode(op["body"], &body); err != nil {
				mdoFail("bad body:", err)
			}
			if ex == nil {
				ex = markdown.NewExporter(nil)
			}
			cc := mdoNewConc(seed + int64(c.ID)*7 + int64(i))
			api, origin := op.Str("api"), op.Str("origin")
			var call *markdown.ExportOptions
			if co == "call" || co == "both" {
				call = mdoOptions(o, needTmp())
			}
			eff := markdown.DefaultExportOptions()
			if call != nil {
				eff = call
			} else if ctor != nil {
				eff = ctor
			}
			effAbs := mdoAbstract(eff, "default")
			if call != nil || ctor != nil {
				effAbs.Misc = o.Misc
			}

			md, md2, pmsg := "", "", ""
			src, exp, back := []mdoM{}, []mdoM{}, []mdoM{}
			conv, stable := "none", false
			ret, pm := guard(func() string {
				doc := mdoBuild(cc, body, seed+int64(c.ID))
				var srcBytes []byte
				if origin == "open" || api == "file" || api == "batch" || api == "auto" {
					b, err := doc.ToBytes()
					if err != nil {
						return "build-err"
					}
					srcBytes = b
				}
				switch api {
				case "file", "batch", "auto":
					dir := needTmp()
					in := filepath.Join(dir, fmt.Sprintf("d%d.docx", i))
					out := filepath.Join(dir, fmt.Sprintf("d%d.md", i))
					if err := os.WriteFile(in, srcBytes, 0o644); err != nil {
						mdoFail(err)
					}
					var err error
					switch api {
					case "file":
						err = ex.ExportToFile(in, out, call)
					case "batch":
						other := filepath.Join(dir, "other.docx")
						od := document.New()
						od.AddParagraph("other")
						if e := od.Save(other); e != nil {
							return "build-err"
						}
						err = ex.BatchExport([]string{other, in}, dir, call)
					case "auto":
						err = markdown.NewBidirectionalConverter(nil, ctor).AutoConvert(in, out)
					}
					if err != nil {
						return "err"
					}
					b, err := os.ReadFile(out)
					if err != nil {
						return "err"
					}
					md = string(b)
				default:
					if origin == "open" {
						d2, err := document.OpenFromMemory(io.NopCloser(bytes.NewReader(srcBytes)))
						if err != nil || d2 == nil {
							return "build-err"
						}
						doc = d2
					}
					if api == "bytes" {
						b, err := ex.ExportToBytes(doc, call)
						if err != nil {
							return "err"
						}
						md = string(b)
					} else {
						s, err := ex.ExportToString(doc, call)
						if err != nil {
							return "err"
						}
						md = s
					}
					// what the exporter was given, as the bytes it saves to
					b, err := doc.ToBytes()
					if err != nil {
						return "build-err"
					}
					srcBytes = b
				}
				src = mdoDocBlocks(cc, ReadPkg(srcBytes))
				return "ok"
			})
			pmsg = pm
			if ret == "ok" {
				exp = mdoMdBlocks(cc, md)
				var doc2 *document.Document
				conv, _ = guard(func() string {
					d, err := markdown.NewConverter(nil).ConvertString(md, nil)
					if err != nil || d == nil {
						return "err"
					}
					doc2 = d
					return "ok"
				})
				if conv == "ok" {
					r2, _ := guard(func() string {
						b, err := doc2.ToBytes()
						if err != nil {
							return "err"
						}
						back = mdoDocBlocks(cc, ReadPkg(b))
						s, err := markdown.NewExporter(mdoOptions(o, needTmp())).ExportToString(doc2, nil)
						if err != nil {
							return "err"
						}
						md2 = s
						return "ok"
					})
					if r2 != "ok" {
						conv = "re-" + r2
					}
					stable = r2 == "ok" && mdoNormMd(md2) == mdoNormMd(md)
				}
			}
			emit(Ev{"ev": "step", "case": c.ID, "op": "export", "body": op["body"], "opts": o, "api": api, "co": co, "origin": origin,
				"eff": effAbs, "ret": ret, "pmsg": pmsg, "src": src, "exp": exp, "conv": conv, "back": back, "stable": stable,
				"md": md, "md2": md2})
		default:
			mdoFail("unknown op", op.Name())
		}
	}
}

// mdoNormMd removes differences of insignificant white space before the two exports are compared as strings:
// trailing spaces, up to three leading spaces, repeated spaces and repeated blank lines outside code fences, blank lines at the ends.
func mdoNormMd(md string) string {
	var out []string
	fence := false
	for _, l := range strings.Split(md, "\n") {
		l = strings.TrimRight(l, " \t\r")
		if strings.HasPrefix(strings.TrimLeft(l, " "), "```") {
			fence = !fence
		}
		if !fence {
			t := strings.TrimLeft(l, " ")
			if len(l)-len(t) < 4 {
				l = t
			}
			for strings.Contains(l, "  ") {
				l = strings.ReplaceAll(l, "  ", " ")
			}
			if l == "" && (len(out) == 0 || out[len(out)-1] == "") {
				continue
			}
		}
		out = append(out, l)
	}
	for len(out) > 0 && out[len(out)-1] == "" {
		out = out[:len(out)-1]
	}
	return strings.Join(out, "\n")
}
