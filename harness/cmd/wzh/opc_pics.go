package main

// Projection of a saved package to the abstract state of spec module Pics (property C10):
// the picture skeleton of the main part, the binary parts with the image token their bytes
// carry, and the relationships of the main part with resolved targets. Built on the
// independent reader of opc.go; knows nothing about the library's structs. No oracle logic:
// resolution picture -> relationship -> part -> bytes is done by the TLA+ judge.

import (
	"archive/zip"
	"bytes"
	"crypto/sha1"
	"encoding/hex"
	"io"
	"regexp"
	"strconv"
	"strings"
)

type picM = map[string]interface{}

func picSha(b []byte) string {
	h := sha1.Sum(b)
	return hex.EncodeToString(h[:])
}

var picPhRe = regexp.MustCompile(`\{\{#image\s+s(\d+)\}\}`)

func picAtoi(s string) int {
	n, err := strconv.Atoi(strings.TrimSpace(s))
	if err != nil {
		return -1
	}
	return n
}

func picRelKind(typ string) string {
	i := strings.LastIndex(typ, "/")
	k := typ[i+1:]
	switch k {
	case "image", "styles", "header", "footer", "numbering", "footnotes", "endnotes", "settings", "hyperlink":
		return k
	}
	return "other"
}

// picOfDrawing projects one w:drawing element.
func picOfDrawing(d *Node) picM {
	box := d.Child("inline")
	if box == nil {
		box = d.Child("anchor")
	}
	cx, cy, ax, ay := -1, -1, -1, -1
	if e := box.Child("extent"); e != nil {
		cx, cy = picAtoi(e.A("cx")), picAtoi(e.A("cy"))
	}
	embed := ""
	if bl := d.Desc("blip"); len(bl) > 0 {
		embed = bl[0].A("embed")
	}
	for _, sp := range d.Desc("spPr") {
		if e := sp.Path("xfrm", "ext"); e != nil {
			ax, ay = picAtoi(e.A("cx")), picAtoi(e.A("cy"))
			break
		}
	}
	return picM{"k": "pic", "embed": embed, "cx": cx, "cy": cy, "ax": ax, "ay": ay, "slot": 0, "lay": ""}
}

// picItemsOf projects one block (a paragraph, or any container that is not a table): its
// pictures in document order, then the picture placeholders its text contains.
func picItemsOf(n *Node) []picM {
	out := []picM{}
	paras := []*Node{n}
	if n.Local != "p" {
		paras = n.Desc("p")
		if len(paras) == 0 {
			paras = []*Node{n}
		}
	}
	for _, p := range paras {
		for _, d := range p.Desc("drawing") {
			out = append(out, picOfDrawing(d))
		}
		txt := p.WText()
		for _, m := range picPhRe.FindAllStringSubmatch(txt, -1) {
			lay := "around"
			if strings.TrimSpace(txt) == m[0] {
				lay = "alone"
			}
			out = append(out, picM{"k": "ph", "embed": "", "cx": 0, "cy": 0, "ax": 0, "ay": 0, "slot": picAtoi(m[1]), "lay": lay})
		}
	}
	return out
}

// picBodyOf projects the children of w:body.
func picBodyOf(body *Node) []picM {
	out := []picM{}
	for _, k := range body.Kids {
		if k.Local == "tbl" {
			cells := [][]picM{}
			cols := 0
			for ri, tr := range k.Children("tr") {
				tcs := tr.Children("tc")
				if ri == 0 {
					cols = len(tcs)
				}
				for _, tc := range tcs {
					items := []picM{}
					for _, blk := range tc.Kids {
						if blk.Local == "tcPr" {
							continue
						}
						items = append(items, picItemsOf(blk)...)
					}
					cells = append(cells, items)
				}
			}
			out = append(out, picM{"k": "tbl", "embed": "", "cx": 0, "cy": 0, "ax": 0, "ay": 0, "slot": 0, "lay": "", "cols": cols, "cells": cells})
			continue
		}
		if k.Local == "sectPr" {
			continue
		}
		for _, it := range picItemsOf(k) {
			it["cols"] = 0
			it["cells"] = [][]picM{}
			out = append(out, it)
		}
	}
	return out
}

type picProj struct {
	saved string
	body  []picM
	media []picM
	rels  []picM
}

// picProject reads the bytes of a package; tokOf maps the SHA-1 of a part's bytes to the image token.
// Only the entries the projection needs are inflated (package relationships, the main part, its
// relationship part, binary parts); the reader is archive/zip + the strict XML walk of opc.go.
func picProject(b []byte, tokOf map[string]string) picProj {
	pr := picProj{saved: "ok", body: []picM{}, media: []picM{}, rels: []picM{}}
	zr, err := zip.NewReader(bytes.NewReader(b), int64(len(b)))
	if err != nil {
		pr.saved = "zip"
		return pr
	}
	read := func(f *zip.File) ([]byte, bool) {
		rc, err := f.Open()
		if err != nil {
			return nil, false
		}
		data, err := io.ReadAll(rc)
		rc.Close()
		return data, err == nil
	}
	last := map[string]*zip.File{} // last entry of a name wins, as for any ZIP consumer
	for _, f := range zr.File {
		last[strings.TrimPrefix(f.Name, "/")] = f
	}
	relsOf := func(name string) ([]Rel, string) {
		f, ok := last[name]
		if !ok {
			return nil, "missing"
		}
		data, ok := read(f)
		if !ok {
			return nil, "zip"
		}
		root, err := ParseXML(data)
		if err != nil {
			return nil, "xml"
		}
		var rs []Rel
		for _, r := range root.Children("Relationship") {
			rs = append(rs, Rel{ID: r.A("Id"), Type: r.A("Type"), Target: r.A("Target"), Mode: r.A("TargetMode")})
		}
		return rs, ""
	}
	main := "word/document.xml"
	if rs, e := relsOf("_rels/.rels"); e == "" {
		for _, r := range rs {
			if r.Type == relOfficeDoc {
				main = ResolveTarget("", r.Target)
			}
		}
	}
	mf, ok := last[main]
	if !ok {
		pr.saved = "xml"
		return pr
	}
	data, ok := read(mf)
	if !ok {
		pr.saved = "zip"
		return pr
	}
	root, err := ParseXML(data)
	if err != nil || root.Local != "document" || root.Child("body") == nil {
		pr.saved = "xml"
		return pr
	}
	pr.body = picBodyOf(root.Child("body"))
	rs, e := relsOf(RelsPartFor(main))
	if e == "xml" || e == "zip" {
		pr.saved = "rels"
		return pr
	}
	for _, r := range rs {
		tgt := "external:" + r.Target
		if r.Mode != "External" {
			tgt = ResolveTarget(main, r.Target)
		}
		pr.rels = append(pr.rels, picM{"id": r.ID, "kind": picRelKind(r.Type), "tgt": tgt})
	}
	// every binary entry of the archive (duplicates preserved) with the token of its bytes
	for _, f := range zr.File {
		low := strings.ToLower(f.Name)
		if strings.HasSuffix(low, ".xml") || strings.HasSuffix(low, ".rels") || strings.HasSuffix(f.Name, "/") {
			continue
		}
		data, ok := read(f)
		if !ok {
			pr.saved = "zip"
			return pr
		}
		tok, ok := tokOf[picSha(data)]
		if !ok {
			tok = "?"
		}
		pr.media = append(pr.media, picM{"name": strings.TrimPrefix(f.Name, "/"), "tok": tok})
	}
	return pr
}
