package main

// Independent OPC / XML reader. Knows nothing about the library's structs:
// archive/zip + a strict encoding/xml token walk into a generic tree.

import (
	"archive/zip"
	"bytes"
	"encoding/xml"
	"fmt"
	"io"
	"path"
	"sort"
	"strings"
	"unicode/utf8"
)

const (
	nsW   = "http://schemas.openxmlformats.org/wordprocessingml/2006/main"
	nsR   = "http://schemas.openxmlformats.org/officeDocument/2006/relationships"
	nsRel = "http://schemas.openxmlformats.org/package/2006/relationships"
	nsCT  = "http://schemas.openxmlformats.org/package/2006/content-types"
	nsA   = "http://schemas.openxmlformats.org/drawingml/2006/main"
	nsWP  = "http://schemas.openxmlformats.org/drawingml/2006/wordprocessingDrawing"
	nsPic = "http://schemas.openxmlformats.org/drawingml/2006/picture"
	nsM   = "http://schemas.openxmlformats.org/officeDocument/2006/math"

	relOfficeDoc = "http://schemas.openxmlformats.org/officeDocument/2006/relationships/officeDocument"
	relImage     = "http://schemas.openxmlformats.org/officeDocument/2006/relationships/image"
	relHeader    = "http://schemas.openxmlformats.org/officeDocument/2006/relationships/header"
	relFooter    = "http://schemas.openxmlformats.org/officeDocument/2006/relationships/footer"
	relStyles    = "http://schemas.openxmlformats.org/officeDocument/2006/relationships/styles"
)

// Node is a generic XML element.
type Node struct {
	Space, Local string
	Attr         []xml.Attr
	Kids         []*Node
	Text         string // character data directly inside this element
	Parent       *Node
}

func (n *Node) Is(space, local string) bool {
	return n != nil && n.Local == local && (n.Space == space || space == "")
}

// A returns the value of the attribute with this local name (any namespace).
func (n *Node) A(local string) string {
	if n == nil {
		return ""
	}
	for _, a := range n.Attr {
		if a.Name.Local == local {
			return a.Value
		}
	}
	return ""
}

func (n *Node) HasA(local string) bool {
	if n == nil {
		return false
	}
	for _, a := range n.Attr {
		if a.Name.Local == local {
			return true
		}
	}
	return false
}

// Child returns the first child element with this local name.
func (n *Node) Child(local string) *Node {
	if n == nil {
		return nil
	}
	for _, k := range n.Kids {
		if k.Local == local {
			return k
		}
	}
	return nil
}

func (n *Node) Children(local string) []*Node {
	var out []*Node
	if n == nil {
		return out
	}
	for _, k := range n.Kids {
		if k.Local == local {
			out = append(out, k)
		}
	}
	return out
}

// Path descends through first children by local name.
func (n *Node) Path(locals ...string) *Node {
	cur := n
	for _, l := range locals {
		cur = cur.Child(l)
		if cur == nil {
			return nil
		}
	}
	return cur
}

// Desc returns all descendants (document order) with this local name.
func (n *Node) Desc(local string) []*Node {
	var out []*Node
	var walk func(*Node)
	walk = func(x *Node) {
		for _, k := range x.Kids {
			if k.Local == local {
				out = append(out, k)
			}
			walk(k)
		}
	}
	if n != nil {
		walk(n)
	}
	return out
}

// WText concatenates the character data of all w:t (and m:t) descendants.
func (n *Node) WText() string {
	var sb strings.Builder
	var walk func(*Node)
	walk = func(x *Node) {
		if x.Local == "t" {
			sb.WriteString(x.Text)
		}
		for _, k := range x.Kids {
			walk(k)
		}
	}
	if n != nil {
		walk(n)
	}
	return sb.String()
}

// isXMLChar reports whether r is allowed by the XML 1.0 Char production.
func isXMLChar(r rune) bool {
	return r == 0x9 || r == 0xA || r == 0xD ||
		(r >= 0x20 && r <= 0xD7FF) || (r >= 0xE000 && r <= 0xFFFD) || (r >= 0x10000 && r <= 0x10FFFF)
}

// ParseXML parses b strictly; any syntax error, bad character or trailing garbage is an error.
func ParseXML(b []byte) (*Node, error) {
	if !utf8.Valid(b) {
		// encoding/xml would also complain for UTF-8 documents
		return nil, fmt.Errorf("invalid UTF-8")
	}
	for _, r := range string(b) {
		if !isXMLChar(r) {
			return nil, fmt.Errorf("character U+%04X not allowed in XML", r)
		}
	}
	dec := xml.NewDecoder(bytes.NewReader(b))
	dec.Strict = true
	var root, cur *Node
	for {
		tok, err := dec.Token()
		if err == io.EOF {
			break
		}
		if err != nil {
			return nil, err
		}
		switch t := tok.(type) {
		case xml.StartElement:
			n := &Node{Space: t.Name.Space, Local: t.Name.Local, Attr: append([]xml.Attr(nil), t.Attr...), Parent: cur}
			if cur == nil {
				if root != nil {
					return nil, fmt.Errorf("more than one root element")
				}
				root = n
			} else {
				cur.Kids = append(cur.Kids, n)
			}
			cur = n
		case xml.EndElement:
			if cur == nil {
				return nil, fmt.Errorf("unbalanced end element")
			}
			cur = cur.Parent
		case xml.CharData:
			if cur != nil {
				cur.Text += string(t)
			} else if strings.TrimSpace(string(t)) != "" {
				return nil, fmt.Errorf("text outside root")
			}
		}
	}
	if root == nil {
		return nil, fmt.Errorf("no root element")
	}
	if cur != nil {
		return nil, fmt.Errorf("unclosed element %s", cur.Local)
	}
	return root, nil
}

// Rel is one relationship.
type Rel struct {
	ID, Type, Target, Mode string
}

// Pkg is the independent view of an OPC package.
type Pkg struct {
	Names    []string          // entry names in archive order (duplicates preserved)
	Parts    map[string][]byte // last entry wins
	ZipErr   string
	Defaults map[string]string // lower-case extension -> content type
	Overr    map[string]string // part name (leading /) -> content type
	CTErr    string
	Rels     map[string][]Rel // rels part name -> relationships
	RelsErr  map[string]string
}

func ReadPkg(b []byte) *Pkg {
	p := &Pkg{Parts: map[string][]byte{}, Defaults: map[string]string{}, Overr: map[string]string{},
		Rels: map[string][]Rel{}, RelsErr: map[string]string{}}
	zr, err := zip.NewReader(bytes.NewReader(b), int64(len(b)))
	if err != nil {
		p.ZipErr = err.Error()
		return p
	}
	for _, f := range zr.File {
		rc, err := f.Open()
		if err != nil {
			p.ZipErr = err.Error()
			return p
		}
		data, err := io.ReadAll(rc)
		rc.Close()
		if err != nil {
			p.ZipErr = err.Error()
			return p
		}
		p.Names = append(p.Names, f.Name)
		p.Parts[f.Name] = data
	}
	if ct, ok := p.Parts["[Content_Types].xml"]; ok {
		root, err := ParseXML(ct)
		if err != nil {
			p.CTErr = err.Error()
		} else {
			for _, d := range root.Children("Default") {
				p.Defaults[strings.ToLower(d.A("Extension"))] = d.A("ContentType")
			}
			for _, o := range root.Children("Override") {
				p.Overr[o.A("PartName")] = o.A("ContentType")
			}
		}
	} else {
		p.CTErr = "missing"
	}
	for name, data := range p.Parts {
		if strings.HasSuffix(name, ".rels") {
			root, err := ParseXML(data)
			if err != nil {
				p.RelsErr[name] = err.Error()
				continue
			}
			var rs []Rel
			for _, r := range root.Children("Relationship") {
				rs = append(rs, Rel{ID: r.A("Id"), Type: r.A("Type"), Target: r.A("Target"), Mode: r.A("TargetMode")})
			}
			p.Rels[name] = rs
		}
	}
	return p
}

// SortedNames returns the distinct part names sorted.
func (p *Pkg) SortedNames() []string {
	var out []string
	for n := range p.Parts {
		out = append(out, n)
	}
	sort.Strings(out)
	return out
}

// ContentType returns the content type of a part ("" if none).
func (p *Pkg) ContentType(name string) string {
	if ct, ok := p.Overr["/"+name]; ok {
		return ct
	}
	ext := strings.TrimPrefix(path.Ext(name), ".")
	if ext == "" {
		return ""
	}
	return p.Defaults[strings.ToLower(ext)]
}

// RelsPartFor gives the name of the relationship part of a source part ("" = package root).
func RelsPartFor(src string) string {
	if src == "" {
		return "_rels/.rels"
	}
	return path.Join(path.Dir(src), "_rels", path.Base(src)+".rels")
}

// SourceOfRels is the inverse of RelsPartFor.
func SourceOfRels(relsName string) string {
	if relsName == "_rels/.rels" {
		return ""
	}
	dir := path.Dir(path.Dir(relsName)) // strip _rels
	base := strings.TrimSuffix(path.Base(relsName), ".rels")
	if dir == "." {
		return base
	}
	return path.Join(dir, base)
}

// ResolveTarget resolves an internal relationship target relative to its source part.
func ResolveTarget(src, target string) string {
	if strings.HasPrefix(target, "/") {
		return strings.TrimPrefix(path.Clean(target), "/")
	}
	base := "."
	if src != "" {
		base = path.Dir(src)
	}
	r := path.Join(base, target)
	return strings.TrimPrefix(r, "./")
}

// IsXMLPart tells whether a part is expected to be XML.
func (p *Pkg) IsXMLPart(name string) bool {
	ext := strings.ToLower(strings.TrimPrefix(path.Ext(name), "."))
	if ext == "xml" || ext == "rels" {
		return true
	}
	ct := p.ContentType(name)
	return strings.HasSuffix(ct, "+xml") || strings.HasSuffix(ct, "/xml")
}

// MainDoc parses word/document.xml (or the officeDocument target).
func (p *Pkg) MainDocName() string {
	for _, r := range p.Rels["_rels/.rels"] {
		if r.Type == relOfficeDoc {
			return ResolveTarget("", r.Target)
		}
	}
	return "word/document.xml"
}

func (p *Pkg) MainBody() (*Node, error) {
	data, ok := p.Parts[p.MainDocName()]
	if !ok {
		return nil, fmt.Errorf("main part missing")
	}
	root, err := ParseXML(data)
	if err != nil {
		return nil, err
	}
	if root.Local != "document" {
		return nil, fmt.Errorf("root is %s", root.Local)
	}
	b := root.Child("body")
	if b == nil {
		return nil, fmt.Errorf("no body")
	}
	return b, nil
}
