package main

// Executor for spec module Tmpl (property C16): text templates.
//
// A case is (template AST, data, expected output tokens), all produced by the TLA+
// specification. This file serialises the AST to template text, builds the TemplateData
// through the public setters, renders with the real engine, joins the paragraph texts of
// the resulting document with "\n" and logs whether that string equals the concatenation
// of the concretised expected tokens (a plain string equality; the judge is Tmpl_Trace.tla).
// Every abstract token has several concrete strings / Go values; all concretisation rounds
// are executed for every case.

import (
	"bytes"
	"encoding/json"
	"fmt"
	"reflect"
	"sort"
	"strings"

	"github.com/zerx-lab/wordZero/pkg/document"
)

func init() { register("tmpl", runTmpl) }

type tmplNode struct {
	T string     `json:"t"`
	N string     `json:"n"`
	A []tmplNode `json:"a"`
	B []tmplNode `json:"b"`
}

type tmplTpl struct {
	Body []tmplNode `json:"body"`
	Ext  bool       `json:"ext"`
	Ovr  []tmplNode `json:"ovr"`
	Bn   string     `json:"bn"`
}

// a TLA+ function with an empty domain is printed as [] and a non-empty one as an object
type tmplObj map[string]json.RawMessage

func (o *tmplObj) UnmarshalJSON(b []byte) error {
	t := bytes.TrimSpace(b)
	if len(t) > 0 && t[0] == '[' {
		*o = tmplObj{}
		return nil
	}
	m := map[string]json.RawMessage{}
	if err := json.Unmarshal(b, &m); err != nil {
		return err
	}
	*o = m
	return nil
}

func (o tmplObj) keys() []string {
	ks := make([]string, 0, len(o))
	for k := range o {
		ks = append(ks, k)
	}
	sort.Strings(ks)
	return ks
}

// keys in ascending or descending order: the order in which the entries are handed to the library.
// The library keeps variables and item fields in Go maps, whose iteration order depends on the
// insertion order; every round is executed with both orders when a map has two or more entries.
func (o tmplObj) ordered(rev bool) []string {
	ks := o.keys()
	if rev {
		for i, j := 0, len(ks)-1; i < j; i, j = i+1, j-1 {
			ks[i], ks[j] = ks[j], ks[i]
		}
	}
	return ks
}

func tmplItemsMultiKey(items []tmplItem) bool {
	for _, it := range items {
		if it.K != "m" {
			continue
		}
		if len(it.F) >= 2 {
			return true
		}
		for _, raw := range it.F {
			var fv tmplFieldVal
			if json.Unmarshal(raw, &fv) == nil && fv.K == "l" && tmplItemsMultiKey(fv.L) {
				return true
			}
		}
	}
	return false
}

// number of insertion orders worth executing: 2 if some map of the data has at least two entries
func tmplOrders(d tmplData) int {
	if len(d.Vars) >= 2 {
		return 2
	}
	for _, raw := range d.Lists {
		var items []tmplItem
		if json.Unmarshal(raw, &items) == nil && tmplItemsMultiKey(items) {
			return 2
		}
	}
	return 1
}

type tmplItem struct {
	K string  `json:"k"`
	V string  `json:"v"`
	F tmplObj `json:"f"`
}

type tmplFieldVal struct {
	K string     `json:"k"`
	V string     `json:"v"`
	L []tmplItem `json:"l"`
}

type tmplData struct {
	Vars  tmplObj  `json:"vars"`
	Conds tmplObj  `json:"conds"`
	Lists tmplObj  `json:"lists"`
	Imgs  []string `json:"imgs"`
	Noise bool     `json:"noise"`
}

type tmplCase struct {
	Tpl  tmplTpl         `json:"tpl"`
	Data tmplData        `json:"data"`
	Exp  []string        `json:"exp"`
	RawT json.RawMessage `json:"-"`
}

const tmplRounds = 6

// ---- concretisation tables -------------------------------------------------

var tmplLitConc = map[string][]string{
	"p1":  {"Hello", "x y", "Total: 3.", "é中 ok", "a$1b", "100% [x] (y)"},
	"p2":  {"World", "foo, bar", "- item", "B&W <i>", "q\\1", "#2: ok?"},
	"nl":  {"\n"},
	"br1": {"{", "{ x }", "}}", "a}b{c", "}", "{x}}"},
	"br2": {"{{ ", "{{ x }}", "{{}}", "}}{{ ", "{{ #if c1 }}", "{{/ "},
	"x1":  {"[IMAGE:im1]", "[IMAGE:zz]"},
}

// Go values per value token; the expected text of a value is the natural rendering of
// strings, numbers and booleans
var tmplValConc = map[string][]interface{}{
	"p1": {"Alice", "a b", "3 < 4 & 5", "naïve ✓", "O'Neil \"q\"", "plain one"},
	"p2": {"Bob", "c d", "#tag", "end.", "x=y;z", "plain two"},
	"n0": {0, float64(0), int64(0)},
	"n1": {42, 3.5, int64(7)},
	"n2": {-1, 2.75, 0.25},
	"bT": {true},
	"bF": {false},
	"e1": {""},
	"d1": {"{{v2}}", "{{zz}}", "{{f1}}", "{{v1}}", "{{g1}}", "{{q1}}"},
	"d2": {"{{#if c1}}X{{/if}}", "{{#each ls}}Y{{/each}}", "{{#if c2}}X{{else}}Z{{/if}}", "{{#image im1}}", "{{#if q1}}X{{/if}}", "{{#each sub}}Y{{/each}}"},
	"d3": {"{{/if}}", "{{else}}", "{{/each}}", "{{#if c1}}", "{{#each ls}}", "{{/block}}"},
	"d4": {"{{this}}", "{{@index}}", "{{@last}}", "{{@first}}"},
	"s1": {"$1", "${1}x", "$0", "\\1", "$$", "a$"},
	"w1": {"a\nb", "l1\nl2\nl3"},
	"x1": {"[IMAGE:im1]", "[IMAGE:nope]"},
}

// reference values: text around the placeholder of the name the token stands for (Tmpl!RefName)
var tmplRefName = map[string]string{"rv1": "v1", "rv2": "v2", "rf1": "f1", "rf2": "f2"}

var tmplRefShape = []string{"%s", "write %s where the name goes", "%s%s", "[%s]", "see %s", "%s."}

func init() {
	for tok, name := range tmplRefName {
		ph := "{{" + name + "}}"
		for _, f := range tmplRefShape {
			tmplValConc[tok] = append(tmplValConc[tok], strings.ReplaceAll(f, "%s", ph))
		}
	}
}

// quoted names (block names, the name of the extended template): identifiers and free text
var tmplNameConc = map[string][]string{
	"b1": {"b1", "content", "main_2", "B", "x9", "_a"},
	"b2": {"b2", "footer", "side_bar", "Aa", "y_0", "__"},
	"h1": {"main-content", "side bar", "块名", "a.b", "sec:1", "é"},
	"h2": {"foot-note", "the end", "页脚", "c.d.e", "#2", "x y-z"},
	"t1": {"base", "layout", "Base_2", "T", "tpl1", "_b"},
	"t2": {"base-layout", "my base", "基础模板", "a.b", "x/y", "doc (v2)"},
}

func tmplName(tok string, round int) string {
	c := tmplNameConc[tok]
	if len(c) == 0 {
		return "?name:" + tok
	}
	return c[(round+tmplHash(tok))%len(c)]
}

// value class "one very long line" (just over 64 KiB, the default token limit of bufio.Scanner): takes the
// place of the last plain concretisation of p2
func init() {
	tmplValConc["p2"][5] = "L" + strings.Repeat("long-", 13200)
}

func tmplHash(s string) int {
	h := 0
	for i := 0; i < len(s); i++ {
		h = h*31 + int(s[i])
	}
	if h < 0 {
		h = -h
	}
	return h
}

func tmplLit(tok string, round int) string {
	c := tmplLitConc[tok]
	if len(c) == 0 {
		return "?lit:" + tok
	}
	return c[(round+tmplHash(tok))%len(c)]
}

func tmplVal(tok string, round int) interface{} {
	c := tmplValConc[tok]
	if len(c) == 0 {
		return "?val:" + tok
	}
	return c[(round+tmplHash(tok))%len(c)]
}

// text of a value as documented: strings verbatim, numbers and booleans in their usual form
func tmplValText(tok string, round int) string {
	return fmt.Sprint(tmplVal(tok, round))
}

func tmplImgMark(name string) string { return "⟦IMG:" + name + "⟧" }

// ---- template text ----------------------------------------------------------

func tmplSeqText(ns []tmplNode, round int, sb *strings.Builder) {
	for _, n := range ns {
		switch n.T {
		case "lit":
			sb.WriteString(tmplLit(n.N, round))
		case "var", "fld":
			sb.WriteString("{{" + n.N + "}}")
		case "if":
			sb.WriteString("{{#if " + n.N + "}}")
			tmplSeqText(n.A, round, sb)
			sb.WriteString("{{/if}}")
		case "ife":
			sb.WriteString("{{#if " + n.N + "}}")
			tmplSeqText(n.A, round, sb)
			sb.WriteString("{{else}}")
			tmplSeqText(n.B, round, sb)
			sb.WriteString("{{/if}}")
		case "each":
			sb.WriteString("{{#each " + n.N + "}}")
			tmplSeqText(n.A, round, sb)
			sb.WriteString("{{/each}}")
		case "this":
			sb.WriteString("{{this}}")
		case "idx":
			sb.WriteString("{{@index}}")
		case "first":
			sb.WriteString("{{@first}}")
		case "last":
			sb.WriteString("{{@last}}")
		case "block":
			sb.WriteString("{{#block \"" + tmplName(n.N, round) + "\"}}")
			tmplSeqText(n.A, round, sb)
			sb.WriteString("{{/block}}")
		case "img":
			sb.WriteString("{{#image " + n.N + "}}")
		default:
			sb.WriteString("?node:" + n.T)
		}
	}
}

func tmplBaseName(t tmplTpl, round int) string {
	if t.Bn == "" {
		return "base"
	}
	return tmplName(t.Bn, round)
}

func tmplTexts(t tmplTpl, round int) (base, child string) {
	var sb strings.Builder
	tmplSeqText(t.Body, round, &sb)
	base = sb.String()
	if !t.Ext {
		return base, ""
	}
	sep := ""
	if round%2 == 1 {
		sep = "\n"
	}
	var cb strings.Builder
	cb.WriteString("{{extends \"" + tmplBaseName(t, round) + "\"}}")
	for _, b := range t.Ovr {
		cb.WriteString(sep)
		tmplSeqText([]tmplNode{b}, round, &cb)
	}
	return base, cb.String()
}

// ---- data ---------------------------------------------------------------------

func tmplItems(raw json.RawMessage, round int, rev bool) ([]interface{}, error) {
	var items []tmplItem
	if err := json.Unmarshal(raw, &items); err != nil {
		return nil, err
	}
	return tmplItemsOf(items, round, rev)
}

func tmplItemsOf(items []tmplItem, round int, rev bool) ([]interface{}, error) {
	out := make([]interface{}, 0, len(items))
	for _, it := range items {
		if it.K == "s" {
			out = append(out, tmplVal(it.V, round))
			continue
		}
		m := map[string]interface{}{}
		for _, k := range it.F.ordered(rev) {
			var fv tmplFieldVal
			if err := json.Unmarshal(it.F[k], &fv); err != nil {
				return nil, err
			}
			if fv.K == "v" {
				m[k] = tmplVal(fv.V, round)
			} else {
				sub, err := tmplItemsOf(fv.L, round, rev)
				if err != nil {
					return nil, err
				}
				m[k] = sub
			}
		}
		out = append(out, m)
	}
	return out, nil
}

func tmplBuildData(d tmplData, round int, rev bool) (*document.TemplateData, error) {
	td := document.NewTemplateData()
	vals := map[string]interface{}{}
	order := d.Vars.ordered(rev)
	for _, k := range order {
		var tok string
		if err := json.Unmarshal(d.Vars[k], &tok); err != nil {
			return nil, err
		}
		vals[k] = tmplVal(tok, round)
	}
	// the documented ways of filling in variables
	switch round % 4 {
	case 0:
		for _, k := range order {
			td.SetVariable(k, vals[k])
		}
	case 1:
		td.SetVariables(vals)
	case 2:
		other := document.NewTemplateData()
		other.SetVariables(vals)
		td.SetVariable("v1", "stale value removed by Clear")
		td.Clear()
		td.Merge(other)
	case 3:
		// FromStruct lower-cases the exported field names: V1 -> v1
		names := order
		fields := make([]reflect.StructField, 0, len(names))
		for _, k := range names {
			fields = append(fields, reflect.StructField{Name: strings.ToUpper(k[:1]) + k[1:], Type: reflect.TypeOf((*interface{})(nil)).Elem()})
		}
		sv := reflect.New(reflect.StructOf(fields)).Elem()
		for i, k := range names {
			sv.Field(i).Set(reflect.ValueOf(vals[k]))
		}
		if err := td.FromStruct(sv.Interface()); err != nil {
			return nil, err
		}
	}
	for _, k := range d.Conds.keys() {
		var b bool
		if err := json.Unmarshal(d.Conds[k], &b); err != nil {
			return nil, err
		}
		td.SetCondition(k, b)
	}
	for _, k := range d.Lists.keys() {
		items, err := tmplItems(d.Lists[k], round, rev)
		if err != nil {
			return nil, err
		}
		td.SetList(k, items)
	}
	for i, name := range d.Imgs {
		if round%2 == 0 {
			td.SetImageWithDetails(name, "", tinyPNGSize(i+1, 2+i, 2+i), nil, name, name)
		} else {
			td.SetImageFromData(name, tinyPNGSize(i+1, 2+i, 2+i), &document.ImageConfig{AltText: name})
		}
	}
	// the getters return what the setters stored (and nothing for absent names)
	for k, v := range vals {
		if got, ok := td.GetVariable(k); !ok || !reflect.DeepEqual(got, v) {
			return nil, fmt.Errorf("GetVariable(%s) does not return the stored value", k)
		}
	}
	for _, k := range []string{"v1", "v2"} {
		if _, want := vals[k]; !want {
			if _, ok := td.GetVariable(k); ok {
				return nil, fmt.Errorf("GetVariable(%s) returns a value that was never set", k)
			}
		}
	}
	for _, k := range d.Conds.keys() {
		var b bool
		_ = json.Unmarshal(d.Conds[k], &b)
		if got, ok := td.GetCondition(k); !ok || got != b {
			return nil, fmt.Errorf("GetCondition(%s) does not return the stored value", k)
		}
	}
	for _, k := range d.Lists.keys() {
		want, _ := tmplItems(d.Lists[k], round, rev)
		if got, ok := td.GetList(k); !ok || !reflect.DeepEqual(got, want) {
			return nil, fmt.Errorf("GetList(%s) does not return the stored list", k)
		}
	}
	for _, name := range d.Imgs {
		if img, ok := td.GetImage(name); !ok || img == nil || len(img.Data) == 0 {
			return nil, fmt.Errorf("GetImage(%s) does not return the stored image", name)
		}
	}
	return td, nil
}

// ---- projection -----------------------------------------------------------------

func tmplDocText(doc *document.Document) string {
	var ps []string
	for _, el := range doc.Body.Elements {
		switch p := el.(type) {
		case *document.Paragraph:
			var sb strings.Builder
			for _, r := range p.Runs {
				sb.WriteString(r.Text.Content)
				if r.Drawing != nil {
					name := ""
					if r.Drawing.Inline != nil && r.Drawing.Inline.DocPr != nil {
						name = r.Drawing.Inline.DocPr.Descr
					} else if r.Drawing.Anchor != nil && r.Drawing.Anchor.DocPr != nil {
						name = r.Drawing.Anchor.DocPr.Descr
					}
					sb.WriteString(tmplImgMark(name))
				}
			}
			ps = append(ps, sb.String())
		case *document.SectionProperties:
			// page settings of the new document, not text
		default:
			ps = append(ps, "⟦"+reflect.TypeOf(el).String()+"⟧")
		}
	}
	return strings.Join(ps, "\n")
}

func tmplWant(exp []string, round int) string {
	var sb strings.Builder
	for _, t := range exp {
		i := strings.IndexByte(t, ':')
		if i < 0 {
			sb.WriteString("?tok:" + t)
			continue
		}
		k, v := t[:i], t[i+1:]
		switch k {
		case "L":
			sb.WriteString(tmplLit(v, round))
		case "V":
			sb.WriteString(tmplValText(v, round))
		case "U":
			sb.WriteString("{{" + v + "}}")
		case "I":
			sb.WriteString(v)
		case "B":
			if v == "T" {
				sb.WriteString("true")
			} else {
				sb.WriteString("false")
			}
		case "IMG":
			sb.WriteString(tmplImgMark(v))
		default:
			sb.WriteString("?tok:" + t)
		}
	}
	return sb.String()
}

// one concretisation round: ret, template text, got, want
func tmplRound(c *tmplCase, round int, rev bool) (ret, text, got, want, pmsg string) {
	base, child := tmplTexts(c.Tpl, round)
	text = base
	if c.Tpl.Ext {
		text = base + "\n----child----\n" + child
	}
	want = tmplWant(c.Exp, round)
	ret, pmsg = guard(func() string {
		td, err := tmplBuildData(c.Data, round, rev)
		if err != nil {
			got = "!" + err.Error()
			return "dataerr"
		}
		eng := document.NewTemplateEngine()
		name := tmplBaseName(c.Tpl, round)
		if _, err := eng.LoadTemplate(name, base); err != nil {
			return "loaderr"
		}
		if c.Tpl.Ext {
			if _, err := eng.LoadTemplate("child", child); err != nil {
				return "loaderr"
			}
			name = "child"
		}
		var doc *document.Document
		if round%2 == 0 {
			doc, err = eng.RenderToDocument(name, td)
		} else {
			doc, err = eng.RenderTemplateToDocument(name, td)
		}
		if err != nil || doc == nil {
			pm := "nil document"
			if err != nil {
				pm = err.Error()
			}
			got = "!" + pm
			return "err"
		}
		got = tmplDocText(doc)
		return "ok"
	})
	return
}

func runTmpl(c Case, emit Emitter) {
	var tc tmplCase
	if err := json.Unmarshal(c.Extra, &tc); err != nil {
		emit(Ev{"ev": "step", "case": c.ID, "tpl": map[string]interface{}{"body": []int{}, "ext": false, "ovr": []int{}, "bn": "t1"},
			"data": map[string]interface{}{}, "exp": []string{"?bad-case"}, "ret": "badcase", "ok": false,
			"round": 0, "text": "", "got": "", "want": "", "pmsg": err.Error()})
		return
	}
	var raw struct {
		Tpl  json.RawMessage `json:"tpl"`
		Data json.RawMessage `json:"data"`
		Exp  json.RawMessage `json:"exp"`
	}
	_ = json.Unmarshal(c.Extra, &raw)
	ev := Ev{"ev": "step", "case": c.ID, "tpl": raw.Tpl, "data": raw.Data, "exp": raw.Exp}
	allOK := true
	first := true
	orders := tmplOrders(tc.Data)
	for r := 0; r < tmplRounds; r++ {
		for o := 0; o < orders; o++ {
			ret, text, got, want, pmsg := tmplRound(&tc, r, o == 1)
			good := ret == "ok" && got == want
			if first || (!good && allOK) {
				ev["ret"], ev["round"], ev["text"], ev["got"], ev["want"], ev["pmsg"] = ret, r, text, got, want, pmsg
				first = false
			}
			if !good {
				allOK = false
			}
		}
	}
	ev["ok"] = allOK
	emit(ev)
}
