package main

// Executor for spec module Rels (property C02: relationships and relationship references
// resolve, uniquely). Maps the abstract operations to the public API, writes the package and
// projects it with opc_rels.go. No oracle logic: the judge is spec/Rels_Trace.tla.
//
//	rels      writes and projects the package after every step
//	relslazy  writes it only where the behaviour itself saves/loads/renders, and after the last step

import (
	"bytes"
	"fmt"
	"io"
	"os"
	"path/filepath"

	"github.com/zerx-lab/wordZero/pkg/document"
	"github.com/zerx-lab/wordZero/pkg/style"
)

func init() {
	register("rels", func(c Case, emit Emitter) { runRels(c, emit, false) })
	register("relslazy", func(c Case, emit Emitter) { runRels(c, emit, true) })
}

type relsCtx struct {
	doc   *document.Document
	dir   string
	nfile int
	nph   int    // placeholders handed out so far (slot names s1, s2 ...)
	last  []byte // package written by the current step itself
	inp   []byte // package synthesised by the current step (OpenForeign)
}

func (c *relsCtx) tmp(tag, ext string) string {
	c.nfile++
	return filepath.Join(c.dir, fmt.Sprintf("%s%d%s", tag, c.nfile, ext))
}

// table returns the first table of the body, creating one if there is none.
func (c *relsCtx) table() *document.Table {
	if ts := c.doc.Body.GetTables(); len(ts) > 0 {
		return ts[0]
	}
	t, err := c.doc.AddTable(&document.TableConfig{Rows: 2, Cols: 2, Width: 4000})
	if err != nil {
		return nil
	}
	return t
}

func relsInfoRet(info *document.ImageInfo, err error) string {
	if err != nil {
		return "err"
	}
	if info == nil {
		return "nil-info"
	}
	return "ok"
}

func (c *relsCtx) open(b []byte, viaFile bool, tag string) string {
	var nd *document.Document
	var err error
	if viaFile {
		p := c.tmp(tag, ".docx")
		if err = os.WriteFile(p, b, 0o644); err != nil {
			return "err-write"
		}
		nd, err = document.Open(p)
	} else {
		nd, err = document.OpenFromMemory(io.NopCloser(bytes.NewReader(b)))
	}
	if err != nil || nd == nil {
		return "err-open"
	}
	c.doc = nd
	return "ok"
}

func (c *relsCtx) step(op Op, i int) string {
	d := c.doc
	n := i + 1
	tok := fmt.Sprintf("T%d", n)
	kind := document.HeaderFooterType(op.Str("kind"))
	hfText := fmt.Sprintf("H%d {{v}}", n) // header/footer text always carries a template variable
	switch op.Name() {
	case "New":
		c.doc = document.New()
	case "OpenForeign":
		pkg, _ := op["pkg"].(map[string]interface{})
		c.inp = relsSynth(pkg, op.Bool("abs"))
		return c.open(c.inp, op.Str("via") == "file", "foreign")
	case "AddImage":
		// the picture handed over (class pic): PNG named x.png, JPEG named x.jpg, GIF named X.GIF
		img, name, ifmt, ext := tinyPNG(n), fmt.Sprintf("pic%d.png", n), document.ImageFormatPNG, ".png"
		switch op.Str("pic") {
		case "jpg":
			img, name, ifmt, ext = tinyJPEGSize(n, 2, 2), fmt.Sprintf("pic%d.jpg", n), document.ImageFormatJPEG, ".jpg"
		case "gifcap":
			img, name, ifmt, ext = tinyGIFSize(n, 2, 2), fmt.Sprintf("PIC%d.GIF", n), document.ImageFormatGIF, ".GIF"
		}
		switch op.Str("where") {
		case "cell":
			t := c.table()
			if t == nil {
				return "err-table"
			}
			if op.Str("via") == "file" {
				p := c.tmp("cellimg", ext)
				os.WriteFile(p, img, 0o644)
				return relsInfoRet(d.AddCellImageFromFile(t, n%2, (n/2)%2, p, 10))
			}
			if n%2 == 0 {
				return relsInfoRet(d.AddCellImage(t, 0, n%2, &document.CellImageConfig{Data: img, Width: 10, Height: 10}))
			}
			return relsInfoRet(d.AddCellImageFromData(t, n%2, (n/2)%2, img, 10))
		case "resource":
			return relsInfoRet(d.AddImageFromDataWithoutElement(img, name, ifmt, 2, 2, nil))
		default:
			if op.Str("via") == "file" {
				p := c.tmp("img", ext)
				os.WriteFile(p, img, 0o644)
				return relsInfoRet(d.AddImageFromFile(p, nil))
			}
			return relsInfoRet(d.AddImageFromData(img, name, ifmt, 2, 2, nil))
		}
	case "AddHeader":
		return errRet(d.AddHeader(kind, hfText))
	case "AddFooter":
		return errRet(d.AddFooter(kind, hfText))
	case "AddHeaderWithPageNumber":
		return errRet(d.AddHeaderWithPageNumber(kind, hfText, n%2 == 0))
	case "AddFooterWithPageNumber":
		return errRet(d.AddFooterWithPageNumber(kind, hfText, n%2 == 1))
	case "AddFormattedHeader":
		return errRet(d.AddFormattedHeader(kind, &document.HeaderFooterConfig{Text: hfText, Format: &document.TextFormat{Bold: true}, Alignment: document.AlignCenter}))
	case "AddFormattedFooter":
		return errRet(d.AddFormattedFooter(kind, &document.HeaderFooterConfig{Text: hfText, Alignment: document.AlignRight}))
	case "AddListItem":
		switch op.Str("via") {
		case "bullet":
			d.AddBulletList(tok, 0, document.BulletTypeDot)
		case "numbered":
			d.AddNumberedList(tok, 0, document.ListTypeNumber)
		case "multi":
			return errRet(d.CreateMultiLevelList([]document.ListItem{{Text: tok, Level: 0, Type: document.ListTypeNumber, StartNumber: 1},
				{Text: tok + "b", Level: 1, Type: document.ListTypeBullet, BulletSymbol: document.BulletTypeDot}}))
		default:
			d.AddListItem(tok, nil)
		}
	case "AddFootnote":
		if op.Str("via") == "run" {
			p := d.AddParagraph("body " + tok)
			if p == nil || len(p.Runs) == 0 {
				return "err-run"
			}
			return errRet(d.AddFootnoteToRun(&p.Runs[0], "note "+tok))
		}
		return errRet(d.AddFootnote("body "+tok, "note "+tok))
	case "AddEndnote":
		return errRet(d.AddEndnote("body "+tok, "endnote "+tok))
	case "RemoveFootnote", "RemoveEndnote":
		// one note (the lowest id the document still has) or all of them; ids are tried in order, a document
		// without notes is left alone
		for k := 1; k <= 24; k++ {
			var err error
			if op.Name() == "RemoveFootnote" {
				err = d.RemoveFootnote(fmt.Sprint(k))
			} else {
				err = d.RemoveEndnote(fmt.Sprint(k))
			}
			if err == nil && !op.Bool("all") {
				break
			}
		}
	case "SetFootnoteConfig":
		cfg := document.DefaultFootnoteConfig()
		if n%2 == 0 {
			cfg.NumberFormat = document.FootnoteFormatLowerRoman
		}
		return errRet(d.SetFootnoteConfig(cfg))
	case "SetProps":
		if op.Str("via") == "title" {
			return errRet(d.SetTitle("Title " + tok))
		}
		return errRet(d.SetDocumentProperties(&document.DocumentProperties{Title: "Title " + tok, Subject: "C02"}))
	case "AddStyle":
		d.GetStyleManager().AddStyle(&style.Style{Type: "paragraph", StyleID: "C02_" + tok, CustomStyle: true,
			Name: &style.StyleName{Val: "C02 " + tok}})
	case "AddParagraph":
		d.AddParagraph("body " + tok)
	case "AddTable":
		if _, err := d.AddTable(&document.TableConfig{Rows: 2, Cols: 2, Width: 4000}); err != nil {
			return "err"
		}
	case "Placeholder":
		c.nph++
		ph := fmt.Sprintf("{{#image s%d}}", c.nph)
		if op.Str("where") == "cell" {
			t := c.table()
			if t == nil {
				return "err-table"
			}
			if _, err := t.AddCellParagraph(c.nph%2, 1, ph); err != nil {
				return "err"
			}
		} else {
			d.AddParagraph(ph)
		}
	case "Render":
		td := document.NewTemplateData()
		td.SetVariable("v", "R&D <1>")
		for k := 1; k <= c.nph; k++ {
			td.SetImageFromData(fmt.Sprintf("s%d", k), tinyPNG(60+k+n), nil)
		}
		// keep = "only": one rendering; "first" / "second": the SAME engine renders the template with the same data
		// twice and the first / the second document is the one the behaviour goes on with
		var out *document.Document
		var err error
		render := func() (*document.Document, error) { return nil, fmt.Errorf("no engine") }
		switch op.Str("via") {
		case "renderer":
			p := c.tmp("tpl", ".docx")
			if err = d.Save(p); err != nil {
				return "err-save"
			}
			tr := document.NewTemplateRenderer()
			tr.SetLogging(false)
			if _, err = tr.LoadTemplateFromFile("t", p); err != nil {
				return "err-load"
			}
			render = func() (*document.Document, error) { return tr.RenderTemplate("t", td) }
		case "legacy":
			e := document.NewTemplateEngine()
			if _, err = e.LoadTemplateFromDocument("t", d); err != nil {
				return "err-load"
			}
			render = func() (*document.Document, error) { return e.RenderToDocument("t", td) }
		default:
			e := document.NewTemplateEngine()
			if _, err = e.LoadTemplateFromDocument("t", d); err != nil {
				return "err-load"
			}
			render = func() (*document.Document, error) { return e.RenderTemplateToDocument("t", td) }
		}
		out, err = render()
		if keep := op.Str("keep"); err == nil && (keep == "first" || keep == "second") {
			if keep == "first" {
				// the document rendered afterwards gets other pictures than the one that is kept
				for k := 1; k <= c.nph; k++ {
					td.SetImageFromData(fmt.Sprintf("s%d", k), tinyPNG(160+k+n), nil)
				}
			}
			o2, err2 := render()
			if err2 != nil || o2 == nil {
				return "err-render2"
			}
			if keep == "second" {
				out = o2
			}
		}
		if err != nil || out == nil {
			return "err-render"
		}
		c.doc = out
	case "Save":
		p := c.tmp("save", ".docx")
		if err := d.Save(p); err != nil {
			return "err"
		}
		b, err := os.ReadFile(p)
		if err != nil {
			return "err-read"
		}
		c.last = b
	case "ToBytes":
		b, err := d.ToBytes()
		if err != nil {
			return "err"
		}
		c.last = b
	case "Reopen":
		if op.Str("via") == "file" {
			p := c.tmp("re", ".docx")
			if err := d.Save(p); err != nil {
				return "err-save"
			}
			nd, err := document.Open(p)
			if err != nil || nd == nil {
				return "err-open"
			}
			c.doc = nd
			return "ok"
		}
		b, err := d.ToBytes()
		if err != nil {
			return "err-save"
		}
		return c.open(b, false, "re")
	default:
		return "unknown-op"
	}
	return "ok"
}

// steps at which the behaviour itself writes or loads a package (observed in the lazy variant)
func relsWrites(op Op) bool {
	switch op.Name() {
	case "Save", "ToBytes", "Reopen", "OpenForeign", "Render":
		return true
	}
	return false
}

func runRels(c Case, emit Emitter, lazy bool) {
	document.VerifResetGlobals()
	dir, err := os.MkdirTemp("", "wzrels")
	if err != nil {
		fmt.Fprintln(os.Stderr, "rels:", err)
		os.Exit(2)
	}
	defer os.RemoveAll(dir)
	ctx := &relsCtx{doc: document.New(), dir: dir}
	emit(Ev{"ev": "reset", "case": c.ID})
	for i, op := range c.Steps {
		ctx.last, ctx.inp = nil, nil
		ret, pmsg := guard(func() string { return ctx.step(op, i) })
		ev := Ev{"ev": "step", "case": c.ID, "i": i, "op": op, "ret": ret, "pmsg": pmsg, "lazy": lazy}
		seen := !lazy || relsWrites(op) || i == len(c.Steps)-1
		pkg := relsEmptyPkg("none")
		if seen {
			_, _ = guard(func() string {
				b := ctx.last
				if b == nil {
					var err error
					b, err = ctx.doc.ToBytes()
					if err != nil {
						pkg = relsEmptyPkg("save-error")
						return ""
					}
				}
				pkg = relsProject(b)
				return ""
			})
			if pkg["ok"] == "none" {
				pkg = relsEmptyPkg("save-panic")
			}
		}
		// what the synthesised input looks like to the independent reader (binding self-check of the synthesiser)
		inp := relsEmptyPkg("none")
		if ctx.inp != nil {
			inp = relsProject(ctx.inp)
		}
		ev["seen"] = seen
		ev["pkg"] = pkg
		ev["inp"] = inp
		emit(ev)
	}
}
