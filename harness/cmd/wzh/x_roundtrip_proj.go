package main

// Projectors for spec module RoundTrip (property C03). No oracle logic.
//
// Two generic walkers produce the SAME abstract type from two different sources:
//
//   rtMemProj  — accessor level: walks the exported fields of the in-memory body with
//                reflection (never runs the library's marshaller);
//   rtXMLProj  — independent parse (opc.go) of a saved main part.
//
// Abstract type (one per projection):
//
//   els  : sequence of body elements   [k kind, sig identifying signature, src, ents]
//   sect : entries of the section properties, hs = 1 iff a sectPr exists
//   ents : key -> [v value, g group, up key of the node entry that governs it]
//
// A key is  "<node loc>|<slot>".  Structural nodes (p r tbl tr tc drawing inline anchor sdt
// bms bme math) get a "<loc>|node" entry; every other element below a node is a property:
// one entry per non-empty attribute ("path@attr"), one per character-data leaf
// ("path#text") and a presence entry ("path") unless the element is a pure container whose
// empty form means nothing (pPr, rPr, pBdr, spacing ...). g is the first path component that is not
// a pure container (pPr rPr tblPr trPr tcPr sdtPr sdtEndPr sdtContent) — the name of the
// reader `case` that would have to handle it. Because both walkers visit everything, no
// feature can be invisible to the projection; names on the memory side are derived from the
// struct tags, values are read from the struct fields.
//
// A relationship id is not a value by itself: what the document says is what the id resolves
// to. Both walkers therefore add, next to every r:embed of a blip and every r:id of a header /
// footer reference, a derived slot ("@~media" = identity of the picture bytes, "@~part" = kind
// and text of the referenced part) resolved through the relationship list and the parts of the
// SAME source: the saved package on the XML side, the document's own relationship list and
// part store on the memory side (rtResolver).

import (
	"crypto/sha1"
	"encoding/hex"
	"fmt"
	"html"
	"reflect"
	"regexp"
	"strings"

	"github.com/zerx-lab/wordZero/pkg/document"
)

type rtEnt struct {
	V  string `json:"v"`
	G  string `json:"g"`
	Up string `json:"up"`
}

type rtEl struct {
	K    string           `json:"k"`
	Sig  string           `json:"sig"`
	Src  int              `json:"src"`
	Ents map[string]rtEnt `json:"ents"`
}

type rtProj struct {
	Els  []rtEl           `json:"els"`
	Sect map[string]rtEnt `json:"sect"`
	HS   int              `json:"hs"`
}

func rtEmptyProj() *rtProj {
	return &rtProj{Els: []rtEl{}, Sect: rtNewEnts(), HS: 0}
}

// every entry map carries a dummy key so that it is never an empty JSON object
func rtNewEnts() map[string]rtEnt { return map[string]rtEnt{"#": {V: "", G: "#", Up: ""}} }

// rtTok maps a string to a short ASCII token; equal tokens <=> equal strings (up to sha1).
func rtTok(s string) string {
	ok := len(s) <= 48
	if ok {
		for _, r := range s {
			if r < 0x20 || r > 0x7e || r == '"' || r == '\\' {
				ok = false
				break
			}
		}
	}
	if ok {
		return "=" + s
	}
	h := sha1.Sum([]byte(s))
	return fmt.Sprintf("~%s:%d", hex.EncodeToString(h[:6]), len(s))
}

var rtContainers = map[string]bool{"pPr": true, "rPr": true, "tblPr": true, "trPr": true, "tcPr": true,
	"sdtPr": true, "sdtEndPr": true, "sdtContent": true, "graphic": true, "graphicData": true, "pic": true,
	"nvPicPr": true, "blipFill": true, "spPr": true}

// elements whose mere presence (apart from attributes, text, children) carries no meaning
var rtNoPresence = map[string]bool{"pPr": true, "rPr": true, "tblPr": true, "trPr": true, "tcPr": true,
	"sdtPr": true, "sdtEndPr": true, "sdtContent": true, "graphic": true, "graphicData": true, "pic": true,
	"nvPicPr": true, "blipFill": true, "spPr": true, "t": true, "instrText": true, "spacing": true, "ind": true,
	"pBdr": true, "tabs": true, "numPr": true, "tblBorders": true, "tcBorders": true, "tblCellMar": true, "tcMar": true,
	"tblGrid": true, "rFonts": true, "oMath": true, "oMathPara": true}

var rtIdx = regexp.MustCompile(`\[\d+\]`)

func rtGroup(path string) string {
	for _, c := range strings.Split(path, "/") {
		c = rtIdx.ReplaceAllString(c, "")
		if i := strings.IndexAny(c, "@#"); i >= 0 {
			if i == 0 {
				return c // attribute of the node element itself
			}
			c = c[:i]
		}
		if !rtContainers[c] {
			return c
		}
	}
	return path
}

func rtLocal(name string) string {
	if i := strings.LastIndex(name, ":"); i >= 0 {
		return name[i+1:]
	}
	return name
}

func rtSkipAttr(full, local string) bool {
	return strings.HasPrefix(full, "xmlns") || local == "xmlns" || local == "space"
}

// frame of the node currently being walked
type rtFrame struct {
	ents map[string]rtEnt
	loc  string         // node location ("" = the body element itself)
	key  string         // key of this node's own entry ("" for the top element)
	ord  map[string]int // ordinal counters of child nodes by kind
}

func (f *rtFrame) add(path, v string) {
	f.ents[f.loc+"|"+path] = rtEnt{V: v, G: rtGroup(path), Up: f.key}
}

func (f *rtFrame) child(kind string) *rtFrame {
	f.ord[kind]++
	loc := fmt.Sprintf("%s%d", kind, f.ord[kind])
	if f.loc != "" {
		loc = f.loc + "/" + loc
	}
	key := loc + "|node"
	f.ents[key] = rtEnt{V: kind, G: kind, Up: f.key}
	return &rtFrame{ents: f.ents, loc: loc, key: key, ord: map[string]int{}}
}

func rtSuffix(n int) string {
	if n <= 1 {
		return ""
	}
	return fmt.Sprintf("[%d]", n)
}

// ---------------------------------------------------------------- memory side

var rtNodeTypes = map[string]string{"Paragraph": "p", "Run": "r", "Table": "tbl", "TableRow": "tr", "TableCell": "tc",
	"DrawingElement": "drawing", "InlineDrawing": "inline", "AnchorDrawing": "anchor", "SDT": "sdt",
	"BookmarkStart": "bms", "BookmarkEnd": "bme", "MathParagraph": "math", "SectionProperties": "sect"}

var rtTags = regexp.MustCompile(`<[^>]*>`)

func rtDeref(v reflect.Value) (reflect.Value, bool) {
	for v.Kind() == reflect.Ptr || v.Kind() == reflect.Interface {
		if v.IsNil() {
			return v, false
		}
		v = v.Elem()
	}
	return v, true
}

// rtMemStruct walks the fields of struct v. path == "" means v is the node of frame f itself.
// Returns whether anything (entry or child node) was produced.
func rtMemStruct(f *rtFrame, v reflect.Value, path string) bool {
	t := v.Type()
	produced := false
	counts := map[string]int{}
	for i := 0; i < t.NumField(); i++ {
		sf := t.Field(i)
		if sf.PkgPath != "" || sf.Name == "XMLName" {
			continue
		}
		tag := sf.Tag.Get("xml")
		name, opts := tag, ""
		if j := strings.Index(tag, ","); j >= 0 {
			name, opts = tag[:j], tag[j:]
		}
		fv := v.Field(i)
		local := rtLocal(name)
		switch {
		case strings.Contains(opts, ",attr"):
			if fv.Kind() == reflect.String && fv.String() != "" && !rtSkipAttr(name, local) {
				f.add(path+"@"+local, rtTok(fv.String()))
				produced = true
				rtDerived(f, rtMemRes, rtLastComp(path), local, path, fv.String())
			}
		case strings.Contains(opts, ",chardata"):
			if fv.Kind() == reflect.String && fv.String() != "" {
				f.add(path+"#text", rtTok(fv.String()))
				produced = true
			}
		case strings.Contains(opts, ",innerxml"):
			if fv.Kind() == reflect.String {
				s := strings.TrimSpace(html.UnescapeString(rtTags.ReplaceAllString(fv.String(), "")))
				if s != "" {
					f.add(path+"#xmltext", rtTok(s))
					produced = true
				}
			}
		default:
			// element(s)
			if fv.Kind() == reflect.Slice {
				for k := 0; k < fv.Len(); k++ {
					if rtMemElem(f, fv.Index(k), path, local, counts) {
						produced = true
					}
				}
			} else if rtMemElem(f, fv, path, local, counts) {
				produced = true
			}
		}
	}
	return produced
}

func rtMemElem(f *rtFrame, fv reflect.Value, path, local string, counts map[string]int) bool {
	ev, ok := rtDeref(fv)
	if !ok {
		return false
	}
	if ev.Kind() != reflect.Struct {
		if ev.Kind() == reflect.String && ev.String() != "" && local != "" && local != "-" {
			counts[local]++
			f.add(rtJoin(path, local+rtSuffix(counts[local]))+"#text", rtTok(ev.String()))
			return true
		}
		return false
	}
	if kind, isNode := rtNodeTypes[ev.Type().Name()]; isNode {
		c := f.child(kind)
		rtMemStruct(c, ev, "")
		return true
	}
	if local == "" || local == "-" {
		// an untagged / hidden element that is not a node: name it by its Go type
		local = "?" + ev.Type().Name()
	}
	if ev.Type().Name() == "Text" && ev.FieldByName("Content").String() == "" {
		return false
	}
	counts[local]++
	p := rtJoin(path, local+rtSuffix(counts[local]))
	produced := rtMemStruct(f, ev, p)
	if !rtNoPresence[local] {
		f.add(p, "")
		produced = true
	}
	return produced
}

// rtJoin extends a slot path; containers that cannot collide are elided from the key
func rtJoin(path, c string) string {
	if rtElide[c] {
		return path
	}
	if path == "" {
		return c
	}
	return path + "/" + c
}

var rtElide = map[string]bool{"pPr": true, "rPr": true, "tblPr": true, "trPr": true, "tcPr": true, "graphic": true,
	"graphicData": true, "pic": true, "nvPicPr": true, "blipFill": true, "spPr": true}

func rtMemText(v reflect.Value, sb *strings.Builder) {
	v, ok := rtDeref(v)
	if !ok {
		return
	}
	switch v.Kind() {
	case reflect.Struct:
		if v.Type().Name() == "Text" {
			sb.WriteString(v.FieldByName("Content").String())
			return
		}
		if v.Type().Name() == "OfficeMath" {
			sb.WriteString(strings.TrimSpace(html.UnescapeString(rtTags.ReplaceAllString(v.FieldByName("RawXML").String(), ""))))
			return
		}
		for i := 0; i < v.NumField(); i++ {
			if v.Type().Field(i).PkgPath == "" && v.Type().Field(i).Name != "XMLName" {
				rtMemText(v.Field(i), sb)
			}
		}
	case reflect.Slice:
		for i := 0; i < v.Len(); i++ {
			rtMemText(v.Index(i), sb)
		}
	}
}

// rtMemProj projects the in-memory body. src maps element pointers to the index of the case
// element whose constructor created them (0 = unknown, e.g. after Open).
func rtMemProj(d *document.Document, src map[interface{}]int) *rtProj {
	p := rtEmptyProj()
	if d == nil || d.Body == nil {
		return p
	}
	rtMemRes = rtMemResolver(d)
	defer func() { rtMemRes = nil }()
	for _, el := range d.Body.Elements {
		ev, ok := rtDeref(reflect.ValueOf(el))
		if !ok || ev.Kind() != reflect.Struct {
			continue
		}
		kind, isNode := rtNodeTypes[ev.Type().Name()]
		if !isNode {
			kind = "?" + ev.Type().Name()
		}
		fr := &rtFrame{ents: rtNewEnts(), ord: map[string]int{}}
		rtMemStruct(fr, ev, "")
		if kind == "sect" {
			p.HS = 1
			p.Sect = fr.ents
			continue
		}
		var sb strings.Builder
		rtMemText(ev, &sb)
		sig := sb.String()
		if kind == "bms" {
			sig = ev.FieldByName("Name").String()
		} else if kind == "bme" {
			sig = ev.FieldByName("ID").String()
		}
		p.Els = append(p.Els, rtEl{K: kind, Sig: kind + ":" + rtTok(sig), Src: src[el], Ents: fr.ents})
	}
	return p
}

// ------------------------------------------------------------------- XML side

var rtXMLNodes = map[string]string{"p": "p", "r": "r", "tbl": "tbl", "tr": "tr", "tc": "tc", "drawing": "drawing",
	"inline": "inline", "anchor": "anchor", "sdt": "sdt", "bookmarkStart": "bms", "bookmarkEnd": "bme",
	"MathParagraph": "math"}

func rtXMLKind(n *Node) (string, bool) {
	k, ok := rtXMLNodes[n.Local]
	if !ok {
		return "", false
	}
	if k == "p" && (n.Child("oMath") != nil || n.Child("oMathPara") != nil) {
		return "math", true
	}
	return k, true
}

func rtAllText(n *Node, sb *strings.Builder) {
	sb.WriteString(strings.TrimSpace(n.Text))
	for _, k := range n.Kids {
		rtAllText(k, sb)
	}
}

type rtXCtx struct {
	res *rtResolver
}

func (x *rtXCtx) attrs(f *rtFrame, n *Node, path string) bool {
	produced := false
	for _, a := range n.Attr {
		full := a.Name.Local
		if a.Name.Space == "xmlns" || a.Name.Local == "xmlns" || a.Name.Space == "http://www.w3.org/2000/xmlns/" {
			continue
		}
		if rtSkipAttr(full, a.Name.Local) || a.Value == "" {
			continue
		}
		f.add(path+"@"+a.Name.Local, rtTok(a.Value))
		produced = true
		rtDerived(f, x.res, n.Local, a.Name.Local, path, a.Value)
	}
	return produced
}

// rtResolver resolves relationship ids of the main part within one source (package or document)
type rtResolver struct {
	rels  []Rel
	parts map[string][]byte
	main  string
}

// rtDerived adds the derived slot of a relationship-id attribute (elem = local name of the element)
func rtDerived(f *rtFrame, res *rtResolver, elem, attr, path, id string) {
	if res == nil {
		return
	}
	switch {
	case elem == "blip" && attr == "embed":
		f.add(path+"@~media", res.media(id, relImage))
	case elem == "headerReference" && attr == "id":
		f.add(path+"@~part", res.partText(id, relHeader))
	case elem == "footerReference" && attr == "id":
		f.add(path+"@~part", res.partText(id, relFooter))
	}
}

func rtLastComp(path string) string {
	if i := strings.LastIndex(path, "/"); i >= 0 {
		path = path[i+1:]
	}
	return rtIdx.ReplaceAllString(path, "")
}

func (x *rtResolver) target(id, typ string) ([]byte, string) {
	for _, r := range x.rels {
		if r.ID == id {
			if r.Type != typ {
				return nil, "wrong-type"
			}
			if r.Mode == "External" {
				return nil, "external"
			}
			data, ok := x.parts[ResolveTarget(x.main, r.Target)]
			if !ok {
				return nil, "dangling"
			}
			return data, ""
		}
	}
	return nil, "unresolved"
}

// media: identity of the bytes a relationship id of the main part resolves to
func (x *rtResolver) media(id, typ string) string {
	data, bad := x.target(id, typ)
	if bad != "" {
		return bad
	}
	h := sha1.Sum(data)
	return fmt.Sprintf("%s:%d", hex.EncodeToString(h[:6]), len(data))
}

// partText: root element and text of the XML part a relationship id resolves to
func (x *rtResolver) partText(id, typ string) string {
	data, bad := x.target(id, typ)
	if bad != "" {
		return bad
	}
	root, err := ParseXML(data)
	if err != nil {
		return "ill-formed"
	}
	return rtTok(root.Local + ":" + root.WText())
}

// rtMemResolver reads the document's own relationship list of the main part (a private field;
// read-only reflection, no accessor exists) and its part store (GetParts).
func rtMemResolver(d *document.Document) *rtResolver {
	res := &rtResolver{parts: d.GetParts(), main: "word/document.xml"}
	v := reflect.ValueOf(d).Elem().FieldByName("documentRelationships")
	if !v.IsValid() || v.Kind() != reflect.Ptr || v.IsNil() {
		return res
	}
	rs := v.Elem().FieldByName("Relationships")
	if !rs.IsValid() || rs.Kind() != reflect.Slice {
		return res
	}
	str := func(e reflect.Value, n string) string {
		if fv := e.FieldByName(n); fv.IsValid() && fv.Kind() == reflect.String {
			return fv.String()
		}
		return ""
	}
	for i := 0; i < rs.Len(); i++ {
		e := rs.Index(i)
		res.rels = append(res.rels, Rel{ID: str(e, "ID"), Type: str(e, "Type"), Target: str(e, "Target"), Mode: str(e, "TargetMode")})
	}
	return res
}

// resolver of the memory walk in progress (the harness is single-threaded)
var rtMemRes *rtResolver

// node walks the children of node element n (frame f)
func (x *rtXCtx) node(f *rtFrame, n *Node) {
	x.attrs(f, n, "")
	x.kids(f, n, "")
}

func (x *rtXCtx) kids(f *rtFrame, n *Node, path string) bool {
	produced := false
	counts := map[string]int{}
	for _, k := range n.Kids {
		if kind, ok := rtXMLKind(k); ok {
			c := f.child(kind)
			x.node(c, k)
			produced = true
			continue
		}
		counts[k.Local]++
		p := rtJoin(path, k.Local+rtSuffix(counts[k.Local]))
		if x.prop(f, k, p) {
			produced = true
		}
	}
	return produced
}

func (x *rtXCtx) prop(f *rtFrame, n *Node, p string) bool {
	if n.Local == "oMath" {
		// formula content is opaque on the memory side (raw inner XML): compare its text
		x.attrs(f, n, p)
		var sb strings.Builder
		rtAllText(n, &sb)
		if s := strings.TrimSpace(sb.String()); s != "" {
			f.add(p+"#xmltext", rtTok(s))
		}
		return true
	}
	produced := x.attrs(f, n, p)
	if len(n.Kids) == 0 {
		if n.Text != "" {
			f.add(p+"#text", rtTok(n.Text))
			produced = true
		}
	} else if x.kids(f, n, p) {
		produced = true
	}
	if !rtNoPresence[n.Local] {
		f.add(p, "")
		produced = true
	}
	return produced
}

// rtXMLProj projects the saved package bytes; the string is "ok" or the class of failure.
func rtXMLProj(b []byte) (*rtProj, string) {
	p := rtEmptyProj()
	pkg := ReadPkg(b)
	if pkg.ZipErr != "" {
		return p, "zip"
	}
	body, err := pkg.MainBody()
	if err != nil {
		return p, "xml"
	}
	main := pkg.MainDocName()
	x := &rtXCtx{res: &rtResolver{rels: pkg.Rels[RelsPartFor(main)], parts: pkg.Parts, main: main}}
	for _, k := range body.Kids {
		fr := &rtFrame{ents: rtNewEnts(), ord: map[string]int{}}
		if k.Local == "sectPr" {
			x.node(fr, k)
			p.HS = 1
			p.Sect = fr.ents
			continue
		}
		kind, ok := rtXMLKind(k)
		if !ok {
			kind = "?" + k.Local
		}
		x.node(fr, k)
		sig := ""
		switch kind {
		case "bms":
			sig = k.A("name")
		case "bme":
			sig = k.A("id")
		case "math":
			var sb strings.Builder
			rtAllText(k, &sb)
			sig = sb.String()
		default:
			sig = k.WText()
		}
		p.Els = append(p.Els, rtEl{K: kind, Sig: kind + ":" + rtTok(sig), Src: 0, Ents: fr.ents})
	}
	return p, "ok"
}
