package main

// Executor for spec module StyleInh (property C14): style registry, resolution with
// inheritance, clone independence.
//
// No oracle logic here.  The executor turns abstract operations into calls on real
// style.StyleManager objects and projects what they hold / return:
//   - every abstract style "s<k>" sets a formatting element with a value that encodes k, so the
//     projector can name the style each element of a result was taken from (its owner);
//   - the abstract attribute slots x / y are mapped onto the 18 concrete elements in 20 ways
//     ("variants"; one StyleManager per variant, all driven by the same operations);
//   - the registry is fingerprinted deeply before and after every call;
//   - a copy taken by the abstract operation Clone lives next to the registry; it is NOT looked at when it is
//     taken nor after a step (no accessor of it is called by the executor), only by the operations the
//     behaviour addresses to it (OnClone; the wrapped operation Peek projects and fingerprints all of it);
//   - an alias reference ("name:s2", "case:s2", "space:s2") becomes a string that is not a registered id
//     but the display name of that style / its id in other letter case / its id with a blank.
// Whether an owner is the right one, whether a registry may have changed, etc. is decided by
// spec/StyleInh_Trace.tla.
//
// A based-on cycle may kill the process (stack overflow is not recoverable), so all library
// calls run in a child process ("styleinhchild") supervised by the parent executor.

import (
	"bufio"
	"bytes"
	"crypto/sha1"
	"encoding/hex"
	"encoding/json"
	"encoding/xml"
	"fmt"
	"io"
	"math/rand"
	"os"
	"os/exec"
	"reflect"
	"runtime/debug"
	"sort"
	"strings"
	"sync"
	"time"

	"github.com/zerx-lab/wordZero/pkg/style"
)

func init() {
	register("styleinh", runStyleInh)
	register("styleinhchild", runStyleInhChild)
}

const (
	siMaxK      = 5       // abstract style ids s1..s5 are understood
	siMaxStack  = 1 << 20 // resolution over <= 5 styles needs a few frames; a runaway recursion hits this quickly
	siCallLimit = 60 * time.Second
)

// ---------------------------------------------------------------- value tokens

var siVocab = map[string][]string{
	"spacing.lineRule": {"auto", "exact", "atLeast", "multiple", "single"},
	"alignment":        {"left", "center", "right", "both", "distribute"},
	"border.val":       {"single", "double", "dotted", "dashed", "thick"},
	"shading.val":      {"clear", "solid", "pct10", "pct20", "pct25"},
	"snapToGrid":       {"0", "1", "false", "true", "off"},
	"underline":        {"single", "double", "dotted", "dash", "wave"},
	"highlight":        {"yellow", "green", "cyan", "magenta", "blue"},
}

var siPattern = map[string]string{
	"spacing.before": "1%d0", "spacing.after": "2%d0", "spacing.line": "3%d0",
	"ind.firstLine": "4%d0", "ind.left": "5%d0", "ind.right": "6%d0",
	"border.color": "00%d0AA", "border.sz": "%d", "border.space": "1%d",
	"shading.fill": "F0F0%d0",
	"outlineLevel": "%d",
	"size":         "2%d",
	"colour":       "%d0%d0%d0",
	"font.ascii":   "Font A%d", "font.eastAsia": "字体%d", "font.hAnsi": "Font H%d", "font.cs": "Font C%d",
}

var siTokTab = map[string][]string{}       // field -> token of s1..s5
var siDecTab = map[string]map[string]int{} // field -> token -> k

func init() {
	fields := []string{}
	for f := range siVocab {
		fields = append(fields, f)
	}
	for f := range siPattern {
		fields = append(fields, f)
	}
	for _, f := range fields {
		siDecTab[f] = map[string]int{}
		for k := 1; k <= siMaxK; k++ {
			var t string
			if v, ok := siVocab[f]; ok {
				t = v[k-1]
			} else {
				p := siPattern[f]
				args := make([]interface{}, strings.Count(p, "%d"))
				for i := range args {
					args[i] = k
				}
				t = fmt.Sprintf(p, args...)
			}
			if f == "colour" && k%2 == 1 {
				// argument class "colour written with a leading #": the styles with an odd index use it; a
				// reader may drop the # on the way out (both spellings decode to the same style), but nothing
				// may rewrite the registered value
				siDecTab[f][t] = k
				t = "#" + t
			}
			siTokTab[f] = append(siTokTab[f], t)
			siDecTab[f][t] = k
		}
	}
}

func siTok(field string, k int) string { return siTokTab[field][k-1] }

// siDec returns the k whose token for the field equals val, or 0.
func siDec(field, val string) int { return siDecTab[field][val] }

type siFV struct{ field, val string }

// siOwner names the style all field values come from: "s<k>", "foreign" (some value no style
// gave) or "mixed" (values of different styles).
// siPartial: concretisation class "element only partly specified" (set per behaviour): a style that sets a
// multi-attribute element gives a value to ONE attribute of it (font: eastAsia, spacing: before, indentation:
// left) and leaves the others empty. An empty value of such an attribute then means "not specified by the
// style that owns the element" and is skipped; a non-empty one is decoded like any other value (a value
// that leaked in from another style makes the owner "mixed").
var siPartial bool
var siBlanked = map[string]bool{"font.ascii": true, "font.hAnsi": true, "font.cs": true, "font.eastAsia": true,
	"spacing.before": true, "spacing.after": true, "spacing.line": true, "spacing.lineRule": true,
	"ind.left": true, "ind.firstLine": true, "ind.right": true}

// siBlank: styles with an odd index keep one attribute (font: eastAsia, spacing: before, indentation: left),
// styles with an even index keep the complementary ones, so that a child and its parent specify
// DIFFERENT attributes of the same element.
func siBlank(st *style.Style, k int) {
	if !siPartial {
		return
	}
	odd := k%2 == 1
	if st.RunPr != nil && st.RunPr.FontFamily != nil {
		f := st.RunPr.FontFamily
		if odd {
			f.ASCII, f.HAnsi, f.CS = "", "", ""
		} else {
			f.EastAsia = ""
		}
	}
	if st.ParagraphPr != nil && st.ParagraphPr.Spacing != nil {
		sp := st.ParagraphPr.Spacing
		if odd {
			sp.After, sp.Line, sp.LineRule = "", "", ""
		} else {
			sp.Before = ""
		}
	}
	if st.ParagraphPr != nil && st.ParagraphPr.Indentation != nil {
		in := st.ParagraphPr.Indentation
		if odd {
			in.FirstLine, in.Right = "", ""
		} else {
			in.Left = ""
		}
	}
}

func siOwner(fv ...siFV) string {
	k0 := -1
	for _, x := range fv {
		if siPartial && x.val == "" && siBlanked[x.field] {
			continue
		}
		k := siDec(x.field, x.val)
		if k == 0 {
			return "foreign"
		}
		if k0 == -1 {
			k0 = k
		} else if k != k0 {
			return "mixed"
		}
	}
	if k0 == -1 {
		return "foreign" // an element without a single value
	}
	return fmt.Sprintf("s%d", k0)
}

func siPPr(s *style.Style) *style.ParagraphProperties {
	if s.ParagraphPr == nil {
		s.ParagraphPr = &style.ParagraphProperties{}
	}
	return s.ParagraphPr
}

func siRPr(s *style.Style) *style.RunProperties {
	if s.RunPr == nil {
		s.RunPr = &style.RunProperties{}
	}
	return s.RunPr
}

func siLine(k int) *style.ParagraphBorderLine {
	return &style.ParagraphBorderLine{Val: siTok("border.val", k), Color: siTok("border.color", k), Sz: siTok("border.sz", k), Space: siTok("border.space", k)}
}

func siLineFV(l *style.ParagraphBorderLine) []siFV {
	if l == nil {
		return []siFV{{"border.val", ""}}
	}
	return []siFV{{"border.val", l.Val}, {"border.color", l.Color}, {"border.sz", l.Sz}, {"border.space", l.Space}}
}

func siFlag(present bool) string {
	if present {
		return "set"
	}
	return "none"
}

// siAttr is one formatting element: how a style sets it, how it is read off a *Style and off
// the map returned by ApplyStyleToXML (ok=false: that view does not convey the element).
type siAttr struct {
	name string
	para bool
	set  func(s *style.Style, k int)
	get  func(s *style.Style) string
	xml  func(pp, rp map[string]interface{}) (string, bool)
}

func siStr(m map[string]interface{}, key string) (string, bool) {
	if m == nil {
		return "", false
	}
	v, ok := m[key]
	if !ok {
		return "", false
	}
	s, ok := v.(string)
	if !ok {
		return "!type", true
	}
	return s, true
}

func siSub(m map[string]interface{}, key string) (map[string]string, bool) {
	if m == nil {
		return nil, false
	}
	v, ok := m[key]
	if !ok {
		return nil, false
	}
	s, ok := v.(map[string]string)
	if !ok {
		return map[string]string{}, true
	}
	return s, true
}

func siXMLFlag(m map[string]interface{}, key string) (string, bool) {
	if m == nil {
		return "none", true
	}
	v, ok := m[key]
	if !ok {
		return "none", true
	}
	if b, ok := v.(bool); ok && b {
		return "set", true
	}
	return "foreign", true
}

func siXMLVal(m map[string]interface{}, key, field string) (string, bool) {
	s, ok := siStr(m, key)
	if !ok {
		return "none", true
	}
	return siOwner(siFV{field, s}), true
}

var siAttrs = []siAttr{
	{"spacing", true,
		func(s *style.Style, k int) {
			siPPr(s).Spacing = &style.Spacing{Before: siTok("spacing.before", k), After: siTok("spacing.after", k), Line: siTok("spacing.line", k), LineRule: siTok("spacing.lineRule", k)}
		},
		func(s *style.Style) string {
			if s.ParagraphPr == nil || s.ParagraphPr.Spacing == nil {
				return "none"
			}
			p := s.ParagraphPr.Spacing
			return siOwner(siFV{"spacing.before", p.Before}, siFV{"spacing.after", p.After}, siFV{"spacing.line", p.Line}, siFV{"spacing.lineRule", p.LineRule})
		},
		func(pp, rp map[string]interface{}) (string, bool) {
			m, ok := siSub(pp, "spacing")
			if !ok {
				return "none", true
			}
			return siOwner(siFV{"spacing.before", m["before"]}, siFV{"spacing.after", m["after"]}, siFV{"spacing.line", m["line"]}, siFV{"spacing.lineRule", m["lineRule"]}), true
		}},
	{"indentation", true,
		func(s *style.Style, k int) {
			siPPr(s).Indentation = &style.Indentation{FirstLine: siTok("ind.firstLine", k), Left: siTok("ind.left", k), Right: siTok("ind.right", k)}
		},
		func(s *style.Style) string {
			if s.ParagraphPr == nil || s.ParagraphPr.Indentation == nil {
				return "none"
			}
			p := s.ParagraphPr.Indentation
			return siOwner(siFV{"ind.firstLine", p.FirstLine}, siFV{"ind.left", p.Left}, siFV{"ind.right", p.Right})
		},
		func(pp, rp map[string]interface{}) (string, bool) {
			m, ok := siSub(pp, "indentation")
			if !ok {
				return "none", true
			}
			return siOwner(siFV{"ind.firstLine", m["firstLine"]}, siFV{"ind.left", m["left"]}, siFV{"ind.right", m["right"]}), true
		}},
	{"alignment", true,
		func(s *style.Style, k int) { siPPr(s).Justification = &style.Justification{Val: siTok("alignment", k)} },
		func(s *style.Style) string {
			if s.ParagraphPr == nil || s.ParagraphPr.Justification == nil {
				return "none"
			}
			return siOwner(siFV{"alignment", s.ParagraphPr.Justification.Val})
		},
		func(pp, rp map[string]interface{}) (string, bool) { return siXMLVal(pp, "justification", "alignment") }},
	{"borders", true,
		func(s *style.Style, k int) {
			siPPr(s).ParagraphBorder = &style.ParagraphBorder{Top: siLine(k), Left: siLine(k), Bottom: siLine(k), Right: siLine(k)}
		},
		func(s *style.Style) string {
			if s.ParagraphPr == nil || s.ParagraphPr.ParagraphBorder == nil {
				return "none"
			}
			b := s.ParagraphPr.ParagraphBorder
			var fv []siFV
			for _, l := range []*style.ParagraphBorderLine{b.Top, b.Left, b.Bottom, b.Right} {
				fv = append(fv, siLineFV(l)...)
			}
			return siOwner(fv...)
		}, nil},
	{"shading", true,
		func(s *style.Style, k int) {
			siPPr(s).Shading = &style.Shading{Fill: siTok("shading.fill", k), Val: siTok("shading.val", k)}
		},
		func(s *style.Style) string {
			if s.ParagraphPr == nil || s.ParagraphPr.Shading == nil {
				return "none"
			}
			p := s.ParagraphPr.Shading
			return siOwner(siFV{"shading.fill", p.Fill}, siFV{"shading.val", p.Val})
		}, nil},
	{"keepNext", true,
		func(s *style.Style, k int) { siPPr(s).KeepNext = &style.KeepNext{} },
		func(s *style.Style) string { return siFlag(s.ParagraphPr != nil && s.ParagraphPr.KeepNext != nil) }, nil},
	{"keepLines", true,
		func(s *style.Style, k int) { siPPr(s).KeepLines = &style.KeepLines{} },
		func(s *style.Style) string { return siFlag(s.ParagraphPr != nil && s.ParagraphPr.KeepLines != nil) }, nil},
	{"pageBreakBefore", true,
		func(s *style.Style, k int) { siPPr(s).PageBreak = &style.PageBreak{} },
		func(s *style.Style) string { return siFlag(s.ParagraphPr != nil && s.ParagraphPr.PageBreak != nil) }, nil},
	{"outlineLevel", true,
		func(s *style.Style, k int) {
			siPPr(s).OutlineLevel = &style.OutlineLevel{Val: siTok("outlineLevel", k)}
		},
		func(s *style.Style) string {
			if s.ParagraphPr == nil || s.ParagraphPr.OutlineLevel == nil {
				return "none"
			}
			return siOwner(siFV{"outlineLevel", s.ParagraphPr.OutlineLevel.Val})
		},
		func(pp, rp map[string]interface{}) (string, bool) {
			return siXMLVal(pp, "outlineLevel", "outlineLevel")
		}},
	{"snapToGrid", true,
		func(s *style.Style, k int) { siPPr(s).SnapToGrid = &style.SnapToGrid{Val: siTok("snapToGrid", k)} },
		func(s *style.Style) string {
			if s.ParagraphPr == nil || s.ParagraphPr.SnapToGrid == nil {
				return "none"
			}
			return siOwner(siFV{"snapToGrid", s.ParagraphPr.SnapToGrid.Val})
		}, nil},
	{"bold", false,
		func(s *style.Style, k int) { siRPr(s).Bold = &style.Bold{} },
		func(s *style.Style) string { return siFlag(s.RunPr != nil && s.RunPr.Bold != nil) },
		func(pp, rp map[string]interface{}) (string, bool) { return siXMLFlag(rp, "bold") }},
	{"italic", false,
		func(s *style.Style, k int) { siRPr(s).Italic = &style.Italic{} },
		func(s *style.Style) string { return siFlag(s.RunPr != nil && s.RunPr.Italic != nil) },
		func(pp, rp map[string]interface{}) (string, bool) { return siXMLFlag(rp, "italic") }},
	{"underline", false,
		func(s *style.Style, k int) { siRPr(s).Underline = &style.Underline{Val: siTok("underline", k)} },
		func(s *style.Style) string {
			if s.RunPr == nil || s.RunPr.Underline == nil {
				return "none"
			}
			return siOwner(siFV{"underline", s.RunPr.Underline.Val})
		},
		func(pp, rp map[string]interface{}) (string, bool) { return siXMLVal(rp, "underline", "underline") }},
	{"strike", false,
		func(s *style.Style, k int) { siRPr(s).Strike = &style.Strike{} },
		func(s *style.Style) string { return siFlag(s.RunPr != nil && s.RunPr.Strike != nil) },
		func(pp, rp map[string]interface{}) (string, bool) { return siXMLFlag(rp, "strike") }},
	{"size", false,
		func(s *style.Style, k int) { siRPr(s).FontSize = &style.FontSize{Val: siTok("size", k)} },
		func(s *style.Style) string {
			if s.RunPr == nil || s.RunPr.FontSize == nil {
				return "none"
			}
			return siOwner(siFV{"size", s.RunPr.FontSize.Val})
		},
		func(pp, rp map[string]interface{}) (string, bool) { return siXMLVal(rp, "fontSize", "size") }},
	{"colour", false,
		func(s *style.Style, k int) { siRPr(s).Color = &style.Color{Val: siTok("colour", k)} },
		func(s *style.Style) string {
			if s.RunPr == nil || s.RunPr.Color == nil {
				return "none"
			}
			return siOwner(siFV{"colour", s.RunPr.Color.Val})
		},
		func(pp, rp map[string]interface{}) (string, bool) { return siXMLVal(rp, "color", "colour") }},
	{"font", false,
		func(s *style.Style, k int) {
			siRPr(s).FontFamily = &style.FontFamily{ASCII: siTok("font.ascii", k), EastAsia: siTok("font.eastAsia", k), HAnsi: siTok("font.hAnsi", k), CS: siTok("font.cs", k)}
		},
		func(s *style.Style) string {
			if s.RunPr == nil || s.RunPr.FontFamily == nil {
				return "none"
			}
			p := s.RunPr.FontFamily
			return siOwner(siFV{"font.ascii", p.ASCII}, siFV{"font.eastAsia", p.EastAsia}, siFV{"font.hAnsi", p.HAnsi}, siFV{"font.cs", p.CS})
		},
		func(pp, rp map[string]interface{}) (string, bool) {
			m, ok := siSub(rp, "fontFamily")
			if !ok {
				return "none", true
			}
			return siOwner(siFV{"font.ascii", m["ascii"]}, siFV{"font.eastAsia", m["eastAsia"]}, siFV{"font.hAnsi", m["hAnsi"]}, siFV{"font.cs", m["cs"]}), true
		}},
	{"highlight", false,
		func(s *style.Style, k int) { siRPr(s).Highlight = &style.Highlight{Val: siTok("highlight", k)} },
		func(s *style.Style) string {
			if s.RunPr == nil || s.RunPr.Highlight == nil {
				return "none"
			}
			return siOwner(siFV{"highlight", s.RunPr.Highlight.Val})
		},
		func(pp, rp map[string]interface{}) (string, bool) { return siXMLVal(rp, "highlight", "highlight") }},
}

// ---------------------------------------------------------------- variants

// variant v < len(siAttrs): element v alone in slot x, every other element in slot y;
// then: paragraph-level in x / character-level in y, and the reverse.
func siNumVariants() int { return len(siAttrs) + 2 }

func siSlot(v, ai int) string {
	n := len(siAttrs)
	switch {
	case v < n:
		if ai == v {
			return "x"
		}
		return "y"
	case v == n:
		if siAttrs[ai].para {
			return "x"
		}
		return "y"
	default:
		if siAttrs[ai].para {
			return "y"
		}
		return "x"
	}
}

// ---------------------------------------------------------------- concretisation options

var siIDSets = [][]string{
	{"VfStyleA", "VfStyleB", "VfStyleC", "VfStyleD", "VfStyleE", "VfNoSuchStyle"},
	{"Heading2", "Normal", "Title", "Heading1", "Quote", "Heading7x"},
	{"样式一", "样式 二", "s3", "S3", "a&b<c>", "不存在"},
}

type siOpts struct {
	ids       []string // concrete ids of s1..s5, then the never-defined id
	types     [siMaxK]string
	withName  bool
	withNext  bool
	custom    bool
	emptyPr   bool // a style that sets no paragraph-level (character-level) element still carries an empty pPr (rPr)
	viaCreate bool // define through CreateCustomStyle + filling in the returned object
	keepPre   bool // predefined styles stay registered as bystanders (variant 0 only; they are part of the fingerprint)
	tablePr   bool // styles also carry table properties (not judged; noise for the merge)
	partial   bool // multi-attribute elements are only partly specified (see siPartial)
	through   bool // an in-place edit re-points basedOn by writing through the existing w:basedOn object
}

func siMakeOpts(caseID int) siOpts {
	r := rand.New(rand.NewSource(seed*1000003 + int64(caseID)))
	o := siOpts{}
	o.ids = siIDSets[r.Intn(len(siIDSets))]
	ty := []string{"paragraph", "character", "table", "numbering"}
	uniform := r.Intn(2) == 0
	t0 := ty[r.Intn(2)]
	for k := range o.types {
		if uniform {
			o.types[k] = t0
		} else {
			o.types[k] = ty[r.Intn(len(ty))]
		}
	}
	o.withName = r.Intn(2) == 0
	o.withNext = r.Intn(3) == 0
	o.custom = r.Intn(2) == 0
	o.emptyPr = r.Intn(3) == 0
	o.viaCreate = r.Intn(3) == 0
	o.keepPre = r.Intn(4) == 0
	o.tablePr = r.Intn(4) == 0
	o.partial = r.Intn(3) == 0
	o.through = r.Intn(2) == 0
	return o
}

// nameOf is the display name of style k (never equal to a style id of the behaviour).
func (o siOpts) nameOf(k int) string { return "name of " + o.ids[k-1] }

var siAliasKinds = []string{"name", "case", "space", "label"}

// siLabels: what the library's own tables of predefined styles call a style id (GetPredefinedStyleNames for
// styles with an even index, the Name column of GetPredefinedStyleConfigs for the others).
func siLabel(id string, k int) string {
	if k%2 == 0 {
		return style.GetPredefinedStyleNames()[id]
	}
	for _, c := range style.GetPredefinedStyleConfigs() {
		if c.StyleID == id {
			return c.Name
		}
	}
	return ""
}


// alias concretises an alias reference: a string that is NOT a style id of the behaviour but resembles
// style k: its display name, its id in the other letter case (ids without letters, or whose other-case
// form is an id too, have no such alias: the reference is then just another undefined id), its id followed by a
// blank, the label the library's tables of predefined styles give that id (ids that are not predefined have none).
func (o siOpts) alias(kind string, k int) string {
	id := o.ids[k-1]
	switch kind {
	case "name":
		return o.nameOf(k)
	case "case":
		sw := strings.Map(func(r rune) rune {
			switch {
			case r >= 'a' && r <= 'z':
				return r - 'a' + 'A'
			case r >= 'A' && r <= 'Z':
				return r - 'A' + 'a'
			}
			return r
		}, id)
		ok := sw != id
		for _, other := range o.ids {
			if other == sw {
				ok = false
			}
		}
		if ok {
			return sw
		}
		return "VfNoOtherCase/" + id
	case "label":
		l := siLabel(id, k)
		for _, other := range o.ids {
			if other == l {
				l = ""
			}
		}
		if l == "" {
			return "VfNoLabel/" + id
		}
		return l
	}
	return id + " "
}

func siAliasOf(abs string) (string, int) {
	if i := strings.IndexByte(abs, ':'); i > 0 {
		if k := siK(abs[i+1:]); k > 0 {
			return abs[:i], k
		}
	}
	return "", 0
}

func (o siOpts) id(abs string) string {
	switch abs {
	case "none":
		return ""
	case "ghost":
		return o.ids[siMaxK]
	}
	if k := siK(abs); k > 0 {
		return o.ids[k-1]
	}
	if kind, k := siAliasOf(abs); k > 0 {
		return o.alias(kind, k)
	}
	return "?" + abs
}

func (o siOpts) abs(conc string) string {
	if conc == "" {
		return "none"
	}
	for i, c := range o.ids {
		if c == conc {
			if i == siMaxK {
				return "ghost"
			}
			return fmt.Sprintf("s%d", i+1)
		}
	}
	for _, kind := range siAliasKinds {
		for k := 1; k <= siMaxK; k++ {
			if o.alias(kind, k) == conc {
				return fmt.Sprintf("%s:s%d", kind, k)
			}
		}
	}
	return "foreign"
}

func siK(abs string) int {
	if len(abs) == 2 && abs[0] == 's' && abs[1] >= '1' && abs[1] <= '0'+siMaxK {
		return int(abs[1] - '0')
	}
	return 0
}

// ---------------------------------------------------------------- child: state and operations

type siChild struct {
	caseID   int
	opt      siOpts
	sms      []*style.StyleManager
	clones   []*style.StyleManager // the copy taken by Clone (one per variant), nil if none; never read between steps
	names    bool                  // the behaviour refers to styles by display name: every style gets one
	out      *os.File
	pristine bool   // no step executed since reset
	lastH    string // fingerprint after the previous step (nothing touches the registries in between)
}

var siC *siChild

func (c *siChild) reset(caseID int, names, docs bool) {
	c.caseID = caseID
	c.opt = siMakeOpts(caseID)
	if docs && c.opt.ids[1] == "Normal" {
		// LoadStylesFromDocument adds the predefined Normal / Heading styles on its own: the behaviour's
		// styles must not go by those ids
		c.opt.ids = siIDSets[0]
	}
	c.names = names
	siPartial = c.opt.partial
	c.sms = c.fresh()
	c.clones = nil
	c.lastH = ""
	c.pristine = true
}

func (c *siChild) fresh() []*style.StyleManager {
	sms := make([]*style.StyleManager, siNumVariants())
	for v := range sms {
		sm := style.NewStyleManager()
		if !(c.opt.keepPre && v == 0) {
			for _, s := range sm.GetAllStyles() {
				sm.RemoveStyle(s.StyleID)
			}
		}
		for _, id := range c.opt.ids {
			sm.RemoveStyle(id)
		}
		sms[v] = sm
	}
	return sms
}

func (c *siChild) define(sm *style.StyleManager, v, k int, b string, x, y bool) {
	o := c.opt
	id := o.ids[k-1]
	var st *style.Style
	if o.viaCreate {
		st = sm.CreateCustomStyle(id, o.nameOf(k), style.StyleType(o.types[k-1]), o.id(b))
		st.CustomStyle = o.custom
		if !o.withName && !c.names {
			st.Name = nil
		}
	} else {
		st = &style.Style{Type: o.types[k-1], StyleID: id, CustomStyle: o.custom}
		if o.withName || c.names {
			st.Name = &style.StyleName{Val: o.nameOf(k)}
		}
		if b != "none" {
			st.BasedOn = &style.BasedOn{Val: o.id(b)}
		}
	}
	if o.withNext {
		st.Next = &style.Next{Val: o.ids[0]}
	}
	for ai, a := range siAttrs {
		sl := siSlot(v, ai)
		if (sl == "x" && x) || (sl == "y" && y) {
			a.set(st, k)
		}
	}
	siBlank(st, k)
	if o.emptyPr {
		siPPr(st)
		siRPr(st)
	}
	if o.tablePr {
		st.TablePr = &style.TableProperties{TblInd: &style.TblIndent{W: fmt.Sprint(k), Type: "dxa"}}
	}
	if !o.viaCreate {
		sm.AddStyle(st)
	}
}

type siStylesDoc struct {
	XMLName xml.Name       `xml:"w:styles"`
	XmlnsW  string         `xml:"xmlns:w,attr"`
	Styles  []*style.Style `xml:"w:style"`
}

// stylesXML writes the definitions (in their order) as a styles part for variant v.
func (c *siChild) stylesXML(v int, defs []interface{}) ([]byte, error) {
	tmp := style.NewStyleManager()
	for _, s := range tmp.GetAllStyles() {
		tmp.RemoveStyle(s.StyleID)
	}
	doc := siStylesDoc{XmlnsW: "http://schemas.openxmlformats.org/wordprocessingml/2006/main"}
	for _, d := range defs {
		m := Op(d.(map[string]interface{}))
		k := siK(m.Str("s"))
		c.define(tmp, v, k, m.Str("b"), m.Bool("x"), m.Bool("y"))
		doc.Styles = append(doc.Styles, tmp.GetStyle(c.opt.ids[k-1]))
	}
	b, err := xml.Marshal(doc)
	if err != nil {
		return nil, err
	}
	return append([]byte(xml.Header), b...), nil
}

// project one registry to abstract terms: for every known id that is registered its based-on id
// and, per slot, whether the style itself sets all / none of the slot's elements with its own values.
type siRegRow struct{ s, b, x, y string }

func (c *siChild) projectOne(sm *style.StyleManager, v int) []siRegRow {
	var rows []siRegRow
	for i, id := range c.opt.ids {
		abs := "ghost"
		if i < siMaxK {
			abs = fmt.Sprintf("s%d", i+1)
		}
		st := sm.GetStyle(id)
		ex := sm.StyleExists(id)
		if st == nil && !ex {
			continue
		}
		row := siRegRow{s: abs}
		if st == nil || !ex || st.StyleID != id {
			row.b, row.x, row.y = "corrupt", "corrupt", "corrupt"
			rows = append(rows, row)
			continue
		}
		if st.BasedOn == nil {
			row.b = "none"
		} else {
			row.b = c.opt.abs(st.BasedOn.Val)
		}
		cls := map[string]string{}
		for ai, a := range siAttrs {
			sl := siSlot(v, ai)
			o := a.get(st)
			var t string
			switch o {
			case "none":
				t = "unset"
			case "set", abs:
				t = "set"
			default:
				t = "foreign:" + a.name
			}
			if prev, ok := cls[sl]; !ok {
				cls[sl] = t
			} else if prev != t && !strings.Contains(prev, ":") {
				if strings.Contains(t, ":") {
					cls[sl] = t
				} else {
					cls[sl] = "mixed:" + a.name
				}
			}
		}
		row.x, row.y = cls["x"], cls["y"]
		if row.x == "" {
			row.x = "unset"
		}
		if row.y == "" {
			row.y = "unset"
		}
		rows = append(rows, row)
	}
	return rows
}

func (c *siChild) project() []map[string]interface{} { return c.projectOf(c.sms) }

func (c *siChild) projectOf(sms []*style.StyleManager) []map[string]interface{} {
	var first []siRegRow
	agree := true
	for v, sm := range sms {
		rows := c.projectOne(sm, v)
		if v == 0 {
			first = rows
			continue
		}
		if len(rows) != len(first) {
			agree = false
			// keep the union of ids, all marked
			seen := map[string]bool{}
			for _, r := range first {
				seen[r.s] = true
			}
			for _, r := range rows {
				if !seen[r.s] {
					first = append(first, siRegRow{r.s, "variants-differ", "variants-differ", "variants-differ"})
				}
			}
			continue
		}
		for i := range rows {
			if rows[i].s != first[i].s {
				agree = false
				first[i].b = "variants-differ"
				continue
			}
			if rows[i].b != first[i].b {
				first[i].b = "variants-differ"
			}
			if rows[i].x != first[i].x {
				if !strings.Contains(first[i].x, ":") {
					first[i].x = siPickMarked(first[i].x, rows[i].x)
				}
			}
			if rows[i].y != first[i].y {
				if !strings.Contains(first[i].y, ":") {
					first[i].y = siPickMarked(first[i].y, rows[i].y)
				}
			}
		}
	}
	_ = agree
	out := []map[string]interface{}{}
	for _, r := range first {
		out = append(out, map[string]interface{}{"s": r.s, "b": r.b, "x": r.x, "y": r.y})
	}
	return out
}

func siPickMarked(a, b string) string {
	if strings.Contains(b, ":") {
		return b
	}
	return "variants-differ"
}

// deep fingerprint of one registry: every registered style, every field, through the public accessors
func (c *siChild) hashOne(sm *style.StyleManager, h io.Writer) {
	all := sm.GetAllStyles()
	lines := make([]string, 0, len(all)+len(c.opt.ids))
	for _, s := range all {
		b, err := json.Marshal(s)
		if err != nil {
			b = []byte("!marshal " + err.Error())
		}
		lines = append(lines, s.StyleID+"\x00"+string(b))
	}
	sort.Strings(lines)
	for _, id := range c.opt.ids {
		p := sm.GetStyle(id)
		lines = append(lines, fmt.Sprintf("key %q exists=%v nil=%v", id, sm.StyleExists(id), p == nil))
	}
	for _, l := range lines {
		io.WriteString(h, l)
		io.WriteString(h, "\n")
	}
}

func (c *siChild) hashOf(sms []*style.StyleManager) string {
	h := sha1.New()
	for _, sm := range sms {
		c.hashOne(sm, h)
		io.WriteString(h, "--\n")
	}
	return hex.EncodeToString(h.Sum(nil))[:16]
}

// siMutate overwrites, in place, everything reachable from v (strings, bools; through pointers).
func siMutate(v reflect.Value) {
	switch v.Kind() {
	case reflect.Ptr, reflect.Interface:
		if !v.IsNil() {
			siMutate(v.Elem())
		}
	case reflect.Struct:
		for i := 0; i < v.NumField(); i++ {
			if v.Field(i).CanSet() {
				siMutate(v.Field(i))
			}
		}
	case reflect.String:
		v.SetString(v.String() + "~mut")
	case reflect.Bool:
		v.SetBool(!v.Bool())
	case reflect.Slice:
		for i := 0; i < v.Len(); i++ {
			siMutate(v.Index(i))
		}
	}
}

// siScribble changes a whole registry: every field of every style in place, one style removed,
// one added, one replaced.
func (c *siChild) siScribble(sm *style.StyleManager) {
	all := sm.GetAllStyles()
	for _, s := range all {
		siMutate(reflect.ValueOf(s))
	}
	for _, id := range c.opt.ids[:2] {
		sm.RemoveStyle(id)
	}
	sm.AddStyle(&style.Style{Type: "paragraph", StyleID: c.opt.ids[1], BasedOn: &style.BasedOn{Val: c.opt.ids[1]}})
	sm.AddStyle(&style.Style{Type: "paragraph", StyleID: "VfScribble"})
}

type siGroups map[string]map[string]bool // "slot|owner" -> element names

func (g siGroups) add(sl, o, a string) {
	k := sl + "|" + o
	if g[k] == nil {
		g[k] = map[string]bool{}
	}
	g[k][a] = true
}

func (g siGroups) list() []map[string]interface{} {
	keys := make([]string, 0, len(g))
	for k := range g {
		keys = append(keys, k)
	}
	sort.Strings(keys)
	out := []map[string]interface{}{}
	for _, k := range keys {
		p := strings.SplitN(k, "|", 2)
		var as []string
		for a := range g[k] {
			as = append(as, a)
		}
		sort.Strings(as)
		out = append(out, map[string]interface{}{"sl": p[0], "o": p[1], "at": as})
	}
	return out
}

func siMergeRet(cur, r string) string {
	if cur == "" || cur == r {
		return r
	}
	if cur == "panic" || r == "panic" {
		return "panic"
	}
	return "variants-differ"
}

// siBlankEv is the event skeleton; op-specific fields (b for Info, c0/c1 for CloneSwap, alias/self
// for MutRes) are present only on events of that operation and the judge reads them only there.
func siBlankEv(caseID, i int, op Op) Ev {
	ev := Ev{"ev": "step", "case": caseID, "i": i, "op": op, "ret": "", "reg": []map[string]interface{}{},
		"h0": "", "h1": "", "own": []map[string]interface{}{}}
	name := op.Name()
	if name == "OnClone" {
		// creg / ch: projection and deep fingerprint of the copy, taken only when the wrapped operation is
		// Peek (seen); reg / h0 / h1 describe the source also on these steps
		ev["seen"], ev["creg"], ev["ch"] = false, []map[string]interface{}{}, ""
		name = siInner(op).Name()
	}
	switch name {
	case "Info":
		ev["b"] = ""
	case "CloneSwap":
		ev["c0"], ev["c1"] = "", ""
	case "MutRes":
		ev["alias"], ev["self"] = false, false
	}
	return ev
}

// siInner is the operation an OnClone step addresses to the copy.
func siInner(op Op) Op {
	m, _ := op["o"].(map[string]interface{})
	return Op(m)
}

// step executes one abstract operation and projects the outcome.  An operation wrapped in OnClone is
// executed on the copy taken by the last Clone; the copy is looked at only if the wrapped operation is Peek.
func (c *siChild) step(i int, op Op, quiet bool) Ev {
	ev := siBlankEv(c.caseID, i, op)
	name := op.Name()
	if !quiet {
		if c.lastH == "" {
			c.lastH = c.hashOf(c.sms)
		}
		ev["h0"] = c.lastH
	}
	c.lastH = ""
	groups := siGroups{}
	var ret, pmsg string
	switch name {
	case "Clone":
		// the copy is taken and put aside untouched
		cl := make([]*style.StyleManager, len(c.sms))
		ret, pmsg = siEach(c.sms, func(v int, sm *style.StyleManager) string {
			cl[v] = sm.Clone()
			return "ok"
		})
		if ret == "ok" {
			c.clones = cl
		}
	case "OnClone":
		inner := siInner(op)
		switch {
		case c.clones == nil:
			ret = "noclone"
		case inner.Name() == "Peek":
			ret = "ok"
			if !quiet {
				ev["seen"], ev["creg"], ev["ch"] = true, c.projectOf(c.clones), c.hashOf(c.clones)
			}
		case inner.Name() == "Load" || inner.Name() == "LoadXML" || inner.Name() == "CloneSwap" || inner.Name() == "CloneDrop":
			ret = "unknown-op"
		default:
			ret, pmsg = c.exec(inner, &c.clones, ev, groups)
		}
	default:
		ret, pmsg = c.exec(op, &c.sms, ev, groups)
	}
	c.pristine = false
	ev["ret"] = ret
	if pmsg != "" {
		ev["pmsg"] = pmsg
	}
	if !quiet {
		ev["own"] = groups.list()
		ev["reg"] = c.project()
		c.lastH = c.hashOf(c.sms)
		ev["h1"] = c.lastH
	}
	return ev
}

func siEach(sms []*style.StyleManager, f func(v int, sm *style.StyleManager) string) (ret, pmsg string) {
	for v, sm := range sms {
		r, pm := guard(func() string { return f(v, sm) })
		ret = siMergeRet(ret, r)
		if pm != "" && pmsg == "" {
			pmsg = pm
		}
	}
	return
}

// exec executes one operation on every variant registry of *psms (the registry the behaviour works on, or the copy).
func (c *siChild) exec(op Op, psms *[]*style.StyleManager, ev Ev, groups siGroups) (string, string) {
	o := c.opt
	name := op.Name()
	ret, pmsg := "", ""
	each := func(f func(v int, sm *style.StyleManager) string) {
		r, pm := siEach(*psms, f)
		ret = siMergeRet(ret, r)
		if pm != "" && pmsg == "" {
			pmsg = pm
		}
	}
	switch name {
	case "Load":
		if !c.pristine {
			*psms = c.fresh()
		}
		defs, _ := op["defs"].([]interface{})
		each(func(v int, sm *style.StyleManager) string {
			for _, d := range defs {
				m := Op(d.(map[string]interface{}))
				c.define(sm, v, siK(m.Str("s")), m.Str("b"), m.Bool("x"), m.Bool("y"))
			}
			return "ok"
		})
	case "LoadXML":
		// the registry comes from a styles part: the definitions are written as XML (the library's own
		// element / attribute names) and handed to one of the three loaders
		defs, _ := op["defs"].([]interface{})
		each(func(v int, sm *style.StyleManager) string {
			data, err := c.stylesXML(v, defs)
			if err != nil {
				panic("cannot write styles XML: " + err.Error())
			}
			switch op.Str("how") {
			case "parse":
				err = sm.ParseStylesFromXML(data)
			case "merge":
				err = sm.MergeStylesFromXML(data)
			default:
				err = sm.LoadStylesFromDocument(data)
			}
			if err != nil {
				return "err"
			}
			return "ok"
		})
	case "AddStyle":
		each(func(v int, sm *style.StyleManager) string {
			c.define(sm, v, siK(op.Str("s")), op.Str("b"), op.Bool("x"), op.Bool("y"))
			return "ok"
		})
	case "Create":
		each(func(v int, sm *style.StyleManager) string {
			k := siK(op.Str("s"))
			sm.CreateCustomStyle(o.ids[k-1], o.nameOf(k), style.StyleType(o.types[k-1]), o.id(op.Str("b")))
			return "ok"
		})
	case "RemoveStyle":
		each(func(v int, sm *style.StyleManager) string {
			sm.RemoveStyle(o.id(op.Str("s")))
			return "ok"
		})
	case "Edit":
		// the registered object is edited in place through the pointer GetStyle hands out
		each(func(v int, sm *style.StyleManager) string {
			k := siK(op.Str("s"))
			st := sm.GetStyle(o.ids[k-1])
			if st == nil {
				return "ok"
			}
			if b := op.Str("b"); b == "none" {
				st.BasedOn = nil
			} else if b != "keep" {
				if o.through && st.BasedOn != nil {
					st.BasedOn.Val = o.id(b)
				} else {
					st.BasedOn = &style.BasedOn{Val: o.id(b)}
				}
			}
			for ai, a := range siAttrs {
				sl := siSlot(v, ai)
				if (sl == "x" && op.Bool("x")) || (sl == "y" && op.Bool("y")) {
					a.set(st, k)
				}
			}
			siBlank(st, k)
			return "ok"
		})
	case "Resolve":
		id := o.id(op.Str("q"))
		each(func(v int, sm *style.StyleManager) string {
			r := sm.GetStyleWithInheritance(id)
			if r == nil {
				return "nil"
			}
			for ai, a := range siAttrs {
				groups.add(siSlot(v, ai), a.get(r), a.name)
			}
			return "ok"
		})
	case "ToXML":
		id := o.id(op.Str("q"))
		each(func(v int, sm *style.StyleManager) string {
			m, err := sm.ApplyStyleToXML(id)
			if err != nil {
				return "err"
			}
			pp, _ := m["paragraphProperties"].(map[string]interface{})
			rp, _ := m["runProperties"].(map[string]interface{})
			for ai, a := range siAttrs {
				if a.xml == nil {
					continue
				}
				if ow, ok := a.xml(pp, rp); ok {
					groups.add(siSlot(v, ai), ow, a.name)
				}
			}
			return "ok"
		})
	case "Info":
		id := o.id(op.Str("q"))
		each(func(v int, sm *style.StyleManager) string {
			info, err := style.NewQuickStyleAPI(sm).GetStyleInfo(id)
			st := sm.GetStyle(id)
			ex := sm.StyleExists(id)
			switch {
			case err == nil && info != nil && st != nil && ex:
				ev["b"] = o.abs(info.BasedOn)
				return "ok"
			case err != nil && st == nil && !ex:
				return "err"
			}
			return "accessors-differ"
		})
	case "List":
		each(func(v int, sm *style.StyleManager) string {
			api := style.NewQuickStyleAPI(sm)
			n := len(sm.GetAllStyles()) + len(sm.GetHeadingStyles()) + len(api.GetAllStylesInfo()) + len(api.GetHeadingStylesInfo()) +
				len(api.GetParagraphStylesInfo()) + len(api.GetCharacterStylesInfo())
			for _, t := range []style.StyleType{style.StyleTypeParagraph, style.StyleTypeCharacter, style.StyleTypeTable, style.StyleTypeNumbering} {
				n += len(sm.GetStylesByType(t))
			}
			// the library's tables of predefined styles are listings too; what they return is the caller's
			cfgs, nm := style.GetPredefinedStyleConfigs(), style.GetPredefinedStyleNames()
			n += len(cfgs) + len(nm)
			siMutate(reflect.ValueOf(cfgs))
			for k := range nm {
				nm[k] += "~mut"
			}
			_ = n
			return "ok"
		})
	case "CloneDrop":
		each(func(v int, sm *style.StyleManager) string {
			cl := sm.Clone()
			c.siScribble(cl)
			return "ok"
		})
	case "CloneSwap":
		clones := make([]*style.StyleManager, len(*psms))
		each(func(v int, sm *style.StyleManager) string {
			clones[v] = sm.Clone()
			return "ok"
		})
		if ret == "ok" {
			ev["c0"] = c.hashOf(clones)
			for _, sm := range *psms {
				c.siScribble(sm)
			}
			ev["c1"] = c.hashOf(clones)
			*psms = clones
		}
	case "MutRes":
		id := o.id(op.Str("q"))
		alias, self := false, false
		each(func(v int, sm *style.StyleManager) string {
			cl := sm.Clone()
			r := cl.GetStyleWithInheritance(id)
			if r == nil {
				return "nil"
			}
			if r == cl.GetStyle(id) {
				self = true
			}
			one := []*style.StyleManager{cl}
			h0 := c.hashOf(one)
			siMutate(reflect.ValueOf(r))
			if c.hashOf(one) != h0 {
				alias = true
			}
			return "ok"
		})
		ev["alias"], ev["self"] = alias, self
	default:
		ret = "unknown-op"
	}
	return ret, pmsg
}

// siCmd is the supervisor -> child protocol, carried in Case.Extra.  One command executes a whole
// behaviour (all steps travel in Case.Steps): the child rebuilds the registry by quietly re-running
// the registry-changing steps before From, answers one "peek" line (registry projection and
// fingerprint at that point), then executes the steps from From on and answers one line per step as
// soon as it is done.  Steps listed in Skip are not executed (see the budget rule in runStyleInh).
type siCmd struct {
	Cmd  string `json:"cmd"`
	From int    `json:"from"`
	Skip []int  `json:"skip"`
}

func siWrite(out *os.File, resp Ev) {
	var buf bytes.Buffer
	enc := json.NewEncoder(&buf)
	enc.SetEscapeHTML(false)
	if err := enc.Encode(resp); err != nil {
		fmt.Fprintln(os.Stderr, "styleinhchild: encode:", err)
		os.Exit(3)
	}
	if _, err := out.Write(buf.Bytes()); err != nil {
		fmt.Fprintln(os.Stderr, "styleinhchild: write:", err)
		os.Exit(3)
	}
}

func runStyleInhChild(c Case, emit Emitter) {
	if siC == nil {
		debug.SetMaxStack(siMaxStack)
		debug.SetGCPercent(1600) // many small short-lived registries; the live heap is tiny
		siC = &siChild{out: os.NewFile(3, "siout")}
	}
	var cmd siCmd
	if err := json.Unmarshal(c.Extra, &cmd); err != nil || cmd.Cmd != "case" {
		fmt.Fprintln(os.Stderr, "styleinhchild: bad command:", err, cmd.Cmd)
		os.Exit(3)
	}
	skip := map[int]bool{}
	for _, i := range cmd.Skip {
		skip[i] = true
	}
	raw, _ := json.Marshal(c.Steps)
	names := bytes.Contains(raw, []byte(`"name:`))
	siC.reset(c.ID, names, bytes.Contains(raw, []byte(`"how":"doc"`)))
	for j := 0; j < cmd.From && j < len(c.Steps); j++ {
		if siMutating(c.Steps[j]) {
			siC.step(j, c.Steps[j], true)
		}
	}
	reg, h := siC.project(), siC.hashOf(siC.sms)
	siC.lastH = h
	siWrite(siC.out, Ev{"peek": true, "reg": reg, "h": h})
	for i := cmd.From; i < len(c.Steps); i++ {
		if skip[i] {
			ev := siBlankEv(c.ID, i, c.Steps[i])
			h := siC.hashOf(siC.sms)
			ev["ret"], ev["reg"], ev["h0"], ev["h1"] = "skipped", siC.project(), h, h
			siWrite(siC.out, ev)
			continue
		}
		siWrite(siC.out, siC.step(i, c.Steps[i], false))
	}
}

// ---------------------------------------------------------------- parent: supervisor

type siSup struct {
	cmd    *exec.Cmd
	in     io.WriteCloser
	lines  chan []byte
	stderr *siTailBuf
	deaths int
	timer  *time.Timer
}

type siTailBuf struct {
	mu  sync.Mutex
	buf []byte
}

func (t *siTailBuf) Write(p []byte) (int, error) {
	t.mu.Lock()
	if len(t.buf) < 4096 {
		n := 4096 - len(t.buf)
		if n > len(p) {
			n = len(p)
		}
		t.buf = append(t.buf, p[:n]...)
	}
	t.mu.Unlock()
	return len(p), nil
}

func (t *siTailBuf) String() string {
	t.mu.Lock()
	defer t.mu.Unlock()
	return string(t.buf)
}

var siS *siSup

func siFail(msg string) {
	fmt.Fprintln(os.Stderr, "styleinh supervisor:", msg)
	os.Exit(2)
}

func (s *siSup) start() {
	r, w, err := os.Pipe()
	if err != nil {
		siFail(err.Error())
	}
	cmd := exec.Command(os.Args[0], "styleinhchild", "/dev/stdin", os.DevNull)
	cmd.ExtraFiles = []*os.File{w}
	s.stderr = &siTailBuf{}
	cmd.Stderr = s.stderr
	cmd.Env = append(os.Environ(), "GOTRACEBACK=none", "GOMAXPROCS=1") // single-threaded work; a small runtime starts much faster
	in, err := cmd.StdinPipe()
	if err != nil {
		siFail(err.Error())
	}
	if err := cmd.Start(); err != nil {
		siFail(err.Error())
	}
	w.Close()
	s.cmd, s.in = cmd, in
	lines := make(chan []byte, 64)
	s.lines = lines
	go func() {
		br := bufio.NewReaderSize(r, 1<<20)
		for {
			l, err := br.ReadBytes('\n')
			if len(l) > 0 && err == nil {
				lines <- l
			}
			if err != nil {
				close(lines)
				r.Close()
				return
			}
		}
	}()
}

// kill ends the current child (if any), whatever state it is in.
func (s *siSup) kill() {
	if s.cmd == nil {
		return
	}
	s.in.Close()
	s.cmd.Process.Kill()
	s.cmd.Wait()
	s.cmd = nil
}

func (s *siSup) send(c Case, cmd siCmd) bool {
	if s.cmd == nil {
		s.start()
	}
	extra, _ := json.Marshal(cmd)
	c.Extra = extra
	line, _ := json.Marshal(c)
	line = append(line, '\n')
	_, err := s.in.Write(line)
	return err == nil
}

// next waits for the next answer line; status "ok", "fatal" (child gone) or "timeout".
func (s *siSup) next() (Ev, string) {
	if s.timer == nil {
		s.timer = time.NewTimer(siCallLimit)
	} else {
		s.timer.Reset(siCallLimit)
	}
	select {
	case l, ok := <-s.lines:
		if !s.timer.Stop() {
			<-s.timer.C
		}
		if !ok {
			return nil, "fatal"
		}
		var ev Ev
		if err := json.Unmarshal(l, &ev); err != nil {
			siFail("bad response from child: " + err.Error())
		}
		return ev, "ok"
	case <-s.timer.C:
		return nil, "timeout"
	}
}

func (s *siSup) lastWords() string {
	for _, l := range strings.Split(s.stderr.String(), "\n") {
		if strings.HasPrefix(l, "fatal error:") || strings.HasPrefix(l, "panic:") {
			return l
		}
	}
	t := strings.TrimSpace(s.stderr.String())
	if len(t) > 200 {
		t = t[:200]
	}
	return t
}

// siMutating: steps a fresh child re-runs quietly to get back to the state before step From
func siMutating(op Op) bool {
	switch op.Name() {
	case "Load", "LoadXML", "AddStyle", "RemoveStyle", "Create", "Edit", "CloneSwap", "Clone":
		return true
	case "OnClone":
		return siAbstractMutator(siInner(op).Name())
	}
	return false
}

func siResolver(name string) bool { return name == "Resolve" || name == "ToXML" || name == "MutRes" }

func siAbstractMutator(name string) bool {
	switch name {
	case "Load", "LoadXML", "AddStyle", "RemoveStyle", "Create", "Edit":
		return true
	}
	return false
}

// siSide tells which registry a step is addressed to and what is done to it.
func siSide(op Op) (string, Op) {
	if op.Name() == "OnClone" {
		return "copy", siInner(op)
	}
	return "src", op
}

var siDeadKeys = map[string]bool{}

// siGraphKey spells the based-on graph of a Load operation (style -> basedOn, masks left out).
func siGraphKey(load Op) string {
	defs, _ := load["defs"].([]interface{})
	var parts []string
	for _, d := range defs {
		m := Op(d.(map[string]interface{}))
		parts = append(parts, m.Str("s")+">"+m.Str("b"))
	}
	sort.Strings(parts)
	return strings.Join(parts, ",")
}

func runStyleInh(c Case, emit Emitter) {
	if siS == nil {
		siS = &siSup{}
	}
	s := siS
	emit(Ev{"ev": "reset", "case": c.ID})
	// Budget rule (no verdict is derived from it): once a resolver call for id q did not come back,
	// further resolver calls for q are not executed until the registry is changed again; they are
	// logged as "skipped" and the judge ignores them.  Every death costs a process start.
	var skip []int
	from := 0
	// Second budget rule, same spirit: a behaviour that starts by loading a whole registry does not
	// repeat a resolver call for (based-on graph, queried id) that already failed to come back once in
	// this process under other attribute masks.  The driver sends all behaviours with the same graph
	// and queried id to the same process.
	keyOf := map[int]string{}
	if len(c.Steps) > 0 && c.Steps[0].Name() == "Load" {
		g := siGraphKey(c.Steps[0])
		for i := 1; i < len(c.Steps); i++ {
			if siAbstractMutator(c.Steps[i].Name()) {
				break
			}
			if siResolver(c.Steps[i].Name()) {
				keyOf[i] = g + "|" + c.Steps[i].Str("q")
				if siDeadKeys[keyOf[i]] {
					skip = append(skip, i)
				}
			}
		}
	}
	var pending Ev // event of the step that did not come back, completed by the next child's peek
	for attempt := 0; ; attempt++ {
		if attempt > len(c.Steps)+1 {
			siFail(fmt.Sprintf("case %d: too many restarts", c.ID))
		}
		if !s.send(c, siCmd{Cmd: "case", From: from, Skip: skip}) {
			siFail(fmt.Sprintf("case %d: cannot talk to child: %s", c.ID, s.lastWords()))
		}
		pk, st := s.next()
		if st != "ok" || pk["peek"] != true {
			siFail(fmt.Sprintf("case %d: child %s while rebuilding the registry up to step %d: %s", c.ID, st, from, s.lastWords()))
		}
		if pending != nil {
			pending["reg"], pending["h0"], pending["h1"] = pk["reg"], pk["h"], pk["h"]
			emit(pending)
			pending = nil
		}
		i := from
		for ; i < len(c.Steps); i++ {
			ev, st := s.next()
			if st == "ok" {
				ev["case"], ev["i"] = c.ID, i
				emit(ev)
				continue
			}
			// step i did not come back
			if st == "timeout" {
				s.kill()
			} else {
				s.in.Close()
				werr := s.cmd.Wait()
				s.cmd = nil
				// only a death announced by the Go runtime itself (fatal error, exit status 2) is an
				// observation about the library; anything else (killed from outside, protocol error)
				// is trouble of the machinery
				ee, _ := werr.(*exec.ExitError)
				if ee == nil || ee.ExitCode() != 2 || !strings.Contains(s.stderr.String(), "fatal error:") {
					siFail(fmt.Sprintf("case %d step %d: child ended unexpectedly (%v): %s", c.ID, i, werr, s.lastWords()))
				}
			}
			s.deaths++
			op := c.Steps[i]
			pending = siBlankEv(c.ID, i, op)
			pending["ret"], pending["pmsg"] = st, s.lastWords()
			if k, ok := keyOf[i]; ok {
				siDeadKeys[k] = true
			}
			if side, in := siSide(op); siResolver(in.Name()) {
				for j := i + 1; j < len(c.Steps); j++ {
					sj, inj := siSide(c.Steps[j])
					if sj != side {
						if side == "copy" && inj.Name() == "Clone" {
							break
						}
						continue
					}
					if siAbstractMutator(inj.Name()) {
						break
					}
					if siResolver(inj.Name()) && inj.Str("q") == in.Str("q") {
						skip = append(skip, j)
					}
				}
			}
			from = i + 1
			break
		}
		if i >= len(c.Steps) {
			break
		}
	}
	if pending != nil {
		// the last step died: a fresh child tells what the registry is
		if !s.send(Case{ID: c.ID, Steps: c.Steps}, siCmd{Cmd: "case", From: len(c.Steps), Skip: skip}) {
			siFail("cannot talk to child")
		}
		pk, st := s.next()
		if st != "ok" {
			siFail(fmt.Sprintf("case %d: child %s while rebuilding: %s", c.ID, st, s.lastWords()))
		}
		pending["reg"], pending["h0"], pending["h1"] = pk["reg"], pk["h"], pk["h"]
		emit(pending)
	}
}
