package main

// Concretisation of the abstract argument classes of spec module Pkg (property C01):
// text classes, original file-name classes, image formats. No oracle logic.

import (
	"strings"

	"github.com/zerx-lab/wordZero/pkg/document"
)

var pkgLong = strings.Repeat("lorem ipsum dolor sit amet ", 2427) // 64 KiB

// concrete strings per text class; one is chosen by (seed + salt)
var pkgTexts = map[string][]string{
	"plain":    {"Hello world", "Report 2024", "Quarterly figures, part 3"},
	"xmlmeta":  {`<a&b>"q"'`, `</w:t></w:r>&amp;<!-- x`, `&#0;&lt;<w:p>`, `a < b & c > "d"`},
	"cdataend": {`]]>`, `x]]>y<![CDATA[z`, `<![CDATA[ & ]]>`},
	"ctrl":     {"a\x00b", "\x0bVT\x01end", "\x1f\x08x\x7f\x0c", "nul\x00\x00\x02<&"},
	"nonchar":  {"\uFFFE", "x\uFFFFy", "\xed\xa0\x80lone", "\xff\xfe bad", "trunc\xc3", "\xf4\x90\x80\x80"},
	"astral":   {"\U0001F600\U0001D518", "\U0010FFFF x", "a\U00020000b\U0001F9D1\u200D\U0001F4BB"},
	"cjk":      {"中文标题", "日本語テキスト", "한국어 문서 제목"},
	"empty":    {""},
	"ws":       {"   ", "\t\n", " \r\n ", "\u00a0 \u3000"},
	"edgews":   {"  x  ", "\tx\n y ", "\n\nx\r"},
	"braces":   {"{{x}}", "{{#if c}}", "{{/each}}", "}}", "{{#each items}}{{this}}{{/each}}", "{{v}} {{#if c}}y{{else}}n{{/if}}", "{{#image pic}}", "{{#block \"b\"}}"},
	"long":     {pkgLong, pkgLong[:40000] + `<&"]]>` + pkgLong[:25000]},
}

// pkgConc is set per case (extra.conc): together with VERIF_SEED it selects the concretisation
var pkgConc int

func pkgText(tc string, salt int) string {
	l := pkgTexts[tc]
	if len(l) == 0 {
		return "?" + tc
	}
	k := (int(seed) + pkgConc + salt) % len(l)
	if k < 0 {
		k = -k
	}
	return l[k]
}

// a short identifier-like variant (style ids, bookmark names): same class, bounded length
func pkgIdent(tc string, salt int) string {
	s := pkgText(tc, salt)
	if len(s) > 200 {
		s = s[:200]
	}
	return s
}

// original file names per class
var pkgNames = map[string][]string{
	"png":     {"x.png", "photo.png"},
	"jpg":     {"x.jpg", "IMG_0001.jpg"},
	"jpeg":    {"x.jpeg"},
	"JPG":     {"x.JPG", "SCAN.JPEG", "Pic.PnG", "a.GIF"},
	"gif":     {"x.gif"},
	"noext":   {"noext", "image"},
	"dot":     {"x.", "."},
	"multi":   {"a.b.c", "archive.tar.png", "x.png.jpg"},
	"cjk":     {"中文.png", "图片.jpg", "写真"},
	"space":   {"sp ace.png", " lead.jpg", "tab\there.gif"},
	"meta":    {"x.p<g", `a&b".png`, "x.<>", "q'.j&g"},
	"mislead": {"really.gif", "really.png", "really.jpg", "doc.xml", "x.rels"},
	"empty":   {""},
	"path":    {"dir/sub/x.png", "../up.jpg", `c:\win\x.gif`, "/abs/x.jpeg"},
	"ctrl":    {"x\x00.png", "a\x0b.jpg", "n\uFFFE.gif", "\xff.png"},
}

func pkgName(nc string, salt int) string {
	l := pkgNames[nc]
	if len(l) == 0 {
		return "x.png"
	}
	k := (int(seed) + pkgConc + salt) % len(l)
	if k < 0 {
		k = -k
	}
	return l[k]
}

// image bytes + declared format per format class. "other" = a format value outside the declared
// constants with matching (BMP) bytes; "unset" = the zero value of ImageFormat with PNG bytes.
func pkgImage(fc string, tok int) ([]byte, document.ImageFormat) {
	switch fc {
	case "jpeg":
		return tinyJPEGSize(tok, 3, 2), document.ImageFormatJPEG
	case "gif":
		return tinyGIFSize(tok, 2, 3), document.ImageFormatGIF
	case "other":
		bmp := []byte{'B', 'M', 58, 0, 0, 0, 0, 0, 0, 0, 54, 0, 0, 0, 40, 0, 0, 0, 1, 0, 0, 0, 1, 0, 0, 0, 1, 0, 24, 0,
			0, 0, 0, 0, 4, 0, 0, 0, 0, 0, 0, 0, 0, 0, 0, 0, 0, 0, 0, 0, 0, 0, 0, 0, byte(tok), 0, 255, 0}
		return bmp, document.ImageFormat("bmp")
	case "unset":
		return tinyPNGSize(tok, 2, 2), document.ImageFormat("")
	}
	return tinyPNGSize(tok, 2, 2), document.ImageFormatPNG
}
