package main

// Concretisation for spec module MdIn (property C19): abstract Markdown AST -> Markdown text,
// and text -> abstract visible tokens.  No oracle logic: the expected tokens come from
// MdIn!ToWord and are compared by MdIn_Trace.tla.

import (
	"sort"
	"strconv"
	"strings"
	"unicode/utf8"
)

// mdiNode is the one-shape AST node of MdIn.tla.
type mdiNode struct {
	T string     `json:"t"`
	N int        `json:"n"`
	A string     `json:"a"`
	X string     `json:"x"`
	K []*mdiNode `json:"k"`
}

// mdiSpell is one concrete spelling of a text atom: Markdown source and visible text.
type mdiSpell struct{ src, vis string }

func mdiSame(ss ...string) []mdiSpell {
	out := make([]mdiSpell, len(ss))
	for i, s := range ss {
		out[i] = mdiSpell{s, s}
	}
	return out
}

// every atom has three spellings (the escape / entity atoms a fourth one: a spelling whose DECODED text looks like
// another escape or character reference - "&amp;#169;" is the six characters &#169; - so decoding twice, or in another
// order than CommonMark's single pass, shows); all visible forms are distinct and none is a substring of a word
var mdiAtoms = map[string][]mdiSpell{
	"w1": mdiSame("alpha", "Lorem", "kiwi7"),
	"w2": mdiSame("bravo", "ipsum", "mango8"),
	"w3": mdiSame("charlie", "dolor", "peach9"),
	"w4": mdiSame("delta", "amet", "plum0"),
	"u1": mdiSame("é", "中文", "𝒳😀"),
	"u2": mdiSame("ñandú", "日本語", "ßeta"),
	"x1": mdiSame("R&D", "1<2", "\"q\""),
	"x2": mdiSame("it's", "2>1", "p&q"),
	"e1": {{`\*`, "*"}, {`\_`, "_"}, {`\[`, "["}, {`\&#35;`, "&#35;"}},
	"e2": {{`\#`, "#"}, {"\\`", "`"}, {`\\`, `\`}, {`\&gt;`, "&gt;"}},
	"n1": {{"&copy;", "©"}, {"&amp;", "&"}, {"&#8364;", "€"}, {"&amp;#169;", "&#169;"}},
	"n2": {{"&lt;", "<"}, {"&quot;", "\""}, {"&#x3A9;", "Ω"}, {"&#92;*", `\*`}},
	"a1": {{"<http://ex.am/p1>", "http://ex.am/p1"}, {"<https://w3.io/a?b=1>", "https://w3.io/a?b=1"}, {"<mailto:me@ex.am>", "mailto:me@ex.am"}},
	"a2": mdiSame("http://ex.am/p2", "www.ex.am", "https://w3.io/q"),
	"m1": mdiSame("**", "<i>", "&lt;"),
	"m2": mdiSame("__", "</b>", "&amp;"),
}

var mdiAtomOrder []string

func init() {
	for a := range mdiAtoms {
		mdiAtomOrder = append(mdiAtomOrder, a)
	}
	sort.Strings(mdiAtomOrder)
}

// mdiConc is the concretisation chosen for one case.
type mdiConc struct {
	pick map[string]mdiSpell
	vis  []mdiSpell // {visible text, atom} sorted by decreasing length of the visible text
}

func mdiNewConc(salt int64) *mdiConc {
	c := &mdiConc{pick: map[string]mdiSpell{}}
	for i, a := range mdiAtomOrder {
		v := mdiAtoms[a]
		k := int((salt+int64(i))%int64(len(v))+int64(len(v))) % len(v)
		c.pick[a] = v[k]
		c.vis = append(c.vis, mdiSpell{v[k].vis, a})
	}
	sort.SliceStable(c.vis, func(i, j int) bool { return len(c.vis[i].src) > len(c.vis[j].src) })
	return c
}

// ---- serialisation -----------------------------------------------------------

func (c *mdiConc) src(atom string) string {
	if s, ok := c.pick[atom]; ok {
		return s.src
	}
	return "?" + atom + "?"
}

// inline renders an inline sequence; emph tells whether an emphasis construct encloses it
func (c *mdiConc) inline(s []*mdiNode, emph bool) string {
	var sb strings.Builder
	for i, x := range s {
		if i > 0 && x.T != "sb" && s[i-1].T != "sb" {
			sb.WriteByte(' ')
		}
		sb.WriteString(c.inlineNode(x, emph))
	}
	return sb.String()
}

func (c *mdiConc) inlineNode(x *mdiNode, emph bool) string {
	switch x.T {
	case "txt":
		return c.src(x.X)
	case "sb":
		return "\n"
	case "em":
		d := "*"
		if emph {
			d = "_"
		}
		return d + c.inline(x.K, true) + d
	case "st":
		d := "**"
		if emph {
			d = "__"
		}
		return d + c.inline(x.K, true) + d
	case "del":
		return "~~" + c.inline(x.K, emph) + "~~"
	case "code":
		return "`" + c.inline(x.K, emph) + "`"
	case "link":
		return "[" + c.inline(x.K, emph) + "](http://t.example/p)"
	case "math":
		return "$" + c.mathSrc(x.K) + "$"
	}
	return "?" + x.T + "?"
}

func (c *mdiConc) mathSrc(s []*mdiNode) string {
	var parts []string
	for _, x := range s {
		parts = append(parts, c.src(x.X))
	}
	return strings.Join(parts, "+")
}

func mdiPrefix(lines []string, first, rest string) []string {
	out := make([]string, len(lines))
	for i, l := range lines {
		p := rest
		if i == 0 {
			p = first
		}
		if l == "" {
			out[i] = strings.TrimRight(p, " ")
		} else {
			out[i] = p + l
		}
	}
	return out
}

func mdiIndent(a string) string {
	switch a {
	case "2":
		return "  "
	case "t":
		return "\t"
	}
	return ""
}

func mdiAlign(a string) string {
	switch a {
	case "l":
		return ":--"
	case "c":
		return ":-:"
	case "r":
		return "--:"
	}
	return "---"
}

// blocks renders sibling blocks separated by one blank line
func (c *mdiConc) blocks(bs []*mdiNode) []string {
	var out []string
	for i, b := range bs {
		if i > 0 {
			out = append(out, "")
		}
		out = append(out, c.block(b)...)
	}
	return out
}

func (c *mdiConc) block(b *mdiNode) []string {
	switch b.T {
	case "p":
		return strings.Split(c.inline(b.K, false), "\n")
	case "h":
		if b.A == "setext" {
			u := "==="
			if b.N == 2 {
				u = "---"
			}
			return append(strings.Split(c.inline(b.K, false), "\n"), u)
		}
		return []string{strings.Repeat("#", b.N) + " " + c.inline(b.K, false)}
	case "q":
		return mdiPrefix(c.blocks(b.K), "> ", "> ")
	case "ul", "ol":
		var out []string
		for i, it := range b.K {
			mark := "- "
			if b.T == "ol" {
				mark = strconv.Itoa(i+1) + ". "
			}
			ind := strings.Repeat(" ", len(mark))
			switch it.A {
			case "open":
				mark += "[ ] "
			case "done":
				mark += "[x] "
			}
			var lines []string
			for j, kid := range it.K {
				if j > 0 && kid.T != "ul" && kid.T != "ol" {
					lines = append(lines, "")
				}
				lines = append(lines, c.block(kid)...)
			}
			out = append(out, mdiPrefix(lines, mark, ind)...)
		}
		return out
	case "fence":
		// b.N = indentation of the fence itself (0..3 columns); the content lines are spelled as they are
		fi := strings.Repeat(" ", b.N)
		out := []string{fi + "```" + b.A}
		for _, ln := range b.K {
			out = append(out, mdiIndent(ln.A)+c.inline(ln.K, false))
		}
		return append(out, fi+"```")
	case "icode":
		var out []string
		for _, ln := range b.K {
			if len(ln.K) == 0 {
				out = append(out, "")
			} else {
				out = append(out, "    "+mdiIndent(ln.A)+c.inline(ln.K, false))
			}
		}
		return out
	case "hr":
		return []string{"---"}
	case "mathb":
		return []string{"$$", c.mathSrc(b.K), "$$"}
	case "tbl":
		var out []string
		for i, row := range b.K {
			var sb strings.Builder
			sb.WriteString("|")
			for _, cell := range row.K {
				sb.WriteString(" " + c.inline(cell.K, false) + " |")
			}
			out = append(out, sb.String())
			if i == 0 {
				sb.Reset()
				sb.WriteString("|")
				for _, cell := range row.K {
					sb.WriteString(" " + mdiAlign(cell.A) + " |")
				}
				out = append(out, sb.String())
			}
		}
		return out
	}
	return []string{"?" + b.T + "?"}
}

func (c *mdiConc) markdown(ast []*mdiNode) string {
	return strings.Join(c.blocks(ast), "\n") + "\n"
}

// ---- tokenisation of visible text ----------------------------------------------

type mdiTok struct {
	T string   `json:"t"`
	F []string `json:"f"`
}

func mdiIsDigit(b byte) bool { return b >= '0' && b <= '9' }

// mdiSeg is a piece of visible text with the flags of the run it came from.
type mdiSeg struct {
	s string
	f []string
}

// tokens maps visible text to abstract tokens: white space, task boxes, list markers, the visible
// forms of the atoms (longest first), and "c:<char>" for anything else.  The text is the concatenation
// of the segments (an atom may be split over several runs); a token carries the flags of the segment
// its first character lies in.  atStart: the text begins a block.
func (c *mdiConc) tokens(segs []mdiSeg, atStart bool) []mdiTok {
	var sbuf strings.Builder
	var ends []int
	for _, g := range segs {
		sbuf.WriteString(g.s)
		ends = append(ends, sbuf.Len())
	}
	s := sbuf.String()
	out := []mdiTok{}
	seg := 0
	i := 0
	add := func(t string) {
		for seg < len(ends)-1 && ends[seg] <= i {
			seg++
		}
		f := []string{}
		if seg < len(segs) && segs[seg].f != nil {
			f = segs[seg].f
		}
		out = append(out, mdiTok{t, f})
	}
	lead := atStart
	for i < len(s) {
		rest := s[i:]
		switch rest[0] {
		case ' ':
			add("sp")
			i++
			continue
		case '\n', '\r':
			add("nl")
			i++
			continue
		case '\t':
			add("tab")
			i++
			continue
		}
		if lead {
			lead = false
			j := 0
			for j < len(rest) && mdiIsDigit(rest[j]) {
				j++
			}
			if j > 0 && j < len(rest) && (rest[j] == '.' || rest[j] == ')') && (j+1 == len(rest) || rest[j+1] == ' ') {
				add("num")
				i += j + 1
				continue
			}
		}
		matched := false
		for _, sp := range [][2]string{{"[ ]", "box0"}, {"[x]", "box1"}, {"[X]", "box1"}, {"☐", "box0"}, {"☑", "box1"}, {"☒", "box1"}, {"•", "bul"}} {
			if strings.HasPrefix(rest, sp[0]) {
				add(sp[1])
				i += len(sp[0])
				matched = true
				break
			}
		}
		if matched {
			continue
		}
		for _, v := range c.vis {
			if v.src != "" && strings.HasPrefix(rest, v.src) {
				add(v.vis)
				i += len(v.src)
				matched = true
				break
			}
		}
		if matched {
			continue
		}
		r, n := utf8.DecodeRuneInString(rest)
		if r == utf8.RuneError && n <= 1 {
			add("c:U+FFFD")
		} else if r < 0x20 || r == 0x7f {
			add("c:U+" + strconv.FormatInt(int64(r), 16))
		} else {
			add("c:" + string(r))
		}
		i += n
	}
	return out
}

func (c *mdiConc) plainTokens(s string) []mdiTok { return c.tokens([]mdiSeg{{s, nil}}, false) }
