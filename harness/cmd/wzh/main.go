// wzh — verification harness for wordZero.
//
// It contains NO oracle logic: it executes abstract behaviours produced by the
// TLA+ specifications against the real library and projects what the library
// did (in memory and in the bytes it wrote) to the abstract state that the
// TLC trace judge (spec/*_Trace.tla) evaluates.
//
//	wzh <module> <cases.ndjson> <obs.ndjson>
package main

import (
	"bufio"
	"encoding/json"
	"fmt"
	"os"
	"sort"
	"strconv"

	"github.com/zerx-lab/wordZero/pkg/document"
)

// Op is one abstract operation (a TLA+ record rendered as JSON).
type Op map[string]interface{}

func (o Op) Name() string { s, _ := o["op"].(string); return s }
func (o Op) Int(k string) int {
	switch v := o[k].(type) {
	case float64:
		return int(v)
	case string:
		n, _ := strconv.Atoi(v)
		return n
	}
	return 0
}
func (o Op) Str(k string) string { s, _ := o[k].(string); return s }
func (o Op) Bool(k string) bool  { b, _ := o[k].(bool); return b }
func (o Op) Has(k string) bool   { _, ok := o[k]; return ok }

// Case is one behaviour: a sequence of abstract operations.
type Case struct {
	ID    int             `json:"id"`
	Steps []Op            `json:"steps"`
	Extra json.RawMessage `json:"extra,omitempty"`
}

// Ev is one observation line.
type Ev map[string]interface{}

type Emitter func(Ev)

// Executor runs one case and emits a "reset" event followed by one event per step.
type Executor func(c Case, emit Emitter)

var executors = map[string]Executor{}

func register(name string, e Executor) { executors[name] = e }

var seed int64

func main() {
	if len(os.Args) >= 2 && os.Args[1] == "list" {
		var names []string
		for n := range executors {
			names = append(names, n)
		}
		sort.Strings(names)
		for _, n := range names {
			fmt.Println(n)
		}
		return
	}
	if len(os.Args) < 4 {
		fmt.Fprintln(os.Stderr, "usage: wzh <module> <cases.ndjson> <obs.ndjson>")
		os.Exit(2)
	}
	if s := os.Getenv("VERIF_SEED"); s != "" {
		seed, _ = strconv.ParseInt(s, 10, 64)
	}
	document.SetGlobalLevel(document.LogLevelSilent)
	ex, ok := executors[os.Args[1]]
	if !ok {
		fmt.Fprintln(os.Stderr, "unknown module", os.Args[1])
		os.Exit(2)
	}
	in, err := os.Open(os.Args[2])
	if err != nil {
		fmt.Fprintln(os.Stderr, err)
		os.Exit(2)
	}
	defer in.Close()
	out, err := os.Create(os.Args[3])
	if err != nil {
		fmt.Fprintln(os.Stderr, err)
		os.Exit(2)
	}
	w := bufio.NewWriterSize(out, 1<<20)
	enc := json.NewEncoder(w)
	enc.SetEscapeHTML(false)
	emit := func(e Ev) {
		if err := enc.Encode(e); err != nil {
			fmt.Fprintln(os.Stderr, "encode:", err)
			os.Exit(2)
		}
	}
	sc := bufio.NewScanner(in)
	sc.Buffer(make([]byte, 1<<20), 1<<28)
	n := 0
	for sc.Scan() {
		line := sc.Bytes()
		if len(line) == 0 {
			continue
		}
		var c Case
		if err := json.Unmarshal(line, &c); err != nil {
			fmt.Fprintln(os.Stderr, "bad case line:", err)
			os.Exit(2)
		}
		ex(c, emit)
		n++
	}
	if err := sc.Err(); err != nil {
		fmt.Fprintln(os.Stderr, err)
		os.Exit(2)
	}
	if err := w.Flush(); err != nil {
		fmt.Fprintln(os.Stderr, err)
		os.Exit(2)
	}
	if err := out.Close(); err != nil {
		fmt.Fprintln(os.Stderr, err)
		os.Exit(2)
	}
	fmt.Fprintf(os.Stderr, "wzh: %d cases executed\n", n)
}

// guard runs f and converts a panic into ret "panic".
func guard(f func() string) (ret string, pmsg string) {
	defer func() {
		if r := recover(); r != nil {
			ret = "panic"
			pmsg = fmt.Sprint(r)
		}
	}()
	return f(), ""
}

func boolRet(b bool) string {
	if b {
		return "true"
	}
	return "false"
}

func errRet(err error) string {
	if err != nil {
		return "err"
	}
	return "ok"
}
