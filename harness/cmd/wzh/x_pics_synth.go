package main

// Synthesis of foreign packages for spec module Pics: the abstract shape carried by the
// OpenForeign operation (media parts, relationships of the main part, picture skeleton of the
// body) is written out as a minimal, valid .docx. Nothing here comes from the library.

import (
	"archive/zip"
	"bytes"
	"fmt"
	"hash/crc32"
	"os"
	"path"
	"path/filepath"
	"strings"
)

const picNsDecl = `xmlns:w="http://schemas.openxmlformats.org/wordprocessingml/2006/main" ` +
	`xmlns:r="http://schemas.openxmlformats.org/officeDocument/2006/relationships" ` +
	`xmlns:wp="http://schemas.openxmlformats.org/drawingml/2006/wordprocessingDrawing" ` +
	`xmlns:a="http://schemas.openxmlformats.org/drawingml/2006/main" ` +
	`xmlns:pic="http://schemas.openxmlformats.org/drawingml/2006/picture"`

func picRelType(kind string) string {
	return "http://schemas.openxmlformats.org/officeDocument/2006/relationships/" + kind
}

// the spec writes non-ASCII names as "cjk"; the package carries real non-ASCII characters
func picConcreteName(n string) string { return strings.ReplaceAll(n, "cjk", "图片") }

func picDrawingXML(el map[string]interface{}, n int) string {
	cx, cy := picInt(el, "cx"), picInt(el, "cy")
	return fmt.Sprintf(`<w:p><w:r><w:drawing><wp:inline distT="0" distB="0" distL="0" distR="0">`+
		`<wp:extent cx="%d" cy="%d"/><wp:docPr id="%d" name="Picture %d"/>`+
		`<a:graphic><a:graphicData uri="http://schemas.openxmlformats.org/drawingml/2006/picture">`+
		`<pic:pic><pic:nvPicPr><pic:cNvPr id="%d" name="Picture %d"/><pic:cNvPicPr/></pic:nvPicPr>`+
		`<pic:blipFill><a:blip r:embed="%s"/><a:stretch><a:fillRect/></a:stretch></pic:blipFill>`+
		`<pic:spPr><a:xfrm><a:off x="0" y="0"/><a:ext cx="%d" cy="%d"/></a:xfrm>`+
		`<a:prstGeom prst="rect"><a:avLst/></a:prstGeom></pic:spPr></pic:pic>`+
		`</a:graphicData></a:graphic></wp:inline></w:drawing></w:r></w:p>`,
		cx, cy, n, n, n, n, picEsc(picStr(el, "embed")), cx, cy)
}

func (c *picCtx) synth(shape map[string]interface{}) []byte {
	var buf bytes.Buffer
	zw := zip.NewWriter(&buf)
	add := func(name string, data []byte) {
		w, err := zw.Create(name)
		if err == nil {
			_, err = w.Write(data)
		}
		if err != nil {
			fmt.Fprintln(os.Stderr, "pics: synth:", err)
			os.Exit(2)
		}
	}
	// content types: defaults for the usual extensions, an override for every extension-less media part
	var ct strings.Builder
	ct.WriteString(`<?xml version="1.0" encoding="UTF-8" standalone="yes"?>` + "\n" +
		`<Types xmlns="http://schemas.openxmlformats.org/package/2006/content-types">` +
		`<Default Extension="rels" ContentType="application/vnd.openxmlformats-package.relationships+xml"/>` +
		`<Default Extension="xml" ContentType="application/xml"/>` +
		`<Default Extension="png" ContentType="image/png"/><Default Extension="PNG" ContentType="image/png"/>` +
		`<Default Extension="jpg" ContentType="image/jpeg"/><Default Extension="jpeg" ContentType="image/jpeg"/>` +
		`<Default Extension="gif" ContentType="image/gif"/>` +
		`<Override PartName="/word/document.xml" ContentType="application/vnd.openxmlformats-officedocument.wordprocessingml.document.main+xml"/>` +
		`<Override PartName="/word/styles.xml" ContentType="application/vnd.openxmlformats-officedocument.wordprocessingml.styles+xml"/>`)
	media := picList(shape["media"])
	for _, m := range media {
		mm := picMap(m)
		name := picConcreteName(picStr(mm, "name"))
		if path.Ext(name) == "" {
			fmt.Fprintf(&ct, `<Override PartName="/%s" ContentType="image/%s"/>`, picEsc(name), picStr(picMap(mm["img"]), "f"))
		}
	}
	ct.WriteString(`</Types>`)
	add("[Content_Types].xml", []byte(ct.String()))
	add("_rels/.rels", []byte(`<?xml version="1.0" encoding="UTF-8" standalone="yes"?>`+"\n"+
		`<Relationships xmlns="http://schemas.openxmlformats.org/package/2006/relationships">`+
		`<Relationship Id="rId1" Type="http://schemas.openxmlformats.org/officeDocument/2006/relationships/officeDocument" Target="word/document.xml"/>`+
		`</Relationships>`))
	// relationships of the main part
	var rl strings.Builder
	rl.WriteString(`<?xml version="1.0" encoding="UTF-8" standalone="yes"?>` + "\n" +
		`<Relationships xmlns="http://schemas.openxmlformats.org/package/2006/relationships">`)
	for _, r := range picList(shape["rels"]) {
		rr := picMap(r)
		tgt := picConcreteName(picStr(rr, "tgt"))
		switch {
		case picBool(rr, "abs"):
			tgt = "/" + tgt
		case strings.HasPrefix(tgt, "word/"):
			tgt = strings.TrimPrefix(tgt, "word/")
		default:
			tgt = "../" + tgt
		}
		fmt.Fprintf(&rl, `<Relationship Id="%s" Type="%s" Target="%s"/>`, picEsc(picStr(rr, "id")), picRelType(picStr(rr, "kind")), picEsc(tgt))
	}
	rl.WriteString(`</Relationships>`)
	add("word/_rels/document.xml.rels", []byte(rl.String()))
	// main part
	var doc strings.Builder
	doc.WriteString(`<?xml version="1.0" encoding="UTF-8" standalone="yes"?>` + "\n" + `<w:document ` + picNsDecl + `><w:body>`)
	doc.WriteString(`<w:p><w:r><w:t>foreign</w:t></w:r></w:p>`)
	for i, e := range picList(shape["body"]) {
		el := picMap(e)
		if picStr(el, "k") == "pic" {
			doc.WriteString(picDrawingXML(el, 100+i))
		}
	}
	doc.WriteString(`<w:sectPr><w:pgSz w:w="11906" w:h="16838"/></w:sectPr></w:body></w:document>`)
	add("word/document.xml", []byte(doc.String()))
	add("word/styles.xml", []byte(`<?xml version="1.0" encoding="UTF-8" standalone="yes"?>`+"\n"+
		`<w:styles xmlns:w="http://schemas.openxmlformats.org/wordprocessingml/2006/main">`+
		`<w:style w:type="paragraph" w:default="1" w:styleId="Normal"><w:name w:val="Normal"/></w:style></w:styles>`))
	for _, m := range media {
		mm := picMap(m)
		add(picConcreteName(picStr(mm, "name")), c.picBytes(picMap(mm["img"])))
	}
	if err := zw.Close(); err != nil {
		fmt.Fprintln(os.Stderr, "pics: synth:", err)
		os.Exit(2)
	}
	return buf.Bytes()
}

func picEsc(s string) string {
	return strings.NewReplacer("&", "&amp;", "<", "&lt;", ">", "&gt;", `"`, "&quot;").Replace(s)
}

// ---- the caller's files (path slots of the specification) ---------------------------------

// every slot is one file; the name of the file says nothing about what it holds
var picSlotNames = map[string]string{"pa": "chart.png", "pb": "スキャン"}

func (c *picCtx) slotFile(slot string) string {
	name := picSlotNames[slot]
	if name == "" {
		name = slot
	}
	return filepath.Join(c.dir, "own", slot, name)
}

// slotPath spells the path of a slot in one of several equivalent ways.
func (c *picCtx) slotPath(slot string, i int) string {
	p := c.slotFile(slot)
	dir, name := filepath.Dir(p), filepath.Base(p)
	switch (int(seed) + i) % 3 {
	case 1:
		return dir + string(filepath.Separator) + "." + string(filepath.Separator) + name
	case 2:
		os.MkdirAll(filepath.Join(dir, "x"), 0o755)
		return dir + string(filepath.Separator) + "x" + string(filepath.Separator) + ".." + string(filepath.Separator) + name
	}
	return p
}

// slotWrite replaces the content of a slot's file: in place, or by renaming a new file over it.
func (c *picCtx) slotWrite(slot string, data []byte, i int) string {
	p := c.slotFile(slot)
	if err := os.MkdirAll(filepath.Dir(p), 0o755); err != nil {
		return "err"
	}
	if (int(seed)+i)%2 == 0 {
		if err := os.WriteFile(p, data, 0o644); err != nil {
			return "err"
		}
		return "ok"
	}
	tmp := p + ".tmp"
	if err := os.WriteFile(tmp, data, 0o644); err != nil {
		return "err"
	}
	if err := os.Rename(tmp, p); err != nil {
		return "err"
	}
	return "ok"
}

// ---- encoded length classes ------------------------------------------------------------------

// picFill gives n bytes that differ from image to image and from block to block and deflate quickly.
func picFill(n, tok int) []byte {
	b := make([]byte, n)
	for i := 0; i < n; i += 4096 {
		k := i/4096*7 + tok
		for j := 0; j < 4 && i+j < n; j++ {
			b[i+j] = byte(k >> (8 * j))
		}
	}
	if n > 0 {
		b[n-1] = byte(tok) | 1
	}
	return b
}

// picPad brings a valid image file to exactly n bytes with data every decoder skips: an ancillary
// chunk before IEND (PNG), comment segments after SOI (JPEG), a comment extension before the trailer (GIF).
func picPad(b []byte, f string, n, tok int) []byte {
	extra := n - len(b)
	switch f {
	case "jpeg":
		if extra < 4 || len(b) < 2 {
			return b
		}
		out := append(make([]byte, 0, n), b[:2]...)
		for extra > 0 {
			s := extra
			if s > 65537 {
				s = 65537
			}
			if r := extra - s; r > 0 && r < 4 {
				s -= 4
			}
			out = append(out, 0xFF, 0xFE, byte((s-2)>>8), byte(s-2))
			out = append(out, picFill(s-4, tok)...)
			extra -= s
		}
		return append(out, b[2:]...)
	case "gif":
		if extra < 5 || len(b) < 1 || b[len(b)-1] != 0x3B {
			return b
		}
		out := append(make([]byte, 0, n), b[:len(b)-1]...)
		out = append(out, 0x21, 0xFE)
		extra -= 3 // introducer, label, block terminator
		for extra > 0 {
			s := extra
			if s > 256 {
				s = 256
			}
			if extra-s == 1 {
				s--
			}
			out = append(out, byte(s-1))
			out = append(out, picFill(s-1, tok)...)
			extra -= s
		}
		return append(out, 0x00, 0x3B)
	}
	if extra < 12 || len(b) < 12 {
		return b
	}
	iend := len(b) - 12
	data := picFill(extra-12, tok)
	chunk := make([]byte, 0, extra)
	chunk = append(chunk, byte(len(data)>>24), byte(len(data)>>16), byte(len(data)>>8), byte(len(data)))
	chunk = append(chunk, 'p', 'r', 'V', 't')
	chunk = append(chunk, data...)
	crc := crc32.ChecksumIEEE(chunk[4:])
	chunk = append(chunk, byte(crc>>24), byte(crc>>16), byte(crc>>8), byte(crc))
	out := append(make([]byte, 0, n), b[:iend]...)
	out = append(out, chunk...)
	return append(out, b[iend:]...)
}
