package main

// Executor for spec module Body (property C08).

import (
	"encoding/xml"
	"fmt"
	"reflect"

	"github.com/zerx-lab/wordZero/pkg/document"
)

func init() { register("body", runBody) }

type bodyCtx struct {
	doc     *document.Document
	other   *document.Document // source of "foreign" paragraph handles
	uid     map[interface{}]int
	byUID   map[int]*document.Paragraph
	next    int
	sameCfg *document.ImageConfig // config object shared by the AddImage(same) calls of the behaviour
}

func kindOf(el interface{}) string {
	switch el.(type) {
	case *document.Paragraph:
		return "p"
	case *document.Table:
		return "tbl"
	case *document.SectionProperties:
		return "sect"
	case *document.BookmarkStart:
		return "bms"
	case *document.BookmarkEnd:
		return "bme"
	case *document.SDT:
		return "sdt"
	case *document.MathParagraph:
		return "math"
	}
	return "?" + reflect.TypeOf(el).String()
}

// textOfElement renders an in-memory element to XML and extracts its identifying text.
func textOfElement(el interface{}) string {
	if b, ok := el.(*document.BookmarkStart); ok {
		return b.Name
	}
	if _, ok := el.(*document.BookmarkEnd); ok {
		return ""
	}
	if _, ok := el.(*document.SectionProperties); ok {
		return ""
	}
	data, err := xml.Marshal(el)
	if err != nil {
		return "!marshal"
	}
	n, err := ParseXML(data)
	if err != nil {
		return "!parse"
	}
	return n.WText()
}

func (c *bodyCtx) mem() []map[string]interface{} {
	out := []map[string]interface{}{}
	for _, el := range c.doc.Body.Elements {
		u, ok := c.uid[el]
		if !ok {
			u = c.next
			c.next++
			c.uid[el] = u
			if p, ok := el.(*document.Paragraph); ok {
				c.byUID[u] = p
			}
		}
		out = append(out, map[string]interface{}{"u": u, "k": kindOf(el), "t": textOfElement(el)})
	}
	return out
}

func savedKind(n *Node) string {
	switch n.Local {
	case "MathParagraph":
		// as built, a formula paragraph is written under its Go type name; C08 is about
		// order and identity, so both spellings project to the same abstract kind
		return "math"
	case "p":
		if n.Child("oMath") != nil || n.Child("oMathPara") != nil {
			return "math"
		}
		return "p"
	case "tbl":
		return "tbl"
	case "sectPr":
		return "sect"
	case "bookmarkStart":
		return "bms"
	case "bookmarkEnd":
		return "bme"
	case "sdt":
		return "sdt"
	}
	return "?" + n.Local
}

func savedBody(b []byte) ([]map[string]interface{}, string) {
	out := []map[string]interface{}{}
	p := ReadPkg(b)
	if p.ZipErr != "" {
		return out, "zip"
	}
	body, err := p.MainBody()
	if err != nil {
		return out, "xml"
	}
	for _, k := range body.Kids {
		t := ""
		switch k.Local {
		case "bookmarkStart":
			t = k.A("name")
		case "bookmarkEnd", "sectPr":
		default:
			t = k.WText()
		}
		out = append(out, map[string]interface{}{"k": savedKind(k), "t": t})
	}
	return out, "ok"
}

func runBody(c Case, emit Emitter) {
	document.VerifResetGlobals()
	ctx := &bodyCtx{doc: document.New(), other: document.New(), uid: map[interface{}]int{}, byUID: map[int]*document.Paragraph{}, next: 1}
	// the foreign handle carries the same text as this document's first element, and every fourth
	// element repeats that text, so that removal by structural equality instead of identity shows
	foreign := ctx.other.AddParagraph("T0")
	emit(Ev{"ev": "reset", "case": c.ID})
	for i, op := range c.Steps {
		tok := fmt.Sprintf("T%d", i)
		if i%4 == 3 {
			tok = "T0"
		}
		// text class of the constructors that take a text ("empty": the empty string)
		if op.Str("txt") == "empty" {
			tok = ""
		}
		d := ctx.doc
		read := []int{}
		ret, pmsg := guard(func() string {
			switch op.Name() {
			case "Read":
				// the accessor pair: uids of what it returns (an element the body does not hold has uid -1)
				uidOf := func(el interface{}) int {
					if u, ok := ctx.uid[el]; ok {
						return u
					}
					return -1
				}
				if op.Str("what") == "tables" {
					for _, t := range d.Body.GetTables() {
						read = append(read, uidOf(t))
					}
				} else {
					for _, p := range d.Body.GetParagraphs() {
						read = append(read, uidOf(p))
					}
				}
			case "AddElement":
				if op.Str("k") == "tbl" {
					t, err := d.CreateTable(&document.TableConfig{Rows: 1, Cols: 2, Width: 3000})
					if err != nil {
						return "err"
					}
					t.SetCellText(0, 0, tok)
					d.Body.AddElement(t)
				} else {
					d.Body.AddElement(&document.Paragraph{Runs: []document.Run{{Text: document.Text{Content: tok}}}})
				}
			case "AddParagraph":
				d.AddParagraph(tok)
			case "AddFormattedParagraph":
				d.AddFormattedParagraph(tok, &document.TextFormat{Bold: true, FontSize: 14})
			case "AddHeadingParagraph":
				d.AddHeadingParagraph(tok, 1+i%9)
			case "AddHeadingParagraphWithBookmark":
				d.AddHeadingParagraphWithBookmark(tok, 1+i%3, "bm_"+tok)
			case "AddHeadingWithBookmark":
				d.AddHeadingWithBookmark(tok, 2, "hb_"+tok)
			case "AddPageBreak":
				d.AddPageBreak()
			case "AddTable":
				t, err := d.AddTable(&document.TableConfig{Rows: 2, Cols: 2, Width: 4000})
				if err != nil {
					return "err"
				}
				t.SetCellText(0, 0, tok)
			case "AddImage":
				if op.Bool("same") {
					// the same bytes, format and config object as every other such call of the behaviour
					if ctx.sameCfg == nil {
						ctx.sameCfg = &document.ImageConfig{Size: &document.ImageSize{Width: 20, Height: 10}, AltText: "same"}
					}
					if _, err := d.AddImageFromData(tinyPNG(7), "same.png", document.ImageFormatPNG, 2, 2, ctx.sameCfg); err != nil {
						return "err"
					}
					break
				}
				if _, err := d.AddImageFromData(tinyPNG(i), tok+".png", document.ImageFormatPNG, 2, 2, nil); err != nil {
					return "err"
				}
			case "CreateMultiLevelList":
				var items []document.ListItem
				for k := 1; k <= op.Int("n"); k++ {
					txt := fmt.Sprintf("%s.%d", tok, k)
					if k == op.Int("blank") {
						txt = []string{"", " ", "\t"}[i%3]
					}
					items = append(items, document.ListItem{Text: txt, Level: k % 2, Type: document.ListTypeNumber})
				}
				if err := d.CreateMultiLevelList(items); err != nil {
					return "err"
				}
			case "AddListItem":
				d.AddListItem(tok, nil)
			case "AddFootnote":
				if err := d.AddFootnote(tok, "note "+tok); err != nil {
					return "err"
				}
			case "AddEndnote":
				if err := d.AddEndnote(tok, "note "+tok); err != nil {
					return "err"
				}
			case "AddMathFormula":
				d.AddMathFormula("<m:r><m:t>"+tok+"</m:t></m:r>", i%2 == 0)
			case "GenerateTOC":
				cfg := document.DefaultTOCConfig()
				cfg.Title = tok
				if err := d.GenerateTOC(cfg); err != nil {
					return "err"
				}
			case "SetPageMargins":
				return errRet(d.SetPageMargins(20, 20, 20, 20))
			case "SetPageSize":
				return errRet(d.SetPageSize(document.PageSizeLetter))
			case "SetPageOrientation":
				return errRet(d.SetPageOrientation(document.OrientationLandscape))
			case "GetPageSettings":
				d.GetPageSettings()
			case "SetDocGrid":
				return errRet(d.SetDocGrid(document.DocGridLines, 312, 0))
			case "ClearDocGrid":
				return errRet(d.ClearDocGrid())
			case "AddHeader":
				return errRet(d.AddHeader(document.HeaderFooterTypeDefault, "H"+tok))
			case "AddFooter":
				return errRet(d.AddFooter(document.HeaderFooterTypeDefault, "F"+tok))
			case "AddHeaderWithPageNumber":
				return errRet(d.AddHeaderWithPageNumber(document.HeaderFooterTypeFirst, "H"+tok, true))
			case "AddFooterWithPageNumber":
				return errRet(d.AddFooterWithPageNumber(document.HeaderFooterTypeEven, "F"+tok, true))
			case "SetDifferentFirstPage":
				d.SetDifferentFirstPage(true)
			case "RemoveParagraph":
				h := op.Int("h")
				p := foreign
				if h != 0 {
					p = ctx.byUID[h]
					if p == nil {
						// uid of a non-paragraph element: no *Paragraph handle exists for it;
						// a fresh unattached paragraph is the closest a caller can pass
						p = &document.Paragraph{}
					}
				}
				return boolRet(d.RemoveParagraph(p))
			case "RemoveParagraphAt":
				return boolRet(d.RemoveParagraphAt(op.Int("i")))
			case "RemoveElementAt":
				return boolRet(d.RemoveElementAt(op.Int("i")))
			default:
				return "unknown-op"
			}
			return "ok"
		})
		ev := Ev{"ev": "step", "case": c.ID, "i": i, "op": op, "ret": ret, "pmsg": pmsg}
		ev["mem"] = ctx.mem()
		ev["read"] = read
		var saved []map[string]interface{}
		sret, _ := guard(func() string {
			b, err := d.ToBytes()
			if err != nil {
				return "err"
			}
			var r string
			saved, r = savedBody(b)
			return r
		})
		if saved == nil {
			saved = []map[string]interface{}{}
		}
		ev["saved"] = saved
		ev["saveret"] = sret
		emit(ev)
	}
}
