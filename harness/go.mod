module verif/harness

go 1.19

require (
	github.com/litao91/goldmark-mathjax v0.0.0-20210217064022-a43cf739a50f
	github.com/yuin/goldmark v1.7.8
	github.com/zerx-lab/wordZero v0.0.0
)

replace github.com/zerx-lab/wordZero => /repo
