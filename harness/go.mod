module verif/harness

go 1.19

require github.com/zerx-lab/wordZero v0.0.0

replace github.com/zerx-lab/wordZero => /repo
