#!/bin/bash
# bencheck.sh <BENn> <k> [check-id ...]
# False-alarm test: applies a BENIGN change produced by an independent sub-agent (/tmp/advout-<BENn>/<k>/patch.diff:
# compiles, repository suite passes, every property still holds, but an implementation choice the properties leave
# open is altered) to the scratch worktree /tmp/adv-<BENn> (never /repo) and runs the quick tier of the named checks
# (default: all registered ones) against it. Any VIOLATION is a false alarm of the machinery (or shows that the change
# is not benign after all - decided by hand). Keeps the change and the verdicts under benign/<BENn>-<k>/.
set -u
export GOFLAGS=-mod=mod GOPROXY=off GOSUMDB=off GOTOOLCHAIN=local
V=$(cd "$(dirname "$0")" && pwd)
b=$1; k=$2; shift 2
src=/tmp/advout-$b/$k; wt=/tmp/adv-$b
[ -f "$src/patch.diff" ] || src=$V/benign/$b-$k
[ -f "$src/patch.diff" ] || { echo "no patch for $b $k"; exit 2; }
[ -d "$wt" ] || git -C /repo worktree add -q --detach $wt HEAD
checks=${*:-$(python3 -c "import json;print(' '.join(c['property_id'] for c in json.load(open('$V/MANIFEST.json'))['checks']))")}
git -C $wt checkout -q -- . ; git -C $wt clean -qfd
# the scratch worktree follows /repo HEAD (fix: commits made since it was created)
git -C $wt checkout -q --detach $(git -C /repo rev-parse HEAD)
git -C $wt apply $src/patch.diff || { echo "patch does not apply"; exit 2; }
suite=$(cd $wt && go build ./pkg/... && go build -tags verif ./pkg/... && go test -vet=off -count=1 ./pkg/... ./test/... 2>&1 | grep -v 'no test files' | tr '\n' ';')
echo "patched suite: $suite"
case "$suite" in *FAIL*|"") echo "NOT USABLE (suite fails or does not build): $b-$k"; git -C $wt checkout -q -- . ; git -C $wt clean -qfd; exit 1;; esac
res=""
for c in $checks; do
  (cd $V && WZ_REPO=$wt timeout 1500 ./check $c --tier quick >/tmp/bencheck.$$.out 2>/tmp/bencheck.$$.err); rc=$?
  v=$(grep -c '^VIOLATION' /tmp/bencheck.$$.out)
  echo "check $c quick: rc=$rc violations=$v"; grep '^VIOLATION' /tmp/bencheck.$$.out | sed 's/replay=[^ ]* //' | sort -u | head -6
  [ $rc -ge 2 ] && { tail -3 /tmp/bencheck.$$.err; v=machinery-rc$rc; }
  res="$res$c:$v "
  rm -f /tmp/bencheck.$$.out /tmp/bencheck.$$.err
done
git -C $wt checkout -q -- . ; git -C $wt clean -qfd
d=$V/benign/$b-$k; mkdir -p $d; [ "$src" = "$d" ] || cp $src/patch.diff $src/meta.json $d/
python3 - "$d/meta.json" "$suite" "$res" <<'PY'
import json,sys
m=json.load(open(sys.argv[1]))
m["suite_with_patch"]=sys.argv[2]
m["checks_run"]=sys.argv[3].split()
m["alarms"]=[x for x in m["checks_run"] if x.split(":")[1] not in ("0",)]
json.dump(m,open(sys.argv[1],"w"),indent=1,ensure_ascii=False)
PY
echo "kept benign/$b-$k: $res"
