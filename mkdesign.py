#!/usr/bin/env python3
"""mkdesign.py — regenerates the machine-derived tables of DESIGN.md (between the GENERATED markers):
§10 defects (fix: commits of /repo with the findings they closed; open known findings per property),
§12 seeded changes (seeded/*/meta.json) and mutants (mutants/*.diff) with the check that catches each.
Hand-written text outside the markers is left alone."""
import json, glob, os, re, subprocess, collections
V = os.path.dirname(os.path.abspath(__file__))
REPO = "/repo"


def sh(*a):
    return subprocess.run(a, capture_output=True, text=True).stdout


def findings():
    out = []
    for p in sorted(glob.glob(os.path.join(V, "known_findings.d", "*.json"))):
        out.extend(json.load(open(p)).get("findings", []))
    return out


def sec10():
    F = findings()
    by_commit = collections.defaultdict(list)
    for f in F:
        if f.get("status") == "fixed":
            by_commit[f.get("commit", "?")[:7]].append(f)
    L = ["### 10.1 Repaired (`fix:` commits in /repo, oldest first)", "",
         "| commit | what was wrong (commit subject) | property | witness signatures that reported it (now silent) |", "|---|---|---|---|"]
    log = sh("git", "-C", REPO, "log", "--reverse", "--format=%h\t%s").splitlines()
    for l in log:
        h, s = l.split("\t", 1)
        if not s.startswith("fix:"):
            continue
        fs = by_commit.get(h[:7], [])
        props = sorted({f["property"] for f in fs}) or ["(found by probes / builders before the check existed)"]
        sigs = "; ".join("`%s`" % " ".join(f["signature"][1:]) for f in fs[:4]) + (" … (%d)" % len(fs) if len(fs) > 4 else "")
        L.append("| %s | %s | %s | %s |" % (h, s[5:], ", ".join(props), sigs or "–"))
    L += ["", "### 10.2 Recorded, not repaired (open known findings; full list with reproductions in `known_findings.d/`)", "",
          "| property | open | root causes (first line of each distinct description) |", "|---|---|---|"]
    byp = collections.defaultdict(list)
    for f in F:
        if f.get("status", "open") == "open":
            byp[f["property"]].append(f)
    for p in sorted(byp):
        whats = []
        for f in byp[p]:
            w = re.sub(r"\s+", " ", f["what"])[:150]
            if w not in whats:
                whats.append(w)
        L.append("| %s | %d | %s |" % (p, len(byp[p]), "<br>".join(whats[:12]) + (" …" if len(whats) > 12 else "")))
    return "\n".join(L)


def sec12():
    L = ["### 12.1 Changes seeded by independent sub-agents (`seeded/<id>/`: patch.diff, demo_test.go, meta.json)", "",
         "| id | property | what the change does | needs | detected by |", "|---|---|---|---|---|"]
    for d in sorted(glob.glob(os.path.join(V, "seeded", "*"))):
        mp = os.path.join(d, "meta.json")
        if not os.path.exists(mp):
            continue
        m = json.load(open(mp))
        det = ", ".join(m.get("checks_run", [])) or "?"
        L.append("| %s | %s | %s | %s | %s |" % (os.path.basename(d), m.get("property"), re.sub(r"\s+", " ", m.get("summary", ""))[:260],
                                               re.sub(r"\s+", " ", m.get("needs", ""))[:200], ("**missed** " if not m.get("detected") else "") + det))
    L += ["", "### 12.2 Mutants written by the module builders (`mutants/*.diff`, first line = witness that catches it)", "",
          "| mutant | caught by |", "|---|---|"]
    res = {}
    rp = os.path.join(V, "mutants", "RESULTS.json")
    if os.path.exists(rp):
        res = json.load(open(rp))
    for p in sorted(glob.glob(os.path.join(V, "mutants", "*.diff"))):
        first = open(p).readline().strip()
        n = os.path.basename(p)
        r = res.get(n)
        extra = (" — re-validated on the current tree: %s" % r) if r else ""
        L.append("| %s | %s%s |" % (n, first.replace("# caught-by:", "").strip()[:200], extra))
    return "\n".join(L)


def sec9():
    import importlib.util
    L = ["| property | module | what the check does (from `props/<id>.py`) | last run in /verif (tier: TLC states / behaviours replayed on the library / wall s) |", "|---|---|---|---|"]
    for path in sorted(glob.glob(os.path.join(V, "props", "C*.py"))):
        pid = os.path.basename(path)[:-3]
        sp = importlib.util.spec_from_file_location("p_" + pid, path)
        mod = importlib.util.module_from_spec(sp)
        sp.loader.exec_module(mod)
        M = getattr(mod, "MANIFEST", None)
        if not M:
            continue
        ev = ""
        ep = os.path.join(V, "evidence", pid + ".json")
        if os.path.exists(ep):
            e = json.load(open(ep))
            c = e.get("coverage", {})
            ev = "%s: %s / %s / %s" % (e.get("tier"), c.get("states"), c.get("traces_validated_against_impl"), e.get("wall_s"))
        L.append("| %s | `%s` | %s | %s |" % (pid, M["module"], re.sub(r"\s+", " ", M["text"]), ev))
    return "\n".join(L)


def main():
    p = os.path.join(V, "DESIGN.md")
    s = open(p).read()
    for tag, fn in (("SEC9", sec9), ("SEC10", sec10), ("SEC12", sec12)):
        a, b = "<!-- GENERATED:%s -->" % tag, "<!-- /GENERATED:%s -->" % tag
        if a in s and b in s:
            s = s[:s.index(a) + len(a)] + "\n" + fn() + "\n" + s[s.index(b):]
    open(p, "w").write(s)


if __name__ == "__main__":
    main()
