#!/usr/bin/env python3
"""advprompt.py <Cnn> [n] — prints the prompt given to an independent sub-agent that seeds a
property-breaking change (the agent sees only the property text and its own scratch worktree)."""
import json, sys, os
V = os.path.dirname(os.path.abspath(__file__))
pid = sys.argv[1]
n = int(sys.argv[2]) if len(sys.argv) > 2 else 3
wt = sys.argv[3] if len(sys.argv) > 3 else "/tmp/adv-" + pid
p = [json.loads(l) for l in open(os.path.join(V, "properties.jsonl")) if json.loads(l)["id"] == pid][0]
# second and later rounds: number the changes from START and tell the agent which mechanisms were already used
# (summaries of earlier seeded changes only - nothing about the checks)
start = int(os.environ.get("ADV_START", "1"))
avoid = ""
if start > 1:
    import glob
    prev = []
    for d in sorted(glob.glob(os.path.join(V, "seeded", pid + "-*"))):
        try:
            prev.append("  - " + " ".join(json.load(open(os.path.join(d, "meta.json"))).get("summary", "").split())[:300])
        except Exception:
            pass
    if prev:
        avoid = ("\nEarlier rounds already produced the following changes for this property; yours must differ from ALL of them in mechanism, "
                 "in the code they touch and in what is needed to trigger them (look for other functions, other argument classes, other call "
                 "orders, other entry points):\n" + "\n".join(prev) + "\n")
print(f"""You are testing how well a Go library's behaviour is pinned down. The library is zerx-lab/wordZero (pure-Go .docx library). You have your own scratch git worktree of it at {wt} (detached HEAD). Work ONLY inside {wt} (and /tmp/advout-{pid} for your output); do not read or touch /verif, /repo or any other directory under /tmp. No network. Never use `git stash` (the stash is shared with other people's worktrees of the same repository) — use `git diff > file`, `git apply`, `git apply -R`, `git checkout -- .` only. Every shell: `export GOFLAGS=-mod=mod GOPROXY=off GOSUMDB=off GOTOOLCHAIN=local`. The repository's test suite is run with: `cd {wt} && go test -vet=off -count=1 ./pkg/... ./test/...` (all tests pass on the unchanged tree; `./...` is not usable because an unrelated example does not build).

Here is a semantic property that the library is supposed to satisfy:

  id: {p['id']}
  title: {p['title']}
  statement: {p['statement']}
  quantified over: {p['quantifier']['text']}
  why the existing tests cannot settle it: {p['why_tests_cant']}
  code anchors: {json.dumps(p['anchors'], ensure_ascii=False)}

Your job: produce {n} DIFFERENT, independent source changes to the library (each a separate patch against the unchanged tree, each touching non-test .go files under pkg/ only) such that, for each change:
  1. the library still compiles and the whole existing test suite (command above) still passes, unedited;
  2. the change makes the library VIOLATE the property above — genuinely, as a user of the public API would observe it (through return values, accessors, or the bytes of a saved document);
  3. the violation needs something specific to manifest — a particular multi-step sequence of operations, an unusual argument or input, a particular interleaving, a fault at a particular point, or two cooperating sites that each look fine alone — NOT something ordinary use would expose at once. Think of realistic regressions: an off-by-one in an index conversion, a refactoring that handles the common case and forgets an edge, a cache key missing a field, a "cleanup" that reorders two steps, an optimisation that skips work in a state where it is still needed.
  4. the changes differ from each other in mechanism and in what is needed to trigger them (do not produce three variants of the same edit).
The unchanged tree may already violate the property in some ways; your change must introduce a NEW violation (your demonstration must pass on the unchanged tree).

{avoid}
For each change k = {start}..{start + n - 1} write into /tmp/advout-{pid}/k/:
  - patch.diff   : `git diff` of the change against the unchanged tree (apply-able with `git apply`);
  - demo_test.go : a Go test file (package placed so that it can be copied into {wt}/test/ or {wt}/pkg/document/ — say which in meta.json) with ONE test that FAILS with the change applied and PASSES on the unchanged tree, demonstrating the violation through the public API only;
  - meta.json    : {{"property": "{p['id']}", "summary": "<what the change does>", "needs": "<what specific sequence/input/interleaving is needed to manifest>", "demo_dir": "<test|pkg/document|pkg/style|pkg/markdown>", "demo_cmd": "<exact go test command>"}}.
Verify all of it yourself: with the patch applied — suite passes, demo fails; without it — demo passes. Then restore the worktree to the unchanged tree (`git -C {wt} checkout -- . && git -C {wt} clean -fd`). Your final message: one paragraph per change (summary, needs, and the verification output lines you observed).""")
